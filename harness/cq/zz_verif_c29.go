//go:build verif

package main

import (
	"context"
	"encoding/json"
	"fmt"
	"os"
	"sort"
	"strings"
	"time"

	"github.com/basekick-labs/arc/internal/simrt"
	"github.com/basekick-labs/arc/internal/verifsim/simkit"
)

// Op is one step of the driver. Ops run one after the other on the driver
// task; "exec" with Async runs the HTTP request on its own task so that it
// overlaps whatever comes next (scheduler ticks, other manual executions).
type Op struct {
	Kind string `json:"kind"` // sleep | tick | write | flush | exec | update | reload | restart | crash | outage | wallstep
	Ms   int64  `json:"ms,omitempty"`
	// write: one source row per entry, timestamp = now - AgeMs[i]
	AgeMs []int64 `json:"age_ms,omitempty"`
	// exec
	Async    bool   `json:"async,omitempty"`
	Dry      bool   `json:"dry,omitempty"`
	StartAgo *int64 `json:"start_ago_s,omitempty"` // explicit start_time = now - N s
	EndAgo   *int64 `json:"end_ago_s,omitempty"`   // explicit end_time = now - N s (negative: in the future)
	// update
	Query     string `json:"query,omitempty"` // count | grouped | bad
	IntervalS int    `json:"interval_s,omitempty"`
	Inactive  bool   `json:"inactive,omitempty"`
	// crash: lands K node steps after the op starts (0 = right now)
	K int `json:"k,omitempty"`
}

type C29Plan struct {
	Knobs     Knobs  `json:"knobs"`
	Query     string `json:"query"`
	IntervalS int    `json:"interval_s"`
	Seed      bool   `json:"seed_source"` // source rows written and flushed before the CQ is created
	Ops       []Op   `json:"ops"`
}

func i64(v int64) *int64 { return &v }

func genC29(r *simrt.Rand, tier string) any {
	p := &C29Plan{
		Knobs: Knobs{
			MaxBufferSize:    []int{1, 2, 4, 16, 1000}[r.Intn(5)],
			MaxBufferAgeMS:   []int{200, 1000, 5000, 30000}[r.Intn(4)],
			FlushWorkers:     1 + r.Intn(3),
			ShardCount:       []int{1, 4}[r.Intn(2)],
			FlushQueueSize:   100,
			StorageLatencyUs: []int{0, 0, 300, 5000, 200000}[r.Intn(5)],
			ExecLatencyMs:    []int{0, 0, 0, 40, 400, 1500, 4000}[r.Intn(7)],
		},
		Query:     []string{"count", "count", "grouped"}[r.Intn(3)],
		IntervalS: []int{10, 10, 15, 30}[r.Intn(4)],
		Seed:      r.Chance(80),
	}
	// swarm: each run enables a subset of the disturbing op kinds
	on := map[string]bool{}
	for _, k := range []string{"exec", "exec-explicit", "exec-async", "update", "bad", "restart", "crash", "outage", "wallstep", "inactive", "burst", "interrupt"} {
		on[k] = r.Chance(50)
	}
	if on["interrupt"] && p.Knobs.ExecLatencyMs == 0 && r.Chance(70) {
		// interrupts are about a scheduled execution that is running when its
		// job is stopped: mostly give an execution some duration
		p.Knobs.ExecLatencyMs = []int{40, 400, 1500, 4000}[r.Intn(4)]
	}
	if on["burst"] && p.Knobs.ExecLatencyMs == 0 && r.Chance(70) {
		// bursts are about executions that overlap each other: mostly give
		// an execution some duration (zero stays in: pure interleaving)
		p.Knobs.ExecLatencyMs = []int{40, 400, 1500, 4000}[r.Intn(4)]
	}
	// burst: 3-5 manual executions of the CQ issued on their own tasks within
	// about two execution durations of each other, optionally around a
	// scheduler tick, so that one execution runs while others wait for it and
	// more arrive while the queue drains.
	burst := func() {
		lat := int64(p.Knobs.ExecLatencyMs)
		if lat < 4 {
			lat = 4
		}
		if r.Chance(50) {
			// the first manual execution is issued from one duration before the
			// scheduler's tick to a quarter of a duration after it
			p.Ops = append(p.Ops, Op{Kind: "tick", Ms: r.Int63n(lat+lat/4+1) - lat})
		}
		for k := 3 + r.Intn(3); k > 0; k-- {
			op := Op{Kind: "exec", Async: true}
			if r.Chance(10) {
				op.EndAgo = i64(int64(r.Intn(40))) // default start, explicit end in the past
			}
			p.Ops = append(p.Ops, op)
			if k == 1 {
				break
			}
			var gap int64
			switch r.Intn(5) {
			case 0: // back to back
			case 1:
				gap = 1 + r.Int63n(lat/4+1)
			default:
				gap = 1 + r.Int63n(lat*3/2)
			}
			if gap > 0 {
				p.Ops = append(p.Ops, Op{Kind: "sleep", Ms: gap})
			}
		}
	}
	// interrupt: the scheduler's job of the CQ is stopped (CQ update, scheduler
	// reload, graceful shutdown) while the execution of a tick is in its
	// aggregation phase, and the schedule goes on afterwards.
	interrupt := func() {
		lat := int64(p.Knobs.ExecLatencyMs)
		if lat < 4 {
			lat = 4
		}
		if r.Chance(40) {
			// input rows for the window that is about to be processed
			op := Op{Kind: "write"}
			for k := 1 + r.Intn(3); k > 0; k-- {
				op.AgeMs = append(op.AgeMs, int64(r.Intn(8000)))
			}
			p.Ops = append(p.Ops, op)
			if r.Chance(60) {
				p.Ops = append(p.Ops, Op{Kind: "flush"})
			}
		}
		// an execution lasts between 1/2 and 3/2 of the latency
		off := 1 + r.Int63n(lat/2)
		if r.Chance(25) {
			off = r.Int63n(lat*3/2 + 1)
		}
		p.Ops = append(p.Ops, Op{Kind: "tick", Ms: off})
		switch r.Intn(4) {
		case 0, 1:
			op := Op{Kind: "update", Query: []string{"count", "grouped"}[r.Intn(2)], IntervalS: []int{10, 15, 30}[r.Intn(3)]}
			if r.Chance(50) {
				op.Query, op.IntervalS = p.Query, p.IntervalS
			}
			if on["bad"] && r.Chance(15) {
				op.Query = "bad"
			}
			if on["inactive"] && r.Chance(10) {
				op.Inactive = true
			}
			p.Ops = append(p.Ops, op)
		case 2:
			p.Ops = append(p.Ops, Op{Kind: "reload"})
		default:
			p.Ops = append(p.Ops, Op{Kind: "restart"})
		}
		// later executions
		if r.Chance(50) {
			p.Ops = append(p.Ops, Op{Kind: "tick", Ms: lat*3/2 + int64(r.Intn(2000))})
		} else {
			p.Ops = append(p.Ops, Op{Kind: "sleep", Ms: int64(11000 + r.Intn(30000))})
		}
	}
	n := 4 + r.Intn(12)
	if tier == "thorough" {
		n = 4 + r.Intn(24)
	}
	for i := 0; i < n && len(p.Ops) < 40; i++ {
		if on["burst"] && r.Chance(12) {
			burst()
			continue
		}
		if on["interrupt"] && r.Chance(12) {
			interrupt()
			continue
		}
		var op Op
		switch x := r.Intn(100); {
		case x < 22:
			op = Op{Kind: "sleep"}
			switch r.Intn(10) {
			case 0, 1, 2:
				op.Ms = int64(1 + r.Intn(2000))
			case 9:
				op.Ms = int64(40000 + r.Intn(50000))
			default:
				op.Ms = int64(3000 + r.Intn(25000))
			}
		case x < 34:
			// sleep to just around the next scheduler tick
			op = Op{Kind: "tick", Ms: int64(r.Intn(9)) - 4}
		case x < 52:
			op = Op{Kind: "write"}
			for k := 1 + r.Intn(4); k > 0; k-- {
				age := int64(r.Intn(60000))
				if r.Chance(15) {
					age = int64(r.Intn(3600000))
				}
				op.AgeMs = append(op.AgeMs, age)
			}
		case x < 60:
			op = Op{Kind: "flush"}
		case x < 80:
			if !on["exec"] {
				continue
			}
			op = Op{Kind: "exec", Async: on["exec-async"] && r.Chance(60), Dry: r.Chance(8)}
			if on["exec-explicit"] && r.Chance(45) {
				switch r.Intn(4) {
				case 0: // back-fill of an old range
					s := int64(60 + r.Intn(600))
					op.StartAgo, op.EndAgo = i64(s), i64(s-int64(1+r.Intn(int(s))))
				case 1: // explicit start only
					op.StartAgo = i64(int64(r.Intn(120)))
				case 2: // explicit end only (past or future)
					op.EndAgo = i64(int64(r.Intn(90)) - 30)
				case 3:
					s := int64(r.Intn(300))
					op.StartAgo, op.EndAgo = i64(s), i64(s-int64(r.Intn(120))-1)
				}
			}
		case x < 88:
			if !on["update"] {
				continue
			}
			op = Op{Kind: "update", Query: []string{"count", "grouped"}[r.Intn(2)], IntervalS: []int{10, 15, 30}[r.Intn(3)]}
			if on["bad"] && r.Chance(40) {
				op.Query = "bad"
			}
			if on["inactive"] && r.Chance(20) {
				op.Inactive = true
			}
			if r.Chance(20) {
				op = Op{Kind: "reload"}
			}
		case x < 91:
			if !on["restart"] {
				continue
			}
			op = Op{Kind: "restart"}
		case x < 94:
			if !on["crash"] {
				continue
			}
			op = Op{Kind: "crash", K: []int{0, 1 + r.Intn(50), 1 + r.Intn(2000)}[r.Intn(3)], Ms: int64(r.Intn(20000))}
		case x < 97:
			if !on["outage"] {
				continue
			}
			op = Op{Kind: "outage", Ms: int64(1000 + r.Intn(30000))}
		default:
			if !on["wallstep"] {
				continue
			}
			op = Op{Kind: "wallstep", Ms: int64(r.Intn(40000)) - 20000}
		}
		p.Ops = append(p.Ops, op)
	}
	return p
}

// queryText returns the CQ definitions used. None selects a time column, so
// the handler labels the output rows itself; {start_time}/{end_time} are also
// projected so that every output row says which window produced it.
func queryText(kind string) (string, []string) {
	switch kind {
	case "grouped":
		return "SELECT host, count(*) AS n, {start_time} AS ws, {end_time} AS we FROM " + cqDB + "." + cqSrc +
			" WHERE time >= {start_time} AND time < {end_time} GROUP BY host", []string{"host"}
	case "bad":
		return "SELECT count(*) AS n, no_such_column AS x, {start_time} AS ws, {end_time} AS we FROM " + cqDB + "." + cqSrc +
			" WHERE time >= {start_time} AND time < {end_time}", nil
	default:
		return "SELECT count(*) AS n, {start_time} AS ws, {end_time} AS we FROM " + cqDB + "." + cqSrc +
			" WHERE time >= {start_time} AND time < {end_time}", nil
	}
}

func cqBody(kind string, intervalS int, active bool) map[string]any {
	q, tags := queryText(kind)
	b := map[string]any{"name": "agg", "database": cqDB, "source_measurement": cqSrc, "destination_measurement": cqDst,
		"query": q, "interval": fmt.Sprintf("%ds", intervalS), "is_active": active}
	if len(tags) > 0 {
		b["tag_columns"] = tags
	}
	return b
}

// manualReq is what the harness knows about a manual execute request.
type manualReq struct {
	explicitStart string // RFC3339, "" when the request left start_time out
	explicitEnd   string
	dry           bool
	status        int    // 0: no response (task died in a crash)
	execID        string // from the response
	respStart     string
	respEnd       string
}

type execRec struct {
	ID       int64
	ExecID   string
	Status   string
	Start    time.Time
	End      time.Time
	Written  int64
	Sched    bool
	Explicit bool // manual execution whose request named start_time
}

type c29exec struct {
	res        simrt.Result
	execs      []execRec
	lastProc   *time.Time
	haveCQ     bool
	dstRows    []map[string]any
	readErr    error
	manual     []*manualReq
	crashes    int
	restarts   int
	failedDst  int
	failedSrc  int
	closedOK   bool // final graceful shutdown flushed the buffer
	traces     map[string]*execTrace
	harnessErr string
	// most manual (non-dry) execute requests that were outstanding at once
	maxInflight int
	// executions held for the run's aggregation latency (logCapture)
	latencyApplied int
	// scheduled executions that were running when the driver stopped their job
	// (CQ update, scheduler reload, graceful shutdown)
	interrupted int
	// which query text the CQ had when (sim ns): the definition it was created
	// with, then one entry per update request (the definition changes somewhere
	// between fromNs and toNs)
	defs []defSpan
	// source files accepted by storage (faultBackend)
	srcFiles []srcFile
}

type defSpan struct {
	fromNs, toNs int64
	query        string
}

func parseTS(s string) (time.Time, bool) {
	for _, f := range []string{time.RFC3339Nano, "2006-01-02 15:04:05.999999999-07:00", "2006-01-02 15:04:05"} {
		if t, err := time.Parse(f, s); err == nil {
			return t.UTC(), true
		}
	}
	return time.Time{}, false
}

func execC29(p *C29Plan, cfg simrt.Config, root string) *c29exec {
	ex := &c29exec{}
	fail := func(format string, args ...any) {
		if ex.harnessErr == "" {
			ex.harnessErr = fmt.Sprintf(format, args...)
		}
	}
	var n *node
	ex.res = simrt.Run(cfg, func() {
		n = newNode(root, p.Knobs)
		cqPath := "/api/v1/continuous_queries/1"
		var async []*simrt.Task
		jobStart := int64(0) // sim ns when the scheduler (re)started the job's ticker
		interval := int64(p.IntervalS) * int64(time.Second)
		rowID := int64(0)
		inflight := 0 // outstanding manual execute requests of this process

		restart := func(graceful bool) {
			if n.up && graceful {
				// the HTTP server drains in-flight requests before anything else stops
				for _, h := range async {
					simrt.Join(h)
				}
				async = nil
				n.logs.jobStopping()
				if !n.onNode("shutdown", n.shutdown) {
					graceful = false
				}
				n.logs.jobStopped()
			}
			if n.sn.Dead || !graceful {
				if !n.sn.Dead {
					simrt.Crash(n.sn)
				}
				// the dead process' SQLite handle is released by the OS
				if n.cqh != nil {
					n.cqh.Close()
				}
				n.up = false
				ex.crashes++
				inflight = 0
				n.logs.processDied()
				simrt.Revive(n.sn)
			} else {
				ex.restarts++
			}
			n.sn.CrashAtStep = 0
			if !n.onNode("boot", n.boot) {
				fail("node died during boot")
			}
			jobStart = simrt.SimNow()
		}
		ensureUp := func() {
			if n.sn.Dead || !n.up {
				restart(false)
			}
		}
		writeRows := func(ages []int64) {
			now := simrt.Now()
			cols := map[string][]interface{}{}
			for _, a := range ages {
				rowID++
				cols["time"] = append(cols["time"], now.Add(-time.Duration(a)*time.Millisecond).UnixMicro())
				cols["host"] = append(cols["host"], fmt.Sprintf("h%d", rowID%2))
				cols["v"] = append(cols["v"], float64(rowID))
			}
			if err := n.buf.WriteColumnarDirect(context.Background(), cqDB, cqSrc, cols); err != nil {
				fail("source write: %v", err)
			}
		}

		if !n.onNode("boot", n.boot) {
			fail("node died during first boot")
			return
		}
		n.onNode("setup", func() {
			if p.Seed {
				writeRows([]int64{500, 40000, 1800000})
				if err := n.buf.FlushAll(context.Background()); err != nil {
					fail("seed flush: %v", err)
				}
			}
			st, body := n.call("POST", "/api/v1/continuous_queries/", cqBody(p.Query, p.IntervalS, true))
			if st != 201 {
				fail("create CQ: %d %s", st, body)
			}
			jobStart = simrt.SimNow()
		})
		if ex.harnessErr != "" {
			return
		}
		ex.haveCQ = true
		ex.defs = append(ex.defs, defSpan{0, 0, p.Query})

		for i := range p.Ops {
			op := &p.Ops[i]
			ensureUp()
			switch op.Kind {
			case "sleep":
				simrt.Sleep(time.Duration(op.Ms) * time.Millisecond)
			case "tick":
				now := simrt.SimNow()
				next := jobStart + ((now-jobStart)/interval+1)*interval + op.Ms*int64(time.Millisecond)
				if next > now {
					simrt.Sleep(time.Duration(next - now))
				}
			case "write":
				n.onNode("write", func() { writeRows(op.AgeMs) })
			case "flush":
				n.onNode("flush", func() { n.buf.FlushAll(context.Background()) })
			case "exec":
				req := &manualReq{dry: op.Dry}
				body := map[string]any{"dry_run": op.Dry}
				now := simrt.Now().UTC()
				if op.StartAgo != nil {
					req.explicitStart = now.Add(-time.Duration(*op.StartAgo) * time.Second).Format(time.RFC3339)
					body["start_time"] = req.explicitStart
				}
				if op.EndAgo != nil {
					req.explicitEnd = now.Add(-time.Duration(*op.EndAgo) * time.Second).Format(time.RFC3339)
					body["end_time"] = req.explicitEnd
				}
				ex.manual = append(ex.manual, req)
				simrt.Event("MANUAL-EXEC start=%q end=%q dry=%v async=%v", req.explicitStart, req.explicitEnd, op.Dry, op.Async)
				do := func() {
					if !op.Dry {
						inflight++
						if inflight > ex.maxInflight {
							ex.maxInflight = inflight
						}
					}
					st, rb := n.call("POST", cqPath+"/execute", body)
					if !op.Dry {
						inflight--
					}
					req.status = st
					if st == 200 {
						var r struct {
							ExecutionID string `json:"execution_id"`
							StartTime   string `json:"start_time"`
							EndTime     string `json:"end_time"`
							Status      string `json:"status"`
						}
						if err := json.Unmarshal(rb, &r); err != nil {
							fail("execute response: %v", err)
						}
						req.execID, req.respStart, req.respEnd = r.ExecutionID, r.StartTime, r.EndTime
						simrt.Event("MANUAL-DONE %s [%s,%s)", r.Status, r.StartTime, r.EndTime)
					} else {
						simrt.Event("MANUAL-DONE http=%d", st)
					}
				}
				if op.Async {
					async = append(async, simrt.GoOn("manual-exec", n.sn, do))
				} else {
					n.onNode("manual-exec", do)
				}
			case "reload":
				// what POST /api/v1/schedulers/cq/reload does
				n.logs.jobStopping()
				n.onNode("reload", func() {
					if err := n.sched.ReloadAll(); err != nil {
						fail("scheduler reload: %v", err)
					}
				})
				n.logs.jobStopped()
				if !n.sn.Dead {
					jobStart = simrt.SimNow()
					simrt.Event("RELOADED")
				}
			case "update":
				n.logs.jobStopping()
				ex.defs = append(ex.defs, defSpan{simrt.SimNow(), 1 << 62, op.Query})
				n.onNode("update", func() {
					st, rb := n.call("PUT", cqPath, cqBody(op.Query, op.IntervalS, !op.Inactive))
					if st != 200 {
						fail("update CQ: %d %s", st, rb)
					}
				})
				n.logs.jobStopped()
				if !n.sn.Dead {
					// (a process that died in the request may or may not have stored
					// the new definition: the span stays open)
					ex.defs[len(ex.defs)-1].toNs = simrt.SimNow()
					interval = int64(op.IntervalS) * int64(time.Second)
					jobStart = simrt.SimNow()
					simrt.Event("UPDATED query=%s interval=%ds inactive=%v", op.Query, op.IntervalS, op.Inactive)
				}
			case "restart":
				restart(true)
			case "crash":
				if op.K == 0 {
					restart(false)
				} else {
					n.sn.CrashAtStep = n.sn.Steps() + int64(op.K)
					simrt.Sleep(time.Duration(op.Ms) * time.Millisecond)
				}
			case "outage":
				n.fb.failFrom, n.fb.failUntil = simrt.SimNow(), simrt.SimNow()+op.Ms*int64(time.Millisecond)
				simrt.Event("OUTAGE %dms", op.Ms)
			case "wallstep":
				simrt.StepWall(n.sn, time.Duration(op.Ms)*time.Millisecond)
			default:
				fail("unknown op %q", op.Kind)
			}
			if ex.harnessErr != "" {
				return
			}
		}

		// ---- quiesce and observe ----------------------------------------
		n.sn.CrashAtStep = 0
		for _, h := range async {
			simrt.Join(h)
		}
		ensureUp()
		n.fb.failFrom, n.fb.failUntil = 0, 0
		n.logs.jobStopping()
		ok := n.onNode("observe", func() {
			n.sched.Stop() // cancels and waits for an in-flight scheduled execution
			n.logs.jobStopped()
			st, rb := n.call("GET", cqPath+"/executions?limit=100000", nil)
			if st != 200 {
				fail("list executions: %d %s", st, rb)
				return
			}
			var lr struct {
				Executions []struct {
					ID             int64  `json:"id"`
					ExecutionID    string `json:"execution_id"`
					Status         string `json:"status"`
					StartTime      string `json:"start_time"`
					EndTime        string `json:"end_time"`
					RecordsWritten int64  `json:"records_written"`
				} `json:"executions"`
			}
			if err := json.Unmarshal(rb, &lr); err != nil {
				fail("executions json: %v", err)
				return
			}
			for _, e := range lr.Executions {
				s, ok1 := parseTS(e.StartTime)
				en, ok2 := parseTS(e.EndTime)
				if !ok1 || !ok2 {
					fail("unparsable execution times %q %q", e.StartTime, e.EndTime)
					return
				}
				ex.execs = append(ex.execs, execRec{ID: e.ID, ExecID: e.ExecutionID, Status: e.Status, Start: s, End: en,
					Written: e.RecordsWritten, Sched: strings.HasPrefix(e.ExecutionID, "cq-sched-")})
			}
			sort.Slice(ex.execs, func(i, j int) bool { return ex.execs[i].ID < ex.execs[j].ID })
			st, rb = n.call("GET", cqPath, nil)
			if st != 200 {
				fail("get CQ: %d %s", st, rb)
				return
			}
			var cq struct {
				LastProcessedTime *string `json:"last_processed_time"`
			}
			if err := json.Unmarshal(rb, &cq); err != nil {
				fail("cq json: %v", err)
				return
			}
			if cq.LastProcessedTime != nil {
				t, ok := parseTS(*cq.LastProcessedTime)
				if !ok {
					fail("unparsable last_processed_time %q", *cq.LastProcessedTime)
					return
				}
				ex.lastProc = &t
			}
			n.buf.Close()
			n.cqh.Close()
			n.up = false
			ex.closedOK = true
		})
		if !ok {
			fail("node died during observation")
		}
		ex.failedDst, ex.failedSrc = n.fb.FailedDst, n.fb.FailedSrc
		ex.srcFiles = n.fb.SrcFiles
		ex.traces = n.logs.tr
		ex.latencyApplied = n.logs.latencyApplied
		ex.interrupted = n.logs.interrupted
	})
	if n != nil {
		if n.up && n.cqh != nil {
			n.cqh.Close()
		}
		ex.dstRows, ex.readErr = n.readMeasurement(cqDB, cqDst)
	}
	return ex
}

type span struct{ s, e int64 }

// uncovered reports whether some instant of [s,e) lies in none of the spans.
func uncovered(spans []span, s, e int64) (int64, bool) {
	ss := append([]span(nil), spans...)
	sort.Slice(ss, func(i, j int) bool { return ss[i].s < ss[j].s })
	at := s
	for _, x := range ss {
		if x.e <= at {
			continue
		}
		if x.s > at {
			break
		}
		at = x.e
		if at >= e {
			return 0, false
		}
	}
	if at < e {
		return at, true
	}
	return 0, false
}

func ts(t time.Time) string { return t.UTC().Format(time.RFC3339) }

func runC29(planAny any, cfg simrt.Config) *simkit.Outcome {
	p := planAny.(*C29Plan)
	out := &simkit.Outcome{}
	root := mkScratch()
	defer os.RemoveAll(root)
	ex := execC29(p, cfg, root)
	out.Absorb(ex.res)
	for _, pn := range ex.res.Panics {
		if strings.Contains(pn, "HARNESS") {
			harnessFatal("%s", pn)
		}
	}
	if ex.harnessErr != "" {
		if ex.res.Outcome != "ok" {
			return out // simkit reports dead-lock / step-limit as harness trouble
		}
		harnessFatal("C29: %s", ex.harnessErr)
	}
	if len(ex.res.Panics) > 0 {
		out.Violate("C29.task-panic", "a task of the CQ node panicked: %s", firstLine(ex.res.Panics[0]))
		return out
	}
	if ex.res.Outcome != "ok" {
		return out
	}
	if ex.readErr != nil {
		harnessFatal("C29: destination not readable: %v", ex.readErr)
	}
	// the aggregation latency is applied where the handler logs that it is
	// about to execute; every execution in the history passed that point. Fewer
	// applications than history rows means the log line is no longer recognised
	// and the run's executions silently took no time.
	if p.Knobs.ExecLatencyMs > 0 && ex.latencyApplied < len(ex.execs) {
		harnessFatal("C29: %d executions recorded but the aggregation latency was applied %d times (handler log line not recognised?)", len(ex.execs), ex.latencyApplied)
	}

	// which manual executions named their own start?
	byExecID := map[string]*manualReq{}
	for _, m := range ex.manual {
		if m.execID != "" {
			byExecID[m.execID] = m
		}
	}
	for i := range ex.execs {
		e := &ex.execs[i]
		if e.Sched {
			continue
		}
		if m, ok := byExecID[e.ExecID]; ok {
			e.Explicit = m.explicitStart != ""
			continue
		}
		// no response seen (failed execution, or the request died in a crash)
		for _, m := range ex.manual {
			if m.execID == "" && m.explicitStart != "" && m.explicitStart == ts(e.Start) {
				e.Explicit = true
			}
		}
	}

	// ---- windows: contiguous, non-overlapping, failures do not advance ----
	// Executions are judged in commit order (row id of the execution history).
	// A successful execution that did not name its own start_time (scheduled, or
	// manual with the default start) must (1) not re-process time an earlier
	// successful execution already processed and (2) leave no unprocessed hole
	// between the first processed window and its own start. Manual executions
	// that name start_time are ad-hoc ranges chosen by the operator and are not
	// constrained themselves.
	var done []execRec // successful executions so far, commit order
	var spans []span
	// a successful manual execution that named its own start_time ended before
	// (rewound) / started after (skipped) the end of everything processed so far
	rewound, skipped, concurrentSeen := false, false, false
	frontier := int64(0)
	type fwin struct{ s, e int64 }
	var failedSince []fwin // failed executions committed after the latest success
	nSucc, nFail, nSched := 0, 0, 0
	startedAtFailedEnd := func(s int64) bool {
		for _, f := range failedSince {
			if f.e == s && f.e > f.s {
				return true
			}
		}
		return false
	}
	for _, e := range ex.execs {
		if e.Sched {
			nSched++
		}
		s, en := e.Start.Unix(), e.End.Unix()
		if e.Status != "completed" {
			nFail++
			failedSince = append(failedSince, fwin{s, en})
			continue
		}
		nSucc++
		kind := "manual"
		if e.Sched {
			kind = "scheduled"
		}
		if len(done) == 0 && !e.Explicit && startedAtFailedEnd(s) {
			out.Violate("C29.window-gap.after-failed-execution", "%s execution #%d is the first successful one and processed [%s, %s): it starts where an earlier failed execution ended, so the failed window was skipped",
				kind, e.ID, ts(e.Start), ts(e.End))
		}
		if len(done) > 0 && !e.Explicit {
			prev := done[len(done)-1]
			// the window an execution selects starts at the end of the latest
			// successful execution committed before it selects; a different start
			// means it selected before that one committed (or started somewhere else)
			// (an explicit back-fill that ended before the frontier does not
			// move the schedule: the next window then continues at the frontier,
			// i.e. at the end of the latest successful execution in time order)
			serial := s == prev.End.Unix() || (prev.Explicit && s == frontier)
			// did it select its window while an earlier-committed successful
			// execution was still in flight? (handler log times)
			inFlight := false
			if tx := ex.traces[e.ExecID]; tx != nil {
				for _, y := range done {
					if ty := ex.traces[y.ExecID]; ty != nil && ty.done && ty.doneNs > tx.selectNs {
						inFlight = true
					}
				}
			}
			// (names the circumstance only; whether there is a violation is
			// decided below from the recorded windows alone)
			cause := func(explicitMoved, gap bool) string {
				switch {
				case !serial && startedAtFailedEnd(s):
					return "after-failed-execution"
				case gap && explicitMoved:
					// a hole that an operator's explicit range left behind stays
					// that hole however the executions after it were interleaved
					return "after-manual-execution-with-explicit-range"
				case !serial && inFlight:
					return "concurrent-executions"
				case !serial:
					return "start-is-not-end-of-previous-successful-execution"
				case explicitMoved:
					return "after-manual-execution-with-explicit-range"
				case concurrentSeen:
					return "after-concurrent-executions"
				case !prev.Explicit && prev.End.Unix() < frontier:
					// it continued where the latest commit ended, but that commit
					// ended before an earlier one: commits not in window order
					return "after-execution-that-ended-before-an-earlier-one"
				}
				return "other"
			}
			for _, y := range done {
				lo, hi := max64(s, y.Start.Unix()), min64(en, y.End.Unix())
				if lo >= hi {
					continue
				}
				c := cause(rewound, false)
				if c == "concurrent-executions" {
					concurrentSeen = true
				}
				out.Violate("C29.window-overlap."+c, "%s execution #%d (%s) processed [%s, %s) which overlaps [%s, %s) already processed by successful execution #%d (%s); the latest successful execution before it, #%d, ended at %s",
					kind, e.ID, e.ExecID, ts(e.Start), ts(e.End), ts(y.Start), ts(y.End), y.ID, y.ExecID, prev.ID, ts(prev.End))
				break
			}
			if at, gap := uncovered(spans, done[0].Start.Unix(), s); gap {
				c := cause(skipped, true)
				if c == "concurrent-executions" {
					concurrentSeen = true
				}
				out.Violate("C29.window-gap."+c, "%s execution #%d processed [%s, %s) but time from %s on was never processed by a successful execution (the latest successful execution before it, #%d, ended at %s)",
					kind, e.ID, ts(e.Start), ts(e.End), time.Unix(at, 0).UTC().Format(time.RFC3339), prev.ID, ts(prev.End))
			}
			if !serial {
				out.Stats["probe.selected_before_previous_commit"]++
			}
		}
		if len(done) > 0 && e.Explicit {
			if en < frontier {
				rewound = true
			}
			if s > frontier {
				skipped = true
			}
		}
		if en > frontier {
			frontier = en
		}
		done = append(done, e)
		spans = append(spans, span{s, en})
		failedSince = nil
	}
	lastFailedEnd := map[int64]bool{}
	for _, f := range failedSince {
		if f.e > f.s {
			lastFailedEnd[f.e] = true
		}
	}
	// where would the next window start?
	if ex.haveCQ {
		switch {
		case len(done) == 0 && ex.lastProc != nil:
			out.Violate("C29.failed-execution-advanced-window", "no execution succeeded (%d failed) but last_processed_time is %s", nFail, ts(*ex.lastProc))
		case len(done) > 0 && ex.lastProc == nil:
			out.Violate("C29.success-did-not-advance-window", "%d executions succeeded but last_processed_time is still unset", len(done))
		case len(done) > 0 && done[len(done)-1].Explicit:
			// the last successful execution named its own (ad-hoc) range: the
			// statement speaks of scheduled executions and does not say where
			// the schedule continues after an operator's explicit range, so
			// the pointer is not judged here (overlap/gap of the NEXT
			// scheduled window is judged above when it happens)
		case len(done) > 0 && ex.lastProc.Unix() != done[len(done)-1].End.Unix():
			l := done[len(done)-1]
			if lastFailedEnd[ex.lastProc.Unix()] {
				out.Violate("C29.failed-execution-advanced-window", "last successful execution #%d ended at %s; a later failed execution ended at %s and the next window now starts there", l.ID, ts(l.End), ts(*ex.lastProc))
			} else {
				out.Violate("C29.next-window-start-not-last-successful-end", "last successful execution #%d ended at %s but the next window starts at %s", l.ID, ts(l.End), ts(*ex.lastProc))
			}
		}
	}

	// ---- output rows: label = window start; each window's rows exactly once ----
	type wkey struct{ s, e int64 }
	expected := map[wkey]int64{}
	failedWin := map[wkey]bool{}
	// windows whose start came neither from the request nor from the end of a
	// successful execution: the handler's default start for a CQ that has not
	// processed anything yet
	defaultStart := map[wkey]bool{}
	succEnds := map[int64]bool{}
	for _, e := range ex.execs {
		if e.Status == "completed" {
			succEnds[e.End.Unix()] = true
		}
	}
	for _, e := range ex.execs {
		k := wkey{e.Start.Unix(), e.End.Unix()}
		if e.Status == "completed" {
			expected[k] += e.Written
			if !e.Explicit && !succEnds[k.s] {
				defaultStart[k] = true
			}
		} else {
			failedWin[k] = true
		}
	}
	got := map[wkey]int64{}
	for _, r := range ex.dstRows {
		wsS, _ := r["ws"].(string)
		weS, _ := r["we"].(string)
		ws, ok1 := parseTS(wsS)
		we, ok2 := parseTS(weS)
		label, ok3 := r["time"].(int64)
		if !ok1 || !ok2 || !ok3 {
			harnessFatal("C29: destination row without ws/we/time: %v", r)
		}
		k := wkey{ws.Unix(), we.Unix()}
		got[k]++
		if label != ws.UnixMicro() {
			circ := "other"
			if floorDiv(label, 1_000_000) == ws.Unix() {
				circ = "subsecond-part-kept"
				if defaultStart[k] {
					circ = "subsecond-part-of-default-start-of-first-window"
				}
			}
			out.Violate("C29.label-not-window-start."+circ, "output row for window [%s, %s) is labelled %s (%d us), the window starts at %s (%d us)",
				wsS, weS, time.UnixMicro(label).UTC().Format(time.RFC3339Nano), label, wsS, ws.UnixMicro())
		}
	}
	var keys []wkey
	for k := range got {
		keys = append(keys, k)
	}
	for k := range expected {
		if _, ok := got[k]; !ok {
			keys = append(keys, k)
		}
	}
	sort.Slice(keys, func(i, j int) bool {
		if keys[i].s != keys[j].s {
			return keys[i].s < keys[j].s
		}
		return keys[i].e < keys[j].e
	})
	lossPermitted := ex.crashes > 0 || ex.failedDst > 0 || !ex.closedOK
	// Windows of executions that were in flight when the process died: such an
	// execution may have been cut anywhere, also between handing its output
	// rows to storage and recording itself (two stores, no common commit). It
	// is neither a successful nor a failed execution, the statement says
	// nothing about what it leaves behind, and it did not advance the window
	// (that is still judged above). Only output for exactly such a window is
	// excused; it is counted, not hidden.
	cutWin := map[wkey]bool{}
	for _, tr := range ex.traces {
		if tr.cutByCrash {
			cutWin[wkey{tr.winS, tr.winE}] = true
		}
	}
	for _, k := range keys {
		g, w := got[k], expected[k]
		win := fmt.Sprintf("[%s, %s)", time.Unix(k.s, 0).UTC().Format(time.RFC3339), time.Unix(k.e, 0).UTC().Format(time.RFC3339))
		_, recorded := expected[k]
		switch {
		case g > w && ex.crashes > 0 && cutWin[k]:
			out.Stats["probe.output_left_by_execution_cut_by_crash"]++
		case g > 0 && !recorded && failedWin[k]:
			out.Violate("C29.failed-execution-wrote-output", "%d output rows exist for window %s whose execution is recorded as failed", g, win)
		case g > 0 && !recorded:
			out.Violate("C29.output-from-unrecorded-execution", "%d output rows exist for window %s, no execution with that window is recorded", g, win)
		case g > w:
			out.Violate("C29.output-duplicated", "window %s: executions report %d rows written, destination holds %d", win, w, g)
		case g < w && !lossPermitted:
			out.Violate("C29.output-missing", "window %s: executions report %d rows written, destination holds %d after a graceful shutdown without storage faults", win, w, g)
		}
	}

	// ---- a consumed window was processed: its output exists ----------------
	// A successful execution moves the schedule past its window, so the window
	// must have been processed: the rows its aggregation yields are the output.
	// The harness knows a lower bound of that without asking arc: the "count"
	// query has no GROUP BY and yields one row for any window; the "grouped"
	// query yields one row per host that has a source row inside the window,
	// and every source file that storage had accepted before the execution
	// selected its window is there for the aggregation to read. An execution
	// recorded as completed with fewer rows than that consumed its window
	// without processing it. (That the rows an execution reports are in the
	// destination is judged above: output-missing.)
	queriesAt := func(t int64) []string {
		cur := []string{ex.defs[0].query}
		for _, d := range ex.defs[1:] {
			if t < d.fromNs {
				break
			}
			if t > d.toNs {
				cur = []string{d.query}
			} else {
				cur = append(cur, d.query)
			}
		}
		return cur
	}
	inputHosts := func(k wkey, beforeNs int64) int64 {
		hosts := map[string]bool{}
		for _, f := range ex.srcFiles {
			if f.atNs >= beforeNs {
				continue
			}
			for _, r := range f.rows {
				if r.t >= k.s*1_000_000 && r.t < k.e*1_000_000 {
					hosts[r.host] = true
				}
			}
		}
		return int64(len(hosts))
	}
	for _, e := range ex.execs {
		if e.Status != "completed" || !ex.haveCQ {
			continue
		}
		tr := ex.traces[e.ExecID]
		if tr == nil {
			// the handler's log line of this execution was not seen: nothing
			// known about when it ran
			out.Stats["probe.executions_without_trace"]++
			continue
		}
		k := wkey{e.Start.Unix(), e.End.Unix()}
		hosts := inputHosts(k, tr.selectNs)
		need := int64(-1)
		var qs []string
		for _, q := range queriesAt(tr.selectNs) {
			var m int64
			switch q {
			case "count":
				m = 1
			case "grouped":
				m = hosts
			default:
				continue // the "bad" query cannot complete
			}
			qs = append(qs, q)
			if need < 0 || m < need {
				need = m
			}
		}
		if need > 0 {
			out.Stats["probe.windows_consumed_that_must_have_output"]++
		}
		if need <= 0 || e.Written >= need {
			continue
		}
		circ := "other"
		if tr.interrupted {
			circ = "scheduled-execution-running-when-its-job-was-stopped"
		}
		kind := "manual"
		if e.Sched {
			kind = "scheduled"
		}
		out.Violate("C29.window-consumed-without-output."+circ, "%s execution #%d (%s) is recorded as completed for window [%s, %s) with %d rows written and the next window starts at its end, but the aggregation over that window yields at least %d row(s) (query %s; %d host(s) had source rows of that window in storage before the execution selected it); the destination holds %d row(s) for the window",
			kind, e.ID, e.ExecID, ts(e.Start), ts(e.End), e.Written, need, strings.Join(qs, "|"), hosts, got[k])
	}
	out.Stats["probe.scheduled_executions_running_when_job_stopped"] += int64(ex.interrupted)

	out.Stats["probe.executions_ok"] += int64(nSucc)
	out.Stats["probe.executions_failed"] += int64(nFail)
	out.Stats["probe.executions_scheduled"] += int64(nSched)
	out.Stats["probe.output_rows"] += int64(len(ex.dstRows))
	out.Stats["probe.crashes"] += int64(ex.crashes)
	out.Stats["probe.restarts"] += int64(ex.restarts)
	out.Stats["probe.executions_held_for_aggregation_latency"] += int64(ex.latencyApplied)
	if ex.maxInflight >= 3 {
		out.Stats["probe.runs_with_3plus_manual_executions_outstanding"]++
	}
	out.Nontrivial = nSucc >= 2 && (nFail > 0 || ex.crashes+ex.restarts > 0 || ex.res.Preempts > 0 || nSched > 0)
	return out
}

func max64(a, b int64) int64 {
	if a > b {
		return a
	}
	return b
}
func min64(a, b int64) int64 {
	if a < b {
		return a
	}
	return b
}
func floorDiv(a, b int64) int64 {
	q := a / b
	if a%b < 0 {
		q--
	}
	return q
}

func shrinkC29(planAny any) []any {
	p := planAny.(*C29Plan)
	var out []any
	cp := func() *C29Plan { q := *p; q.Ops = append([]Op(nil), p.Ops...); return &q }
	// drop halves, then single ops
	if len(p.Ops) > 3 {
		h := len(p.Ops) / 2
		q := cp()
		q.Ops = q.Ops[:h]
		out = append(out, q)
		q = cp()
		q.Ops = q.Ops[h:]
		out = append(out, q)
	}
	for i := range p.Ops {
		q := cp()
		q.Ops = append(q.Ops[:i], q.Ops[i+1:]...)
		out = append(out, q)
	}
	for i, op := range p.Ops {
		if op.Async {
			q := cp()
			q.Ops[i].Async = false
			out = append(out, q)
		}
		if op.Kind == "crash" && op.K != 0 {
			q := cp()
			q.Ops[i].K = 0
			out = append(out, q)
		}
		if op.Kind == "write" && len(op.AgeMs) > 1 {
			q := cp()
			q.Ops[i].AgeMs = op.AgeMs[:1]
			out = append(out, q)
		}
		if op.Kind == "sleep" && op.Ms > 1000 {
			q := cp()
			q.Ops[i].Ms = op.Ms / 2
			out = append(out, q)
		}
	}
	if p.Knobs.StorageLatencyUs != 0 {
		q := cp()
		q.Knobs.StorageLatencyUs = 0
		out = append(out, q)
	}
	if p.Knobs.ExecLatencyMs != 0 {
		q := cp()
		q.Knobs.ExecLatencyMs = 0
		out = append(out, q)
		if p.Knobs.ExecLatencyMs > 100 {
			q = cp()
			q.Knobs.ExecLatencyMs = p.Knobs.ExecLatencyMs / 2
			out = append(out, q)
		}
	}
	if p.Query != "count" {
		q := cp()
		q.Query = "count"
		out = append(out, q)
	}
	if !p.Seed {
		q := cp()
		q.Seed = true
		out = append(out, q)
	}
	return out
}

func descC29(planAny any) any {
	p := planAny.(*C29Plan)
	var s []string
	for _, op := range p.Ops {
		d := op.Kind
		switch op.Kind {
		case "sleep", "outage", "wallstep", "tick":
			d += fmt.Sprintf("(%dms)", op.Ms)
		case "write":
			d += fmt.Sprintf("(%d rows)", len(op.AgeMs))
		case "exec":
			var a []string
			if op.StartAgo != nil {
				a = append(a, fmt.Sprintf("start=now-%ds", *op.StartAgo))
			}
			if op.EndAgo != nil {
				a = append(a, fmt.Sprintf("end=now-%ds", *op.EndAgo))
			}
			if op.Async {
				a = append(a, "async")
			}
			if op.Dry {
				a = append(a, "dry")
			}
			d += "(" + strings.Join(a, ",") + ")"
		case "update":
			d += fmt.Sprintf("(%s,%ds,inactive=%v)", op.Query, op.IntervalS, op.Inactive)
		case "crash":
			d += fmt.Sprintf("(k=%d)", op.K)
		}
		s = append(s, d)
	}
	return map[string]any{"query": p.Query, "interval_s": p.IntervalS, "seed_source": p.Seed, "ops": s,
		"buffer_size": p.Knobs.MaxBufferSize, "buffer_age_ms": p.Knobs.MaxBufferAgeMS, "storage_latency_us": p.Knobs.StorageLatencyUs, "exec_latency_ms": p.Knobs.ExecLatencyMs}
}
