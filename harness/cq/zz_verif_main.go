//go:build verif

// Area cq: property C29 (continuous query windows are contiguous and
// processed once). The real api.ContinuousQueryHandler (SQLite state, DuckDB
// aggregation, ArrowBuffer output) and the real scheduler.CQScheduler run
// under the simulator's clock and scheduler; the harness drives them through
// the HTTP routes the handler registers and judges the execution history the
// handler itself reports plus the rows found in the destination measurement.
package main

import (
	"fmt"
	"io"
	"os"
	"path/filepath"
	"strings"
	"sync/atomic"

	"github.com/rs/zerolog"
	zlog "github.com/rs/zerolog/log"

	"github.com/basekick-labs/arc/internal/database"
	"github.com/basekick-labs/arc/internal/verifsim/simkit"
)

var quietLogger = zerolog.New(io.Discard).Level(zerolog.Disabled)

func harnessLogger() zerolog.Logger {
	if os.Getenv("VERIF_LOG") != "" {
		return zerolog.New(os.Stderr).Level(zerolog.DebugLevel)
	}
	return quietLogger
}

var scratchSeq atomic.Int64
var procRoot string

// scratchRoot is the per-process directory that holds every run's node
// directory; it is the only local directory the shared DuckDB may read.
func scratchRoot() string {
	if procRoot != "" {
		return procRoot
	}
	b := os.Getenv("VERIF_SCRATCH")
	if b == "" {
		b = "/dev/shm"
	}
	// roots left behind by finished processes (simkit exits through os.Exit)
	if old, _ := filepath.Glob(filepath.Join(b, "verif-cq.*")); len(old) > 0 {
		for _, o := range old {
			pid := strings.TrimPrefix(filepath.Base(o), "verif-cq.")
			if _, err := os.Stat("/proc/" + pid); os.IsNotExist(err) {
				os.RemoveAll(o)
			}
		}
	}
	d := filepath.Join(b, fmt.Sprintf("verif-cq.%d", os.Getpid()))
	os.RemoveAll(d)
	if err := os.MkdirAll(d, 0o755); err != nil {
		harnessFatal("scratch: %v", err)
	}
	procRoot = d
	return d
}

func mkScratch() string {
	d := filepath.Join(scratchRoot(), fmt.Sprintf("r%d", scratchSeq.Add(1)))
	os.RemoveAll(d)
	if err := os.MkdirAll(d, 0o755); err != nil {
		harnessFatal("scratch: %v", err)
	}
	return d
}

func harnessFatal(format string, args ...any) {
	fmt.Fprintf(os.Stderr, "HARNESS-ERROR "+format+"\n", args...)
	os.Exit(2)
}

// One real DuckDB per process: the CQ path only uses it as a stateless
// engine over the Parquet files of the run's data directory (read_parquet),
// and opening an instance costs far more than a simulated run. Every run has
// its own directory below scratchRoot, so no file path is ever seen twice.
var sharedDuck *database.DuckDB

func duck() *database.DuckDB {
	if sharedDuck != nil {
		return sharedDuck
	}
	root := scratchRoot()
	tmp := filepath.Join(root, "duck-tmp")
	d, err := database.New(&database.Config{MaxConnections: 4, MemoryLimit: "1GB", ThreadCount: 1,
		LocalStorageRoot: root, TempDirectory: tmp}, quietLogger)
	if err != nil {
		harnessFatal("duckdb: %v", err)
	}
	sharedDuck = d
	return d
}

func firstLine(s string) string {
	if i := strings.IndexByte(s, '\n'); i > 0 {
		return s[:i]
	}
	return s
}

func main() {
	// every logger handed to arc is disabled except the CQ handler's, whose
	// Info lines the harness reads (see logCapture)
	zerolog.SetGlobalLevel(zerolog.InfoLevel)
	zlog.Logger = quietLogger
	if os.Getenv("VERIF_LOG") != "" {
		zerolog.SetGlobalLevel(zerolog.DebugLevel)
	}
	simkit.Main(
		&simkit.Check{ID: "C29", Gen: genC29, New: func() any { return &C29Plan{} }, Run: runC29, Shrink: shrinkC29, Desc: descC29},
	)
}
