//go:build verif

package main

import (
	"bytes"
	"context"
	"encoding/json"
	"fmt"
	"os"
	"path/filepath"
	"sort"
	"strings"
	"time"

	"github.com/apache/arrow-go/v18/arrow"
	"github.com/apache/arrow-go/v18/arrow/array"
	"github.com/apache/arrow-go/v18/arrow/memory"
	"github.com/apache/arrow-go/v18/parquet/file"
	"github.com/apache/arrow-go/v18/parquet/pqarrow"
	"github.com/gofiber/fiber/v2"
	"github.com/rs/zerolog"
	"github.com/valyala/fasthttp"

	"github.com/basekick-labs/arc/internal/api"
	"github.com/basekick-labs/arc/internal/config"
	"github.com/basekick-labs/arc/internal/ingest"
	"github.com/basekick-labs/arc/internal/license"
	"github.com/basekick-labs/arc/internal/scheduler"
	"github.com/basekick-labs/arc/internal/simrt"
	"github.com/basekick-labs/arc/internal/storage"
)

// Knobs are the per-run tuning values.
type Knobs struct {
	MaxBufferSize    int `json:"max_buffer_size"`
	MaxBufferAgeMS   int `json:"max_buffer_age_ms"`
	FlushWorkers     int `json:"flush_workers"`
	ShardCount       int `json:"shard_count"`
	FlushQueueSize   int `json:"flush_queue_size"`
	StorageLatencyUs int `json:"storage_latency_us"`
	// ExecLatencyMs: how long one execution's aggregation takes (DuckDB over
	// the source files), in simulated time; every execution draws its own
	// value in [1/2, 3/2] of it. 0: an execution takes no simulated time
	// beyond the scheduler's step increments.
	ExecLatencyMs int `json:"exec_latency_ms,omitempty"`
}

// faultBackend wraps the real LocalBackend that the ArrowBuffer flushes to:
// seeded latency and outages on Write. (DuckDB reads the Parquet files
// directly, as in production with a local backend.)
type faultBackend struct {
	storage.Backend
	latencyUs  int
	failFrom   int64 // sim ns
	failUntil  int64
	FailedDst  int // failed writes below <db>/<dst measurement>
	FailedSrc  int
	WrittenDst int
	dstPrefix  string
	// every source-measurement file that storage accepted: when (sim ns) the
	// write returned and which rows it holds. From then on the file is there
	// for any aggregation to read (nothing in this harness deletes or compacts
	// source files), which is what the oracle needs to know to say that a
	// window had input rows when an execution selected it.
	srcPrefix string
	SrcFiles  []srcFile
}

type srcRow struct {
	t    int64 // microseconds
	host string
}

type srcFile struct {
	atNs int64
	rows []srcRow
}

func (f *faultBackend) Write(ctx context.Context, path string, data []byte) error {
	if f.latencyUs > 0 {
		simrt.Sleep(time.Duration(f.latencyUs) * time.Microsecond)
	}
	now := simrt.SimNow()
	isDst := strings.HasPrefix(path, f.dstPrefix)
	if now >= f.failFrom && now < f.failUntil {
		simrt.Count("fault.storage_write_err", 1)
		simrt.Event("STORAGE-FAIL %s", path)
		if isDst {
			f.FailedDst++
		} else {
			f.FailedSrc++
		}
		return fmt.Errorf("simulated storage outage")
	}
	err := f.Backend.Write(ctx, path, data)
	if err == nil {
		if isDst {
			f.WrittenDst++
		} else if strings.HasPrefix(path, f.srcPrefix) {
			rows, perr := parseParquet(data)
			if perr != nil {
				panic(fmt.Sprintf("HARNESS source file %s not readable: %v", path, perr))
			}
			sf := srcFile{atNs: simrt.SimNow()}
			for _, r := range rows {
				t, ok1 := r["time"].(int64)
				h, ok2 := r["host"].(string)
				if !ok1 || !ok2 {
					panic(fmt.Sprintf("HARNESS source row without time/host in %s: %v", path, r))
				}
				sf.rows = append(sf.rows, srcRow{t: t, host: h})
			}
			f.SrcFiles = append(f.SrcFiles, sf)
		}
		simrt.Event("STORAGE-WRITE %s", path)
	}
	return err
}

// execTrace is when (simulated monotonic ns) an execution selected its window
// and when it reported its outcome, taken from the handler's own log lines
// ("Executing ... continuous query" carries the execution id; the outcome line
// is written by the same task). Used to name the circumstance of a violation;
// the one thing the oracle decides with it is which source files were already
// in storage when an execution selected its window (selectNs): the execution
// history itself carries no simulated time.
type execTrace struct {
	selectNs int64
	doneNs   int64
	done     bool
	dry      bool
	// window the handler said it was about to execute (unix seconds)
	winS, winE int64
	// the process died after this execution announced its window and before
	// it reported an outcome (set by the driver when it handles the crash)
	cutByCrash bool
	// the scheduler's job was stopped (CQ update, scheduler reload, shutdown)
	// after this scheduled execution announced its window and before it
	// reported an outcome (set by the driver, names a circumstance only)
	interrupted bool
}

type logCapture struct {
	byTask map[int]string
	tr     map[string]*execTrace
	// execLatencyMs > 0: the task that logs "Executing ... continuous query"
	// (window selected, aggregation about to start) is held for the run's
	// aggregation latency before it goes on. DuckDB itself is a real,
	// uninstrumented engine that takes no simulated time, so this is where a
	// slow aggregation is modelled: after the window was chosen and while
	// the execution is in flight, which is all the property can see of it.
	execLatencyMs int
	// executions that were held for their aggregation latency (every recorded
	// execution passed that log line, so this is never less than the number
	// of history rows when execLatencyMs > 0; checked by the harness)
	latencyApplied int
	// a call that stops the CQ's job is in progress / scheduled executions that
	// were running when one began (see jobStopping; names a circumstance and
	// feeds a probe, nothing else)
	stopping    int
	interrupted int
}

func (c *logCapture) aggregationLatency() {
	if c.execLatencyMs <= 0 {
		return
	}
	c.latencyApplied++
	us := int64(c.execLatencyMs) * 1000
	d := us/2 + simrt.Stream("exec-latency").Int63n(us+1)
	simrt.Sleep(time.Duration(d) * time.Microsecond)
}

// processDied is called by the driver when the node's process has died: every
// execution that announced its window and has not reported an outcome was cut
// down with the process.
func (c *logCapture) processDied() {
	for _, tr := range c.tr {
		if !tr.done && !tr.dry {
			tr.cutByCrash = true
		}
	}
	c.byTask = map[int]string{}
}

// jobStopping is called by the driver right before it does something that
// stops the scheduler's job of the CQ (update, reload, shutdown): scheduled
// executions that announced their window and have not reported an outcome are
// running now and will have their context cancelled.
func (c *logCapture) jobStopping() {
	c.stopping++
	for id, tr := range c.tr {
		if strings.HasPrefix(id, "cq-sched-") && !tr.done && !tr.cutByCrash && !tr.interrupted {
			tr.interrupted = true
			c.interrupted++
		}
	}
}

// jobStopped: the call that stops the job has returned (it waits for the
// job's running execution). A scheduled execution that reports its outcome in
// between was running when the job was stopped as well (see Write).
func (c *logCapture) jobStopped() { c.stopping-- }

func (c *logCapture) Write(b []byte) (int, error) {
	if os.Getenv("VERIF_LOG") != "" {
		os.Stderr.Write(b)
	}
	if !bytes.Contains(b, []byte("ontinuous query")) {
		return len(b), nil
	}
	var m struct {
		Message string `json:"message"`
		ExecID  string `json:"execution_id"`
		DryRun  bool   `json:"dry_run"`
		Start   string `json:"start_time"`
		End     string `json:"end_time"`
	}
	if json.Unmarshal(b, &m) != nil {
		return len(b), nil
	}
	t := simrt.CurTask()
	if t == nil {
		return len(b), nil
	}
	switch m.Message {
	case "Executing scheduled continuous query", "Executing continuous query":
		if m.ExecID != "" {
			c.byTask[t.ID()] = m.ExecID
			tr := &execTrace{selectNs: simrt.SimNow(), dry: m.DryRun}
			if ws, err := time.Parse(time.RFC3339, m.Start); err == nil {
				tr.winS = ws.Unix()
			}
			if we, err := time.Parse(time.RFC3339, m.End); err == nil {
				tr.winE = we.Unix()
			}
			c.tr[m.ExecID] = tr
		}
		if !m.DryRun { // a dry run returns the query text without running it
			c.aggregationLatency()
		}
	case "Scheduled continuous query completed", "Continuous query completed",
		"Scheduled continuous query execution failed", "Continuous query execution failed":
		if id, ok := c.byTask[t.ID()]; ok {
			if c.stopping > 0 && strings.HasPrefix(id, "cq-sched-") && !c.tr[id].interrupted {
				c.tr[id].interrupted = true
				c.interrupted++
			}
			c.tr[id].doneNs, c.tr[id].done = simrt.SimNow(), true
			delete(c.byTask, t.ID())
		}
	}
	return len(b), nil
}

const (
	cqDB  = "prod"
	cqSrc = "cpu"
	cqDst = "cpu_agg"
)

type node struct {
	sn      *simrt.Node
	root    string
	dataDir string
	knobs   Knobs
	icfg    *config.IngestConfig
	cqcfg   *config.ContinuousQueryConfig
	local   *storage.LocalBackend
	fb      *faultBackend
	buf     *ingest.ArrowBuffer
	cqh     *api.ContinuousQueryHandler
	sched   *scheduler.CQScheduler
	handler fasthttp.RequestHandler
	boots   int
	up      bool
	logs    *logCapture
}

func newNode(root string, k Knobs) *node {
	n := &node{root: root, knobs: k, dataDir: filepath.Join(root, "data")}
	n.sn = simrt.NodeOf("n1")
	n.logs = &logCapture{byTask: map[int]string{}, tr: map[string]*execTrace{}, execLatencyMs: k.ExecLatencyMs}
	n.icfg = &config.IngestConfig{
		MaxBufferSize: k.MaxBufferSize, MaxBufferAgeMS: k.MaxBufferAgeMS, Compression: "snappy",
		WriteStatistics: true, DataPageVersion: "2.0", FlushWorkers: k.FlushWorkers, FlushQueueSize: k.FlushQueueSize,
		ShardCount: k.ShardCount, FlushTimeoutSeconds: 30, DefaultSortKeys: "time",
	}
	n.cqcfg = &config.ContinuousQueryConfig{Enabled: true, DBPath: filepath.Join(root, "meta", "cq.db")}
	return n
}

// boot builds the CQ part of an arc process the way cmd/arc/main.go wires it:
// storage backend, ArrowBuffer, ContinuousQueryHandler (own SQLite file),
// CQScheduler with an installed licence, routes on a Fiber app. Must run on a
// task of the node.
func (n *node) boot() {
	n.boots++
	local, err := storage.NewLocalBackend(n.dataDir, harnessLogger())
	if err != nil {
		panic(fmt.Sprintf("HARNESS local backend: %v", err))
	}
	n.local = local
	fb := &faultBackend{Backend: local, latencyUs: n.knobs.StorageLatencyUs, dstPrefix: cqDB + "/" + cqDst + "/", srcPrefix: cqDB + "/" + cqSrc + "/"}
	if n.fb != nil {
		fb.SrcFiles = n.fb.SrcFiles
		fb.failFrom, fb.failUntil = n.fb.failFrom, n.fb.failUntil
		fb.FailedDst, fb.FailedSrc, fb.WrittenDst = n.fb.FailedDst, n.fb.FailedSrc, n.fb.WrittenDst
	}
	n.fb = fb
	n.buf = ingest.NewArrowBuffer(n.icfg, fb, harnessLogger())
	// The handler only uses its backend to compute the read_parquet path of
	// the source measurement, which needs the concrete *LocalBackend.
	cqh, err := api.NewContinuousQueryHandler(duck(), local, n.buf, n.cqcfg, nil, zerolog.New(n.logs).Level(zerolog.InfoLevel))
	if err != nil {
		panic(fmt.Sprintf("HARNESS cq handler: %v", err))
	}
	n.cqh = cqh
	sched, err := scheduler.NewCQScheduler(&scheduler.CQSchedulerConfig{CQHandler: cqh, LicenseClient: license.VerifLicensedClient(), Logger: harnessLogger()})
	if err != nil {
		panic(fmt.Sprintf("HARNESS cq scheduler: %v", err))
	}
	if err := sched.Start(); err != nil {
		panic(fmt.Sprintf("HARNESS cq scheduler start: %v", err))
	}
	cqh.SetScheduler(sched)
	n.sched = sched
	app := fiber.New(fiber.Config{DisableStartupMessage: true})
	cqh.RegisterRoutes(app)
	n.handler = app.Handler()
	n.up = true
}

// shutdown is the graceful stop in the order of main()'s shutdown priorities:
// scheduler, then ingest buffer, then the CQ database.
func (n *node) shutdown() {
	n.sched.Stop()
	n.buf.Close()
	n.cqh.Close()
	n.up = false
}

// onNode runs f as a task of the node and waits for it; false when the node
// died while f was running.
func (n *node) onNode(what string, f func()) bool {
	done := false
	h := simrt.GoOn(what, n.sn, func() { f(); done = true })
	simrt.Join(h)
	return done
}

// call issues an in-process HTTP request (must run on a node task).
func (n *node) call(method, path string, body any) (int, []byte) {
	var ctx fasthttp.RequestCtx
	ctx.Init(&fasthttp.Request{}, nil, nil)
	ctx.Request.Header.SetMethod(method)
	ctx.Request.SetRequestURI(path)
	if body != nil {
		b, err := json.Marshal(body)
		if err != nil {
			panic(err)
		}
		ctx.Request.Header.Set("Content-Type", "application/json")
		ctx.Request.SetBodyRaw(b)
	}
	n.handler(&ctx)
	rb := append([]byte(nil), ctx.Response.Body()...)
	return ctx.Response.StatusCode(), rb
}

// ---------------------------------------------------------------------------
// read-back of the destination measurement with arrow-go's pqarrow

func readParquetFile(path string) ([]map[string]any, error) {
	b, err := os.ReadFile(path)
	if err != nil {
		return nil, err
	}
	return parseParquet(b)
}

func parseParquet(b []byte) ([]map[string]any, error) {
	rdr, err := file.NewParquetReader(bytes.NewReader(b))
	if err != nil {
		return nil, fmt.Errorf("open parquet: %w", err)
	}
	defer rdr.Close()
	fr, err := pqarrow.NewFileReader(rdr, pqarrow.ArrowReadProperties{}, memory.DefaultAllocator)
	if err != nil {
		return nil, err
	}
	tbl, err := fr.ReadTable(context.Background())
	if err != nil {
		return nil, err
	}
	defer tbl.Release()
	rows := make([]map[string]any, int(tbl.NumRows()))
	for i := range rows {
		rows[i] = map[string]any{}
	}
	for ci := 0; ci < int(tbl.NumCols()); ci++ {
		col := tbl.Column(ci)
		off := 0
		for _, chunk := range col.Data().Chunks() {
			for i := 0; i < chunk.Len(); i++ {
				rows[off+i][col.Name()] = cell(chunk, i)
			}
			off += chunk.Len()
		}
	}
	return rows, nil
}

func cell(a arrow.Array, i int) any {
	if a.IsNull(i) {
		return nil
	}
	switch x := a.(type) {
	case *array.Int64:
		return x.Value(i)
	case *array.Float64:
		return x.Value(i)
	case *array.String:
		return x.Value(i)
	case *array.LargeString:
		return x.Value(i)
	case *array.Binary:
		return string(x.Value(i))
	case *array.Boolean:
		return x.Value(i)
	case *array.Timestamp:
		u := x.DataType().(*arrow.TimestampType).Unit
		v := int64(x.Value(i))
		switch u {
		case arrow.Second:
			return v * 1_000_000
		case arrow.Millisecond:
			return v * 1000
		case arrow.Microsecond:
			return v
		default:
			return v / 1000
		}
	case *array.Dictionary:
		return cell(x.Dictionary(), x.GetValueIndex(i))
	default:
		return fmt.Sprintf("%v", a.ValueStr(i))
	}
}

// readMeasurement returns every stored row of <db>/<meas>, files in sorted order.
func (n *node) readMeasurement(db, meas string) ([]map[string]any, error) {
	dir := filepath.Join(n.dataDir, db, meas)
	var files []string
	err := filepath.WalkDir(dir, func(p string, d os.DirEntry, err error) error {
		if err != nil {
			if os.IsNotExist(err) {
				return nil
			}
			return err
		}
		if !d.IsDir() && strings.HasSuffix(p, ".parquet") {
			files = append(files, p)
		}
		return nil
	})
	if err != nil {
		return nil, err
	}
	sort.Strings(files)
	var out []map[string]any
	for _, f := range files {
		rows, err := readParquetFile(f)
		if err != nil {
			rel, _ := filepath.Rel(n.dataDir, f)
			return nil, fmt.Errorf("%s: %w", rel, err)
		}
		out = append(out, rows...)
	}
	return out, nil
}
