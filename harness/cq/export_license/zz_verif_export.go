//go:build verif

package license

// VerifLicensedClient returns a client that holds an installed, valid licence
// (what a successful verification against the licence server leaves behind).
// The licence server itself is outside the simulation.
func VerifLicensedClient() *Client {
	return &Client{
		offline: true,
		source:  "file",
		license: &License{LicenseKey: "verif", CustomerID: "verif", Tier: TierEnterprise, Status: "active",
			Features: []string{FeatureCQScheduler}},
		stopCh: make(chan struct{}),
	}
}
