//go:build verif

// Area walfile: property C06 (the WAL reader returns only intact entries in
// append order). The real wal.Writer produces the files under the simulator;
// every truncation offset and a dense set of single-byte corruptions of each
// file is then fed to the real Reader and Recovery.
package main

import (
	"context"
	"fmt"
	"io"
	"math"
	"os"
	"path/filepath"
	"reflect"
	"sort"
	"strings"
	"sync/atomic"
	"time"

	"github.com/Basekick-Labs/msgpack/v6"
	"github.com/rs/zerolog"

	"github.com/basekick-labs/arc/internal/simrt"
	"github.com/basekick-labs/arc/internal/verifsim/simkit"
	"github.com/basekick-labs/arc/internal/wal"
)

type Append struct {
	Kind string `json:"kind"` // meta (AppendRawWithMeta) | raw (AppendRaw columnar) | rows (Append)
	DB   string `json:"db"`
	Meas string `json:"meas"`
	N    int    `json:"n"`    // rows
	Pad  int    `json:"pad"`  // length of a string column value (controls payload size)
	Seed int64  `json:"seed"` // value seed
}

type C06Plan struct {
	Appends  []Append `json:"appends"`
	MaxBytes int64    `json:"max_bytes"` // rotation size
	Double   bool     `json:"double"`    // thorough: also double faults
}

var quiet = zerolog.New(io.Discard).Level(zerolog.Disabled)
var seq atomic.Int64

func scratch() string {
	b := os.Getenv("VERIF_SCRATCH")
	if b == "" {
		b = "/dev/shm"
	}
	d := filepath.Join(b, fmt.Sprintf("verif-wal.%d.%d", os.Getpid(), seq.Add(1)))
	os.RemoveAll(d)
	os.MkdirAll(d, 0o755)
	return d
}

func genC06(r *simrt.Rand, tier string) any {
	p := &C06Plan{MaxBytes: []int64{120, 300, 1 << 20}[r.Intn(3)], Double: tier == "thorough" && r.Chance(30)}
	n := 1 + r.Intn(8)
	pads := []int{0, 1, 5, 30, 120}
	if tier != "thorough" {
		// quick tier: smaller logs, more of them (each log costs one read per fault position)
		n = 1 + r.Intn(5)
		pads = []int{0, 1, 5, 30}
	}
	dbs := []string{"", "a", "alpha", "bravo-db", strings.Repeat("x", 40), strings.Repeat("y", 255)}
	for i := 0; i < n; i++ {
		a := Append{Kind: []string{"meta", "meta", "raw", "rows"}[r.Intn(4)], DB: dbs[r.Intn(len(dbs))], Meas: []string{"cpu", "m", "mem_total"}[r.Intn(3)],
			N: 1 + r.Intn(3), Pad: pads[r.Intn(len(pads))], Seed: int64(r.Intn(1 << 30))}
		p.Appends = append(p.Appends, a)
	}
	return p
}

// object builds the logical content of an append.
func (a Append) columnar() map[string]interface{} {
	cols := map[string]interface{}{}
	tc, vc, sc := make([]interface{}, a.N), make([]interface{}, a.N), make([]interface{}, a.N)
	for i := 0; i < a.N; i++ {
		tc[i] = int64(1772361000000000) + a.Seed + int64(i)
		vc[i] = float64(a.Seed%1000) + float64(i)/4
		sc[i] = fmt.Sprintf("s%d-%s", a.Seed+int64(i), strings.Repeat("p", a.Pad))
	}
	cols["time"], cols["v"], cols["s"] = tc, vc, sc
	return map[string]interface{}{"m": a.Meas, "columns": cols}
}

func (a Append) rows() []map[string]interface{} {
	var out []map[string]interface{}
	for i := 0; i < a.N; i++ {
		out = append(out, map[string]interface{}{"_database": a.DB, "_measurement": a.Meas, "time": int64(1772361000000000) + a.Seed + int64(i),
			"v": float64(a.Seed%1000) + float64(i)/4, "s": fmt.Sprintf("s%d-%s", a.Seed+int64(i), strings.Repeat("p", a.Pad)), "ok": i%2 == 0})
	}
	return out
}

func mpMarshal(v interface{}) []byte {
	b, err := msgpack.Marshal(v)
	if err != nil {
		panic(err)
	}
	return b
}

// norm converts a decoded or original value to a canonical comparable form.
func norm(v interface{}) interface{} {
	switch x := v.(type) {
	case nil:
		return nil
	case map[string]interface{}:
		o := map[string]interface{}{}
		for k, e := range x {
			o[k] = norm(e)
		}
		return o
	case map[string][]interface{}:
		o := map[string]interface{}{}
		for k, e := range x {
			o[k] = norm(e)
		}
		return o
	case []interface{}:
		o := make([]interface{}, len(x))
		for i, e := range x {
			o[i] = norm(e)
		}
		return o
	case []map[string]interface{}:
		o := make([]interface{}, len(x))
		for i, e := range x {
			o[i] = norm(e)
		}
		return o
	case int:
		return int64(x)
	case int8:
		return int64(x)
	case int16:
		return int64(x)
	case int32:
		return int64(x)
	case int64:
		return x
	case uint8:
		return int64(x)
	case uint16:
		return int64(x)
	case uint32:
		return int64(x)
	case uint64:
		return int64(x)
	case uint:
		return int64(x)
	case float32:
		return float64(x)
	case float64:
		if x == math.Trunc(x) && math.Abs(x) < 1e15 {
			return x
		}
		return x
	case []byte:
		return string(x)
	}
	return v
}

// logical is what the reader must hand back for an appended entry.
type logical struct {
	kind string // "col" or "rows"
	db   string
	obj  interface{}
}

func (a Append) logical() logical {
	switch a.Kind {
	case "meta":
		c := a.columnar()
		return logical{kind: "col", db: a.DB, obj: norm(map[string]interface{}{"m": c["m"], "columns": c["columns"]})}
	case "raw":
		c := a.columnar()
		return logical{kind: "col", db: "", obj: norm(map[string]interface{}{"m": c["m"], "columns": c["columns"]})}
	default:
		return logical{kind: "rows", obj: norm(a.rows())}
	}
}

func entryLogical(e wal.Entry) logical {
	if e.ColumnarData != nil {
		return logical{kind: "col", db: strings.Clone(e.ColumnarData.Database), obj: norm(map[string]interface{}{"m": e.ColumnarData.Measurement, "columns": e.ColumnarData.Columns})}
	}
	return logical{kind: "rows", obj: norm(e.Records)}
}

func same(a, b logical) bool {
	return a.kind == b.kind && a.db == b.db && reflect.DeepEqual(a.obj, b.obj)
}

type fileInfo struct {
	path    string
	data    []byte
	entries []int // indexes into plan.Appends, in file order
	ends    []int // end offset of each entry in this file
}

// produce runs the real Writer under the simulator and returns the files in
// creation order with the entries each one holds.
func produce(p *C06Plan, cfg simrt.Config, dir string) ([]fileInfo, simrt.Result, error) {
	var werr error
	res := simrt.Run(cfg, func() {
		simrt.SetPathRoot(dir)
		w, err := wal.NewWriter(&wal.WriterConfig{WALDir: dir, SyncMode: wal.SyncModeFdatasync, MaxSizeBytes: p.MaxBytes, MaxAge: time.Hour, BufferSize: 1000, Logger: quiet})
		if err != nil {
			werr = err
			return
		}
		for _, a := range p.Appends {
			switch a.Kind {
			case "meta":
				err = w.AppendRawWithMeta(a.DB, mpMarshal(a.columnar()))
			case "raw":
				err = w.AppendRaw(mpMarshal(a.columnar()))
			default:
				err = w.Append(a.rows())
			}
			if err != nil {
				werr = err
				return
			}
			simrt.Sleep(time.Millisecond) // distinct rotation timestamps
		}
		if err := w.Close(); err != nil {
			werr = err
		}
	})
	if werr != nil {
		return nil, res, werr
	}
	names, _ := filepath.Glob(filepath.Join(dir, "*.wal"))
	sort.Strings(names) // file names carry the creation timestamp
	var files []fileInfo
	next := 0
	for _, nm := range names {
		b, err := os.ReadFile(nm)
		if err != nil {
			return nil, res, err
		}
		fi := fileInfo{path: nm, data: b}
		off := 7
		for off+16 <= len(b) {
			n := int(uint32(b[off])<<24 | uint32(b[off+1])<<16 | uint32(b[off+2])<<8 | uint32(b[off+3]))
			if off+16+n > len(b) {
				return nil, res, fmt.Errorf("writer produced an incomplete entry in %s", nm)
			}
			off += 16 + n
			fi.entries = append(fi.entries, next)
			fi.ends = append(fi.ends, off)
			next++
		}
		if off != len(b) {
			return nil, res, fmt.Errorf("trailing bytes in %s", nm)
		}
		files = append(files, fi)
	}
	if next != len(p.Appends) {
		return nil, res, fmt.Errorf("writer stored %d entries, %d were appended", next, len(p.Appends))
	}
	return files, res, nil
}

func readFile(path string) (ents []wal.Entry, err error, panicked interface{}) {
	defer func() {
		if r := recover(); r != nil {
			panicked = r
		}
	}()
	ents, err = wal.NewReader(path, quiet).ReadAll()
	return
}

func runC06(planAny any, cfg simrt.Config) *simkit.Outcome {
	p := planAny.(*C06Plan)
	out := &simkit.Outcome{}
	dir := scratch()
	defer os.RemoveAll(dir)
	files, res, err := produce(p, cfg, dir)
	out.Absorb(res)
	if len(res.Panics) > 0 {
		out.Violate("C06.writer-panic", "%s", res.Panics[0])
		return out
	}
	if err != nil {
		out.Violate("C06.writer-output-malformed", "%v", err)
		return out
	}
	want := make([]logical, len(p.Appends))
	for i, a := range p.Appends {
		want[i] = a.logical()
	}
	work := filepath.Join(dir, "mut")
	os.MkdirAll(work, 0o755)
	mpath := filepath.Join(work, "m.wal")
	evals := int64(0)
	// check verifies one mutated image of file fi.
	check := func(fi *fileInfo, img []byte, what string, truncAt int) bool {
		evals++
		if err := os.WriteFile(mpath, img, 0o600); err != nil {
			panic(err)
		}
		ents, rerr, pv := readFile(mpath)
		if pv != nil {
			out.Violate("C06.reader-panic", "%s: reader panicked: %v", what, pv)
			return false
		}
		_ = rerr
		// returned entries must be a subsequence of this file's appended entries
		j := 0
		var matched []int
		for ri, e := range ents {
			le := entryLogical(e)
			found := false
			for j < len(fi.entries) {
				if same(le, want[fi.entries[j]]) {
					matched = append(matched, j)
					j++
					found = true
					break
				}
				j++
			}
			if !found {
				// is it equal to an earlier entry (reordered/duplicated) or to nothing (altered/fabricated)?
				kind := "altered-or-fabricated"
				for _, ei := range fi.entries {
					if same(le, want[ei]) {
						kind = "reordered-or-duplicated"
					}
				}
				out.Violate("C06."+kind+"-entry", "%s: returned entry #%d (db=%q) is not the next intact appended entry", what, ri, le.db)
				return false
			}
		}
		if truncAt >= 0 {
			// every entry completely before the truncation point must be returned
			need := 0
			for _, e := range fi.ends {
				if e <= truncAt {
					need++
				}
			}
			if len(matched) < need {
				out.Violate("C06.truncation-hides-complete-entry", "%s: %d entries lie completely before the truncation point, %d were returned", what, need, len(matched))
				return false
			}
			for k := 0; k < need; k++ {
				if matched[k] != k {
					out.Violate("C06.truncation-hides-complete-entry", "%s: entry %d (complete before the truncation point) was not returned", what, k)
					return false
				}
			}
		}
		return true
	}
	for fidx := range files {
		fi := &files[fidx]
		n := len(fi.data)
		if !check(fi, fi.data, fmt.Sprintf("file %d intact", fidx), n) {
			break
		}
		// every truncation offset
		for t := 0; t < n; t++ {
			if !check(fi, fi.data[:t], fmt.Sprintf("file %d truncated at %d/%d", fidx, t, n), t) {
				goto done
			}
		}
		// single-byte corruptions
		img := make([]byte, n)
		hdr := map[int]bool{}
		off := 7
		for _, e := range fi.ends {
			for k := 0; k < 16+6 && off+k < e; k++ {
				hdr[off+k] = true // length, timestamp, crc, first payload bytes (envelope marker + db length)
			}
			off = e
		}
		for pos := 0; pos < n; pos++ {
			xs := []byte{0x01, 0x80, 0xff}
			if hdr[pos] || pos < 7 {
				if n <= 700 {
					xs = xs[:0]
					for x := 1; x < 256; x++ {
						xs = append(xs, byte(x))
					}
				} else {
					xs = []byte{0x01, 0x02, 0x10, 0x40, 0x80, 0xff, 0x7f}
				}
			}
			for _, x := range xs {
				// a corrupted length that asks for tens of MB is legal for the reader; skip the
				// two top length bytes' high values only for speed when they make >32MB reads
				copy(img, fi.data)
				img[pos] ^= x
				if !check(fi, img, fmt.Sprintf("file %d byte %d xor %#x", fidx, pos, x), -1) {
					goto done
				}
			}
		}
		if p.Double {
			r := simrt.NewRand(uint64(n)*7919 + uint64(fidx))
			for k := 0; k < 300; k++ {
				copy(img, fi.data)
				a, b := r.Intn(n), r.Intn(n)
				img[a] ^= byte(1 + r.Intn(255))
				img[b] ^= byte(1 + r.Intn(255))
				t := r.Intn(n + 1)
				if !check(fi, img[:t], fmt.Sprintf("file %d bytes %d,%d flipped, truncated at %d", fidx, a, b, t), -1) {
					goto done
				}
			}
		}
	}
	// Recovery over the whole directory: intact files, last file truncated at every entry boundary ± 1
	if len(out.Violations) == 0 {
		checkRecovery(out, p, files, want, dir, &evals)
	}
done:
	out.Evals = evals
	out.Stats["probe.files"] += int64(len(files))
	out.Stats["fault.truncation_or_corruption_positions"] += evals
	out.Nontrivial = len(p.Appends) > 0
	return out
}

// checkRecovery runs wal.Recovery on copies of all files with the newest file
// truncated, and checks the replayed stream: order across files, nothing
// fabricated, complete entries not hidden.
func checkRecovery(out *simkit.Outcome, p *C06Plan, files []fileInfo, want []logical, dir string, evals *int64) {
	if len(files) == 0 {
		return
	}
	last := files[len(files)-1]
	cuts := map[int]bool{len(last.data): true}
	for _, e := range last.ends {
		for _, d := range []int{-1, 0, 1, 9} {
			if c := e + d; c >= 0 && c <= len(last.data) {
				cuts[c] = true
			}
		}
	}
	var cl []int
	for c := range cuts {
		cl = append(cl, c)
	}
	sort.Ints(cl)
	for _, cut := range cl {
		*evals++
		rdir := filepath.Join(dir, "rec")
		os.RemoveAll(rdir)
		os.MkdirAll(rdir, 0o755)
		base := time.Now().Add(-time.Hour)
		for i, f := range files {
			data := f.data
			if i == len(files)-1 {
				data = data[:cut]
			}
			pth := filepath.Join(rdir, filepath.Base(f.path))
			os.WriteFile(pth, data, 0o600)
			mt := base.Add(time.Duration(i) * time.Second)
			os.Chtimes(pth, mt, mt)
		}
		var got []logical
		rec := wal.NewRecovery(rdir, quiet)
		_, err := rec.RecoverWithOptions(context.Background(), func(ctx context.Context, records []map[string]interface{}) error {
			got = append(got, logical{kind: "rows", obj: norm(records)})
			return nil
		}, &wal.RecoveryOptions{ColumnarCallback: func(ctx context.Context, database, measurement string, columns map[string][]interface{}) error {
			got = append(got, logical{kind: "col", db: strings.Clone(database), obj: norm(map[string]interface{}{"m": measurement, "columns": columns})})
			return nil
		}})
		if err != nil {
			out.Violate("C06.recovery-error", "recovery failed on a truncated tail: %v", err)
			return
		}
		need := 0
		for i, f := range files {
			for _, e := range f.ends {
				if i < len(files)-1 || e <= cut {
					need++
				}
			}
		}
		if len(got) != need {
			out.Violate("C06.recovery-entry-count", "recovery replayed %d entries, %d are complete in the files (newest file cut at %d)", len(got), need, cut)
			return
		}
		for i := range got {
			if !same(got[i], want[i]) {
				out.Violate("C06.recovery-altered-or-reordered", "recovery replayed entry %d differently from what was appended (db %q vs %q)", i, got[i].db, want[i].db)
				return
			}
		}
	}
}

func shrinkC06(planAny any) []any {
	p := planAny.(*C06Plan)
	var out []any
	for i := range p.Appends {
		if len(p.Appends) > 1 {
			q := *p
			q.Appends = append(append([]Append(nil), p.Appends[:i]...), p.Appends[i+1:]...)
			out = append(out, &q)
		}
	}
	for i, a := range p.Appends {
		if a.N > 1 || a.Pad > 0 {
			q := *p
			q.Appends = append([]Append(nil), p.Appends...)
			q.Appends[i].N, q.Appends[i].Pad = 1, 0
			out = append(out, &q)
		}
	}
	return out
}

func descC06(planAny any) any {
	p := planAny.(*C06Plan)
	var s []string
	for _, a := range p.Appends {
		s = append(s, fmt.Sprintf("%s(db=%q,m=%s,rows=%d,pad=%d)", a.Kind, a.DB, a.Meas, a.N, a.Pad))
	}
	return map[string]any{"appends": s, "rotate_at": p.MaxBytes, "faults": "every truncation offset + single-byte corruptions of every byte (all 255 values on header bytes)"}
}

func main() {
	zerolog.SetGlobalLevel(zerolog.Disabled)
	simkit.Main(&simkit.Check{ID: "C06", Gen: genC06, New: func() any { return &C06Plan{} }, Run: runC06, Shrink: shrinkC06, Desc: descC06})
}
