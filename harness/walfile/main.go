//go:build verif

// Area walfile: property C06 (the WAL reader returns only intact entries in
// append order). The real wal.Writer produces the files under the simulator;
// every truncation offset and a dense set of single-byte corruptions of each
// file is then fed to the real Reader and Recovery.
//
// Every plan first produces the same appends again and again with a transient
// I/O fault on the LIVE writer: every WAL fs operation of the log in turn (a
// write that fails after some bytes landed or fails outright, a creation or
// truncation of a *.wal file that fails), alone and together with the
// operation right after it; the writer keeps appending afterwards, and the
// files are then read back (intact, cut at every entry/fragment boundary, and
// through Recovery). What the writer put where is taken from the fs operation
// log (writes and truncations), not from parsing the file, so "completely
// written" is ground truth. Then, by plan mode:
//   - mode "bytes": every truncation offset and a dense set of single-byte
//     corruptions of each fault-free file (the original, expensive check);
//   - mode "wfaults": all chains of two live-writer faults within the writer's
//     error path, optionally chains of three (cheap, many logs).
package main

import (
	"bytes"
	"context"
	"encoding/binary"
	"fmt"
	"io"
	"math"
	"os"
	"path/filepath"
	"reflect"
	"sort"
	"strings"
	"sync/atomic"
	"time"

	"github.com/Basekick-Labs/msgpack/v6"
	"github.com/rs/zerolog"

	"github.com/basekick-labs/arc/internal/simrt"
	"github.com/basekick-labs/arc/internal/verifsim/simkit"
	"github.com/basekick-labs/arc/internal/wal"
)

type Append struct {
	Kind string `json:"kind"` // meta (AppendRawWithMeta) | raw (AppendRaw columnar) | rows (Append)
	DB   string `json:"db"`
	Meas string `json:"meas"`
	N    int    `json:"n"`    // rows
	Pad  int    `json:"pad"`  // length of a string column value (controls payload size)
	Seed int64  `json:"seed"` // value seed
}

// FaultSpec is one transient I/O fault on the live writer. At counts the WAL
// fs operations (writes to, creations of and truncations of *.wal files) after
// NewWriter returned (first fault of a chain) or after the previous fault of
// the chain fired. A creation or truncation fails with Err; a write of N bytes
// lets min(Short, N-1) bytes land and then fails with Err (Short 0: nothing
// lands).
type FaultSpec struct {
	At    int    `json:"at"`
	Short int    `json:"short"`
	Err   string `json:"err"` // enospc | eio | short (io.ErrShortWrite)
}

type C06Plan struct {
	Appends  []Append `json:"appends"`
	MaxBytes int64    `json:"max_bytes"` // rotation size
	Double   bool     `json:"double"`    // thorough: also double faults
	// Mode "" / "bytes": truncation + corruption enumeration of fault-free files.
	// Mode "wfaults": enumeration of live-writer I/O faults (see package comment).
	Mode  string `json:"mode,omitempty"`
	Pairs bool   `json:"pairs,omitempty"` // wfaults: also chains of two faults
	// wfaults: also chains of three faults (a failed write, then two of the
	// operations of the writer's own error path fail as well)
	Triples bool `json:"triples,omitempty"`
	// Only, when set, replaces the enumeration by this one chain (minimised replays).
	Only []FaultSpec `json:"only,omitempty"`
}

var quiet = zerolog.New(io.Discard).Level(zerolog.Disabled)
var seq atomic.Int64

func scratch() string {
	b := os.Getenv("VERIF_SCRATCH")
	if b == "" {
		b = "/dev/shm"
	}
	d := filepath.Join(b, fmt.Sprintf("verif-wal.%d.%d", os.Getpid(), seq.Add(1)))
	os.RemoveAll(d)
	os.MkdirAll(d, 0o755)
	return d
}

func genC06(r *simrt.Rand, tier string) any {
	p := &C06Plan{MaxBytes: []int64{120, 300, 1 << 20}[r.Intn(3)], Double: tier == "thorough" && r.Chance(30)}
	n := 1 + r.Intn(8)
	pads := []int{0, 1, 5, 30, 120}
	if tier != "thorough" {
		// quick tier: smaller logs, more of them (each log costs one read per fault position)
		n = 1 + r.Intn(5)
		pads = []int{0, 1, 5, 30}
	}
	dbs := []string{"", "a", "alpha", "bravo-db", strings.Repeat("x", 40), strings.Repeat("y", 255)}
	for i := 0; i < n; i++ {
		a := Append{Kind: []string{"meta", "meta", "raw", "rows"}[r.Intn(4)], DB: dbs[r.Intn(len(dbs))], Meas: []string{"cpu", "m", "mem_total"}[r.Intn(3)],
			N: 1 + r.Intn(3), Pad: pads[r.Intn(len(pads))], Seed: int64(r.Intn(1 << 30))}
		p.Appends = append(p.Appends, a)
	}
	// half of the plans exercise the live writer under I/O faults (cheap: no
	// byte-corruption enumeration), the other half the byte-level fault space
	if r.Chance(50) {
		p.Mode = "wfaults"
		p.Pairs = r.Chance(70)
		p.Triples = p.Pairs && r.Chance(40)
	}
	return p
}

// object builds the logical content of an append.
func (a Append) columnar() map[string]interface{} {
	cols := map[string]interface{}{}
	tc, vc, sc := make([]interface{}, a.N), make([]interface{}, a.N), make([]interface{}, a.N)
	for i := 0; i < a.N; i++ {
		tc[i] = int64(1772361000000000) + a.Seed + int64(i)
		vc[i] = float64(a.Seed%1000) + float64(i)/4
		sc[i] = fmt.Sprintf("s%d-%s", a.Seed+int64(i), strings.Repeat("p", a.Pad))
	}
	cols["time"], cols["v"], cols["s"] = tc, vc, sc
	return map[string]interface{}{"m": a.Meas, "columns": cols}
}

func (a Append) rows() []map[string]interface{} {
	var out []map[string]interface{}
	for i := 0; i < a.N; i++ {
		out = append(out, map[string]interface{}{"_database": a.DB, "_measurement": a.Meas, "time": int64(1772361000000000) + a.Seed + int64(i),
			"v": float64(a.Seed%1000) + float64(i)/4, "s": fmt.Sprintf("s%d-%s", a.Seed+int64(i), strings.Repeat("p", a.Pad)), "ok": i%2 == 0})
	}
	return out
}

func mpMarshal(v interface{}) []byte {
	b, err := msgpack.Marshal(v)
	if err != nil {
		panic(err)
	}
	return b
}

// norm converts a decoded or original value to a canonical comparable form.
func norm(v interface{}) interface{} {
	switch x := v.(type) {
	case nil:
		return nil
	case map[string]interface{}:
		o := map[string]interface{}{}
		for k, e := range x {
			o[k] = norm(e)
		}
		return o
	case map[string][]interface{}:
		o := map[string]interface{}{}
		for k, e := range x {
			o[k] = norm(e)
		}
		return o
	case []interface{}:
		o := make([]interface{}, len(x))
		for i, e := range x {
			o[i] = norm(e)
		}
		return o
	case []map[string]interface{}:
		o := make([]interface{}, len(x))
		for i, e := range x {
			o[i] = norm(e)
		}
		return o
	case int:
		return int64(x)
	case int8:
		return int64(x)
	case int16:
		return int64(x)
	case int32:
		return int64(x)
	case int64:
		return x
	case uint8:
		return int64(x)
	case uint16:
		return int64(x)
	case uint32:
		return int64(x)
	case uint64:
		return int64(x)
	case uint:
		return int64(x)
	case float32:
		return float64(x)
	case float64:
		if x == math.Trunc(x) && math.Abs(x) < 1e15 {
			return x
		}
		return x
	case []byte:
		return string(x)
	}
	return v
}

// logical is what the reader must hand back for an appended entry.
type logical struct {
	kind string // "col" or "rows"
	db   string
	obj  interface{}
}

func (a Append) logical() logical {
	switch a.Kind {
	case "meta":
		c := a.columnar()
		return logical{kind: "col", db: a.DB, obj: norm(map[string]interface{}{"m": c["m"], "columns": c["columns"]})}
	case "raw":
		c := a.columnar()
		return logical{kind: "col", db: "", obj: norm(map[string]interface{}{"m": c["m"], "columns": c["columns"]})}
	default:
		return logical{kind: "rows", obj: norm(a.rows())}
	}
}

func entryLogical(e wal.Entry) logical {
	if e.ColumnarData != nil {
		return logical{kind: "col", db: strings.Clone(e.ColumnarData.Database), obj: norm(map[string]interface{}{"m": e.ColumnarData.Measurement, "columns": e.ColumnarData.Columns})}
	}
	return logical{kind: "rows", obj: norm(e.Records)}
}

func same(a, b logical) bool {
	return a.kind == b.kind && a.db == b.db && reflect.DeepEqual(a.obj, b.obj)
}

type fileInfo struct {
	path    string
	data    []byte
	entries []int    // indexes into plan.Appends of the completely written entries, in file order
	starts  []int    // start offset of each of them
	ends    []int    // end offset of each of them
	fired   []int    // how many injected writer faults had fired when that entry was written
	firedT  []int    // how many of those were failed truncations
	frags   [][2]int // byte ranges left behind by writes that failed part-way
	// lo..hi: the appended entries any of whose bytes may be in this file (those
	// completely written here plus those a failed write left a fragment of).
	// A fragment can be completed by the bytes that follow it (e.g. all but a
	// final 0x00 landed and the next record starts with 0x00), and the reader
	// then returns a byte-identical appended entry: legitimate.
	lo, hi int
}

// wrec is one write the writer issued to a WAL file (from the fs operation log).
type wrec struct {
	file   string // base name
	off    int    // file size before the write (files are opened O_APPEND)
	n      int    // bytes requested
	landed int    // bytes that reached the file
	fired  int    // injected faults fired so far (this write included)
	firedT int    // failed truncations among them
	trunc  bool   // not a write: the file was truncated to off bytes
	data   []byte // what a complete write put into the file (read back right after the write)
}

type opInfo struct {
	kind string // write | create | truncate
	n    int
	off  int
}

// wstate follows every write to / creation of a *.wal file of one production
// and injects the plan's fault chain.
type wstate struct {
	sizes  map[string]int
	writes []wrec
	armed  bool     // NewWriter has returned
	ops    []opInfo // operations seen since armed
	chain  []FaultSpec
	next   int // next fault of the chain
	cnt    int // operations seen since the previous fault fired
	fired  int
	firedT int
	desc   []string
}

// observe runs after every fs operation: a successful truncation changes what
// the file holds (the operation record does not carry the new size: ask the
// file system).
func (st *wstate) observe(op *simrt.FSOp, err error) {
	if err != nil || !strings.HasSuffix(op.Path, ".wal") {
		return
	}
	if op.Kind == "write" && len(st.writes) > 0 {
		// keep the bytes of a complete write: a later truncation may cut them again
		if last := &st.writes[len(st.writes)-1]; !last.trunc && last.landed == last.n && last.data == nil && last.file == filepath.Base(op.Path) {
			f, oerr := os.Open(op.Path)
			if oerr != nil {
				panic("HARNESS-ERROR open after write: " + oerr.Error())
			}
			last.data = make([]byte, last.n)
			if _, rerr := f.ReadAt(last.data, int64(last.off)); rerr != nil {
				panic("HARNESS-ERROR read back after write: " + rerr.Error())
			}
			f.Close()
		}
		return
	}
	if op.Kind != "truncate" {
		return
	}
	info, serr := os.Stat(op.Path)
	if serr != nil {
		panic("HARNESS-ERROR stat after truncate: " + serr.Error())
	}
	file := filepath.Base(op.Path)
	st.sizes[file] = int(info.Size())
	st.writes = append(st.writes, wrec{file: file, off: int(info.Size()), trunc: true})
}

func errOf(name string, total bool) error {
	switch name {
	case "enospc":
		return simrt.ENOSPC
	case "eio":
		return simrt.EIO
	}
	if total {
		return simrt.EIO // "short" has no meaning for an operation that does nothing
	}
	return nil // simrt reports io.ErrShortWrite
}

func (st *wstate) inject(op *simrt.FSOp) simrt.FSAction {
	if !strings.HasSuffix(op.Path, ".wal") || (op.Kind != "write" && op.Kind != "create" && op.Kind != "truncate") {
		return simrt.FSAction{}
	}
	file := filepath.Base(op.Path)
	off := st.sizes[file]
	landed := op.N
	var act simrt.FSAction
	if st.armed {
		st.ops = append(st.ops, opInfo{kind: op.Kind, n: op.N, off: off})
		if st.next < len(st.chain) {
			if st.cnt == st.chain[st.next].At {
				f := st.chain[st.next]
				st.next++
				st.cnt = 0
				st.fired++
				if op.Kind == "create" {
					act = simrt.FSAction{Err: errOf(f.Err, true)}
					simrt.Count("fault.wal_create_error", 1)
					st.desc = append(st.desc, fmt.Sprintf("creation of a new WAL file fails (%v)", act.Err))
				} else if op.Kind == "truncate" {
					act = simrt.FSAction{Err: errOf(f.Err, true)}
					st.firedT++
					simrt.Count("fault.wal_truncate_error", 1)
					st.desc = append(st.desc, fmt.Sprintf("truncation of the %d-byte WAL file fails (%v)", off, act.Err))
				} else {
					s := f.Short
					if s > op.N-1 {
						s = op.N - 1
					}
					if s <= 0 {
						act = simrt.FSAction{Err: errOf(f.Err, true)}
						landed = 0
						simrt.Count("fault.wal_write_error", 1)
						st.desc = append(st.desc, fmt.Sprintf("write of %d bytes at offset %d fails with nothing written (%v)", op.N, off, act.Err))
					} else {
						act = simrt.FSAction{Err: errOf(f.Err, false), Short: s}
						landed = s
						simrt.Count("fault.wal_partial_write", 1)
						if off == 7 {
							simrt.Count("probe.partial_write_of_first_entry_of_file", 1)
						}
						st.desc = append(st.desc, fmt.Sprintf("write of %d bytes at offset %d fails after %d bytes (%s)", op.N, off, s, f.Err))
					}
				}
				simrt.Event("WFAULT %s", st.desc[len(st.desc)-1])
			} else {
				st.cnt++
			}
		}
	}
	if op.Kind == "write" {
		st.writes = append(st.writes, wrec{file: file, off: off, n: op.N, landed: landed, fired: st.fired, firedT: st.firedT})
		st.sizes[file] = off + landed
	}
	return act
}

type production struct {
	files     []fileInfo
	res       simrt.Result
	st        *wstate
	malformed error // the writer's output is not what a correct writer leaves behind
	lost      int   // appended entries that were never completely written (only legitimate under faults)
}

// produce runs the real Writer under the simulator (with the given chain of
// transient I/O faults) and returns the files in creation order with the
// entries and fragments each one holds.
func produce(p *C06Plan, cfg simrt.Config, dir string, chain []FaultSpec, want []logical) *production {
	pr := &production{st: &wstate{sizes: map[string]int{}, chain: chain}}
	st := pr.st
	payloads := make([][]byte, len(p.Appends)) // exact payload bytes handed to the writer (meta/raw)
	var werr error
	pr.res = simrt.Run(cfg, func() {
		simrt.SetPathRoot(dir)
		simrt.SetFSInjector(st.inject)
		simrt.SetFSObserver(st.observe)
		w, err := wal.NewWriter(&wal.WriterConfig{WALDir: dir, SyncMode: wal.SyncModeFdatasync, MaxSizeBytes: p.MaxBytes, MaxAge: time.Hour, BufferSize: 1000, Logger: quiet})
		if err != nil {
			werr = err
			return
		}
		st.armed = true
		for i, a := range p.Appends {
			switch a.Kind {
			case "meta":
				mp := mpMarshal(a.columnar())
				env := []byte{0x01, byte(len(a.DB) >> 8), byte(len(a.DB))}
				payloads[i] = append(append(env, a.DB...), mp...)
				err = w.AppendRawWithMeta(a.DB, mp)
			case "raw":
				mp := mpMarshal(a.columnar())
				payloads[i] = mp
				err = w.AppendRaw(mp)
			default:
				err = w.Append(a.rows())
			}
			if err != nil {
				werr = err
				return
			}
			simrt.Sleep(time.Millisecond) // distinct rotation timestamps
		}
		if err := w.Close(); err != nil {
			werr = err
		}
	})
	if werr != nil {
		pr.malformed = werr
		return pr
	}
	names, _ := filepath.Glob(filepath.Join(dir, "*.wal"))
	sort.Strings(names) // file names carry the creation timestamp
	idx := map[string]int{}
	for _, nm := range names {
		b, err := os.ReadFile(nm)
		if err != nil {
			panic(err)
		}
		if len(b) != st.sizes[filepath.Base(nm)] {
			panic(fmt.Sprintf("HARNESS-ERROR fs operation log says %s holds %d bytes, it holds %d", filepath.Base(nm), st.sizes[filepath.Base(nm)], len(b)))
		}
		idx[filepath.Base(nm)] = len(pr.files)
		pr.files = append(pr.files, fileInfo{path: nm, data: b, lo: 0, hi: -1})
	}
	// walk the writes in the order they were issued (= append order: one writer task, FIFO queue)
	next := 0
	var pending []int // files holding a fragment of an entry not identified yet
	for _, wr := range st.writes {
		k, ok := idx[wr.file]
		if !ok {
			panic("HARNESS-ERROR write to a WAL file that does not exist: " + wr.file)
		}
		fi := &pr.files[k]
		switch {
		case wr.trunc:
			// the writer cut the file back to wr.off bytes: what lay beyond is gone
			var frags [][2]int
			for _, fr := range fi.frags {
				if fr[1] > wr.off {
					fr[1] = wr.off
				}
				if fr[0] < fr[1] {
					frags = append(frags, fr)
				}
			}
			fi.frags = frags
			for q := len(fi.ends) - 1; q >= 0 && fi.ends[q] > wr.off; q-- {
				// a completely written entry was cut: it is a fragment now (or gone)
				if fi.starts[q] < wr.off {
					fi.frags = append(fi.frags, [2]int{fi.starts[q], wr.off})
				}
				fi.entries, fi.starts, fi.ends, fi.fired, fi.firedT = fi.entries[:q], fi.starts[:q], fi.ends[:q], fi.fired[:q], fi.firedT[:q]
			}
		case wr.off == 0 && wr.n == 7:
			// file header (possibly cut short: the writer then abandons the file)
		case wr.landed < wr.n:
			if wr.landed > 0 {
				fi.frags = append(fi.frags, [2]int{wr.off, wr.off + wr.landed})
				if fi.hi < fi.lo {
					fi.lo, fi.hi = next, next
				}
				pending = append(pending, k) // a fragment of entry next or of a later one (FIFO)
			}
		default:
			j := identify(wr.data, next, p, payloads, want)
			if j < 0 {
				pr.malformed = fmt.Errorf("the writer wrote a complete %d-byte record at offset %d of file %d (%d bytes) that is not the next appended entry (trailing bytes / incomplete entry / stray header)", wr.n, wr.off, k, len(fi.data))
				return pr
			}
			pr.lost += j - next
			if fi.hi < fi.lo {
				fi.lo = next
			}
			fi.hi = j
			for _, pk := range pending { // the fragments before this write belong to entries <= j
				if pr.files[pk].hi < j {
					pr.files[pk].hi = j
				}
			}
			pending = nil
			next = j + 1
			fi.entries = append(fi.entries, j)
			fi.starts = append(fi.starts, wr.off)
			fi.ends = append(fi.ends, wr.off+wr.n)
			fi.fired = append(fi.fired, wr.fired)
			fi.firedT = append(fi.firedT, wr.firedT)
		}
	}
	for _, pk := range pending {
		pr.files[pk].hi = len(p.Appends) - 1
	}
	pr.lost += len(p.Appends) - next
	if st.fired == 0 && pr.lost > 0 {
		pr.malformed = fmt.Errorf("writer stored %d entries, %d were appended (no I/O fault)", len(p.Appends)-pr.lost, len(p.Appends))
	}
	return pr
}

// identify returns the index (>= from) of the appended entry that frame is the
// complete on-disk form of, or -1.
func identify(frame []byte, from int, p *C06Plan, payloads [][]byte, want []logical) int {
	if len(frame) < 16 || int(binary.BigEndian.Uint32(frame[0:4])) != len(frame)-16 {
		return -1
	}
	payload := frame[16:] // identity is the payload; whether the checksum protects it is the reader's business
	for j := from; j < len(p.Appends); j++ {
		if payloads[j] != nil {
			if bytes.Equal(payloads[j], payload) {
				return j
			}
			continue
		}
		var recs []map[string]interface{}
		if err := msgpack.Unmarshal(payload, &recs); err == nil && same(logical{kind: "rows", obj: norm(recs)}, want[j]) {
			return j
		}
	}
	return -1
}

func layout(files []fileInfo) string {
	var sb strings.Builder
	for i, f := range files {
		type seg struct {
			a, b int
			s    string
		}
		var segs []seg
		for k := range f.entries {
			segs = append(segs, seg{f.starts[k], f.ends[k], fmt.Sprintf("E%d", f.entries[k])})
		}
		for _, fr := range f.frags {
			segs = append(segs, seg{fr[0], fr[1], "partial"})
		}
		sort.Slice(segs, func(x, y int) bool { return segs[x].a < segs[y].a })
		fmt.Fprintf(&sb, " file%d(%dB):", i, len(f.data))
		for _, s := range segs {
			fmt.Fprintf(&sb, "[%s %d..%d]", s.s, s.a, s.b)
		}
	}
	return sb.String()
}

func readFile(path string) (ents []wal.Entry, err error, panicked interface{}) {
	defer func() {
		if r := recover(); r != nil {
			panicked = r
		}
	}()
	ents, err = wal.NewReader(path, quiet).ReadAll()
	return
}

// hiddenRule names the violation "a completely written entry was not returned":
// when a write that failed part-way left a fragment in front of it (only
// possible with live-writer faults) the circumstance is part of the id.
func hiddenRule(fi *fileInfo, k int) string {
	for _, fr := range fi.frags {
		if fr[1] <= fi.starts[k] {
			// the circumstance: how many injected faults it took (counted when the
			// hidden entry was written) and whether a failed truncation is among them
			switch {
			case fi.fired[k] <= 1:
				return "C06.complete-entry-hidden-behind-partial-write.one-transient-fault"
			case fi.firedT[k] == 0:
				return "C06.complete-entry-hidden-behind-partial-write.repeated-faults"
			case fi.fired[k] == 2:
				return "C06.complete-entry-hidden-behind-partial-write.two-faults-including-failed-truncate"
			}
			return "C06.complete-entry-hidden-behind-partial-write.repeated-faults-including-failed-truncate"
		}
	}
	return "C06.truncation-hides-complete-entry"
}

// judge evaluates mutated images of WAL files against the appended entries.
type judge struct {
	out   *simkit.Outcome
	want  []logical
	dir   string
	mpath string
	evals int64
	ctx   string // the live-writer faults of the production under test ("" = none)
	// faulted: a live-writer fault fired, so fragments exist that following bytes
	// may complete; without faults Recovery must replay exactly the complete entries
	faulted bool
}

func newJudge(out *simkit.Outcome, want []logical, dir string) *judge {
	work := filepath.Join(dir, "mut")
	os.MkdirAll(work, 0o755)
	return &judge{out: out, want: want, dir: dir, mpath: filepath.Join(work, "m.wal")}
}

// check verifies one mutated image of file fi. truncAt >= 0: the image is the
// file cut at that offset (the whole file for truncAt == len).
func (j *judge) check(fi *fileInfo, img []byte, what string, truncAt int) bool {
	out, want := j.out, j.want
	j.evals++
	if err := os.WriteFile(j.mpath, img, 0o600); err != nil {
		panic(err)
	}
	what = j.ctx + what
	ents, _, pv := readFile(j.mpath)
	if pv != nil {
		out.Violate("C06.reader-panic", "%s: reader panicked: %v", what, pv)
		return false
	}
	// returned entries must be a subsequence of this file's appended entries
	// (fault-free writer: lo..hi are exactly the entries of the file)
	k := fi.lo
	matched := map[int]bool{}
	for ri, e := range ents {
		le := entryLogical(e)
		found := false
		for k <= fi.hi {
			if same(le, want[k]) {
				matched[k] = true
				k++
				found = true
				break
			}
			k++
		}
		if !found {
			// is it equal to an earlier entry (reordered/duplicated) or to nothing (altered/fabricated)?
			kind := "altered-or-fabricated"
			for ei := fi.lo; ei <= fi.hi; ei++ {
				if same(le, want[ei]) {
					kind = "reordered-or-duplicated"
				}
			}
			out.Violate("C06."+kind+"-entry", "%s: returned entry #%d (db=%q) is not the next intact appended entry", what, ri, le.db)
			return false
		}
	}
	if truncAt >= 0 {
		// every entry completely before the truncation point must be returned
		need := 0
		for _, e := range fi.ends {
			if e <= truncAt {
				need++
			}
		}
		for q := 0; q < need; q++ {
			if !matched[fi.entries[q]] {
				out.Violate(hiddenRule(fi, q), "%s: %d entries lie completely before the truncation point, %d entries were returned; entry %d of the file (bytes %d..%d, completely written) was not returned", what, need, len(ents), q, fi.starts[q], fi.ends[q])
				return false
			}
		}
	}
	return true
}

// boundaryCuts: the file length and every entry / fragment boundary -1, +0, +1, +9.
func boundaryCuts(fi *fileInfo) []int {
	n := len(fi.data)
	cuts := map[int]bool{n: true}
	add := func(b int) {
		for _, d := range []int{-1, 0, 1, 9} {
			if c := b + d; c >= 0 && c <= n {
				cuts[c] = true
			}
		}
	}
	for q := range fi.ends {
		add(fi.starts[q])
		add(fi.ends[q])
	}
	for _, fr := range fi.frags {
		add(fr[0])
		add(fr[1])
	}
	var cl []int
	for c := range cuts {
		cl = append(cl, c)
	}
	sort.Ints(cl)
	return cl
}

// checkRecovery runs wal.Recovery on copies of all files with the newest file
// truncated, and checks the replayed stream: order across files, nothing
// fabricated, complete entries not hidden.
func (j *judge) checkRecovery(files []fileInfo) bool {
	out, want := j.out, j.want
	if len(files) == 0 {
		return true
	}
	li := len(files) - 1
	for _, cut := range boundaryCuts(&files[li]) {
		j.evals++
		rdir := filepath.Join(j.dir, "rec")
		os.RemoveAll(rdir)
		os.MkdirAll(rdir, 0o755)
		base := time.Now().Add(-time.Hour)
		for i, f := range files {
			data := f.data
			if i == li {
				data = data[:cut]
			}
			pth := filepath.Join(rdir, filepath.Base(f.path))
			os.WriteFile(pth, data, 0o600)
			mt := base.Add(time.Duration(i) * time.Second)
			os.Chtimes(pth, mt, mt)
		}
		var got []logical
		rec := wal.NewRecovery(rdir, quiet)
		_, err := rec.RecoverWithOptions(context.Background(), func(ctx context.Context, records []map[string]interface{}) error {
			got = append(got, logical{kind: "rows", obj: norm(records)})
			return nil
		}, &wal.RecoveryOptions{ColumnarCallback: func(ctx context.Context, database, measurement string, columns map[string][]interface{}) error {
			got = append(got, logical{kind: "col", db: strings.Clone(database), obj: norm(map[string]interface{}{"m": measurement, "columns": columns})})
			return nil
		}})
		if err != nil {
			out.Violate("C06.recovery-error", "%srecovery failed on a truncated tail: %v", j.ctx, err)
			return false
		}
		// the completely written entries that survive the cut, in file order
		type ref struct{ f, q int }
		var exp []ref
		for i := range files {
			for q, e := range files[i].ends {
				if i < li || e <= cut {
					exp = append(exp, ref{i, q})
				}
			}
		}
		// the replayed stream is a subsequence of the appended entries, in append order ...
		k := 0
		replayed := map[int]bool{}
		for i := range got {
			for k < len(want) && !same(got[i], want[k]) {
				k++
			}
			if k == len(want) {
				db := ""
				if i < len(exp) {
					db = want[files[exp[i].f].entries[exp[i].q]].db
				}
				out.Violate("C06.recovery-altered-or-reordered", "%srecovery replayed entry %d differently from what was appended (db %q vs %q; newest file cut at %d)", j.ctx, i, got[i].db, db, cut)
				return false
			}
			replayed[k] = true
			k++
		}
		// ... that holds every completely written entry (with a fault-free writer: exactly those)
		for _, r := range exp {
			if !replayed[files[r.f].entries[r.q]] {
				rule := "C06.recovery-entry-count"
				if hr := hiddenRule(&files[r.f], r.q); hr != "C06.truncation-hides-complete-entry" {
					rule = hr
				}
				out.Violate(rule, "%srecovery replayed %d entries, %d are complete in the files (newest file cut at %d); entry %d of file %d was not replayed", j.ctx, len(got), len(exp), cut, r.q, r.f)
				return false
			}
		}
		if len(got) != len(exp) && !j.faulted {
			out.Violate("C06.recovery-entry-count", "%srecovery replayed %d entries, %d are complete in the files (newest file cut at %d)", j.ctx, len(got), len(exp), cut)
			return false
		}
	}
	return true
}

// cheap: every file intact and cut at its entry/fragment boundaries, then Recovery.
func (j *judge) cheap(files []fileInfo) bool {
	for fidx := range files {
		fi := &files[fidx]
		n := len(fi.data)
		for _, t := range boundaryCuts(fi) {
			what := fmt.Sprintf("file %d truncated at %d/%d", fidx, t, n)
			if t == n {
				what = fmt.Sprintf("file %d intact", fidx)
			}
			if !j.check(fi, fi.data[:t], what, t) {
				return false
			}
		}
	}
	return j.checkRecovery(files)
}

// bytesEnum: every truncation offset and the single-byte corruptions of every file.
func (j *judge) bytesEnum(p *C06Plan, files []fileInfo) bool {
	for fidx := range files {
		fi := &files[fidx]
		n := len(fi.data)
		// every truncation offset
		for t := 0; t < n; t++ {
			if !j.check(fi, fi.data[:t], fmt.Sprintf("file %d truncated at %d/%d", fidx, t, n), t) {
				return false
			}
		}
		// single-byte corruptions
		img := make([]byte, n)
		hdr := map[int]bool{}
		for q, e := range fi.ends {
			for k := 0; k < 16+6 && fi.starts[q]+k < e; k++ {
				hdr[fi.starts[q]+k] = true // length, timestamp, crc, first payload bytes (envelope marker + db length)
			}
		}
		for pos := 0; pos < n; pos++ {
			xs := []byte{0x01, 0x80, 0xff}
			if hdr[pos] || pos < 7 {
				if n <= 700 {
					xs = xs[:0]
					for x := 1; x < 256; x++ {
						xs = append(xs, byte(x))
					}
				} else {
					xs = []byte{0x01, 0x02, 0x10, 0x40, 0x80, 0xff, 0x7f}
				}
			}
			for _, x := range xs {
				copy(img, fi.data)
				img[pos] ^= x
				if !j.check(fi, img, fmt.Sprintf("file %d byte %d xor %#x", fidx, pos, x), -1) {
					return false
				}
			}
		}
		if p.Double {
			r := simrt.NewRand(uint64(n)*7919 + uint64(fidx))
			for k := 0; k < 300; k++ {
				copy(img, fi.data)
				a, b := r.Intn(n), r.Intn(n)
				img[a] ^= byte(1 + r.Intn(255))
				img[b] ^= byte(1 + r.Intn(255))
				t := r.Intn(n + 1)
				if !j.check(fi, img[:t], fmt.Sprintf("file %d bytes %d,%d flipped, truncated at %d", fidx, a, b, t), -1) {
					return false
				}
			}
		}
	}
	return true
}

// shortSet: how many bytes of an n-byte write land before it fails. Around the
// 16-byte entry header, one byte, half, all but one.
func shortSet(n int) []int {
	seen := map[int]bool{}
	var out []int
	for _, s := range []int{1, 15, 16, 17, 20, n / 2, n - 1} {
		if s >= 1 && s <= n-1 && !seen[s] {
			seen[s] = true
			out = append(out, s)
		}
	}
	sort.Ints(out)
	return out
}

// chains enumerates the live-writer fault space of one log. Level 0: every WAL
// fs operation of the fault-free production fails once (writes: part-way at
// the offsets of shortSet, or outright), and each of those faults once more
// with the very next WAL fs operation failing as well (the condition that made
// the first one fail usually lasts). Level 1 (pairs): the second fault hits
// any of the next five operations - the writer's own error path: cut the
// fragment off, create the next file, write its header, re-write the entry,
// the following append - part-way or outright. Level 2 (triples): after a
// write that failed part-way, two of the next operations fail.
func chains(ops []opInfo, level int) [][]FaultSpec {
	errs := []string{"enospc", "eio", "short"}
	var out [][]FaultSpec
	for i, op := range ops {
		if op.kind != "write" {
			out = append(out, []FaultSpec{{At: i, Err: errs[i%2]}})
			continue
		}
		for q, s := range append(shortSet(op.n), 0) {
			out = append(out, []FaultSpec{{At: i, Short: s, Err: errs[(i+q)%3]}})
		}
	}
	firsts := func(i int, op opInfo, shorts []int) []FaultSpec {
		if op.kind != "write" {
			return []FaultSpec{{At: i, Err: "enospc"}}
		}
		var fs []FaultSpec
		for _, s := range shorts {
			if s <= op.n-1 {
				fs = append(fs, FaultSpec{At: i, Short: s, Err: "enospc"})
			}
		}
		return fs
	}
	for i, op := range ops {
		for _, f := range firsts(i, op, []int{20, op.n - 1, 0}) {
			for at := 0; at < 5; at++ {
				for q, s := range []int{0, 5, 1 << 20} {
					if level >= 1 || (at == 0 && s == 0) {
						out = append(out, []FaultSpec{f, {At: at, Short: s, Err: errs[(at+q)%3]}})
					}
				}
			}
		}
	}
	if level < 2 {
		return out
	}
	for i, op := range ops {
		if op.kind != "write" || (op.off == 0 && op.n == 7) {
			continue
		}
		for _, f := range firsts(i, op, []int{20, op.n - 1}) {
			for at2 := 0; at2 < 4; at2++ {
				for _, s2 := range []int{0, 5} {
					for at3 := 0; at3 < 3; at3++ {
						for _, s3 := range []int{0, 5} {
							out = append(out, []FaultSpec{f, {At: at2, Short: s2, Err: errs[at2%3]}, {At: at3, Short: s3, Err: errs[at3%3]}})
						}
					}
				}
			}
		}
	}
	return out
}

// lastChains remembers, per rule, the fault chain of the most recent violating
// wfaults run so that the shrinker can propose "only this chain" (the proposal
// is verified by re-execution like any other shrink candidate).
var lastChains = map[string][]FaultSpec{}

func runC06(planAny any, cfg simrt.Config) *simkit.Outcome {
	p := planAny.(*C06Plan)
	out := &simkit.Outcome{}
	dir := scratch()
	defer os.RemoveAll(dir)
	want := make([]logical, len(p.Appends))
	for i, a := range p.Appends {
		want[i] = a.logical()
	}
	bdir := filepath.Join(dir, "w")
	os.MkdirAll(bdir, 0o755)
	base := produce(p, cfg, bdir, nil, want)
	out.Absorb(base.res)
	j := newJudge(out, want, dir)
	defer func() {
		out.Evals = j.evals
		out.Stats["fault.truncation_or_corruption_positions"] += j.evals
	}()
	if len(base.res.Panics) > 0 {
		out.Violate("C06.writer-panic", "%s", base.res.Panics[0])
		return out
	}
	if base.res.Outcome != "ok" {
		return out
	}
	if base.malformed != nil {
		out.Violate("C06.writer-output-malformed", "%v", base.malformed)
		return out
	}
	out.Stats["probe.files"] += int64(len(base.files))
	out.Nontrivial = len(p.Appends) > 0
	// cheap checks first (whole files, boundary cuts, Recovery over the directory)
	if !j.cheap(base.files) {
		return out
	}
	// live-writer faults: single faults and "the next operation fails too" for
	// every plan (cheap), all chains of two / three for wfaults plans
	cs := [][]FaultSpec{p.Only}
	if len(p.Only) == 0 {
		level := 0
		if p.Mode == "wfaults" && p.Pairs {
			level = 1
			if p.Triples {
				level = 2
			}
		}
		cs = chains(base.st.ops, level)
	}
	firedAny := false
	nviol := 0
	for ci, ch := range cs {
		fdir := filepath.Join(dir, "f")
		os.RemoveAll(fdir)
		os.MkdirAll(fdir, 0o755)
		pr := produce(p, cfg, fdir, ch, want)
		out.Hash = out.Hash*1099511628211 ^ pr.res.TraceHash
		out.Steps += pr.res.Steps
		out.SimNs += pr.res.SimNs
		for k, v := range pr.res.Stats {
			out.Stats[k] += v
		}
		out.Stats["probe.writer_fault_cases"]++
		j.ctx = fmt.Sprintf("writer fault case %d/%d [%s] ->%s: ", ci+1, len(cs), strings.Join(pr.st.desc, "; then "), layout(pr.files))
		if len(pr.res.Panics) > 0 {
			out.Violate("C06.writer-panic", "%s%s", j.ctx, pr.res.Panics[0])
		} else if pr.res.Outcome != "ok" {
			out.Sim, out.Tail = pr.res.Outcome, pr.res.Tail
			return out
		} else if pr.malformed != nil {
			out.Violate("C06.writer-output-malformed", "%s%v", j.ctx, pr.malformed)
		} else {
			if pr.st.fired > 0 {
				firedAny = true
			}
			j.faulted = pr.st.fired > 0
			out.Stats["probe.entries_lost_to_writer_faults"] += int64(pr.lost)
			for _, f := range pr.files {
				if len(f.frags) > 0 {
					out.Stats["probe.files_with_partial_entry"]++
				}
			}
			j.cheap(pr.files)
		}
		// keep going after a violation: other chains may break other rules
		// (Violate records one message per rule)
		for _, v := range out.Violations[nviol:] {
			lastChains[v.Rule] = append([]FaultSpec(nil), ch...)
		}
		nviol = len(out.Violations)
		if nviol >= 3 {
			return out
		}
	}
	j.ctx, j.faulted = "", false
	if nviol > 0 {
		return out
	}
	if p.Mode != "wfaults" && len(p.Only) == 0 {
		j.bytesEnum(p, base.files)
		return out
	}
	out.Nontrivial = out.Nontrivial && firedAny
	return out
}

func shrinkC06(planAny any) []any {
	p := planAny.(*C06Plan)
	var out []any
	if len(p.Only) == 0 {
		var rules []string
		for r := range lastChains {
			rules = append(rules, r)
		}
		sort.Strings(rules)
		for _, r := range rules {
			q := *p
			q.Only = append([]FaultSpec(nil), lastChains[r]...)
			out = append(out, &q)
		}
	}
	if len(p.Only) > 1 {
		for i := range p.Only {
			q := *p
			q.Only = append(append([]FaultSpec(nil), p.Only[:i]...), p.Only[i+1:]...)
			out = append(out, &q)
		}
	}
	for i := range p.Appends {
		if len(p.Appends) > 1 {
			q := *p
			q.Appends = append(append([]Append(nil), p.Appends[:i]...), p.Appends[i+1:]...)
			out = append(out, &q)
		}
	}
	for i, a := range p.Appends {
		if a.N > 1 || a.Pad > 0 {
			q := *p
			q.Appends = append([]Append(nil), p.Appends...)
			q.Appends[i].N, q.Appends[i].Pad = 1, 0
			out = append(out, &q)
		}
	}
	return out
}

func descC06(planAny any) any {
	p := planAny.(*C06Plan)
	var s []string
	for _, a := range p.Appends {
		s = append(s, fmt.Sprintf("%s(db=%q,m=%s,rows=%d,pad=%d)", a.Kind, a.DB, a.Meas, a.N, a.Pad))
	}
	faults := "live writer: every WAL write fails once part-way (1,15,16,17,20,n/2,n-1 bytes land) or outright, every WAL file creation fails once, each also with the next WAL fs operation (truncate/create/write) failing too; the writer keeps appending; files then read intact, cut at every entry/fragment boundary, and through Recovery"
	if p.Mode == "wfaults" {
		if p.Pairs {
			faults += "; plus chains of two faults (second fault, part-way or outright, on one of the next 5 WAL fs operations)"
		}
		if p.Triples {
			faults += " and chains of three (after a write that failed part-way)"
		}
	} else {
		faults += "; fault-free files: every truncation offset + single-byte corruptions of every byte (all 255 values on header bytes)"
	}
	if len(p.Only) > 0 {
		faults = fmt.Sprintf("live writer, only this fault chain: %+v", p.Only)
	}
	return map[string]any{"appends": s, "rotate_at": p.MaxBytes, "faults": faults}
}

func main() {
	zerolog.SetGlobalLevel(zerolog.Disabled)
	simkit.Main(&simkit.Check{ID: "C06", Gen: genC06, New: func() any { return &C06Plan{} }, Run: runC06, Shrink: shrinkC06, Desc: descC06})
}
