//go:build verif

package cluster

import "net/http"

// VerifSetRouterTransport replaces the RoundTripper of the router's real
// http.Client (timeouts, retries and request construction stay arc's).
func VerifSetRouterTransport(r *Router, rt http.RoundTripper) { r.httpClient.Transport = rt }
