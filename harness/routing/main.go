//go:build verif

// Area routing: property C30 (a request is served by a capable node after at
// most one forward).
//
// Every simulated node runs arc's real request path: a Fiber app with the real
// MsgPack / LineProtocol / TLE / Query handlers (routing preludes,
// BuildHTTPRequest, CopyResponse), a real cluster.Router over a real
// cluster.Registry with real cluster.Node entries, optionally a real
// cluster.HealthChecker, a real ingest.ArrowBuffer and a real
// queryregistry.Registry. The router's http.Client keeps its configuration;
// only its RoundTripper is replaced by one that hands the outbound request to
// the target node's Fiber app in-process (with latency, refusals, lost
// responses). Peer heartbeats are applied to the registries the way
// Coordinator.handleHeartbeat does (RecordHeartbeat + UpdateNodeState).
//
// Observation is by effect, not by status code: a write was "processed
// locally" by the node whose ArrowBuffer holds the rows (every request writes
// to its own database name), a query by the node whose query registry recorded
// the SQL text (every request has its own SQL text). Hops are the arrivals the
// transport saw.
package main

import (
	"bytes"
	"fmt"
	"io"
	"net"
	"net/http"
	"os"
	"path/filepath"
	"sort"
	"strings"
	"sync"
	"time"

	"github.com/Basekick-Labs/msgpack/v6"
	"github.com/gofiber/fiber/v2"
	"github.com/rs/zerolog"
	"github.com/valyala/fasthttp"

	"github.com/basekick-labs/arc/internal/api"
	"github.com/basekick-labs/arc/internal/cluster"
	"github.com/basekick-labs/arc/internal/config"
	"github.com/basekick-labs/arc/internal/database"
	"github.com/basekick-labs/arc/internal/ingest"
	"github.com/basekick-labs/arc/internal/queryregistry"
	"github.com/basekick-labs/arc/internal/simrt"
	"github.com/basekick-labs/arc/internal/storage"
	"github.com/basekick-labs/arc/internal/verifsim/simkit"
)

// ---------------------------------------------------------------------------
// plan

// View is what one node's registry believes about a peer at start.
type View struct {
	Registered bool   `json:"reg"`
	Role       string `json:"role"`   // role the observer believes the peer has
	State      string `json:"state"`  // unknown healthy unhealthy dead joining leaving
	WState     string `json:"wstate"` // "" primary standby
	Link       bool   `json:"link"`   // the peer's heartbeats reach this observer
}

type NodeCfg struct {
	Role      string `json:"role"`                 // standalone writer reader compactor
	Router    bool   `json:"router"`               // false: clustering off on this node (no router wired into the handlers)
	Up        bool   `json:"up"`                   // process reachable at start
	HC        bool   `json:"hc"`                   // runs the real HealthChecker
	Strategy  string `json:"strategy"`             // load-balance strategy
	Retries   int    `json:"retries"`              // 0 = arc default
	SelfState string `json:"self_state"`           // state the node reports about itself in heartbeats
	OwnState  string `json:"own_state"`            // state of the local node entry in its own registry
	OwnWState string `json:"own_wstate,omitempty"` // writer failover state of the local node entry ("" primary standby)
	Views     []View `json:"views"`                // index = peer; own index ignored
}

type Req struct {
	Client  int               `json:"client"`
	SleepMs int               `json:"sleep_ms"` // before issuing
	Entry   int               `json:"entry"`    // node the client talks to
	Kind    string            `json:"kind"`     // mp lp1 lp2 lps tle q qmp qarrow
	Rows    int               `json:"rows"`
	FwdBy   string            `json:"fwd_by"`  // client-supplied X-Arc-Forwarded-By ("" = absent)
	FwdKey  string            `json:"fwd_key"` // spelling of that header name
	Extra   map[string]string `json:"extra,omitempty"`
}

// Fault is one timeline event.
type Fault struct {
	AtMs int    `json:"at_ms"`
	Kind string `json:"kind"` // down up link state promote rerole unregister selfstate
	A    int    `json:"a"`    // node (down/up/selfstate) or observer
	B    int    `json:"b"`    // peer
	Arg  string `json:"arg,omitempty"`
}

// NetFault hits the k-th forward attempt of the run.
type NetFault struct {
	Attempt int    `json:"attempt"`
	Kind    string `json:"kind"` // refuse lose delay
	DelayMs int    `json:"delay_ms,omitempty"`
}

type C30Plan struct {
	Nodes       []NodeCfg  `json:"nodes"`
	Reqs        []Req      `json:"reqs"`
	Faults      []Fault    `json:"faults,omitempty"`
	Net         []NetFault `json:"net,omitempty"`
	Heartbeats  bool       `json:"heartbeats"`
	HBMs        int        `json:"hb_ms"`
	HCIntervalS int        `json:"hc_interval_s"`
	HCThreshold int        `json:"hc_threshold"`
	LatencyUs   int        `json:"latency_us"` // base latency of every forward attempt
}

var (
	roles     = []string{"standalone", "writer", "reader", "compactor"}
	states    = []string{"healthy", "unhealthy", "dead", "joining", "leaving", "unknown"}
	coreKinds = []string{"mp", "lp1", "lp2", "lps", "tle", "q", "qmp"}
)

func isWriteKind(k string) bool {
	switch k {
	case "mp", "lp1", "lp2", "lps", "tle":
		return true
	}
	return false
}

func nodeID(i int) string    { return fmt.Sprintf("n%d", i+1) }
func nodeAPI(i int) string   { return fmt.Sprintf("10.0.0.%d:8000", i+1) }
func nodeCoord(i int) string { return fmt.Sprintf("10.0.0.%d:9100", i+1) }

func genC30(r *simrt.Rand, tier string) any {
	p := &C30Plan{Heartbeats: r.Chance(55), HBMs: []int{300, 1000, 2500}[r.Intn(3)], HCIntervalS: 1 + r.Intn(3),
		HCThreshold: r.Intn(4), LatencyUs: []int{0, 0, 200, 20000}[r.Intn(4)]}
	n := []int{1, 2, 2, 3, 3, 3, 4, 4, 4, 4}[r.Intn(10)]
	consistent := r.Chance(65)
	allHealthy := r.Chance(50)
	for i := 0; i < n; i++ {
		nc := NodeCfg{Role: roles[r.Intn(4)], Router: !r.Chance(10), Up: !r.Chance(8), HC: r.Chance(35),
			Strategy: []string{"", "round_robin", "least_connections", "random"}[r.Intn(4)], Retries: r.Intn(3),
			SelfState: "healthy", OwnState: "healthy"}
		if r.Chance(8) {
			nc.SelfState = states[r.Intn(len(states))]
		}
		if r.Chance(10) {
			nc.OwnState = states[r.Intn(len(states))]
		}
		p.Nodes = append(p.Nodes, nc)
	}
	// bias towards clusters that can forward: make sure roles differ sometimes
	if n >= 2 && r.Chance(50) {
		p.Nodes[0].Role = []string{"reader", "compactor"}[r.Intn(2)]
		p.Nodes[1].Role = []string{"writer", "writer", "reader"}[r.Intn(3)]
	}
	for i := range p.Nodes {
		if p.Nodes[i].Role == "writer" {
			// Pattern-1 failover deployments: a writer is primary or hot standby
			p.Nodes[i].OwnWState = []string{"", "", "primary", "standby", "standby"}[r.Intn(5)]
		}
	}
	for i := 0; i < n; i++ {
		for j := 0; j < n; j++ {
			v := View{Registered: !r.Chance(6), Role: p.Nodes[j].Role, State: "healthy", Link: !r.Chance(10)}
			if !p.Nodes[j].Router {
				// a node that runs without clustering is not a cluster member; when
				// a peer lists it anyway the entry is necessarily somebody's belief
				v.Registered = r.Chance(30)
			}
			if !consistent && r.Chance(35) {
				v.Role = roles[r.Intn(4)]
			}
			if !allHealthy && r.Chance(30) {
				v.State = states[r.Intn(len(states))]
			}
			if v.Role == "writer" {
				v.WState = []string{"", "", "primary", "standby"}[r.Intn(4)]
			}
			p.Nodes[i].Views = append(p.Nodes[i].Views, v)
		}
	}
	nreq := 1 + r.Intn(8)
	if tier == "thorough" {
		nreq = 1 + r.Intn(14)
	}
	nclients := 1 + r.Intn(3)
	for k := 0; k < nreq; k++ {
		q := Req{Client: r.Intn(nclients), SleepMs: []int{0, 0, 1, 40, 700, 2500}[r.Intn(6)], Entry: r.Intn(n),
			Kind: coreKinds[r.Intn(len(coreKinds))], Rows: 1 + r.Intn(3), FwdKey: "X-Arc-Forwarded-By"}
		if r.Chance(45) {
			// prefer an entry node whose role cannot serve this kind (forces the forwarding path)
			var cands []int
			for i := range p.Nodes {
				if !canServe(&p.Nodes[i], isWriteKind(q.Kind)) {
					cands = append(cands, i)
				}
			}
			if len(cands) > 0 {
				q.Entry = cands[r.Intn(len(cands))]
			}
		}
		if r.Chance(6) {
			// The Arrow IPC endpoint ("qarrow") is no longer generated (old
			// replays with it still run): its body is produced by fasthttp's
			// stream-writer goroutine, a real goroutine the simulator does not
			// schedule, while Fiber has already recycled the request's *fiber.Ctx.
			// A thorough run met a panic there (corrupted header slice in
			// fasthttp.setArg) that did not replay: behaviour outside the
			// simulator's control must not decide a verdict. The draw is kept so
			// that the other plans of a seed do not change.
			_ = q
		}
		if r.Chance(35) {
			q.FwdBy = []string{nodeID(r.Intn(n)), nodeID(q.Entry), "attacker", "1", "n9", "true"}[r.Intn(6)]
			q.FwdKey = []string{"X-Arc-Forwarded-By", "x-arc-forwarded-by", "X-ARC-FORWARDED-BY"}[r.Intn(3)]
		}
		if r.Chance(30) {
			q.Extra = map[string]string{}
			for _, h := range [][2]string{{"X-Forwarded-For", "203.0.113.9"}, {"X-Arc-Original-Host", "evil.example"}, {"X-Real-IP", "198.51.100.7"},
				{"Forwarded", "for=192.0.2.60;by=" + nodeID(r.Intn(n))}, {"Via", "1.1 " + nodeID(r.Intn(n))}, {"X-Forwarded-Host", nodeAPI(r.Intn(n))}} {
				if r.Chance(40) {
					q.Extra[h[0]] = h[1]
				}
			}
		}
		p.Reqs = append(p.Reqs, q)
	}
	if n >= 2 && r.Chance(55) {
		nf := 1 + r.Intn(4)
		for k := 0; k < nf; k++ {
			f := Fault{AtMs: r.Intn(9000), A: r.Intn(n), B: r.Intn(n)}
			switch r.Intn(9) {
			case 0, 1:
				f.Kind = "down"
			case 2:
				f.Kind = "up"
			case 3:
				f.Kind, f.Arg = "link", []string{"off", "off", "on"}[r.Intn(3)]
			case 4, 5:
				f.Kind, f.Arg = "state", states[r.Intn(len(states))]
			case 6:
				f.Kind, f.Arg = "promote", []string{"primary", "standby", ""}[r.Intn(3)]
			case 7:
				f.Kind, f.Arg = "rerole", roles[r.Intn(4)]
			case 8:
				f.Kind = []string{"unregister", "selfstate"}[r.Intn(2)]
				f.Arg = states[r.Intn(len(states))]
			}
			p.Faults = append(p.Faults, f)
		}
		sort.SliceStable(p.Faults, func(a, b int) bool { return p.Faults[a].AtMs < p.Faults[b].AtMs })
	}
	if n >= 2 && r.Chance(45) {
		nn := 1 + r.Intn(3)
		for k := 0; k < nn; k++ {
			p.Net = append(p.Net, NetFault{Attempt: r.Intn(8), Kind: []string{"refuse", "lose", "delay", "delay"}[r.Intn(4)], DelayMs: []int{1, 50, 1500, 4000}[r.Intn(4)]})
		}
	}
	return p
}

// ---------------------------------------------------------------------------
// process-wide real dependencies that carry no per-run state

var (
	quiet    = zerolog.New(io.Discard).Level(zerolog.Disabled)
	depsOnce sync.Once
	duck     *database.DuckDB
	store    storage.Backend
)

func harnessLogger() zerolog.Logger {
	if os.Getenv("VERIF_LOG") != "" {
		return zerolog.New(os.Stderr).Level(zerolog.DebugLevel)
	}
	return quiet
}

func deps() {
	depsOnce.Do(func() {
		base := os.Getenv("VERIF_SCRATCH")
		if base == "" {
			base = "/dev/shm"
		}
		// the process leaves through os.Exit: sweep what earlier, dead processes left behind
		if ents, err := os.ReadDir(base); err == nil {
			for _, e := range ents {
				var pid int
				if n, _ := fmt.Sscanf(e.Name(), "verif-routing.%d", &pid); n == 1 && pid != os.Getpid() {
					if _, err := os.Stat(fmt.Sprintf("/proc/%d", pid)); os.IsNotExist(err) {
						os.RemoveAll(filepath.Join(base, e.Name()))
					}
				}
			}
		}
		dir := filepath.Join(base, fmt.Sprintf("verif-routing.%d", os.Getpid()))
		os.RemoveAll(dir)
		if err := os.MkdirAll(filepath.Join(dir, "tmp"), 0o755); err != nil {
			fatal("scratch: %v", err)
		}
		lb, err := storage.NewLocalBackend(filepath.Join(dir, "data"), quiet)
		if err != nil {
			fatal("local backend: %v", err)
		}
		store = lb
		d, err := database.New(&database.Config{MaxConnections: 2, MemoryLimit: "256MB", ThreadCount: 1, TempDirectory: filepath.Join(dir, "tmp")}, quiet)
		if err != nil {
			fatal("duckdb: %v", err)
		}
		duck = d
	})
}

func fatal(format string, args ...any) {
	fmt.Fprintf(os.Stderr, "HARNESS-ERROR routing: "+format+"\n", args...)
	os.Exit(2)
}

// ---------------------------------------------------------------------------
// simulated cluster

type simNode struct {
	idx     int
	cfg     *NodeCfg
	up      bool
	self    string // state reported in heartbeats
	local   *cluster.Node
	reg     *cluster.Registry
	router  *cluster.Router
	hc      *cluster.HealthChecker
	buf     *ingest.ArrowBuffer
	qreg    *queryregistry.Registry
	app     *fiber.App
	handler fasthttp.RequestHandler
}

type arrival struct {
	node, depth, from int
	marker            string
}

type reqTrace struct {
	idx      int
	req      *Req
	issued   bool
	refused  bool // entry node was down: the client never reached the cluster
	status   int
	arrivals []arrival
	attempts int // forward attempts (including refused ones)
	faulted  bool
	// forwarder's belief about the target at the time of each delivered forward
	beliefs    []string
	arrowLocal []int // nodes that answered a qarrow 200 without forwarding
}

type frame struct {
	tr    *reqTrace
	depth int
}

type clusterSim struct {
	p        *C30Plan
	nodes    []*simNode
	link     [][]bool   // link[i][j]: heartbeats of j reach i
	viewRole [][]string // viewRole[i][j]: role i currently believes j has ("" = not registered)
	cur      map[int]*frame
	fwdSeq   int
	net      map[int]NetFault
	traces   []*reqTrace
}

func parseState(s string) cluster.NodeState { return cluster.NodeState(s) }

func (cl *clusterSim) mkPeer(j int, v View) *cluster.Node {
	pn := cluster.NewNode(nodeID(j), nodeID(j), cluster.NodeRole(v.Role), "c30")
	pn.SetAddresses(nodeCoord(j), nodeAPI(j))
	pn.UpdateState(parseState(v.State))
	pn.SetWriterState(cluster.WriterState(v.WState))
	if v.State == "healthy" {
		pn.RecordHeartbeat(cluster.NodeStats{})
	}
	return pn
}

func buildCluster(p *C30Plan) *clusterSim {
	cl := &clusterSim{p: p, cur: map[int]*frame{}, net: map[int]NetFault{}}
	for _, nf := range p.Net {
		if _, dup := cl.net[nf.Attempt]; !dup {
			cl.net[nf.Attempt] = nf
		}
	}
	n := len(p.Nodes)
	cl.link = make([][]bool, n)
	cl.viewRole = make([][]string, n)
	for i := range p.Nodes {
		nc := &p.Nodes[i]
		sn := &simNode{idx: i, cfg: nc, up: nc.Up, self: nc.SelfState}
		cl.link[i] = make([]bool, n)
		cl.viewRole[i] = make([]string, n)
		// ingest side (every arc process has one, whatever its role)
		icfg := &config.IngestConfig{MaxBufferSize: 1_000_000, MaxBufferAgeMS: 24 * 3600 * 1000, Compression: "snappy", WriteStatistics: true,
			DataPageVersion: "2.0", FlushWorkers: 1, FlushQueueSize: 16, ShardCount: 2, FlushTimeoutSeconds: 30, DefaultSortKeys: "time"}
		sn.buf = ingest.NewArrowBuffer(icfg, store, harnessLogger())
		sn.qreg = queryregistry.NewRegistry(&queryregistry.RegistryConfig{HistorySize: 256}, harnessLogger())
		app := fiber.New(fiber.Config{DisableStartupMessage: true, BodyLimit: 8 << 20})
		mp := api.NewMsgPackHandler(harnessLogger(), sn.buf, 8<<20)
		lp := api.NewLineProtocolHandler(sn.buf, harnessLogger())
		tle := api.NewTLEHandler(sn.buf, harnessLogger())
		qh := api.NewQueryHandler(duck, store, harnessLogger(), 30, 0)
		qh.SetQueryRegistry(sn.qreg)
		if nc.Router {
			sn.local = cluster.NewNode(nodeID(i), nodeID(i), cluster.NodeRole(nc.Role), "c30")
			sn.local.SetAddresses(nodeCoord(i), nodeAPI(i))
			sn.local.MarkJoined()
			if nc.OwnState != "healthy" {
				sn.local.UpdateState(parseState(nc.OwnState))
			}
			if nc.OwnWState != "" {
				sn.local.SetWriterState(cluster.WriterState(nc.OwnWState))
			}
			sn.reg = cluster.NewRegistry(&cluster.RegistryConfig{LocalNode: sn.local, Logger: harnessLogger()})
			for j := range p.Nodes {
				if j == i {
					continue
				}
				v := nc.Views[j]
				cl.link[i][j] = v.Link
				if !v.Registered {
					continue
				}
				if err := sn.reg.Register(cl.mkPeer(j, v)); err != nil {
					panic(err)
				}
				cl.viewRole[i][j] = v.Role
			}
			// The forward timeout is enforced by net/http with a real-time timer the
			// simulator does not own; it is set far beyond any real duration of a run
			// so that it can never fire (time-outs are injected by the transport).
			sn.router = cluster.NewRouter(&cluster.RouterConfig{Timeout: 30 * time.Minute, Retries: nc.Retries, Strategy: cluster.LoadBalanceStrategy(nc.Strategy),
				Registry: sn.reg, LocalNode: sn.local, Logger: harnessLogger()})
			cluster.VerifSetRouterTransport(sn.router, &simTransport{cl: cl, owner: sn})
			// the wiring of cmd/arc/main.go ("Wire up cluster router to handlers")
			mp.SetRouter(sn.router)
			lp.SetRouter(sn.router)
			tle.SetRouter(sn.router)
			qh.SetRouter(sn.router)
			sn.reg.SetCallbacks(nil, nil,
				func(*cluster.Node) { simrt.Count("probe.health_became_healthy", 1) },
				func(*cluster.Node) { simrt.Count("probe.health_became_unhealthy", 1) })
			if nc.HC {
				sn.hc = cluster.NewHealthChecker(&cluster.HealthCheckerConfig{Registry: sn.reg, CheckInterval: time.Duration(p.HCIntervalS) * time.Second,
					UnhealthyThreshold: p.HCThreshold, Logger: harnessLogger()})
			}
		}
		mp.RegisterRoutes(app)
		lp.RegisterRoutes(app)
		tle.RegisterRoutes(app)
		qh.RegisterRoutes(app)
		sn.app = app
		sn.handler = app.Handler()
		cl.nodes = append(cl.nodes, sn)
	}
	return cl
}

func (cl *clusterSim) byAPI(host string) *simNode {
	for _, n := range cl.nodes {
		if nodeAPI(n.idx) == host {
			return n
		}
	}
	return nil
}

// serve hands one HTTP request to the node's Fiber app in-process and records
// the arrival.
func (cl *clusterSim) serve(t *simNode, tr *reqTrace, depth, from int, method, uri, host string, hdr [][2]string, body []byte) (int, [][2]string, []byte) {
	var ctx fasthttp.RequestCtx
	ctx.Init(&fasthttp.Request{}, &net.TCPAddr{IP: net.IPv4(10, 0, 1, byte(from+2)), Port: 40000 + tr.idx}, nil)
	ctx.Request.Header.SetMethod(method)
	ctx.Request.SetRequestURI(uri)
	ctx.Request.Header.SetHost(host)
	for _, kv := range hdr {
		ctx.Request.Header.Add(kv[0], kv[1])
	}
	own := make([]byte, len(body))
	copy(own, body)
	ctx.Request.SetBodyRaw(own)
	marker := string(ctx.Request.Header.Peek("X-Arc-Forwarded-By"))
	tr.arrivals = append(tr.arrivals, arrival{node: t.idx, depth: depth, from: from, marker: marker})
	attemptsBefore := tr.attempts
	simrt.Event("ARRIVE r%d at=n%d depth=%d from=%d marker=%q %s %s", tr.idx, t.idx+1, depth, from+1, marker, method, strings.SplitN(uri, "?", 2)[0])
	tid := simrt.CurTask().ID()
	saved := cl.cur[tid]
	cl.cur[tid] = &frame{tr: tr, depth: depth}
	t.handler(&ctx)
	cl.cur[tid] = saved
	st := ctx.Response.StatusCode()
	rb := append([]byte(nil), ctx.Response.Body()...) // drains a streamed body
	var rh [][2]string
	ctx.Response.Header.VisitAll(func(k, v []byte) { rh = append(rh, [2]string{string(k), string(v)}) })
	simrt.Event("ANSWER r%d by=n%d depth=%d status=%d", tr.idx, t.idx+1, depth, st)
	if tr.req.Kind == "qarrow" && st == 200 && tr.attempts == attemptsBefore {
		tr.arrowLocal = append(tr.arrowLocal, t.idx)
	}
	return st, rh, rb
}

// simTransport is the network between routers and peers' API listeners.
type simTransport struct {
	cl    *clusterSim
	owner *simNode
}

type netErr struct{ msg string }

func (e *netErr) Error() string   { return e.msg }
func (e *netErr) Timeout() bool   { return strings.Contains(e.msg, "timeout") }
func (e *netErr) Temporary() bool { return true }

const maxDepth = 6

func (t *simTransport) RoundTrip(req *http.Request) (*http.Response, error) {
	cl := t.cl
	f := cl.cur[simrt.CurTask().ID()]
	if f == nil {
		panic("routing harness: forward outside a traced request")
	}
	tr := f.tr
	attempt := cl.fwdSeq
	cl.fwdSeq++
	tr.attempts++
	var body []byte
	if req.Body != nil {
		b, err := io.ReadAll(req.Body)
		req.Body.Close()
		if err != nil {
			return nil, err
		}
		body = b
	}
	target := cl.byAPI(req.URL.Host)
	simrt.Event("FORWARD r%d attempt=%d from=n%d to=%s depth=%d", tr.idx, attempt, t.owner.idx+1, req.URL.Host, f.depth+1)
	// the forwarder's belief about the target's role AT DECISION TIME (a
	// delayed delivery may see the registry re-registered meanwhile)
	beliefAtDecision := ""
	if target != nil {
		beliefAtDecision = cl.viewRole[t.owner.idx][target.idx]
	}
	if cl.p.LatencyUs > 0 {
		simrt.Sleep(time.Duration(cl.p.LatencyUs) * time.Microsecond)
	}
	nf, hasFault := cl.net[attempt]
	if hasFault && nf.Kind == "delay" {
		tr.faulted = true
		simrt.Count("fault.net_delay", 1)
		simrt.Sleep(time.Duration(nf.DelayMs) * time.Millisecond)
	}
	if hasFault && nf.Kind == "refuse" {
		tr.faulted = true
		simrt.Count("fault.net_refuse", 1)
		return nil, &netErr{"dial tcp " + req.URL.Host + ": connect: connection refused (injected)"}
	}
	if target == nil {
		return nil, &netErr{"dial tcp " + req.URL.Host + ": no route to host"}
	}
	if !target.up {
		tr.faulted = true
		simrt.Count("fault.target_down", 1)
		return nil, &netErr{"dial tcp " + req.URL.Host + ": connect: connection refused (node down)"}
	}
	if f.depth+1 > maxDepth {
		simrt.Count("probe.depth_cap", 1)
		return nil, &netErr{"harness: hop limit reached"}
	}
	var hdr [][2]string
	keys := make([]string, 0, len(req.Header))
	for k := range req.Header {
		keys = append(keys, k)
	}
	sort.Strings(keys)
	for _, k := range keys {
		for _, v := range req.Header[k] {
			hdr = append(hdr, [2]string{k, v})
		}
	}
	hdr = append(hdr, [2]string{"User-Agent", "Go-http-client/1.1"})
	tr.beliefs = append(tr.beliefs, beliefAtDecision)
	if !canServe(target.cfg, isWriteKind(tr.req.Kind)) {
		simrt.Count("probe.forward_reached_incapable_target", 1)
	}
	if !target.cfg.Router {
		simrt.Count("probe.forward_reached_unclustered_target", 1)
	}
	st, rh, rb := cl.serve(target, tr, f.depth+1, t.owner.idx, req.Method, req.URL.RequestURI(), req.URL.Host, hdr, body)
	if hasFault && nf.Kind == "lose" {
		tr.faulted = true
		simrt.Count("fault.net_lose_response", 1)
		return nil, &netErr{"read tcp " + req.URL.Host + ": i/o timeout (injected, response lost)"}
	}
	h := http.Header{}
	for _, kv := range rh {
		h.Add(kv[0], kv[1])
	}
	return &http.Response{StatusCode: st, Status: fmt.Sprintf("%d %s", st, http.StatusText(st)), Proto: "HTTP/1.1", ProtoMajor: 1, ProtoMinor: 1,
		Header: h, Body: io.NopCloser(bytes.NewReader(rb)), ContentLength: int64(len(rb)), Request: req}, nil
}

// ---------------------------------------------------------------------------
// client requests

const baseUS = int64(1772361000000000)

const tleBody = "ISS (ZARYA)\n1 25544U 98067A   24051.34722222  .00016717  00000-0  10270-3 0  9014\n2 25544  51.6400 208.9163 0006703 319.1918  40.8793 15.49560830442108\n"

func mpMarshal(v interface{}) []byte {
	var buf bytes.Buffer
	enc := msgpack.NewEncoder(&buf)
	enc.SetSortMapKeys(true)
	if err := enc.Encode(v); err != nil {
		panic(err)
	}
	return buf.Bytes()
}

func reqDB(i int) string  { return fmt.Sprintf("r%d", i) }
func reqSQL(i int) string { return fmt.Sprintf("SELECT %d AS rid", 1000+i) }

func reqMeas(q *Req) string {
	if q.Kind == "tle" {
		return "satellite_tle"
	}
	return "cpu"
}

func reqRows(q *Req) int {
	if q.Kind == "tle" {
		return 1
	}
	return q.Rows
}

func (cl *clusterSim) issue(tr *reqTrace) {
	q := tr.req
	i := tr.idx
	entry := cl.nodes[q.Entry]
	tr.issued = true
	if !entry.up {
		tr.refused = true
		simrt.Event("CLIENT r%d entry n%d is down", i, q.Entry+1)
		return
	}
	var uri string
	var body []byte
	hdr := [][2]string{}
	lp := func() []byte {
		var sb strings.Builder
		for k := 0; k < q.Rows; k++ {
			fmt.Fprintf(&sb, "cpu,host=h%d v=%di %d\n", k, i*10+k, (baseUS+int64(i*100+k))*1000)
		}
		return []byte(sb.String())
	}
	switch q.Kind {
	case "mp":
		uri = "/api/v1/write/msgpack"
		tc, vc := make([]interface{}, q.Rows), make([]interface{}, q.Rows)
		for k := 0; k < q.Rows; k++ {
			tc[k], vc[k] = baseUS+int64(i*100+k), float64(i*10+k)
		}
		body = mpMarshal(map[string]interface{}{"m": "cpu", "columns": map[string]interface{}{"time": tc, "v": vc}})
		hdr = append(hdr, [2]string{"Content-Type", "application/msgpack"}, [2]string{"x-arc-database", reqDB(i)})
	case "lp1":
		uri, body = "/write?db="+reqDB(i)+"&precision=ns", lp()
	case "lp2":
		uri, body = "/api/v2/write?org=o&bucket="+reqDB(i)+"&precision=ns", lp()
	case "lps":
		uri, body = "/api/v1/write/line-protocol?precision=ns", lp()
		hdr = append(hdr, [2]string{"x-arc-database", reqDB(i)})
	case "tle":
		uri, body = "/api/v1/write/tle", []byte(tleBody)
		hdr = append(hdr, [2]string{"x-arc-database", reqDB(i)})
	case "q", "qmp", "qarrow":
		uri = map[string]string{"q": "/api/v1/query", "qmp": "/api/v1/query/msgpack", "qarrow": "/api/v1/query/arrow"}[q.Kind]
		body = []byte(fmt.Sprintf(`{"sql":%q}`, reqSQL(i)))
		hdr = append(hdr, [2]string{"Content-Type", "application/json"})
	default:
		panic("unknown request kind " + q.Kind)
	}
	if q.FwdBy != "" {
		hdr = append(hdr, [2]string{q.FwdKey, q.FwdBy})
	}
	ek := make([]string, 0, len(q.Extra))
	for k := range q.Extra {
		ek = append(ek, k)
	}
	sort.Strings(ek)
	for _, k := range ek {
		hdr = append(hdr, [2]string{k, q.Extra[k]})
	}
	tr.status, _, _ = cl.serve(entry, tr, 0, -1, "POST", uri, nodeAPI(q.Entry), hdr, body)
}

// ---------------------------------------------------------------------------
// timeline faults, applied through the registries' public API the way the
// coordinator applies them

func (cl *clusterSim) apply(f Fault) {
	n := len(cl.nodes)
	if f.A >= n || f.B >= n {
		return
	}
	a := cl.nodes[f.A]
	simrt.Event("FAULT %s a=n%d b=n%d arg=%q", f.Kind, f.A+1, f.B+1, f.Arg)
	simrt.Count("fault."+f.Kind, 1)
	switch f.Kind {
	case "down":
		a.up = false
	case "up":
		a.up = true
	case "selfstate":
		a.self = f.Arg
	case "link":
		cl.link[f.A][f.B] = f.Arg == "on"
	case "state": // a heartbeat carrying a self-reported state, or a raft node update
		if a.reg != nil && f.A != f.B {
			a.reg.UpdateNodeState(nodeID(f.B), parseState(f.Arg))
		}
	case "promote": // Coordinator.onWriterPromoted
		if a.local != nil && f.A == f.B && a.cfg.Role == "writer" {
			a.local.SetWriterState(cluster.WriterState(f.Arg))
		}
		if a.reg != nil && f.A != f.B {
			if pn, ok := a.reg.Get(nodeID(f.B)); ok {
				pn.SetWriterState(cluster.WriterState(f.Arg))
				a.reg.Register(pn)
			}
		}
	case "rerole": // the peer re-joined with another role (Coordinator.onRaftNodeAdded)
		if a.reg != nil && f.A != f.B {
			v := View{Registered: true, Role: f.Arg, State: "healthy"}
			a.reg.Register(cl.mkPeer(f.B, v))
			cl.viewRole[f.A][f.B] = f.Arg
		}
	case "unregister":
		if a.reg != nil && f.A != f.B {
			a.reg.Unregister(nodeID(f.B))
			cl.viewRole[f.A][f.B] = ""
		}
	}
}

// heartbeats of node j, delivered to every observer it has a link to
// (Coordinator.handleHeartbeat: RecordHeartbeat + UpdateNodeState).
func (cl *clusterSim) heartbeatLoop(j int) {
	for {
		simrt.Sleep(time.Duration(cl.p.HBMs) * time.Millisecond)
		sender := cl.nodes[j]
		if !sender.up || !sender.cfg.Router {
			continue
		}
		for i, obs := range cl.nodes {
			if i == j || obs.reg == nil || !obs.up || !cl.link[i][j] {
				continue
			}
			if obs.reg.RecordHeartbeat(nodeID(j), cluster.NodeStats{}) {
				obs.reg.UpdateNodeState(nodeID(j), parseState(sender.self))
			}
		}
	}
}

// ---------------------------------------------------------------------------
// oracle (from the property text)

// canServe is the role table of the property: writers and standalone nodes
// ingest; writers, readers and standalone nodes answer queries; compactors do
// neither. A node that runs without clustering has no role restriction.
func canServe(nc *NodeCfg, write bool) bool {
	if !nc.Router {
		return true
	}
	switch nc.Role {
	case "standalone", "writer":
		return true
	case "reader":
		return !write
	}
	return false
}

func roleCanServe(role string, write bool) bool {
	return canServe(&NodeCfg{Router: true, Role: role}, write)
}

func kindClass(k string) string {
	if isWriteKind(k) {
		return "write"
	}
	if k == "qarrow" {
		return "query-arrow-endpoint"
	}
	return "query"
}

func chain(tr *reqTrace) string {
	var s []string
	for _, a := range tr.arrivals {
		s = append(s, fmt.Sprintf("n%d(depth %d, marker %q)", a.node+1, a.depth, a.marker))
	}
	return strings.Join(s, " -> ")
}

func (cl *clusterSim) judge(out *simkit.Outcome, quietRun bool) {
	p := cl.p
	n := len(cl.nodes)
	// effects per node
	bufCounts := make([]map[string]int, n)
	sqlCounts := make([]map[string]int, n)
	for i, sn := range cl.nodes {
		bufCounts[i] = ingest.VerifBufferedCounts(sn.buf)
		sqlCounts[i] = map[string]int{}
		for _, q := range sn.qreg.GetActive() {
			sqlCounts[i][q.SQL]++
		}
		for _, q := range sn.qreg.GetHistory(1000) {
			sqlCounts[i][q.SQL]++
		}
	}
	for _, tr := range cl.traces {
		if !tr.issued || tr.refused {
			continue
		}
		q := tr.req
		write := isWriteKind(q.Kind)
		class := kindClass(q.Kind)
		forwards := 0
		maxDepth := 0
		for _, a := range tr.arrivals {
			if a.depth > 0 {
				forwards++
			}
			if a.depth > maxDepth {
				maxDepth = a.depth
			}
		}
		// who processed it locally, and how often
		proc := make([]int, n)
		total := 0
		for i := range cl.nodes {
			var c int
			if write {
				rows := bufCounts[i][reqDB(tr.idx)+"/"+reqMeas(q)]
				if rows%reqRows(q) != 0 {
					panic(fmt.Sprintf("routing harness: node n%d holds %d rows of request r%d (%d per copy)", i+1, rows, tr.idx, reqRows(q)))
				}
				c = rows / reqRows(q)
			} else if q.Kind == "qarrow" {
				// the Arrow endpoint does not use the query registry: a 200 answer that
				// involved no forward was computed by the entry node itself
				for _, x := range tr.arrowLocal {
					if x == i {
						c++
					}
				}
			} else {
				c = sqlCounts[i][reqSQL(tr.idx)]
			}
			proc[i] = c
			total += c
		}
		out.Stats["probe.requests_judged"]++
		if forwards > 0 {
			out.Stats["probe.forwarded_requests"]++
		}
		ok2xx := tr.status >= 200 && tr.status < 300
		entryCfg := &p.Nodes[q.Entry]

		// (1) a forwarded request is never forwarded again
		if maxDepth >= 2 {
			out.Violate("C30.hops.forwarded-request-forwarded-again."+class, "request r%d (%s via n%d, client marker %q) travelled %s", tr.idx, q.Kind, q.Entry+1, q.FwdBy, chain(tr))
		}
		// (2) a node whose role cannot serve the request never processes it locally
		for i := range cl.nodes {
			if proc[i] > 0 && !canServe(&p.Nodes[i], write) {
				circ := ".after-forward"
				if i == q.Entry && forwards == 0 {
					circ = ".direct"
					if q.FwdBy != "" {
						circ = ".direct-with-client-forwarded-by-header"
					}
				}
				if q.Kind == "qarrow" {
					circ = "" // that endpoint has no routing step at all: headers and hops are not a circumstance
				}
				out.Violate("C30.local.incapable-node-processed."+class+circ, "request r%d (%s, client marker %q) was processed locally by n%d whose role is %s; path %s; status %d",
					tr.idx, q.Kind, q.FwdBy, i+1, p.Nodes[i].Role, chain(tr), tr.status)
			}
		}
		// (3) the receiving node handles the request itself when its role can serve it
		if canServe(entryCfg, write) {
			if forwards > 0 || tr.attempts > 0 {
				out.Violate("C30.local.capable-receiver-forwarded."+class, "request r%d (%s, client marker %q) entered at n%d (%s, router=%v) which can serve it, yet it was forwarded: %s",
					tr.idx, q.Kind, q.FwdBy, q.Entry+1, entryCfg.Role, entryCfg.Router, chain(tr))
			} else if (proc[q.Entry] != 1 || !ok2xx) && q.Kind != "qarrow" {
				// (the Arrow endpoint has no registry evidence; its status alone depends on
				// the shared DuckDB instance and is not a routing verdict)
				out.Violate("C30.local.capable-receiver-did-not-serve."+class, "request r%d (%s, client marker %q) entered at n%d (%s, router=%v) which can serve it; status %d, processed %d times there",
					tr.idx, q.Kind, q.FwdBy, q.Entry+1, entryCfg.Role, entryCfg.Router, tr.status, proc[q.Entry])
			}
		}
		// (4) the peer a request is forwarded to is a capable one (judged only
		// where the forwarder's belief about the peer's role was true)
		fi := 0
		for _, a := range tr.arrivals {
			if a.depth == 0 {
				continue
			}
			belief := tr.beliefs[fi]
			fi++
			tgt := &p.Nodes[a.node]
			if tgt.Router && belief == tgt.Role && !canServe(tgt, write) {
				out.Violate("C30.forward.target-role-cannot-serve."+class, "request r%d (%s) was forwarded by n%d to n%d whose role %s (correctly known to the forwarder) cannot serve it",
					tr.idx, q.Kind, a.from+1, a.node+1, tgt.Role)
			}
		}
		// (5) a success answer means some node handled the request
		if ok2xx && total == 0 {
			out.Violate("C30.served.success-answer-but-no-node-processed."+class, "request r%d (%s) via n%d got status %d but no node processed it; path %s", tr.idx, q.Kind, q.Entry+1, tr.status, chain(tr))
		}
		// (6) quiet cluster: an incapable receiver forwards once to a capable peer
		if quietRun && !canServe(entryCfg, write) && q.FwdBy == "" && !entryCfg.HC {
			cands, good := 0, true
			for j := range cl.nodes {
				if j == q.Entry {
					continue
				}
				v := entryCfg.Views[j]
				if !v.Registered || v.State != "healthy" || !roleCanServe(v.Role, write) || (v.Role == "standalone") {
					continue
				}
				cands++
				if !p.Nodes[j].Router || p.Nodes[j].Role != v.Role || !p.Nodes[j].Up {
					good = false
				}
			}
			if cands > 0 && good {
				out.Stats["probe.quiet_forward_judged"]++
				if forwards != 1 || total != 1 || !ok2xx {
					out.Violate("C30.forward.not-served-by-capable-peer."+class, "request r%d (%s) entered at n%d (%s) in a fault-free cluster with %d healthy capable peer(s): status %d, %d forward(s), processed %d time(s); path %s",
						tr.idx, q.Kind, q.Entry+1, entryCfg.Role, cands, tr.status, forwards, total, chain(tr))
				}
			}
		}
		if total > 1 {
			out.Stats["probe.processed_more_than_once"]++
		}
		if tr.status == 508 {
			out.Stats["probe.status_508"]++
		}
	}
}

// ---------------------------------------------------------------------------

func runC30(planAny any, cfg simrt.Config) *simkit.Outcome {
	p := planAny.(*C30Plan)
	out := &simkit.Outcome{Stats: map[string]int64{}}
	deps()
	var cl *clusterSim
	done := false
	res := simrt.Run(cfg, func() {
		cl = buildCluster(p)
		for i := range p.Reqs {
			cl.traces = append(cl.traces, &reqTrace{idx: i, req: &p.Reqs[i]})
		}
		for _, sn := range cl.nodes {
			if sn.hc != nil {
				sn.hc.Start()
			}
		}
		if p.Heartbeats {
			for j := range cl.nodes {
				j := j
				simrt.Go(fmt.Sprintf("heartbeat-n%d", j+1), func() { cl.heartbeatLoop(j) })
			}
		}
		if len(p.Faults) > 0 {
			simrt.Go("faults", func() {
				at := 0
				for _, f := range p.Faults {
					if f.AtMs > at {
						simrt.Sleep(time.Duration(f.AtMs-at) * time.Millisecond)
						at = f.AtMs
					}
					cl.apply(f)
				}
			})
		}
		nclients := 0
		for _, q := range p.Reqs {
			if q.Client+1 > nclients {
				nclients = q.Client + 1
			}
		}
		var hs []*simrt.Task
		for c := 0; c < nclients; c++ {
			c := c
			hs = append(hs, simrt.Go(fmt.Sprintf("client%d", c), func() {
				for _, tr := range cl.traces {
					if tr.req.Client != c {
						continue
					}
					if tr.req.SleepMs > 0 {
						simrt.Sleep(time.Duration(tr.req.SleepMs) * time.Millisecond)
					}
					cl.issue(tr)
				}
			}))
		}
		for _, h := range hs {
			simrt.Join(h)
		}
		quietRun := len(p.Faults) == 0 && len(p.Net) == 0 && !p.Heartbeats
		cl.judge(out, quietRun)
		done = true
	})
	out.Absorb(res)
	if len(res.Panics) > 0 {
		for _, pn := range res.Panics {
			if strings.Contains(pn, "routing harness:") {
				fatal("%s", pn)
			}
		}
		out.Violate("C30.panic.request-path", "%s", firstLine(res.Panics[0]))
		return out
	}
	if !done {
		if res.Outcome == "ok" {
			fatal("run ended before the oracle ran")
		}
		return out
	}
	for _, tr := range cl.traces {
		if len(tr.arrivals) > 1 || tr.faulted || (tr.req.FwdBy != "" && len(tr.arrivals) > 0) {
			out.Nontrivial = true
		}
	}
	return out
}

func firstLine(s string) string {
	if i := strings.Index(s, "\n"); i > 0 {
		// keep the panic value and the first frames
		lines := strings.Split(s, "\n")
		if len(lines) > 12 {
			lines = lines[:12]
		}
		return strings.Join(lines, " | ")
	}
	return s
}

func shrinkC30(planAny any) []any {
	p := planAny.(*C30Plan)
	var out []any
	cp := func() *C30Plan {
		q := *p
		q.Nodes = append([]NodeCfg(nil), p.Nodes...)
		for i := range q.Nodes {
			q.Nodes[i].Views = append([]View(nil), p.Nodes[i].Views...)
		}
		q.Reqs = append([]Req(nil), p.Reqs...)
		q.Faults = append([]Fault(nil), p.Faults...)
		q.Net = append([]NetFault(nil), p.Net...)
		return &q
	}
	for i := range p.Reqs {
		if len(p.Reqs) > 1 {
			q := cp()
			q.Reqs = append(q.Reqs[:i], q.Reqs[i+1:]...)
			out = append(out, q)
		}
	}
	for i := range p.Faults {
		q := cp()
		q.Faults = append(q.Faults[:i], q.Faults[i+1:]...)
		out = append(out, q)
	}
	for i := range p.Net {
		q := cp()
		q.Net = append(q.Net[:i], q.Net[i+1:]...)
		out = append(out, q)
	}
	// drop the last node when nothing refers to it
	if n := len(p.Nodes); n > 1 {
		used := false
		for _, r := range p.Reqs {
			if r.Entry == n-1 {
				used = true
			}
		}
		if !used {
			q := cp()
			q.Nodes = q.Nodes[:n-1]
			for i := range q.Nodes {
				q.Nodes[i].Views = q.Nodes[i].Views[:n-1]
			}
			var fs []Fault
			for _, f := range q.Faults {
				if f.A < n-1 && f.B < n-1 {
					fs = append(fs, f)
				}
			}
			q.Faults = fs
			out = append(out, q)
		}
	}
	if p.Heartbeats {
		q := cp()
		q.Heartbeats = false
		out = append(out, q)
	}
	for i := range p.Nodes {
		if p.Nodes[i].HC {
			q := cp()
			q.Nodes[i].HC = false
			out = append(out, q)
		}
	}
	for i := range p.Reqs {
		if p.Reqs[i].Extra != nil || p.Reqs[i].SleepMs > 0 || p.Reqs[i].Rows > 1 || p.Reqs[i].Client > 0 {
			q := cp()
			q.Reqs[i].Extra, q.Reqs[i].SleepMs, q.Reqs[i].Rows, q.Reqs[i].Client = nil, 0, 1, 0
			out = append(out, q)
		}
	}
	if p.LatencyUs > 0 {
		q := cp()
		q.LatencyUs = 0
		out = append(out, q)
	}
	return out
}

func descC30(planAny any) any {
	p := planAny.(*C30Plan)
	var ns, rs, fs []string
	for i, nc := range p.Nodes {
		var vs []string
		for j, v := range nc.Views {
			if j == i {
				continue
			}
			if !v.Registered {
				vs = append(vs, fmt.Sprintf("n%d:-", j+1))
				continue
			}
			vs = append(vs, fmt.Sprintf("n%d:%s/%s/%s", j+1, v.Role, v.State, v.WState))
		}
		ns = append(ns, fmt.Sprintf("n%d %s router=%v up=%v hc=%v sees[%s]", i+1, nc.Role, nc.Router, nc.Up, nc.HC, strings.Join(vs, " ")))
	}
	for i, q := range p.Reqs {
		rs = append(rs, fmt.Sprintf("r%d %s@n%d fwdby=%q", i, q.Kind, q.Entry+1, q.FwdBy))
	}
	for _, f := range p.Faults {
		fs = append(fs, fmt.Sprintf("%dms %s n%d n%d %s", f.AtMs, f.Kind, f.A+1, f.B+1, f.Arg))
	}
	for _, f := range p.Net {
		fs = append(fs, fmt.Sprintf("forward-attempt#%d %s %dms", f.Attempt, f.Kind, f.DelayMs))
	}
	return map[string]any{"nodes": ns, "requests": rs, "faults": fs, "heartbeats": p.Heartbeats, "hc_interval_s": p.HCIntervalS}
}

func main() {
	zerolog.SetGlobalLevel(zerolog.Disabled)
	if os.Getenv("VERIF_LOG") != "" {
		zerolog.SetGlobalLevel(zerolog.DebugLevel)
	}
	simkit.Main(&simkit.Check{ID: "C30", Gen: genC30, New: func() any { return &C30Plan{} }, Run: runC30, Shrink: shrinkC30, Desc: descC30})
}
