//go:build verif

package ingest

// VerifBufferedCounts returns the number of records currently held in the
// in-memory buffers, per buffer key ("database/measurement").
func VerifBufferedCounts(b *ArrowBuffer) map[string]int {
	out := map[string]int{}
	for _, sh := range b.shards {
		sh.mu.RLock()
		for k, n := range sh.bufferRecordCounts {
			out[k] += n
		}
		sh.mu.RUnlock()
	}
	return out
}
