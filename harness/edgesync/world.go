//go:build verif

package main

import (
	"context"
	"crypto/sha256"
	"database/sql"
	"encoding/hex"
	"errors"
	"fmt"
	"io"
	"os"
	"path/filepath"
	"sort"
	"strings"
	"sync/atomic"
	"time"

	sqlite3 "github.com/mattn/go-sqlite3"
	"github.com/rs/zerolog"

	"github.com/basekick-labs/arc/internal/edgesync"
	"github.com/basekick-labs/arc/internal/simrt"
	"github.com/basekick-labs/arc/internal/storage"
	"github.com/basekick-labs/arc/internal/verifsim/simkit"
)

const (
	spokeID = "rocket-01"
	hubID   = "hub-a"
)

var scratchSeq atomic.Int64

func mkScratch() string {
	b := os.Getenv("VERIF_SCRATCH")
	if b == "" {
		b = "/dev/shm"
	}
	d := filepath.Join(b, fmt.Sprintf("verif-es.%d.%d", os.Getpid(), scratchSeq.Add(1)))
	os.RemoveAll(d)
	if err := os.MkdirAll(d, 0o755); err != nil {
		hfail("scratch: %v", err)
	}
	return d
}

func hfail(format string, args ...any) {
	fmt.Fprintf(os.Stderr, "HARNESS-ERROR edgesync: "+format+"\n", args...)
	os.Exit(2)
}

func harnessLogger() zerolog.Logger {
	if os.Getenv("VERIF_LOG") != "" {
		return zerolog.New(os.Stderr).Level(zerolog.DebugLevel)
	}
	return zerolog.New(io.Discard).Level(zerolog.Disabled)
}

func shaHex(b []byte) string {
	s := sha256.Sum256(b)
	return hex.EncodeToString(s[:])
}

func content(seed uint64, n int) []byte {
	r := simrt.NewRand(seed)
	return r.Bytes(n)
}

// ---------------------------------------------------------------------------
// SQLite driver with a transition-observer function. The observer is an
// instrument only: AFTER triggers on sync_ledger call verif_tr(path, old, new).

var curWorld *world

func init() {
	sql.Register("sqlite3_verif", &sqlite3.SQLiteDriver{
		ConnectHook: func(c *sqlite3.SQLiteConn) error {
			return c.RegisterFunc("verif_tr", func(path, from, to string) int64 {
				if w := curWorld; w != nil {
					w.onTransition(path, from, to)
				}
				return 0
			}, false)
		},
	})
}

const triggerSQL = `
CREATE TRIGGER IF NOT EXISTS verif_upd AFTER UPDATE ON sync_ledger WHEN old.state <> new.state
BEGIN SELECT verif_tr(new.path, old.state, new.state); END;
CREATE TRIGGER IF NOT EXISTS verif_ins AFTER INSERT ON sync_ledger
BEGIN SELECT verif_tr(new.path, '', new.state); END;
CREATE TRIGGER IF NOT EXISTS verif_del AFTER DELETE ON sync_ledger
BEGIN SELECT verif_tr(old.path, old.state, ''); END;
`

func openDB(path string) *sql.DB {
	db, err := sql.Open("sqlite3_verif", path+"?_journal_mode=WAL&_busy_timeout=5000")
	if err != nil {
		hfail("open %s: %v", path, err)
	}
	if err := db.Ping(); err != nil {
		hfail("ping %s: %v", path, err)
	}
	db.SetMaxOpenConns(1)
	db.SetMaxIdleConns(1)
	return db
}

// ---------------------------------------------------------------------------
// hub backend without append support (object-store like)

type plainBackend struct{ in *storage.LocalBackend }

func (b *plainBackend) Write(ctx context.Context, p string, d []byte) error {
	return b.in.Write(ctx, p, d)
}
func (b *plainBackend) WriteReader(ctx context.Context, p string, r io.Reader, n int64) error {
	return b.in.WriteReader(ctx, p, r, n)
}
func (b *plainBackend) Read(ctx context.Context, p string) ([]byte, error) { return b.in.Read(ctx, p) }
func (b *plainBackend) ReadTo(ctx context.Context, p string, w io.Writer) error {
	return b.in.ReadTo(ctx, p, w)
}
func (b *plainBackend) ReadToAt(ctx context.Context, p string, w io.Writer, off int64) error {
	return b.in.ReadToAt(ctx, p, w, off)
}
func (b *plainBackend) StatFile(ctx context.Context, p string) (int64, error) {
	return b.in.StatFile(ctx, p)
}
func (b *plainBackend) List(ctx context.Context, p string) ([]string, error) {
	return b.in.List(ctx, p)
}
func (b *plainBackend) Delete(ctx context.Context, p string) error { return b.in.Delete(ctx, p) }
func (b *plainBackend) Exists(ctx context.Context, p string) (bool, error) {
	return b.in.Exists(ctx, p)
}
func (b *plainBackend) Close() error       { return nil }
func (b *plainBackend) Type() string       { return "plain" }
func (b *plainBackend) ConfigJSON() string { return "{}" }
func (b *plainBackend) ListObjects(ctx context.Context, p string) ([]storage.ObjectInfo, error) {
	return b.in.ListObjects(ctx, p)
}

// chunkReader delivers a buffered body in reads of at most n bytes.
type chunkReader struct {
	b []byte
	n int
}

func (c *chunkReader) Read(p []byte) (int, error) {
	if len(c.b) == 0 {
		return 0, io.EOF
	}
	k := len(p)
	if c.n > 0 && k > c.n {
		k = c.n
	}
	k = copy(p[:k], c.b)
	c.b = c.b[k:]
	return k, nil
}

// ---------------------------------------------------------------------------

type fileState struct {
	idx  int
	spec *FileSpec
	path string
	data []byte
	sha  string

	created   bool // exists (or existed) on the spoke
	spokeGone bool

	foreign    []byte // content a colliding writer (same spoke id) uploaded for this path
	foreignSha string

	putCalls int

	finalPresent bool  // hub final path currently exists (tracked through fs events)
	commits      int   // promotions into the final path
	hubRemoved   bool  // an external hub-side removal (retention / operator) hit this path
	hubLostAt    int64 // seq at which an identical hub copy was removed externally (-1: never)
	hubCompacted bool  // hub compaction consumed the file: content lives in a compacted output
	compactedSha string
	receiptMark  bool // MarkCompacted has been applied for it
	markSeq      int64
	forgot       string // how a reconcile came to forget the receipt of a hub-compacted file
	active       int    // hub-side Receive calls for this path currently running
	overlap      bool   // two Receive calls for this path overlapped in time at least once
}

// stall: the at-th hub file-system operation of one request takes d longer.
type stall struct {
	at, n int
	d     time.Duration
}

type world struct {
	p    *Plan
	out  *simkit.Outcome
	root string

	spokeDir, hubDir       string
	spokeDBPath, hubDBPath string
	spokeNode, hubNode     *simrt.Node

	spokeDB *sql.DB
	ledger  *edgesync.Ledger
	agent   *edgesync.Agent
	spokeBE *storage.LocalBackend
	boots   int

	hubDB      *sql.DB
	index      *edgesync.HubIndex
	receiver   *edgesync.Receiver
	reconciler *edgesync.Reconciler
	hubLocal   *storage.LocalBackend
	hubBE      storage.Backend

	tr       *transport
	files    []*fileState
	byPath   map[string]*fileState
	seq      int64
	runStart int64
	inRun    bool
	faultsOn bool
	hubTasks []*simrt.Task
	hubOps   int
	regCalls int
	manifest map[string]string      // hub final path -> sha registered
	faults   int                    // faults that actually fired
	stalls   map[*simrt.Task]*stall // hub requests whose storage is slow once
	crashes  int
	synced   int
	rows     map[string]string // final ledger states
}

func newWorld(p *Plan, root string, out *simkit.Outcome) *world {
	w := &world{p: p, out: out, root: root, byPath: map[string]*fileState{}, manifest: map[string]string{},
		stalls: map[*simrt.Task]*stall{}}
	w.spokeDir = filepath.Join(root, "spoke", "data")
	w.hubDir = filepath.Join(root, "hub", "data")
	w.spokeDBPath = filepath.Join(root, "spoke", "arc.db")
	w.hubDBPath = filepath.Join(root, "hub", "arc.db")
	for _, d := range []string{w.spokeDir, w.hubDir} {
		if err := os.MkdirAll(d, 0o755); err != nil {
			hfail("mkdir: %v", err)
		}
	}
	for i := range p.Files {
		fs := &p.Files[i]
		f := &fileState{idx: i, spec: fs, path: fs.Path, hubLostAt: -1}
		f.data = content(fs.Seed, fs.Size)
		f.sha = shaHex(f.data)
		w.files = append(w.files, f)
		if !fs.Off {
			if _, dup := w.byPath[fs.Path]; dup {
				hfail("duplicate path in plan: %s", fs.Path)
			}
			w.byPath[fs.Path] = f
		}
	}
	return w
}

func (w *world) violate(rule, format string, args ...any) {
	simrt.Event("VIOLATION %s", rule)
	w.out.Violate(rule, format, args...)
}

// onNode runs f as a task of node n and waits; false when the node died.
func onNode(n *simrt.Node, what string, f func()) bool {
	done := false
	h := simrt.GoOn(what, n, func() { f(); done = true })
	simrt.Join(h)
	return done
}

func (w *world) hubCall(what string, f func()) {
	h := simrt.GoOn(what, w.hubNode, f)
	w.hubTasks = append(w.hubTasks, h)
	simrt.Join(h)
}

func (w *world) joinHub() {
	for _, t := range w.hubTasks {
		simrt.Join(t)
	}
	w.hubTasks = nil
}

// ---------------------------------------------------------------------------
// boot

func (w *world) bootHub() {
	ok := onNode(w.hubNode, "hub-boot", func() {
		local, err := storage.NewLocalBackend(w.hubDir, harnessLogger())
		if err != nil {
			hfail("hub backend: %v", err)
		}
		w.hubLocal = local
		w.hubBE = local
		if w.p.Knobs.NoResume {
			w.hubBE = &plainBackend{in: local}
		}
		w.hubDB = openDB(w.hubDBPath)
		idx, err := edgesync.NewHubIndex(w.hubDB, harnessLogger())
		if err != nil {
			hfail("hub index: %v", err)
		}
		w.index = idx
		cfg := edgesync.ReceiverConfig{Backend: w.hubBE, Index: idx, Logger: harnessLogger(),
			RecordActivity: func(ctx context.Context, id string, files, bytes int64) { simrt.Count("probe.hub_activity", files) }}
		if w.p.Knobs.Register {
			cfg.RegisterFile = w.registerFile
		}
		rc, err := edgesync.NewReceiver(cfg)
		if err != nil {
			hfail("receiver: %v", err)
		}
		w.receiver = rc
		rec, err := edgesync.NewReconciler(edgesync.ReconcilerConfig{Index: idx, Backend: w.hubBE, MaxEntries: w.p.Knobs.HubMaxEntries})
		if err != nil {
			hfail("reconciler: %v", err)
		}
		w.reconciler = rec
	})
	if !ok {
		hfail("hub died during boot")
	}
}

func (w *world) bootSpoke() {
	w.boots++
	ok := onNode(w.spokeNode, fmt.Sprintf("spoke-boot%d", w.boots), func() {
		be, err := storage.NewLocalBackend(w.spokeDir, harnessLogger())
		if err != nil {
			hfail("spoke backend: %v", err)
		}
		w.spokeBE = be
		w.spokeDB = openDB(w.spokeDBPath)
		l, err := edgesync.NewLedger(w.spokeDB, harnessLogger())
		if err != nil {
			hfail("ledger: %v", err)
		}
		if _, err := w.spokeDB.Exec(triggerSQL); err != nil {
			hfail("triggers: %v", err)
		}
		w.ledger = l
		a, err := edgesync.NewAgent(edgesync.AgentConfig{Ledger: l, Transport: w.tr, Backend: be, HubID: hubID, SpokeID: spokeID,
			MaxAttempts: w.p.Knobs.MaxAttempts, MaxConcurrent: w.p.Knobs.MaxConcurrent, BatchSize: w.p.Knobs.BatchSize, Logger: harnessLogger()})
		if err != nil {
			hfail("agent: %v", err)
		}
		if w.p.Knobs.DeferEpoch {
			// same calls as cmd/arc/main.go: the epoch is stamped once and survives restarts
			s, err := l.EnsureMetaOnce(context.Background(), edgesync.MetaCompactionDeferEpoch, simrt.Now().UTC().Format(time.RFC3339Nano))
			if err != nil {
				hfail("epoch: %v", err)
			}
			t, err := time.Parse(time.RFC3339Nano, s)
			if err != nil {
				hfail("epoch parse: %v", err)
			}
			a.SetCompactionDeferEpoch(t)
		}
		w.agent = a
	})
	if !ok {
		hfail("spoke died during boot")
	}
}

func (w *world) restartSpoke() {
	w.crashes++
	if w.spokeDB != nil {
		w.spokeDB.Close()
		w.spokeDB = nil
	}
	simrt.Revive(w.spokeNode)
	w.spokeNode.CrashAtStep = 0
	simrt.Event("SPOKE-RESTART")
	w.bootSpoke()
}

func (w *world) closeAll() {
	if w.spokeDB != nil {
		w.spokeDB.Close()
	}
	if w.hubDB != nil {
		w.hubDB.Close()
	}
}

// ---------------------------------------------------------------------------
// spoke files

func (w *world) spokeAbs(f *fileState) string {
	return filepath.Join(w.spokeDir, filepath.FromSlash(f.path))
}
func (w *world) hubAbs(f *fileState) string {
	return filepath.Join(w.hubDir, spokeID, filepath.FromSlash(f.path))
}

func (w *world) createSpokeFile(f *fileState) {
	if f.spec.Off || f.created {
		return
	}
	p := w.spokeAbs(f)
	if err := os.MkdirAll(filepath.Dir(p), 0o755); err != nil {
		hfail("mkdir: %v", err)
	}
	if err := os.WriteFile(p, f.data, 0o644); err != nil {
		hfail("write: %v", err)
	}
	f.created = true
	simrt.Event("SPOKE-FILE #%d %s %dB", f.idx, f.path, len(f.data))
}

func (w *world) removeSpokeFile(f *fileState, why string) {
	if f.spec.Off || !f.created || f.spokeGone {
		return
	}
	os.Remove(w.spokeAbs(f))
	f.spokeGone = true
	simrt.Event("SPOKE-VANISH #%d (%s)", f.idx, why)
}

// ---------------------------------------------------------------------------
// hub observation

func (w *world) hubFileOf(abs string) (*fileState, bool) {
	pre := w.hubDir + string(filepath.Separator)
	if !strings.HasPrefix(abs, pre) {
		return nil, false
	}
	rel := filepath.ToSlash(abs[len(pre):])
	if strings.HasPrefix(rel, edgesync.StagingPrefix+"/") || !strings.HasSuffix(rel, ".parquet") {
		return nil, false
	}
	if !strings.HasPrefix(rel, spokeID+"/") {
		w.violate("C27.hub.file-outside-spoke-namespace", "hub created %q outside the spoke's namespace", rel)
		return nil, false
	}
	f := w.byPath[rel[len(spokeID)+1:]]
	if f == nil {
		w.violate("C27.hub.unknown-final-path", "hub created %q which is no spoke file", rel)
		return nil, false
	}
	return f, true
}

func classify(got, want []byte) string {
	switch {
	case len(got) < len(want) && string(want[:len(got)]) == string(got):
		return "truncated"
	case len(got) == len(want):
		return "same-length-different-bytes"
	case len(got) > len(want):
		return "longer"
	default:
		return "shorter-different-bytes"
	}
}

// checkExposed judges the bytes currently visible at f's hub path.
func (w *world) checkExposed(f *fileState, when string) {
	got, err := os.ReadFile(w.hubAbs(f))
	if err != nil {
		return
	}
	s := shaHex(got)
	if s == f.sha || (f.foreignSha != "" && s == f.foreignSha) {
		return
	}
	circ := classify(got, f.data)
	if f.overlap {
		// one root cause whatever the byte pattern: fingerprint by circumstance
		circ = "overlapping-receives-same-path"
	}
	w.violate("C27.hub.exposed-wrong-bytes."+circ, "hub path %s/%s holds %d bytes (sha %s…) %s; the spoke's file has %d bytes (sha %s…)",
		spokeID, f.path, len(got), s[:12], when, len(f.data), f.sha[:12])
}

func (w *world) fsObserver(op *simrt.FSOp, err error) {
	if err != nil {
		return
	}
	switch op.Kind {
	case "rename":
		if f, ok := w.hubFileOf(op.Path2); ok {
			w.onHubCommit(f)
		}
	case "create", "write", "truncate":
		if f, ok := w.hubFileOf(op.Path); ok {
			w.seq++
			w.checkExposed(f, "after a direct "+op.Kind)
			f.finalPresent = true
		}
	case "remove":
		if f, ok := w.hubFileOf(op.Path); ok {
			w.seq++
			if f.finalPresent {
				simrt.Event("HUB-REMOVED-FINAL #%d", f.idx)
			}
			f.finalPresent = false
		}
	}
}

func (w *world) onHubCommit(f *fileState) {
	w.seq++
	simrt.Event("HUB-COMMIT #%d n=%d", f.idx, f.commits+1)
	w.checkExposed(f, "right after promotion")
	if f.hubCompacted {
		// what did the hub's receipt index say when it re-accepted the raw file?
		mark := "receipt-not-yet-marked-compacted"
		held, err := w.index.Lookup(context.Background(), spokeID, []string{f.path})
		if err != nil {
			hfail("index lookup: %v", err)
		}
		if hf, ok := held[f.path]; !ok {
			mark = "receipt-missing"
			if f.forgot != "" {
				mark = "receipt-forgotten-by-reconcile-" + f.forgot
			}
		} else if hf.Compacted {
			mark = "receipt-marked-compacted"
		}
		if f.overlap {
			mark += ".overlapping-receives-same-path"
		}
		w.violate("C27.hub.stored-twice.raw-reaccepted-after-hub-compaction."+mark,
			"hub promoted %s again although its content already lives in a compacted output (hub compaction consumed the raw file)", f.path)
	} else if f.finalPresent {
		circ := "sequential"
		if f.overlap {
			circ = "overlapping-receives-same-path"
		}
		w.violate("C27.hub.stored-twice.overwrote-held-file."+circ, "hub promoted %s over a copy it already held (commit #%d)", f.path, f.commits+1)
	}
	f.finalPresent = true
	f.commits++
}

func (w *world) registerFile(ctx context.Context, rf *edgesync.ReceivedFile) error {
	k := w.regCalls
	w.regCalls++
	if w.faultsOn {
		for _, x := range w.p.RegFail {
			if x == k {
				w.faults++
				simrt.Count("fault.register_fail", 1)
				simrt.Event("REGISTER-FAIL #%d %s", k, rf.Path)
				return errors.New("manifest: no leader")
			}
		}
	}
	got, err := os.ReadFile(filepath.Join(w.hubDir, filepath.FromSlash(rf.Path)))
	if err != nil {
		if f := w.byPath[rf.SourcePath]; f != nil && (f.hubRemoved || f.hubCompacted) && !f.finalPresent {
			return nil // an external removal took the file between promotion and registration
		}
		w.violate("C27.hub.registered-missing-file", "hub registered %s but the file is not in storage: %v", rf.Path, err)
		return nil
	}
	if s := shaHex(got); s != rf.SHA256 {
		rule := "C27.hub.registered-unverified-bytes"
		if f := w.byPath[rf.SourcePath]; f != nil && f.overlap {
			rule += ".overlapping-receives-same-path"
		}
		w.violate(rule, "hub registered %s with sha %s… but storage holds sha %s…", rf.Path, rf.SHA256[:12], s[:12])
	}
	w.manifest[rf.Path] = rf.SHA256
	simrt.Event("REGISTER %s", rf.Path)
	return nil
}

// hubHoldsIdentical: the hub holds f's content now (as a file, or inside a
// compacted output its own compaction produced from the delivered file).
func (w *world) hubHoldsIdentical(f *fileState) (bool, string) {
	if f.hubCompacted && f.compactedSha == f.sha {
		return true, ""
	}
	got, err := os.ReadFile(w.hubAbs(f))
	if err != nil {
		return false, "hub-file-absent"
	}
	if shaHex(got) != f.sha {
		return false, "hub-holds-different-bytes"
	}
	return true, ""
}

// external hub-side removal (retention over the spoke namespace, operator rm)
func (w *world) hubVanish(f *fileState, why string) {
	if f.spec.Off {
		return
	}
	if _, err := os.Stat(w.hubAbs(f)); err != nil {
		return
	}
	w.seq++
	if ok, _ := w.hubHoldsIdentical(f); ok && !f.hubCompacted {
		f.hubLostAt = w.seq
	}
	os.Remove(w.hubAbs(f))
	f.finalPresent = false
	f.hubRemoved = true
	simrt.Event("HUB-VANISH #%d (%s)", f.idx, why)
}

// hubCompact models the hub's own compaction of a received namespace in the
// order compaction/manager.go uses: the job writes its output and deletes the
// consumed sources, then the parent marks the receipts (OnConsumedInputs ->
// HubIndex.MarkCompacted, real code).
func (w *world) hubCompact(files []*fileState) {
	var consumed []*fileState
	for _, f := range files {
		if f.spec.Off || f.hubCompacted {
			continue
		}
		got, err := os.ReadFile(w.hubAbs(f))
		if err != nil {
			continue
		}
		// only completely received files (receipt recorded, hence registered and
		// visible to readers) are compaction candidates
		held, err := w.index.Lookup(context.Background(), spokeID, []string{f.path})
		if err != nil {
			hfail("index lookup: %v", err)
		}
		if hf, ok := held[f.path]; !ok || hf.Compacted || f.active > 0 {
			continue
		}
		w.seq++
		f.hubCompacted = true // the output now contains the rows
		f.compactedSha = shaHex(got)
		consumed = append(consumed, f)
		simrt.Event("HUB-COMPACT-OUTPUT #%d", f.idx)
	}
	if len(consumed) == 0 {
		return
	}
	simrt.Yield()
	var paths []string
	for _, f := range consumed {
		os.Remove(w.hubAbs(f))
		f.finalPresent = false
		simrt.Event("HUB-COMPACT-DELETE #%d", f.idx)
		paths = append(paths, f.path)
		simrt.Yield()
	}
	simrt.Sleep(time.Duration(1+simrt.Stream("compact").Intn(200)) * time.Microsecond)
	if err := w.index.MarkCompacted(context.Background(), spokeID, paths); err != nil {
		hfail("MarkCompacted: %v", err)
	}
	w.seq++
	for _, f := range consumed {
		f.receiptMark = true
		f.markSeq = w.seq
	}
	simrt.Event("HUB-COMPACT-MARKED %d", len(paths))
}

// ---------------------------------------------------------------------------
// ledger transition log

var allowedEdge = map[string]bool{
	">pending": true, ">skipped": true,
	"pending>in_flight": true, "in_flight>pending": true, "in_flight>failed": true, "pending>failed": true,
	"pending>synced": true, "in_flight>synced": true, "exported>synced": true,
	"pending>exported": true, "exported>pending": true,
	"pending>skipped": true, "in_flight>skipped": true,
	"failed>pending": true, "skipped>pending": true, "failed>skipped": true,
	"synced>": true, "skipped>": true,
}

func (w *world) onTransition(path, from, to string) {
	w.seq++
	f := w.byPath[path]
	id := -1
	if f != nil {
		id = f.idx
	}
	simrt.Event("LEDGER #%d %s>%s", id, from, to)
	simrt.Count("edge."+orNone(from)+">"+orNone(to), 1)
	if !allowedEdge[from+">"+to] {
		w.violate(fmt.Sprintf("C27.ledger.undocumented-transition.%s-to-%s", orNone(from), orNone(to)),
			"ledger row %s went %q -> %q, which is not a documented transition", path, from, to)
	}
	if f == nil {
		w.violate("C27.ledger.unknown-path", "ledger tracks %q which is no spoke file", path)
		return
	}
	if to == "synced" {
		w.synced++
		ok, why := w.hubHoldsIdentical(f)
		if ok {
			return
		}
		if f.hubLostAt >= w.runStart && w.inRun {
			// the hub held it during this pass and an external removal took it
			// away afterwards: the acknowledgment was true when it was given
			simrt.Count("probe.synced_after_external_hub_removal", 1)
			return
		}
		circ := why
		if f.foreignSha != "" {
			circ += ".spoke-id-collision"
		}
		if f.hubRemoved {
			circ += ".after-external-hub-removal"
		}
		if f.hubCompacted {
			circ += ".after-hub-compaction"
		}
		if from == "pending" {
			circ += ".via-reconcile-present"
		} else {
			circ += ".via-put-ack"
		}
		if f.overlap {
			circ = "after-overlapping-receives-same-path"
		}
		w.violate("C27.synced-without-identical-hub-copy."+circ, "spoke marked %s synced (from %s) but the hub does not hold identical content (%s)", path, from, why)
	}
}

func orNone(s string) string {
	if s == "" {
		return "none"
	}
	return s
}

// ---------------------------------------------------------------------------
// transport

type transport struct {
	w        *world
	recCalls int
	curRec   []string
}

func (t *transport) Reconcile(ctx context.Context, hub string, pending []*edgesync.LedgerEntry) (*edgesync.ReconcileResult, error) {
	w := t.w
	if err := ctx.Err(); err != nil {
		return nil, err
	}
	k := t.recCalls
	t.recCalls++
	fault := "none"
	if w.faultsOn && k < len(t.curRec) {
		fault = t.curRec[k]
	}
	simrt.Event("RECONCILE call=%d n=%d fault=%s", k, len(pending), fault)
	entries := make([]edgesync.ReconcileEntry, 0, len(pending))
	for _, e := range pending {
		entries = append(entries, edgesync.ReconcileEntry{Path: e.Path, SHA256: e.SHA256, SizeBytes: e.SizeBytes})
	}
	if fault == "drop-before" {
		w.faults++
		simrt.Count("fault.reconcile_drop_before", 1)
		return nil, errors.New("edgesync: reconcile request: dial tcp: connection refused")
	}
	var res *edgesync.ReconcileResult
	var err error
	w.hubCall("hub-reconcile", func() {
		w.seq++
		start := w.seq
		res, err = w.reconciler.Reconcile(context.Background(), spokeID, entries)
		// bookkeeping for fingerprints: did this reconcile drop the receipt of a
		// file the hub's compaction consumed, and was the receipt already marked
		// compacted when the reconcile began?
		for _, e := range entries {
			f := w.byPath[e.Path]
			if f == nil || !f.hubCompacted || f.forgot != "" {
				continue
			}
			held, lerr := w.index.Lookup(context.Background(), spokeID, []string{f.path})
			if lerr != nil {
				hfail("index lookup: %v", lerr)
			}
			if _, ok := held[f.path]; !ok {
				if f.receiptMark && f.markSeq < start {
					f.forgot = "after-receipt-was-marked-compacted"
				} else {
					f.forgot = "in-delete-to-mark-window"
				}
				simrt.Event("RECONCILE-FORGOT-COMPACTED #%d %s", f.idx, f.forgot)
			}
		}
	})
	if fault == "drop-after" {
		w.faults++
		simrt.Count("fault.reconcile_drop_after", 1)
		return nil, errors.New("edgesync: reconcile request: read tcp: connection reset by peer")
	}
	if err != nil {
		switch {
		case errors.Is(err, edgesync.ErrReconcileTooLarge):
			simrt.Count("probe.reconcile_too_large", 1)
			return nil, &edgesync.ReconcileTooLargeError{MaxEntries: w.reconciler.MaxEntries()}
		case errors.Is(err, edgesync.ErrReceiveInternal):
			return nil, errors.New("edgesync: reconcile failed with 503: hub temporarily unable to reconcile")
		default:
			return nil, fmt.Errorf("edgesync: reconcile failed with 400: %s", err.Error())
		}
	}
	out := &edgesync.ReconcileResult{Missing: append([]string{}, res.Missing...), Present: append([]string{}, res.Present...),
		Conflicts: append([]edgesync.Conflict{}, res.Conflicts...)}
	simrt.Event("RECONCILE-ANSWER missing=%d present=%d conflicts=%d", len(out.Missing), len(out.Present), len(out.Conflicts))
	simrt.Count("probe.reconcile_present", int64(len(out.Present)))
	simrt.Count("probe.reconcile_conflict", int64(len(out.Conflicts)))
	return out, nil
}

func (w *world) faultFor(f *fileState, k int) Fault {
	if !w.faultsOn || k >= len(f.spec.Put) {
		return Fault{Kind: "none"}
	}
	return f.spec.Put[k]
}

func (w *world) body(b []byte) io.Reader {
	own := append([]byte(nil), b...)
	return &chunkReader{b: own, n: w.p.Knobs.Chunk}
}

// foreignCommit: a second writer using the same spoke id (an id collision)
// uploads different content for the same path.
func (w *world) foreignCommit(f *fileState) {
	if f.foreign == nil {
		f.foreign = content(f.spec.Seed^0x9e3779b97f4a7c15, len(f.data)+1)
		f.foreignSha = shaHex(f.foreign)
	}
	var res *edgesync.PutResult
	var err error
	w.hubCall("hub-recv-foreign", func() {
		if f.active > 0 {
			f.overlap = true
		}
		f.active++
		defer func() { f.active-- }()
		res, err = w.receiver.Receive(context.Background(), spokeID, f.path, f.foreignSha, int64(len(f.foreign)), 0, w.body(f.foreign))
	})
	oc := "error"
	if err == nil {
		oc = string(res.Outcome)
	}
	simrt.Event("FOREIGN-UPLOAD #%d -> %s", f.idx, oc)
}

func (t *transport) PutFile(ctx context.Context, hub string, e *edgesync.LedgerEntry, body io.Reader, offset int64) (*edgesync.PutResult, error) {
	w := t.w
	if err := ctx.Err(); err != nil {
		return nil, err
	}
	f := w.byPath[e.Path]
	if f == nil {
		hfail("PutFile for unknown path %q", e.Path)
	}
	k := f.putCalls
	f.putCalls++
	fl := w.faultFor(f, k)
	timing := ""
	if fl.SlowUs > 0 {
		timing += fmt.Sprintf(" slow=%dus@%d", fl.SlowUs, fl.SlowAt)
	}
	if fl.Kind == "linger" && fl.CtxUs > 0 {
		timing += fmt.Sprintf(" ctx=%dus", fl.CtxUs)
	}
	simrt.Event("PUT #%d call=%d off=%d fault=%s%s", f.idx, k, offset, fl.Kind, timing)
	if fl.Kind != "none" {
		w.faults++
		simrt.Count("fault.put_"+strings.ReplaceAll(fl.Kind, "-", "_"), 1)
	}
	switch fl.Kind {
	case "drop-before":
		return nil, errors.New("edgesync: file request: dial tcp: connection refused")
	case "backpressure":
		return edgesync.BackpressureResult(time.Duration(1+fl.PerMille%5) * time.Second), nil
	case "vanish-src":
		w.removeSpokeFile(f, "during transfer")
	}
	// the client streams the request body from the agent's pipe
	data, rerr := io.ReadAll(body)
	if rerr != nil {
		simrt.Event("PUT #%d body error: %v", f.idx, trimRoot(w.root, rerr.Error()))
		return nil, fmt.Errorf("edgesync: file request: %s", trimRoot(w.root, rerr.Error()))
	}
	if int64(len(data)) != e.SizeBytes-offset {
		// net/http refuses a body that disagrees with Content-Length
		return nil, fmt.Errorf("edgesync: file request: http: ContentLength=%d with Body length %d", e.SizeBytes-offset, len(data))
	}
	sent := data
	switch fl.Kind {
	case "short", "short-lost":
		if len(data) > 0 {
			sent = data[:len(data)*fl.PerMille/1000]
		}
	case "corrupt", "corrupt-lost":
		if len(data) > 0 {
			sent = append([]byte(nil), data...)
			x := byte(fl.Xor)
			if x == 0 {
				x = 1
			}
			sent[len(data)*fl.PerMille/1000] ^= x
		}
	case "collide":
		w.foreignCommit(f)
	}
	path, sha, size := e.Path, e.SHA256, e.SizeBytes
	var res *edgesync.PutResult
	var err error
	// rctx is the hub's request context: it ends when the hub notices that the
	// client is gone, which for a request that is answered in time is never.
	call := func(rctx context.Context) {
		if f.active > 0 {
			f.overlap = true
			simrt.Count("probe.overlapping_receives", 1)
			if f.active > 1 {
				simrt.Count("probe.three_or_more_receives_same_path", 1)
			}
		}
		f.active++
		defer func() { f.active-- }()
		if fl.SlowUs > 0 && w.faultsOn {
			t := simrt.CurTask()
			w.stalls[t] = &stall{at: fl.SlowAt, d: time.Duration(fl.SlowUs) * time.Microsecond}
			defer delete(w.stalls, t)
		}
		res, err = w.receiver.Receive(rctx, spokeID, path, sha, size, offset, w.body(sent))
		oc := "error"
		if err == nil {
			oc = fmt.Sprintf("%s/%d", res.Outcome, res.BytesAccepted)
			simrt.Count("probe.receive_"+string(res.Outcome), 1)
		} else {
			oc += ": " + trimRoot(w.root, err.Error())
			simrt.Count("probe.receive_error", 1)
			if rctx.Err() != nil {
				simrt.Count("probe.receive_ended_by_request_context", 1)
			}
		}
		if offset > 0 {
			simrt.Count("probe.receive_resume_offset", 1)
		}
		simrt.Event("HUB-RECEIVE #%d off=%d -> %s", f.idx, offset, oc)
	}
	if fl.Kind == "linger" {
		// the client gives up (timeout) while the hub is still working on the request
		delay := []time.Duration{0, 0, 100 * time.Microsecond, time.Millisecond, 10 * time.Millisecond, 100 * time.Millisecond}[fl.Xor%6]
		rctx, cancel := context.Background(), context.CancelFunc(func() {})
		if fl.CtxUs > 0 {
			// the connection is torn down now; the hub's server learns it later
			rctx, cancel = simrt.WithTimeout(rctx, time.Duration(fl.CtxUs)*time.Microsecond)
			simrt.Count("fault.put_linger_disconnect_noticed", 1)
		}
		h := simrt.GoOn("hub-recv-linger", w.hubNode, func() {
			defer cancel()
			if delay > 0 {
				simrt.Sleep(delay) // the request is still queued / the hub is slow
			}
			call(rctx)
		})
		w.hubTasks = append(w.hubTasks, h)
		return nil, errors.New("edgesync: file request: context deadline exceeded (Client.Timeout exceeded while awaiting headers)")
	}
	w.hubCall("hub-recv", func() { call(context.Background()) })
	switch fl.Kind {
	case "drop-after", "short-lost", "corrupt-lost":
		return nil, errors.New("edgesync: file request: read tcp: connection reset by peer")
	case "commit-hub-vanish":
		if err == nil && res.Outcome.Done() {
			w.hubVanish(f, "between commit and acknowledgment")
		}
	}
	return mapPut(res, err, e)
}

func trimRoot(root, s string) string { return strings.ReplaceAll(s, root, "") }

// mapPut is the status-code round trip of api.EdgeSyncHandler.writeOutcome and
// HTTPTransport.decodePutResponse.
func mapPut(res *edgesync.PutResult, err error, e *edgesync.LedgerEntry) (*edgesync.PutResult, error) {
	if err != nil {
		switch {
		case errors.Is(err, storage.ErrResumeNotSupported):
			return nil, errors.New("edgesync: hub cannot resume: resume not supported by this hub's storage backend")
		case errors.Is(err, edgesync.ErrReceiveInternal):
			return nil, errors.New("edgesync: file transfer failed with 503: hub temporarily unable to accept this file")
		default:
			return nil, fmt.Errorf("edgesync: file transfer failed with 400: %s", err.Error())
		}
	}
	switch res.Outcome {
	case edgesync.OutcomeCommitted, edgesync.OutcomeAlreadyPresent:
		acc := res.BytesAccepted
		if acc == 0 {
			acc = e.SizeBytes
		}
		return &edgesync.PutResult{Outcome: res.Outcome, BytesAccepted: acc}, nil
	case edgesync.OutcomePartial:
		return &edgesync.PutResult{Outcome: edgesync.OutcomePartial, BytesAccepted: res.BytesAccepted}, nil
	case edgesync.OutcomeConflict:
		return &edgesync.PutResult{Outcome: edgesync.OutcomeConflict, TheirSHA256: res.TheirSHA256}, nil
	case edgesync.OutcomeChecksumMismatch:
		return &edgesync.PutResult{Outcome: edgesync.OutcomeChecksumMismatch}, nil
	case edgesync.OutcomeBackpressure:
		d := res.RetryAfter.Truncate(time.Second)
		if d <= 0 {
			d = time.Second
		}
		return &edgesync.PutResult{Outcome: edgesync.OutcomeBackpressure, RetryAfter: d}, nil
	}
	return nil, fmt.Errorf("edgesync: file transfer failed with 500: unhandled sync outcome")
}

// ---------------------------------------------------------------------------
// hub file-system faults

func (w *world) fsInjector(op *simrt.FSOp) simrt.FSAction {
	if !w.faultsOn || op.Node != w.hubNode {
		return simrt.FSAction{}
	}
	if st := w.stalls[simrt.CurTask()]; st != nil {
		st.n++
		if st.n-1 == st.at {
			simrt.Count("fault.hub_storage_stall", 1)
			simrt.Event("HUB-STALL %s op=%d %dus", op.Kind, st.at, int64(st.d/time.Microsecond))
			simrt.Sleep(st.d)
		}
	}
	k := w.hubOps
	w.hubOps++
	for _, x := range w.p.HubFS {
		if x.Op != k {
			continue
		}
		w.faults++
		switch x.Kind {
		case "enospc":
			return simrt.FSAction{Err: simrt.ENOSPC}
		case "short":
			if op.Kind == "write" && op.N > 1 {
				return simrt.FSAction{Err: simrt.ENOSPC, Short: op.N / 2}
			}
			return simrt.FSAction{Err: simrt.ENOSPC}
		default:
			return simrt.FSAction{Err: simrt.EIO}
		}
	}
	return simrt.FSAction{}
}

func (w *world) filesOf(idx []int) []*fileState {
	var out []*fileState
	for _, i := range idx {
		if i >= 0 && i < len(w.files) && !w.files[i].spec.Off {
			out = append(out, w.files[i])
		}
	}
	return out
}

func sortedPaths(m map[string]string) []string {
	out := make([]string, 0, len(m))
	for k := range m {
		out = append(out, k)
	}
	sort.Strings(out)
	return out
}
