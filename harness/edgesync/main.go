//go:build verif

// Area edgesync: property C27 (edge sync delivers each file exactly once with
// verified content). The real spoke Agent + Ledger (SQLite) + Discoverer talk
// through a fault-injecting SyncTransport (this harness) to the real hub
// Receiver + Reconciler + HubIndex (SQLite) over a real LocalBackend whose
// file-system calls go through the simulator.
package main

import (
	"fmt"
	"os"
	"sort"
	"strings"

	"github.com/rs/zerolog"

	"github.com/basekick-labs/arc/internal/simrt"
	"github.com/basekick-labs/arc/internal/verifsim/simkit"
)

// Fault is the fate of one transport call.
type Fault struct {
	// Kind (PutFile): none | drop-before | drop-after | linger | short |
	// short-lost | corrupt | corrupt-lost | backpressure | collide |
	// vanish-src | commit-hub-vanish
	Kind     string `json:"kind"`
	PerMille int    `json:"pm,omitempty"`  // cut / flip position inside the body
	Xor      int    `json:"xor,omitempty"` // non-zero byte mask for corrupt
	// Timing of the hub-side handling of this call (any kind that reaches the
	// receiver). The hub's storage is slow once: the SlowAt-th file-system
	// operation of this request stalls for SlowUs microseconds.
	SlowUs int `json:"slow_us,omitempty"`
	SlowAt int `json:"slow_at,omitempty"`
	// linger only: the hub notices that the client went away (its request
	// context is cancelled) this many microseconds after the client gave up;
	// 0 = it never notices and works the request to the end.
	CtxUs int `json:"ctx_us,omitempty"`
}

// FileSpec is one immutable spoke file.
type FileSpec struct {
	Path string  `json:"path"`
	Size int     `json:"size"`
	Seed uint64  `json:"seed"`
	Off  bool    `json:"off,omitempty"` // removed by shrinking
	Put  []Fault `json:"put,omitempty"` // fault of the k-th PutFile call for this path (while faults are on)
}

// Side is an event that runs concurrently with an agent pass.
type Side struct {
	Kind    string `json:"kind"` // hub-compact | hub-vanish | spoke-vanish
	Files   []int  `json:"files"`
	DelayUs int    `json:"delay_us"`
}

// Step is one step of the history.
type Step struct {
	// Kind: run | add | spoke-vanish | spoke-compact | hub-vanish |
	// hub-compact | hub-sweep | requeue | dismiss | prune
	Kind  string   `json:"kind"`
	Files []int    `json:"files,omitempty"`
	Out   int      `json:"out,omitempty"`   // spoke-compact: index of the output file
	Crash int      `json:"crash,omitempty"` // run: spoke process dies this many scheduling points into the pass
	Rec   []string `json:"rec,omitempty"`   // run: fault of the k-th Reconcile call of this pass: none|drop-before|drop-after
	Side  *Side    `json:"side,omitempty"`  // run: concurrent event
}

// HubFSFault fails one file-system operation of the hub process.
type HubFSFault struct {
	Op   int    `json:"op"`   // index among the hub's fs operations after boot
	Kind string `json:"kind"` // eio | enospc | short
}

type Knobs struct {
	MaxAttempts   int  `json:"max_attempts"`
	MaxConcurrent int  `json:"max_concurrent"`
	BatchSize     int  `json:"batch_size"`
	HubMaxEntries int  `json:"hub_max_entries"`
	NoResume      bool `json:"no_resume"`   // hub backend without AppendReader (object-store like)
	Register      bool `json:"register"`    // hub has a manifest (RegisterFile callback)
	DeferEpoch    bool `json:"defer_epoch"` // spoke runs with defer_compaction_until_synced
	Chunk         int  `json:"chunk"`       // upload bodies arrive at the receiver in reads of this many bytes (0 = whole)
}

type Plan struct {
	Knobs   Knobs        `json:"knobs"`
	Files   []FileSpec   `json:"files"`
	Steps   []Step       `json:"steps"`
	HubFS   []HubFSFault `json:"hub_fs,omitempty"`
	RegFail []int        `json:"reg_fail,omitempty"` // RegisterFile call indexes that fail
}

var putKinds = []struct {
	k string
	w int
}{
	{"none", 30}, {"drop-before", 8}, {"drop-after", 14}, {"linger", 8}, {"short", 10}, {"short-lost", 6},
	{"corrupt", 6}, {"corrupt-lost", 3}, {"backpressure", 4}, {"collide", 3}, {"vanish-src", 4}, {"commit-hub-vanish", 2},
}

func genFault(r *simrt.Rand) Fault {
	tot := 0
	for _, k := range putKinds {
		tot += k.w
	}
	x := r.Intn(tot)
	for _, k := range putKinds {
		if x < k.w {
			f := Fault{Kind: k.k, PerMille: r.Intn(1000), Xor: 1 + r.Intn(255)}
			if k.k == "linger" {
				lingerTiming(r, &f)
			}
			return f
		}
		x -= k.w
	}
	return Fault{Kind: "none"}
}

var (
	slowChoices = []int{0, 0, 50, 2_000, 100_000, 5_000_000}
	ctxChoices  = []int{0, 0, 1, 30, 1_000, 30_000, 1_000_000}
)

// lingerTiming draws how the hub experiences a request whose client timed
// out: one slow storage operation somewhere in it, and whether/when the hub
// learns that the client is gone.
func lingerTiming(r *simrt.Rand, f *Fault) {
	f.SlowUs = slowChoices[r.Intn(len(slowChoices))]
	if f.SlowUs > 0 {
		f.SlowAt = r.Intn(14)
	}
	f.CtxUs = ctxChoices[r.Intn(len(ctxChoices))]
}

// genStorm is the retry pattern of a spoke behind a hub that is slower than
// the spoke's request timeout: the k first deliveries of one file all time out
// on the client side while the hub is still busy with (or has queued) them, so
// every pass re-sends the file next to the earlier copies.
func genStorm(r *simrt.Rand, k int) []Fault {
	var out []Fault
	for i := 0; i < k; i++ {
		f := Fault{Kind: "linger", PerMille: r.Intn(1000), Xor: 1 + r.Intn(255)}
		lingerTiming(r, &f)
		if r.Chance(50) {
			f.Xor = 6 * (1 + r.Intn(40)) // reaches the receiver at once
		}
		if i == 0 && r.Chance(60) {
			// the first copy is the slow one
			f.SlowUs = []int{2_000, 100_000, 5_000_000, 5_000_000}[r.Intn(4)]
			f.SlowAt = r.Intn(8)
		}
		if i > 0 && r.Chance(50) {
			// a queued copy whose client disconnect is noticed soon
			f.CtxUs = []int{1, 30, 1_000, 30_000}[r.Intn(4)]
		}
		out = append(out, f)
	}
	return out
}

func genC27(r *simrt.Rand, tier string) any {
	p := &Plan{}
	p.Knobs = Knobs{
		MaxAttempts:   []int{1, 2, 3, 5}[r.Intn(4)],
		MaxConcurrent: []int{1, 2, 2, 3}[r.Intn(4)],
		BatchSize:     []int{0, 0, 1, 2, 3}[r.Intn(5)],
		HubMaxEntries: []int{0, 0, 0, 1, 2}[r.Intn(5)],
		NoResume:      r.Chance(20),
		Register:      r.Chance(30),
		DeferEpoch:    r.Chance(50),
		Chunk:         []int{0, 0, 64, 300}[r.Intn(4)],
	}
	calm := r.Chance(10) // fault-free configuration
	nInit := 1 + r.Intn(5)
	sizes := []int{0, 1, 17, 200, 900, 2500, 5000}
	mk := func(i int) FileSpec {
		fs := FileSpec{
			Path: fmt.Sprintf("db%d/m%d/2026/03/%02d/%02d/f%03d.parquet", 1+r.Intn(2), 1+r.Intn(2), 1+r.Intn(3), r.Intn(24), i),
			Size: sizes[r.Intn(len(sizes))], Seed: r.Uint64(),
		}
		if r.Chance(3) {
			// a root-level file (two path segments on the hub)
			fs.Path = fmt.Sprintf("r%03d.parquet", i)
		}
		if !calm {
			n := r.Intn(4)
			for k := 0; k < n; k++ {
				fs.Put = append(fs.Put, genFault(r))
			}
		}
		return fs
	}
	for i := 0; i < nInit; i++ {
		p.Files = append(p.Files, mk(i))
	}
	stormRuns := 0
	if !calm && r.Chance(30) {
		k := 2 + r.Intn(3)
		j := r.Intn(nInit)
		p.Files[j].Put = append(genStorm(r, k), p.Files[j].Put...)
		if len(p.Files[j].Put) > 6 {
			p.Files[j].Put = p.Files[j].Put[:6]
		}
		if p.Knobs.MaxAttempts <= k {
			p.Knobs.MaxAttempts = k + 1 + r.Intn(3)
		}
		stormRuns = k + 1
	}
	live := func() []int { // candidates for events: any file index so far
		out := make([]int, len(p.Files))
		for i := range out {
			out[i] = i
		}
		return out
	}
	pick := func(n int) []int {
		c := live()
		var out []int
		for _, j := range r.Perm(len(c)) {
			if len(out) >= n {
				break
			}
			out = append(out, c[j])
		}
		sort.Ints(out)
		return out
	}
	nSteps := 1 + r.Intn(5)
	if tier == "thorough" {
		nSteps = 1 + r.Intn(8)
	}
	if nSteps < stormRuns {
		nSteps = stormRuns
	}
	for s := 0; s < nSteps; s++ {
		x := r.Intn(100)
		inStorm := s < stormRuns && x < 85
		switch {
		case x < 55 || s == 0 || inStorm:
			st := Step{Kind: "run"}
			if !calm {
				if r.Chance(35) {
					st.Crash = 1 + r.Intn([]int{30, 120, 400, 1200}[r.Intn(4)])
				}
				n := r.Intn(3)
				if inStorm && r.Chance(60) {
					n = 0
				}
				for k := 0; k < n; k++ {
					st.Rec = append(st.Rec, []string{"none", "drop-before", "drop-after"}[r.Intn(3)])
				}
				if r.Chance(20) {
					st.Side = &Side{Kind: []string{"hub-compact", "hub-vanish", "spoke-vanish"}[r.Intn(3)], Files: pick(1 + r.Intn(2)),
						DelayUs: []int{0, 5, 50, 500, 5000}[r.Intn(5)]}
				}
			}
			p.Steps = append(p.Steps, st)
		case x < 63:
			n := 1 + r.Intn(2)
			st := Step{Kind: "add"}
			for k := 0; k < n; k++ {
				p.Files = append(p.Files, mk(len(p.Files)))
				st.Files = append(st.Files, len(p.Files)-1)
			}
			p.Steps = append(p.Steps, st)
		case x < 69:
			p.Steps = append(p.Steps, Step{Kind: "spoke-vanish", Files: pick(1 + r.Intn(2))})
		case x < 75:
			in := pick(1 + r.Intn(3))
			db, meas := "db1", "m1"
			if parts := strings.Split(p.Files[in[0]].Path, "/"); len(parts) >= 7 {
				db, meas = parts[0], parts[1]
			}
			out := FileSpec{
				Path: fmt.Sprintf("%s/%s/2026/03/01/12/%s_20300317_174640_%d_b0_compacted.parquet", db, meas, meas, int64(1900000000000000000)+int64(len(p.Files))),
				Size: sizes[1+r.Intn(len(sizes)-1)], Seed: r.Uint64(),
			}
			p.Files = append(p.Files, out)
			p.Steps = append(p.Steps, Step{Kind: "spoke-compact", Files: in, Out: len(p.Files) - 1})
		case x < 81:
			p.Steps = append(p.Steps, Step{Kind: "hub-vanish", Files: pick(1 + r.Intn(2))})
		case x < 88:
			p.Steps = append(p.Steps, Step{Kind: "hub-compact", Files: pick(1 + r.Intn(3))})
		case x < 91:
			p.Steps = append(p.Steps, Step{Kind: "hub-sweep"})
		case x < 95:
			p.Steps = append(p.Steps, Step{Kind: "requeue"})
		case x < 97:
			p.Steps = append(p.Steps, Step{Kind: "dismiss"})
		default:
			p.Steps = append(p.Steps, Step{Kind: "prune"})
		}
	}
	if !calm {
		n := r.Intn(3)
		for k := 0; k < n; k++ {
			p.HubFS = append(p.HubFS, HubFSFault{Op: r.Intn([]int{20, 60, 200}[r.Intn(3)]), Kind: []string{"eio", "enospc", "short"}[r.Intn(3)]})
		}
		if p.Knobs.Register && r.Chance(50) {
			p.RegFail = append(p.RegFail, r.Intn(4))
		}
	}
	return p
}

func clonePlan(p *Plan) *Plan {
	q := *p
	q.Files = make([]FileSpec, len(p.Files))
	for i, f := range p.Files {
		f.Put = append([]Fault(nil), f.Put...)
		q.Files[i] = f
	}
	q.Steps = make([]Step, len(p.Steps))
	for i, s := range p.Steps {
		s.Files = append([]int(nil), s.Files...)
		s.Rec = append([]string(nil), s.Rec...)
		if s.Side != nil {
			sd := *s.Side
			sd.Files = append([]int(nil), sd.Files...)
			s.Side = &sd
		}
		q.Steps[i] = s
	}
	q.HubFS = append([]HubFSFault(nil), p.HubFS...)
	q.RegFail = append([]int(nil), p.RegFail...)
	return &q
}

func shrinkC27(planAny any) []any {
	p := planAny.(*Plan)
	var out []any
	// drop a step
	for i := range p.Steps {
		if len(p.Steps) > 1 {
			q := clonePlan(p)
			q.Steps = append(q.Steps[:i], q.Steps[i+1:]...)
			out = append(out, q)
		}
	}
	// switch a file off
	on := 0
	for _, f := range p.Files {
		if !f.Off {
			on++
		}
	}
	for i, f := range p.Files {
		if !f.Off && on > 1 {
			q := clonePlan(p)
			q.Files[i].Off = true
			out = append(out, q)
		}
	}
	if len(p.HubFS) > 0 {
		for i := range p.HubFS {
			q := clonePlan(p)
			q.HubFS = append(q.HubFS[:i], q.HubFS[i+1:]...)
			out = append(out, q)
		}
	}
	if len(p.RegFail) > 0 {
		q := clonePlan(p)
		q.RegFail = nil
		out = append(out, q)
	}
	for i, s := range p.Steps {
		if s.Crash > 0 {
			q := clonePlan(p)
			q.Steps[i].Crash = 0
			out = append(out, q)
		}
		if s.Side != nil {
			q := clonePlan(p)
			q.Steps[i].Side = nil
			out = append(out, q)
		}
		if len(s.Rec) > 0 {
			q := clonePlan(p)
			q.Steps[i].Rec = nil
			out = append(out, q)
		}
		if len(s.Files) > 1 {
			for j := range s.Files {
				q := clonePlan(p)
				q.Steps[i].Files = append(q.Steps[i].Files[:j], q.Steps[i].Files[j+1:]...)
				out = append(out, q)
			}
		}
	}
	for i, f := range p.Files {
		if f.Off {
			continue
		}
		for j := range f.Put {
			if f.Put[j].Kind != "none" {
				q := clonePlan(p)
				q.Files[i].Put[j] = Fault{Kind: "none"}
				out = append(out, q)
			}
		}
		for j := range f.Put {
			if f.Put[j].SlowUs != 0 {
				q := clonePlan(p)
				q.Files[i].Put[j].SlowUs, q.Files[i].Put[j].SlowAt = 0, 0
				out = append(out, q)
			}
			if f.Put[j].CtxUs != 0 {
				q := clonePlan(p)
				q.Files[i].Put[j].CtxUs = 0
				out = append(out, q)
			}
		}
		if n := len(f.Put); n > 0 && f.Put[n-1].Kind == "none" {
			q := clonePlan(p)
			q.Files[i].Put = q.Files[i].Put[:n-1]
			out = append(out, q)
		}
		if f.Size > 17 {
			q := clonePlan(p)
			q.Files[i].Size = 17
			out = append(out, q)
		}
	}
	k := p.Knobs
	simpler := []Knobs{}
	if k.Register {
		x := k
		x.Register = false
		simpler = append(simpler, x)
	}
	if k.NoResume {
		x := k
		x.NoResume = false
		simpler = append(simpler, x)
	}
	if k.DeferEpoch {
		x := k
		x.DeferEpoch = false
		simpler = append(simpler, x)
	}
	if k.Chunk != 0 {
		x := k
		x.Chunk = 0
		simpler = append(simpler, x)
	}
	if k.BatchSize != 0 {
		x := k
		x.BatchSize = 0
		simpler = append(simpler, x)
	}
	if k.HubMaxEntries != 0 {
		x := k
		x.HubMaxEntries = 0
		simpler = append(simpler, x)
	}
	if k.MaxConcurrent != 1 {
		x := k
		x.MaxConcurrent = 1
		simpler = append(simpler, x)
	}
	for _, x := range simpler {
		q := clonePlan(p)
		q.Knobs = x
		out = append(out, q)
	}
	return out
}

func descC27(planAny any) any {
	p := planAny.(*Plan)
	var files, steps []string
	for i, f := range p.Files {
		if f.Off {
			continue
		}
		var fl []string
		for _, x := range f.Put {
			d := x.Kind
			if x.SlowUs > 0 {
				d += fmt.Sprintf("(slow %dus at op %d)", x.SlowUs, x.SlowAt)
			}
			if x.CtxUs > 0 {
				d += fmt.Sprintf("(ctx %dus)", x.CtxUs)
			}
			fl = append(fl, d)
		}
		files = append(files, fmt.Sprintf("#%d %dB put[%s]", i, f.Size, strings.Join(fl, ",")))
	}
	for _, s := range p.Steps {
		d := s.Kind
		if len(s.Files) > 0 {
			d += fmt.Sprint(s.Files)
		}
		if s.Crash > 0 {
			d += fmt.Sprintf(" crash@%d", s.Crash)
		}
		if len(s.Rec) > 0 {
			d += " rec[" + strings.Join(s.Rec, ",") + "]"
		}
		if s.Side != nil {
			d += fmt.Sprintf(" ||%s%v", s.Side.Kind, s.Side.Files)
		}
		steps = append(steps, d)
	}
	return map[string]any{"knobs": p.Knobs, "files": files, "steps": steps, "hub_fs": p.HubFS, "reg_fail": p.RegFail}
}

func main() {
	zerolog.SetGlobalLevel(zerolog.Disabled)
	if os.Getenv("VERIF_LOG") != "" {
		zerolog.SetGlobalLevel(zerolog.DebugLevel)
	}
	simkit.Main(
		&simkit.Check{ID: "C27", Gen: genC27, New: func() any { return &Plan{} }, Run: runC27, Shrink: shrinkC27, Desc: descC27},
	)
}
