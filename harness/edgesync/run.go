//go:build verif

package main

import (
	"context"
	"fmt"
	"os"
	"path/filepath"
	"strings"
	"time"

	"github.com/basekick-labs/arc/internal/edgesync"
	"github.com/basekick-labs/arc/internal/simrt"
	"github.com/basekick-labs/arc/internal/verifsim/simkit"
)

func firstLine(s string) string {
	if i := strings.IndexByte(s, '\n'); i >= 0 {
		return s[:i]
	}
	return s
}

// agentPass runs one Agent.Run on the spoke node; false when the spoke died.
func (w *world) agentPass(what string) bool {
	w.seq++
	w.runStart = w.seq
	w.inRun = true
	w.tr.recCalls = 0
	alive := onNode(w.spokeNode, what, func() {
		res, err := w.agent.Run(context.Background())
		if err != nil {
			simrt.Event("AGENT-RUN error: %s", trimRoot(w.root, err.Error()))
			return
		}
		simrt.Event("AGENT-RUN disc=%d rec=%d present=%d sent=%d partial=%d failed=%d skipped=%d conflicts=%d",
			res.Discovered, res.Recovered, res.AlreadyPresent, res.Sent, res.Partial, res.Failed, res.Skipped, len(res.Conflicts))
	})
	w.inRun = false
	return alive
}

func (w *world) side(sd *Side) *simrt.Task {
	files := w.filesOf(sd.Files)
	node := w.hubNode
	if sd.Kind == "spoke-vanish" {
		node = simrt.NodeOf("harness")
	}
	h := simrt.GoOn("side-"+sd.Kind, node, func() {
		simrt.Sleep(time.Duration(sd.DelayUs) * time.Microsecond)
		switch sd.Kind {
		case "hub-compact":
			w.hubCompact(files)
		case "hub-vanish":
			for _, f := range files {
				w.hubVanish(f, "during a pass")
			}
		case "spoke-vanish":
			for _, f := range files {
				w.removeSpokeFile(f, "during a pass")
			}
		}
	})
	if node == w.hubNode {
		w.hubTasks = append(w.hubTasks, h)
	}
	return h
}

func (w *world) doStep(i int, st *Step) {
	simrt.Event("STEP %d %s", i, st.Kind)
	ctx := context.Background()
	switch st.Kind {
	case "run":
		w.tr.curRec = st.Rec
		var sideTask *simrt.Task
		if st.Side != nil {
			sideTask = w.side(st.Side)
		}
		if st.Crash > 0 {
			w.spokeNode.CrashAtStep = w.spokeNode.Steps() + int64(st.Crash)
		}
		alive := w.agentPass(fmt.Sprintf("agent-run%d", i))
		w.spokeNode.CrashAtStep = 0
		if !alive || w.spokeNode.Dead {
			w.faults++
			w.restartSpoke()
		}
		if sideTask != nil {
			simrt.Join(sideTask)
		}
	case "add":
		for _, f := range w.filesOf(st.Files) {
			w.createSpokeFile(f)
		}
	case "spoke-vanish":
		for _, f := range w.filesOf(st.Files) {
			w.removeSpokeFile(f, "retention")
		}
	case "spoke-compact":
		if st.Out < 0 || st.Out >= len(w.files) || w.files[st.Out].spec.Off {
			return
		}
		for _, f := range w.filesOf(st.Files) {
			w.removeSpokeFile(f, "compaction input")
		}
		w.createSpokeFile(w.files[st.Out])
	case "hub-vanish":
		for _, f := range w.filesOf(st.Files) {
			w.hubVanish(f, "retention/operator")
		}
	case "hub-compact":
		files := w.filesOf(st.Files)
		w.hubCall("hub-compaction", func() { w.hubCompact(files) })
	case "hub-sweep":
		// an operator-configured sweep must not race live transfers: wait for them
		w.joinHub()
		w.hubCall("hub-sweep", func() {
			n, err := w.receiver.SweepStaging(ctx, time.Microsecond, simrt.Now())
			simrt.Event("HUB-SWEEP removed=%d err=%v", n, err != nil)
		})
	case "requeue":
		onNode(w.spokeNode, "requeue", func() {
			n, err := w.agent.RequeueFailed(ctx, "")
			simrt.Event("REQUEUE n=%d err=%v", n, err != nil)
		})
	case "dismiss":
		onNode(w.spokeNode, "dismiss", func() {
			n, err := w.agent.DismissFailed(ctx, "")
			simrt.Event("DISMISS n=%d err=%v", n, err != nil)
		})
	case "prune":
		simrt.AdvanceClock(49 * time.Hour)
		onNode(w.spokeNode, "prune", func() {
			a, e1 := w.ledger.PruneSynced(ctx, 1)
			b, e2 := w.ledger.PruneSkipped(ctx, 1)
			simrt.Event("PRUNE synced=%d skipped=%d err=%v", a, b, e1 != nil || e2 != nil)
		})
	default:
		hfail("unknown step kind %q", st.Kind)
	}
}

func (w *world) readRows() map[string]string {
	rows, err := w.spokeDB.Query(`SELECT path, state FROM sync_ledger WHERE hub_id = ? ORDER BY path`, hubID)
	if err != nil {
		hfail("read ledger: %v", err)
	}
	defer rows.Close()
	out := map[string]string{}
	for rows.Next() {
		var p, s string
		if err := rows.Scan(&p, &s); err != nil {
			hfail("scan ledger: %v", err)
		}
		out[p] = s
	}
	return out
}

func (w *world) main() {
	w.spokeNode = simrt.NodeOf("spoke")
	w.hubNode = simrt.NodeOf("hub")
	w.tr = &transport{w: w}
	simrt.SetFSObserver(w.fsObserver)
	w.bootHub()
	// initial files: everything not introduced by a later step
	late := map[int]bool{}
	for _, st := range w.p.Steps {
		if st.Kind == "add" {
			for _, i := range st.Files {
				late[i] = true
			}
		}
		if st.Kind == "spoke-compact" {
			late[st.Out] = true
		}
	}
	for _, f := range w.files {
		if !late[f.idx] {
			w.createSpokeFile(f)
		}
	}
	w.bootSpoke()
	w.faultsOn = true
	simrt.SetFSInjector(w.fsInjector)
	for i := range w.p.Steps {
		w.doStep(i, &w.p.Steps[i])
	}

	// ---- faults stop ----
	simrt.Event("FAULTS-STOP")
	w.faultsOn = false
	simrt.SetFSInjector(nil)
	w.joinHub()
	w.tr.curRec = nil
	passes := w.p.Knobs.MaxAttempts + 3
	settled := false
	for pass := 0; pass < passes; pass++ {
		if !w.agentPass(fmt.Sprintf("settle-run%d", pass)) {
			hfail("spoke died in a fault-free pass")
		}
		w.joinHub()
		st, err := w.agent.Status(context.Background())
		if err != nil {
			hfail("status: %v", err)
		}
		simrt.Event("SETTLE pass=%d pending=%d inflight=%d synced=%d failed=%d skipped=%d", pass, st.Pending, st.InFlight, st.Synced, st.Failed, st.Skipped)
		if st.Pending == 0 && st.InFlight == 0 && st.Exported == 0 {
			settled = true
			break
		}
	}
	w.rows = w.readRows()
	for _, p := range sortedPaths(w.rows) {
		s := w.rows[p]
		if s != "synced" && s != "skipped" && s != "failed" {
			w.violate("C27.not-terminal-after-faults-stop."+s, "after %d fault-free passes (max_attempts=%d) ledger row %s is still %q (settled=%v)",
				passes, w.p.Knobs.MaxAttempts, p, s, settled)
		}
	}
	// at rest: everything exposed on the hub is some uploader's exact bytes,
	// and what the spoke calls synced is held unless an external removal took it
	for _, f := range w.files {
		if f.spec.Off {
			continue
		}
		w.checkExposed(f, "at rest")
		if w.rows[f.path] == "synced" && !f.hubRemoved {
			if ok, why := w.hubHoldsIdentical(f); !ok {
				if f.overlap {
					why = "after-overlapping-receives-same-path"
				}
				w.violate("C27.synced-but-hub-copy-gone-at-rest."+why, "ledger says %s is synced, nothing removed it from the hub, yet the hub does not hold identical content (%s)", f.path, why)
			}
		}
		if f.commits > 0 && !f.hubRemoved && !f.hubCompacted {
			if _, err := os.Stat(w.hubAbs(f)); err != nil {
				w.violate("C27.hub.lost-committed-file", "hub promoted %s (%d times) and nothing removed it, but it is gone", f.path, f.commits)
			}
		}
	}
	// stray files in the spoke's hub namespace
	nsRoot := filepath.Join(w.hubDir, spokeID)
	filepath.WalkDir(nsRoot, func(p string, d os.DirEntry, err error) error {
		if err != nil || d.IsDir() || !strings.HasSuffix(p, ".parquet") {
			return nil
		}
		rel := filepath.ToSlash(strings.TrimPrefix(p, nsRoot+string(filepath.Separator)))
		if w.byPath[rel] == nil {
			w.violate("C27.hub.unknown-final-path", "hub namespace holds %q which is no spoke file", rel)
		}
		return nil
	})
}

func runC27(planAny any, cfg simrt.Config) *simkit.Outcome {
	p := planAny.(*Plan)
	out := &simkit.Outcome{Stats: map[string]int64{}}
	root := mkScratch()
	defer os.RemoveAll(root)
	w := newWorld(p, root, out)
	curWorld = w
	res := simrt.Run(cfg, func() {
		simrt.SetPathRoot(root)
		w.main()
	})
	curWorld = nil
	w.closeAll()
	out.Absorb(res)
	if len(res.Panics) > 0 {
		out.Violate("C27.panic", "task panicked: %s", firstLine(res.Panics[0]))
		return out
	}
	if res.Outcome != "ok" {
		return out
	}
	out.Stats["probe.spoke_crashes"] += int64(w.crashes)
	out.Stats["probe.synced_transitions"] += int64(w.synced)
	for _, s := range w.rows {
		out.Stats["end."+s]++
	}
	for _, f := range w.files {
		out.Stats["probe.hub_commits"] += int64(f.commits)
	}
	out.Nontrivial = (w.faults > 0 || res.Preempts > 0) && len(w.rows) > 0
	_ = edgesync.DefaultHubID
	return out
}
