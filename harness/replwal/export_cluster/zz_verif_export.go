//go:build verif

package cluster

import (
	"context"
	"net"

	"github.com/basekick-labs/arc/internal/cluster/replication"
	"github.com/basekick-labs/arc/internal/cluster/security"
	"github.com/basekick-labs/arc/internal/config"
	"github.com/basekick-labs/arc/internal/wal"
	"github.com/rs/zerolog"
)

// VerifNewReplicationCoordinator builds the minimal Coordinator the WAL
// replication paths need (cfg, logger, localNode, nonceCache, ctx, WAL): the
// same field values NewCoordinator/Start give them, without licence, raft,
// registry, health checker or listener.
func VerifNewReplicationCoordinator(cfg *config.ClusterConfig, role NodeRole, w *wal.Writer, logger zerolog.Logger) *Coordinator {
	c := &Coordinator{
		cfg:       cfg,
		localNode: NewNode(cfg.NodeID, cfg.NodeID, role, cfg.ClusterName),
		stopCh:    make(chan struct{}),
		logger:    logger.With().Str("component", "cluster-coordinator").Logger(),
	}
	c.ctx, c.cancel = context.WithCancel(context.Background())
	c.nonceCache = security.NewNonceCache(security.HMACTimestampTolerance)
	c.running = true
	if w != nil {
		c.SetWAL(w)
	}
	return c
}

// VerifHandlePeerConnection is what acceptLoop does with an accepted conn.
func (c *Coordinator) VerifHandlePeerConnection(conn net.Conn) { c.handlePeerConnection(conn) }

// VerifReplicationSender returns the sender StartReplication created.
func (c *Coordinator) VerifReplicationSender() *replication.Sender {
	c.mu.RLock()
	defer c.mu.RUnlock()
	return c.replicationSender
}

// VerifCancel cancels the coordinator context (end of a run).
func (c *Coordinator) VerifCancel() { c.cancel() }
