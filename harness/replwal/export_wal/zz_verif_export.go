//go:build verif

package wal

// VerifReplicationHook returns the hook currently installed on the writer
// (the closure installed by cluster.Coordinator.StartReplication), so that a
// harness can observe what is handed to it without replacing the wiring.
func VerifReplicationHook(w *Writer) ReplicationHook {
	w.mu.Lock()
	defer w.mu.Unlock()
	return w.replicationHook
}
