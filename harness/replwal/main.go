//go:build verif

// Area replwal: property C24 (the replicated WAL stream is ordered, gap-free
// and authenticated).
package main

import (
	"github.com/rs/zerolog"

	"github.com/basekick-labs/arc/internal/verifsim/simkit"
)

func main() {
	// warnings and errors of the sender/receiver are captured per run (they
	// carry the reason of a connection drop); nothing is printed.
	zerolog.SetGlobalLevel(zerolog.WarnLevel)
	simkit.Main(
		&simkit.Check{ID: "C24", Gen: genC24, New: func() any { return &C24Plan{} }, Run: runC24, Shrink: shrinkC24, Desc: descC24},
	)
}
