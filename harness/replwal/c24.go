//go:build verif

package main

// Property C24: the replicated WAL stream is ordered, gap-free and
// authenticated.
//
// Real code: wal.Writer (AppendRawWithMeta / AppendRaw and the replication
// hook), cluster.Coordinator.StartReplication (creates the Sender and wires
// the hook), Coordinator.handlePeerConnection → handleReplicateSync →
// AcceptReplicationConnection (handshake), replication.Sender, the wire
// protocol, replication.Receiver, security MACs/HKDF/nonce cache.
// Simulated: goroutine scheduling, clock, TCP (wire.go), the reader's local
// WAL / ingest buffer (recorders).
//
// Two configurations, never mixed inside one run:
//   passive     — untampered wire, unlimited socket buffers, no node stalls.
//                 Any connection drop, any lost/duplicated/reordered entry is
//                 a violation. Part of these runs are "delay-only": a few
//                 frames reach the far end in pieces with a pause in between
//                 (WireStall in wire.go; milliseconds up to a couple of
//                 minutes, always inside the freshness window of the stream's
//                 replay defence, so a polling read deadline can expire
//                 anywhere inside a frame). The bytes arrive complete and in
//                 order and the writer's sends never block (its write timeout
//                 stays unreachable), so the connection is as healthy as an
//                 idle one and the same demands apply.
//                 Another part injects transient reader-LOCAL apply failures
//                 (ApplyFail: the follower's local WAL or ingest buffer
//                 refuses one entry once; nothing on the wire changes). Such
//                 a failure may cost the reader that one entry and nothing
//                 else: the completeness check excuses exactly the refused
//                 entries, the stream stays as authentic and ordered as
//                 before, so every other demand (no drop, no other entry
//                 lost, through the following checkpoints) stands.
//   adversarial — frame-level adversary, latency, slow reader, half-open
//                 connections. Disconnects are expected; judged are only the
//                 apply-side safety clauses, plus: a connection the adversary
//                 never touched must not be closed by the writer.

import (
	"bytes"
	"context"
	"crypto/tls"
	"encoding/json"
	"fmt"
	"net"
	"os"
	"path/filepath"
	"sort"
	"strings"
	"sync/atomic"
	"time"

	"github.com/rs/zerolog"

	"github.com/basekick-labs/arc/internal/cluster"
	"github.com/basekick-labs/arc/internal/cluster/replication"
	"github.com/basekick-labs/arc/internal/cluster/security"
	"github.com/basekick-labs/arc/internal/config"
	"github.com/basekick-labs/arc/internal/simrt"
	"github.com/basekick-labs/arc/internal/verifsim/simkit"
	"github.com/basekick-labs/arc/internal/wal"
)

type WOp struct {
	Kind    string `json:"kind"` // meta (AppendRawWithMeta) | raw (AppendRaw)
	DB      string `json:"db,omitempty"`
	Size    int    `json:"size"`
	SleepUs int64  `json:"sleep_us,omitempty"`
	// AlignK > 0: issue this append AlignK quarter-steps of simulated time
	// before the reader's pending read deadline expires (an idle stream whose
	// next entry arrives just as the reader's read times out).
	AlignK int `json:"align_k,omitempty"`
}

type WriterPlan struct {
	StartUs int64 `json:"start_us,omitempty"`
	Ops     []WOp `json:"ops"`
}

// ApplyFail is a transient failure local to one reader (passive configuration
// only; the wire is not touched): the Nth entry (0-based, in arrival order)
// that the receiver hands to the reader's apply path is refused once.
//
//	wal         the follower's local WAL returns an I/O error: the receiver
//	            reports the entry as not applied and carries on
//	ingest      the local WAL took the entry, the ingest buffer refuses it
//	            (back-pressure / cancelled request): same
//	wal-dropped the follower's local WAL sheds the entry on back-pressure
//	            (wal.ErrWALDropped): the receiver's own contract is that the
//	            entry is still applied to the ingest buffer
//
// None of them says anything about the connection or about any other entry.
type ApplyFail struct {
	Reader int    `json:"reader"`
	Nth    int    `json:"nth"`
	Stage  string `json:"stage"`
}

type C24Plan struct {
	Mode        string       `json:"mode"` // passive | adversarial
	Readers     int          `json:"readers"`
	Writers     []WriterPlan `json:"writers"`
	BufferSize  int          `json:"buffer_size"` // cluster.replication_buffer_size
	Checkpoint  int          `json:"checkpoint"`  // SenderConfig.CheckpointInterval (0 = default)
	AckMs       int          `json:"ack_ms"`
	ReconnectMs int          `json:"reconnect_ms"`
	Early       bool         `json:"early"` // writers start while the reader is still connecting
	PaySeed     int64        `json:"pay_seed"`
	// adversarial configuration only
	Faults         []WireFault `json:"faults,omitempty"`
	LatencyUs      int         `json:"latency_us,omitempty"`
	ConnCap        int         `json:"conn_cap,omitempty"`       // socket buffer bytes per direction (0 = unlimited)
	ApplyDelayUs   int         `json:"apply_delay_us,omitempty"` // slow reader
	WriteTimeoutMs int         `json:"write_timeout_ms,omitempty"`
	DialFail       []int       `json:"dial_fail,omitempty"`
	StallWriterMs  int         `json:"stall_writer_ms,omitempty"`
	StallAtUs      int64       `json:"stall_at_us,omitempty"`
	// passive configuration only: pure delay faults (frames delivered in pieces)
	Stalls []WireStall `json:"stalls,omitempty"`
	// passive configuration only: transient reader-local apply failures
	ApplyFails []ApplyFail `json:"apply_fails,omitempty"`
	// LogYield: every log line a node emits is a scheduling point (false in
	// replay files that predate the knob: they keep their schedule).
	LogYield bool `json:"log_yield,omitempty"`
}

var scratchSeq atomic.Int64

func scratch() string {
	b := os.Getenv("VERIF_SCRATCH")
	if b == "" {
		b = "/dev/shm"
	}
	d := filepath.Join(b, fmt.Sprintf("verif-replwal.%d.%d", os.Getpid(), scratchSeq.Add(1)))
	os.RemoveAll(d)
	if err := os.MkdirAll(d, 0o755); err != nil {
		panic(err)
	}
	return d
}

// ---------------------------------------------------------------------------
// generation

func genOps(r *simrt.Rand, total int, nw int, paced bool) []WriterPlan {
	ws := make([]WriterPlan, nw)
	dbs := []string{"db", "", "metrics_prod", strings.Repeat("d", 60)}
	for i := 0; i < total; i++ {
		w := i % nw
		if i >= nw {
			w = r.Intn(nw)
		}
		op := WOp{Kind: "meta", DB: dbs[r.Intn(len(dbs))]}
		if r.Chance(15) {
			op.Kind = "raw"
			op.DB = ""
		}
		switch r.Intn(10) {
		case 0:
			op.Size = 0
		case 1, 2, 3, 4:
			op.Size = 1 + r.Intn(64)
		case 5, 6, 7:
			op.Size = 100 + r.Intn(1900)
		case 8:
			op.Size = 4000 + r.Intn(12000)
		case 9:
			op.Size = 1 + r.Intn(8)
		}
		if paced {
			if r.Chance(60) {
				op.SleepUs = int64(r.Intn(40000))
			}
			if r.Chance(10) {
				op.SleepUs = int64(200000 + r.Intn(1500000))
			}
		} else if r.Chance(15) {
			op.SleepUs = int64(r.Intn(2000))
		}
		ws[w].Ops = append(ws[w].Ops, op)
	}
	for i := range ws {
		if r.Chance(25) {
			ws[i].StartUs = int64(r.Intn(3000))
		}
	}
	return ws
}

func genC24(r *simrt.Rand, tier string) any {
	p := &C24Plan{PaySeed: int64(r.Intn(1 << 30)), Readers: 1}
	if r.Chance(50) {
		p.Mode = "passive"
	} else {
		p.Mode = "adversarial"
	}
	idle := r.Chance(6)
	stalls := r.Chance(30)
	applyFails := r.Chance(35)
	p.LogYield = r.Chance(85)
	// debugging aid: pin the configuration (the plan in a replay file is
	// self-contained, so replays do not depend on this)
	switch os.Getenv("VERIF_C24_FORCE") {
	case "passive":
		p.Mode = "passive"
	case "adversarial":
		p.Mode = "adversarial"
	case "idle":
		p.Mode, idle = "passive", true
	case "stalls":
		p.Mode, stalls = "passive", true
	case "applyfail":
		p.Mode, applyFails = "passive", true
	}
	p.Checkpoint = []int{0, 1, 1, 2, 3, 4, 5, 6, 7, 8}[r.Intn(10)]
	p.AckMs = []int{5, 100, 100, 1000}[r.Intn(4)]
	maxOps := 40
	if p.Mode == "passive" {
		nw := []int{1, 2, 2, 3, 4, 6, 8, 12, 16}[r.Intn(9)]
		total := nw + r.Intn(maxOps-nw+1)
		if r.Chance(30) {
			total = nw + r.Intn(8)
		}
		p.Writers = genOps(r, total, nw, r.Chance(20))
		p.BufferSize = []int{1, 2, 3, 4, 8, 16, 10000, 10000}[r.Intn(8)]
		p.ReconnectMs = 5000
		p.Early = r.Chance(15)
		if r.Chance(15) {
			p.Readers = 2
		}
		if idle {
			if r.Chance(70) {
				// one producer: nothing but the idle gap distinguishes this run
				nw = 1
				p.Writers = genOps(r, 1+r.Intn(12), 1, r.Chance(20))
			}
			// an idle stream: the next entry arrives about when the read
			// deadlines of both ends (read from the running code: 30 s) expire
			w := r.Intn(len(p.Writers))
			if n := len(p.Writers[w].Ops); n > 0 {
				p.Writers[w].Ops[r.Intn(n)].AlignK = 1 + r.Intn(64)
			}
			if p.AckMs < 100 {
				p.AckMs = 100
			}
		}
		if stalls {
			genStalls(r, p)
		}
		if applyFails {
			genApplyFails(r, p)
		}
		return p
	}
	nw := []int{1, 1, 2, 3, 4, 8}[r.Intn(6)]
	total := nw + r.Intn(maxOps-nw+1)
	p.Writers = genOps(r, total, nw, true)
	p.BufferSize = []int{2, 8, 64, 10000, 10000}[r.Intn(5)]
	p.ReconnectMs = []int{20, 100, 1000, 5000}[r.Intn(4)]
	p.Early = r.Chance(30)
	if r.Chance(20) {
		p.Readers = 2
	}
	p.LatencyUs = []int{0, 0, 50, 3000, 40000}[r.Intn(5)]
	kinds := []string{"drop", "dup", "swap", "flip", "flip", "flip", "trunc", "replay", "replay-cp", "splice", "inject", "inject", "reset", "halfopen", "halfopen", "delay"}
	// swarm: a random subset of the kinds is enabled in this run
	var enabled []string
	for _, k := range kinds {
		if r.Chance(45) {
			enabled = append(enabled, k)
		}
	}
	if len(enabled) == 0 {
		enabled = []string{kinds[r.Intn(len(kinds))]}
	}
	nf := 1 + r.Intn(4)
	for i := 0; i < nf; i++ {
		f := WireFault{Reader: r.Intn(p.Readers), Conn: []int{0, 0, 0, 1, 1, 2}[r.Intn(6)], Dir: 1, Kind: enabled[r.Intn(len(enabled))], A: r.Intn(100000), B: r.Intn(1000)}
		f.Frame = []int{0, 1, 1, 2, 2, 3, 4, 5, 6, 8, 10, 14, 20}[r.Intn(13)]
		if r.Chance(12) {
			f.Dir = 0
			f.Frame = r.Intn(3)
			if f.Kind == "replay" || f.Kind == "replay-cp" || f.Kind == "splice" || f.Kind == "inject" {
				f.Kind = "flip"
			}
		}
		p.Faults = append(p.Faults, f)
	}
	if r.Chance(25) {
		p.ConnCap = []int{256, 1024, 8192}[r.Intn(3)]
		p.ApplyDelayUs = []int{0, 500, 20000, 400000}[r.Intn(4)]
		p.WriteTimeoutMs = []int{0, 50, 500}[r.Intn(3)]
	}
	if r.Chance(10) {
		p.DialFail = []int{r.Intn(3)}
	}
	if r.Chance(15) {
		p.StallWriterMs = []int{5, 200, 6000}[r.Intn(3)]
		p.StallAtUs = int64(r.Intn(200000))
	}
	return p
}

// genStalls adds the delay-only faults of a passive run: one to three frames
// of the established stream (never the handshake frame, index 0 of either
// direction, which the protocol bounds with its own short deadlines) arrive in
// two to four pieces. The pauses span milliseconds to about two minutes
// (log-uniform; the wire caps the total delay, see simNet.maxDelayNs); most
// stalls also outlast whatever read deadline the receiving end has pending
// when the first piece arrives.
func genStalls(r *simrt.Rand, p *C24Plan) {
	n := 1 + r.Intn(3)
	long := false
	for i := 0; i < n; i++ {
		s := WireStall{Reader: r.Intn(p.Readers), Dir: 1}
		s.Frame = 1 + []int{0, 0, 1, 1, 2, 3, 4, 5, 7, 9, 13, 19}[r.Intn(12)]
		if r.Chance(25) {
			s.Dir = 0 // an acknowledgement on its way to the writer
			s.Frame = 1 + r.Intn(4)
		}
		ncuts := 1 + r.Intn(2)
		if r.Chance(10) {
			ncuts = 3
		}
		for j := 0; j < ncuts; j++ {
			s.Cuts = append(s.Cuts, r.Intn(1000))
			// log-uniform 1 ms .. ~130 s
			ms := int64(1) << uint(r.Intn(17))
			ms += r.Int63n(ms)
			s.GapMs = append(s.GapMs, ms)
			if ms >= 5000 {
				long = true
			}
		}
		sort.Ints(s.Cuts)
		if r.Chance(65) {
			s.PastDeadline = true
			long = true
		}
		p.Stalls = append(p.Stalls, s)
	}
	if long && p.AckMs < 100 {
		p.AckMs = 100 // keeps the number of simulated ticker steps during a long stall bounded
	}
}

// genApplyFails adds one to three transient reader-local apply failures to a
// passive run. Positions lean towards the first half of the stream so that
// entries (and, with the small checkpoint intervals drawn above, checkpoints)
// keep coming on the same connection after the failure.
func genApplyFails(r *simrt.Rand, p *C24Plan) {
	total := 0
	for _, w := range p.Writers {
		total += len(w.Ops)
	}
	if total == 0 {
		return
	}
	n := 1 + r.Intn(2)
	if r.Chance(10) {
		n = 3
	}
	used := map[[2]int]bool{}
	for i := 0; i < n; i++ {
		f := ApplyFail{Reader: r.Intn(p.Readers), Nth: r.Intn(total)}
		if r.Chance(50) {
			f.Nth = r.Intn((total + 1) / 2)
		}
		f.Stage = []string{"wal", "wal", "ingest", "ingest", "wal-dropped"}[r.Intn(5)]
		k := [2]int{f.Reader, f.Nth}
		if used[k] {
			continue
		}
		used[k] = true
		p.ApplyFails = append(p.ApplyFails, f)
	}
}

// ---------------------------------------------------------------------------
// execution

type hookRec struct {
	Idx     int
	Hash    string
	Size    int
	Covered bool // the connection was established (both ends) when the hook was called
	Writer  int
}

type appliedRec struct {
	Hash string
	At   int64
	Link *link
}

type logLine struct {
	At    int64
	Level string
	Msg   string
	Raw   string
}

// logSink is the log output of one node. Writing a log line is output I/O: in
// a real process the writing goroutine can be descheduled there, and arc's
// warn/error statements sit exactly where code has left its critical section
// to report something. With yield set, every emitted line is therefore a
// scheduling point of the simulation (the line is recorded first, so the log
// stays in emission order).
type logSink struct {
	lines []logLine
	yield bool
}

func (s *logSink) Write(b []byte) (int, error) {
	var m struct {
		Level   string `json:"level"`
		Message string `json:"message"`
	}
	_ = json.Unmarshal(b, &m)
	s.lines = append(s.lines, logLine{At: simrt.SimNow(), Level: m.Level, Msg: m.Message, Raw: strings.TrimSpace(string(b))})
	if os.Getenv("VERIF_LOG") != "" {
		os.Stderr.Write(b)
	}
	n := len(b)
	if s.yield {
		simrt.Yield()
	}
	return n, nil
}

// failedRec is one entry whose local apply the injector refused.
type failedRec struct {
	Hash  string
	Stage string
	Nth   int
	At    int64
	Link  *link
}

type readerState struct {
	id      string
	node    *simrt.Node
	recv    *replication.Receiver
	applied []appliedRec
	walGot  []string
	log     *logSink
	// reader-local apply failures (passive configuration)
	arrivals   int            // entries handed to the apply path so far
	nthOf      map[string]int // payload hash -> arrival index
	failed     []failedRec    // entries refused with an error: not applied
	walDropped []string       // entries the local WAL shed (must still be applied)
}

var errSimLocalWAL = fmt.Errorf("simulated: follower WAL write: input/output error")
var errSimIngest = fmt.Errorf("simulated: ingest buffer refused the entry (back-pressure)")

type c24run struct {
	p           *C24Plan
	net         *simNet
	hooks       []hookRec
	readers     []*readerState
	wlog        *logSink
	established bool
	estFailed   bool
	quiesced    bool
	dropped     int64
	received    int64
	bufSize     int
	cpInterval  int
	appendErrs  []string
	curWriter   map[*simrt.Task]int
	curPayload  map[int][]byte // producer -> pristine copy of the payload being appended
	hookCalls   map[int]int    // producer -> hook calls so far
	hookTrouble []string
	// probes
	inHook          int
	hookOverlapGen  int
	dropsSeen       int64
	dropsOverlapped int64
	stepMaxNs       int64
}

func payloadFor(seed int64, w, o, size int) []byte {
	head := fmt.Sprintf("w%02d-o%03d|", w, o)
	b := make([]byte, 0, len(head)+size)
	b = append(b, head...)
	r := simrt.NewRand(uint64(seed)*1000003 + uint64(w)*4099 + uint64(o))
	b = append(b, r.Bytes(size)...)
	return b
}

func (st *c24run) linksOf(reader int) []*link {
	var out []*link
	for _, l := range st.net.links {
		if l.reader == reader {
			out = append(out, l)
		}
	}
	return out
}

func (st *c24run) body(dir string) {
	p := st.p
	simrt.SetPathRoot(dir)
	wn := simrt.NodeOf("writer")
	st.net = newSimNet()
	st.curWriter = map[*simrt.Task]int{}
	st.curPayload = map[int][]byte{}
	st.hookCalls = map[int]int{}
	if p.Mode == "adversarial" {
		st.net.faults = p.Faults
		st.net.latencyNs = int64(p.LatencyUs) * 1000
		st.net.capBytes = p.ConnCap
		for _, d := range p.DialFail {
			st.net.dialFail[d] = true
		}
	}
	if p.Mode == "passive" {
		st.net.stalls = p.Stalls
		// A checkpoint carries a timestamp and the reader refuses one that is
		// older than the freshness window it is given (replay defence): a frame
		// delayed beyond that window is no longer "only late". The window is
		// taken from the code under check (the value the receive loop passes to
		// the validator); delay faults use at most half of it.
		st.net.maxDelayNs = int64(security.HMACTimestampTolerance) / 2
	}
	st.wlog = &logSink{yield: p.LogYield}
	wlogger := zerolog.New(st.wlog)

	var w *wal.Writer
	var coord *cluster.Coordinator
	var sender *replication.Sender
	secret := fmt.Sprintf("c24-secret-%d", p.PaySeed)
	boot := simrt.GoOn("writer-boot", wn, func() {
		var err error
		w, err = wal.NewWriter(&wal.WriterConfig{WALDir: filepath.Join(dir, "wal-writer"), SyncMode: wal.SyncModeAsync,
			SyncInterval: 2 * time.Second, BufferSize: 4096, Logger: wlogger})
		if err != nil {
			panic("HARNESS: wal.NewWriter: " + err.Error())
		}
		ccfg := &config.ClusterConfig{Enabled: true, NodeID: "writer-1", Role: "writer", ClusterName: "c24",
			SharedSecret: secret, ReplicationEnabled: true, ReplicationBufferSize: p.BufferSize, ReplicationAckInterval: p.AckMs}
		coord = cluster.VerifNewReplicationCoordinator(ccfg, cluster.RoleWriter, w, wlogger)
		if err := coord.StartReplication(); err != nil {
			panic("HARNESS: StartReplication: " + err.Error())
		}
		sender = coord.VerifReplicationSender()
		if sender == nil {
			panic("HARNESS: StartReplication created no sender")
		}
		replication.VerifSetCheckpointInterval(sender, p.Checkpoint)
		if p.Mode == "adversarial" && p.WriteTimeoutMs > 0 {
			replication.VerifSetWriteTimeout(sender, int64(p.WriteTimeoutMs)*int64(time.Millisecond))
		}
		st.bufSize, st.cpInterval, _ = replication.VerifSenderConfig(sender)
		// observe what is handed to the hook StartReplication installed
		orig := wal.VerifReplicationHook(w)
		if orig == nil {
			panic("HARNESS: StartReplication installed no WAL replication hook")
		}
		w.SetReplicationHook(func(e *wal.ReplicationEntry) {
			idx := len(st.hooks)
			wr := -1
			if v, ok := st.curWriter[simrt.CurTask()]; ok {
				wr = v
			}
			st.hooks = append(st.hooks, hookRec{Idx: idx, Hash: phash(e.Payload), Size: len(e.Payload), Covered: st.established, Writer: wr})
			if wr >= 0 {
				st.hookCalls[wr]++
				// what is queued must carry the appended bytes (an envelope may precede them)
				if !bytes.HasSuffix(e.Payload, st.curPayload[wr]) {
					st.hookTrouble = append(st.hookTrouble, fmt.Sprintf("hook #%d (producer %d): the payload handed to the hook does not end with the appended bytes", idx, wr))
				}
			}
			simrt.Event("HOOK #%d writer=%d size=%d", idx, wr, len(e.Payload))
			// probes: how often is an entry dropped (buffer full) while another
			// producer is inside the hook at the same time
			st.inHook++
			if st.inHook > 1 {
				st.hookOverlapGen++
			}
			gen0, drop0 := st.hookOverlapGen, replication.VerifDropped(sender)
			orig(e)
			st.inHook--
			if replication.VerifDropped(sender) > drop0 {
				st.dropsSeen++
				if st.inHook > 0 || st.hookOverlapGen != gen0 {
					st.dropsOverlapped++
				}
			}
		})
	})
	simrt.Join(boot)
	if w == nil || sender == nil {
		panic("HARNESS: writer boot did not finish")
	}

	st.net.onAccept = func(c net.Conn, l *link) {
		simrt.GoOn("peer-conn", wn, func() { coord.VerifHandlePeerConnection(c) })
	}
	security.SimHook_Dial = func(network, addr string, timeout time.Duration, _ *tls.Config) (net.Conn, error) {
		ri := 0
		if i := strings.LastIndexByte(addr, '#'); i >= 0 {
			fmt.Sscanf(addr[i+1:], "%d", &ri)
		}
		return st.net.dial(ri)
	}

	for i := 0; i < p.Readers; i++ {
		rs := &readerState{id: fmt.Sprintf("reader-%d", i), node: simrt.NodeOf(fmt.Sprintf("reader%d", i)), log: &logSink{yield: p.LogYield}, nthOf: map[string]int{}}
		st.readers = append(st.readers, rs)
		ri := i
		delay := time.Duration(0)
		if p.Mode == "adversarial" {
			delay = time.Duration(p.ApplyDelayUs) * time.Microsecond
		}
		h := simrt.GoOn("reader-boot", rs.node, func() {
			rs.recv = replication.NewReceiver(&replication.ReceiverConfig{
				ReaderID: rs.id, WriterAddr: fmt.Sprintf("sim-writer:9100#%d", ri),
				LocalWAL: walRecorder(func(pl []byte) error {
					hsh := phash(pl)
					k := rs.arrivals
					rs.arrivals++
					rs.nthOf[hsh] = k
					switch st.applyFailFor(ri, k) {
					case "wal":
						rs.failed = append(rs.failed, failedRec{Hash: hsh, Stage: "wal", Nth: k, At: simrt.SimNow(), Link: st.curLink(ri)})
						simrt.Event("APPLY-FAIL r%d #%d %s stage=wal", ri, k, hsh)
						simrt.Count("fault.apply_fail_wal", 1)
						return errSimLocalWAL
					case "wal-dropped":
						rs.walDropped = append(rs.walDropped, hsh)
						simrt.Event("APPLY-WALDROP r%d #%d %s", ri, k, hsh)
						simrt.Count("fault.apply_wal_dropped", 1)
						return fmt.Errorf("follower wal: %w", wal.ErrWALDropped)
					}
					rs.walGot = append(rs.walGot, hsh)
					return nil
				}),
				IngestHandler: replication.IngestHandlerFunc(func(ctx context.Context, pl []byte) error {
					if delay > 0 {
						simrt.Sleep(delay)
					}
					cur := st.curLink(ri)
					hsh := phash(pl)
					if k, ok := rs.nthOf[hsh]; ok && st.applyFailFor(ri, k) == "ingest" {
						rs.failed = append(rs.failed, failedRec{Hash: hsh, Stage: "ingest", Nth: k, At: simrt.SimNow(), Link: cur})
						simrt.Event("APPLY-FAIL r%d #%d %s stage=ingest", ri, k, hsh)
						simrt.Count("fault.apply_fail_ingest", 1)
						return errSimIngest
					}
					rs.applied = append(rs.applied, appliedRec{Hash: hsh, At: simrt.SimNow(), Link: cur})
					simrt.Event("APPLY r%d %s", ri, hsh)
					return nil
				}),
				ReconnectInterval: time.Duration(p.ReconnectMs) * time.Millisecond,
				AckInterval:       time.Duration(p.AckMs) * time.Millisecond,
				Logger:            zerolog.New(rs.log), SharedSecret: secret, ClusterName: "c24",
			})
			if err := rs.recv.Start(context.Background()); err != nil {
				panic("HARNESS: receiver start: " + err.Error())
			}
		})
		simrt.Join(h)
	}

	isEstablished := func() bool {
		if replication.VerifReaderCount(sender) != p.Readers {
			return false
		}
		for _, rs := range st.readers {
			if !rs.recv.IsConnected() {
				return false
			}
		}
		return true
	}
	waitEstablished := func() {
		guard := simrt.NewTimer(12 * time.Second)
		t0 := simrt.SimNow()
		simrt.Block("wait-established", func() bool {
			return isEstablished() || simrt.SimNow()-t0 >= int64(12*time.Second)
		})
		guard.Stop()
		if isEstablished() {
			st.established = true
			simrt.Event("ESTABLISHED")
		} else {
			st.estFailed = true
			simrt.Event("NOT-ESTABLISHED")
		}
	}
	var estTask *simrt.Task
	if p.Early {
		estTask = simrt.Go("wait-established", waitEstablished)
	} else {
		waitEstablished()
	}

	if p.Mode == "adversarial" && p.StallWriterMs > 0 {
		simrt.Go("staller", func() {
			simrt.Sleep(time.Duration(p.StallAtUs) * time.Microsecond)
			simrt.Event("STALL writer %dms", p.StallWriterMs)
			simrt.Stall(wn, time.Duration(p.StallWriterMs)*time.Millisecond)
		})
	}

	var tasks []*simrt.Task
	for wi := range p.Writers {
		wi := wi
		wp := p.Writers[wi]
		var t *simrt.Task
		t = simrt.GoOn(fmt.Sprintf("producer-%d", wi), wn, func() {
			st.curWriter[simrt.CurTask()] = wi
			if wp.StartUs > 0 {
				simrt.Sleep(time.Duration(wp.StartUs) * time.Microsecond)
			}
			for oi, op := range wp.Ops {
				if op.SleepUs > 0 {
					simrt.Sleep(time.Duration(op.SleepUs) * time.Microsecond)
				}
				if op.AlignK > 0 {
					st.alignToReadDeadline(op.AlignK)
				}
				pl := payloadFor(p.PaySeed, wi, oi, op.Size)
				st.curPayload[wi] = append([]byte(nil), pl...)
				before := st.hookCalls[wi]
				var err error
				if op.Kind == "raw" {
					err = w.AppendRaw(pl) // the hook consumer keeps this slice: never reused
				} else {
					err = w.AppendRawWithMeta(op.DB, pl)
					// the caller's buffer belongs to the request: it is reused afterwards
					for i := range pl {
						pl[i] = 0xAA
					}
				}
				if err != nil {
					st.appendErrs = append(st.appendErrs, fmt.Sprintf("w%d/o%d: %v", wi, oi, err))
				}
				if n := st.hookCalls[wi] - before; n != 1 {
					st.hookTrouble = append(st.hookTrouble, fmt.Sprintf("producer %d op %d (%s): the WAL append called the replication hook %d times", wi, oi, op.Kind, n))
				}
			}
		})
		_ = t
		tasks = append(tasks, t)
	}
	for _, t := range tasks {
		simrt.Join(t)
	}
	if estTask != nil {
		simrt.Join(estTask)
	}
	simrt.Event("PRODUCERS-DONE hooks=%d", len(st.hooks))

	// settle: let the stream drain
	progress := func() int64 {
		var n int64
		for _, l := range st.net.links {
			n += int64(len(l.half[0].sent) + len(l.half[1].sent) + len(l.half[0].dlv) + len(l.half[1].dlv))
			n += int64(len(l.half[0].rbuf) + len(l.half[1].rbuf))
		}
		for _, rs := range st.readers {
			n += int64(len(rs.applied)) * 7
		}
		n += int64(len(st.net.links)) * 1000
		n += replication.VerifReceived(sender) + int64(replication.VerifQueueLen(sender))*13
		return n
	}
	drained := func() bool {
		if replication.VerifQueueLen(sender) != 0 {
			return false
		}
		for _, l := range st.net.links {
			if !l.open() {
				continue
			}
			h := l.half[1]
			if len(h.asm)+len(h.q)+len(h.rbuf) > 0 || h.held != nil {
				return false
			}
		}
		return true
	}
	step := 300 * time.Millisecond
	iters := 40
	if p.Mode == "adversarial" {
		step = time.Duration(p.ReconnectMs)*time.Millisecond + 300*time.Millisecond
		iters = 6
	}
	// delay-only faults: pieces still in flight (the pause of a stalled frame
	// is not idleness)
	inflightUntil := func() int64 {
		var until int64
		if p.Mode != "passive" || len(p.Stalls) == 0 {
			return 0
		}
		for _, l := range st.net.links {
			if !l.open() {
				continue
			}
			for _, h := range l.half {
				for _, f := range h.q {
					if f.at > until {
						until = f.at
					}
				}
			}
		}
		return until
	}
	prev := progress()
	for i := 0; i < iters; i++ {
		simrt.Sleep(step)
		if until := inflightUntil(); until > simrt.SimNow() {
			simrt.Sleep(time.Duration(until - simrt.SimNow()))
			// the piece has only just arrived: give its receiver time to
			// assemble, verify and apply the frame before judging idleness
			// (a thorough run once ended between the local WAL's shed and the
			// ingest apply of the last entry and reported it as lost)
			simrt.Sleep(step)
		}
		cur := progress()
		if cur == prev && drained() {
			st.quiesced = true
			break
		}
		prev = cur
	}
	st.dropped = replication.VerifDropped(sender)
	st.received = replication.VerifReceived(sender)
	simrt.Event("END quiesced=%v dropped=%d received=%d", st.quiesced, st.dropped, st.received)
}

// alignToReadDeadline parks the calling producer until k quarter-steps before
// reader 0's pending read deadline (re-evaluated when traffic re-arms it).
func (st *c24run) alignToReadDeadline(k int) {
	off := time.Duration(int64(k) * st.stepMaxNs / 4)
	for i := 0; i < 8; i++ {
		ls := st.linksOf(0)
		if len(ls) == 0 || !ls[len(ls)-1].open() {
			return
		}
		e := ls[len(ls)-1].ends[0]
		if e.rdl.IsZero() {
			return
		}
		d := e.rdl.Add(-off).Sub(simrt.Now())
		if d <= 0 {
			return
		}
		simrt.Event("ALIGN wait %dns", int64(d))
		simrt.Sleep(d)
	}
}

type walRecorder func([]byte) error

func (f walRecorder) AppendRaw(p []byte) error { return f(p) }

// applyFailFor returns the stage at which the k-th entry arriving at the
// reader is to be refused ("" = not at all). Passive configuration only.
func (st *c24run) applyFailFor(reader, k int) string {
	if st.p.Mode != "passive" {
		return ""
	}
	for _, f := range st.p.ApplyFails {
		if f.Reader == reader && f.Nth == k {
			return f.Stage
		}
	}
	return ""
}

// curLink is the reader's most recent connection.
func (st *c24run) curLink(reader int) *link {
	ls := st.linksOf(reader)
	if len(ls) == 0 {
		return nil
	}
	return ls[len(ls)-1]
}

// closesCheckpointWindow reports whether the entry with this payload was the
// last one before a checkpoint on the connection (the next frame handed to the
// reader after it is a checkpoint).
func closesCheckpointWindow(l *link, hash string) bool {
	dlv := l.half[1].dlv
	for i, f := range dlv {
		if f.Entry && f.PHash == hash {
			return i+1 < len(dlv) && dlv[i+1].CP
		}
	}
	return false
}

// checkpointAfter reports whether a checkpoint was handed to the reader on l
// after the entry with this payload.
func checkpointAfter(l *link, hash string) bool {
	seen := false
	for _, f := range l.half[1].dlv {
		if f.Entry && f.PHash == hash {
			seen = true
		} else if seen && f.CP {
			return true
		}
	}
	return false
}

// ---------------------------------------------------------------------------
// oracle

// dropReason classifies why the reader dropped its connection, from the
// reader's own log (observation "connection drops and their reasons").
func dropReason(lines []logLine) string {
	table := []struct{ sub, id string }{
		{"sequence did not advance", "sequence-not-advancing"},
		{"MAC tag verification failed", "entry-tag-mismatch"},
		{"missing MAC tag", "entry-tag-missing"},
		{"tag length mismatch", "entry-tag-malformed"},
		{"tag malformed", "entry-tag-malformed"},
		{"checkpoint sequence mismatch", "checkpoint-sequence-mismatch"},
		{"checkpoint hash mismatch", "checkpoint-hash-mismatch"},
		{"checkpoint HMAC validation failed", "checkpoint-hmac-rejected"},
		{"checkpoint cluster name mismatch", "checkpoint-cluster-mismatch"},
		{"checkpoint parse failed", "checkpoint-unparsable"},
		{"Failed to parse entry", "entry-unparsable"},
		{"Unexpected message type", "unexpected-message-type"},
		{"Error from writer", "writer-error-frame"},
		{"Failed to connect to writer", "handshake-failed"},
	}
	for _, l := range lines {
		if l.Level != "error" && l.Level != "warn" {
			continue
		}
		for _, t := range table {
			if strings.Contains(l.Msg, t.sub) {
				return t.id
			}
		}
	}
	return "no-reason-logged"
}

func firstRaw(lines []logLine, levels ...string) string {
	for _, l := range lines {
		for _, lv := range levels {
			if l.Level == lv {
				return l.Raw
			}
		}
	}
	return ""
}

// wireOrder describes the first place where the writer put a sequence number
// on the wire that does not exceed its predecessor (diagnostics only).
func wireOrder(l *link, hookWriter map[string]int) string {
	var last uint64
	var lastHash string
	for _, f := range l.half[1].sent {
		if !f.Entry {
			continue
		}
		if last != 0 && f.Seq <= last {
			return fmt.Sprintf("the writer sent seq %d (producer %d) after seq %d (producer %d) on %s", f.Seq, hookWriter[f.PHash], last, hookWriter[lastHash], l.name())
		}
		last, lastHash = f.Seq, f.PHash
	}
	return "the writer's frames on " + l.name() + " carry strictly increasing sequence numbers"
}

// wireSeqReuse reports whether the writer put one sequence number on two
// different entries of this connection (as opposed to sending correctly
// numbered entries in the wrong order). It only refines the rule id of a
// violation, it never creates one.
func wireSeqReuse(l *link) bool {
	bySeq := map[uint64]string{}
	for _, f := range l.half[1].sent {
		if !f.Entry {
			continue
		}
		if h, ok := bySeq[f.Seq]; ok && h != f.PHash {
			return true
		}
		bySeq[f.Seq] = f.PHash
	}
	return false
}

func harnessError(msg string) {
	fmt.Fprintf(os.Stderr, "HARNESS-ERROR %s\n", msg)
	os.Exit(2)
}

func judgeC24(st *c24run, out *simkit.Outcome) {
	p := st.p
	mode := "passive"
	if p.Mode == "adversarial" {
		mode = "adv"
	}
	genuine := map[string]int{} // payload hash -> hook index
	hookWriter := map[string]int{}
	for _, h := range st.hooks {
		if _, dup := genuine[h.Hash]; dup {
			harnessError("two hook calls with the same payload")
		}
		genuine[h.Hash] = h.Idx
		hookWriter[h.Hash] = h.Writer
	}
	// sequence number the writer assigned to each payload (as it put it on the wire)
	trueSeq := map[string]uint64{}
	for _, l := range st.net.links {
		for _, f := range l.half[1].sent {
			if f.Entry {
				if s, ok := trueSeq[f.PHash]; ok && s != f.Seq {
					out.Violate("C24."+mode+".same-entry-two-sequence-numbers", "payload %s was sent as seq %d and as seq %d", f.PHash, s, f.Seq)
				}
				trueSeq[f.PHash] = f.Seq
			}
		}
	}
	if len(st.appendErrs) > 0 {
		out.Violate("C24."+mode+".wal-append-failed", "%v", st.appendErrs)
	}
	if len(st.hookTrouble) > 0 {
		out.Violate("C24."+mode+".append-not-queued-for-replication-once-intact", "%v", st.hookTrouble)
	}

	for ri, rs := range st.readers {
		links := st.linksOf(ri)
		// ---- apply-side safety (both configurations)
		seen := map[string]int{}
		var lastSeq uint64
		var lastHash string
		for ai, a := range rs.applied {
			if _, ok := genuine[a.Hash]; !ok {
				out.Violate("C24."+mode+".applied-payload-never-queued", "reader %d applied #%d payload %s which the writer never handed to the replication hook (altered or injected on the wire)", ri, ai, a.Hash)
				continue
			}
			if first, dup := seen[a.Hash]; dup {
				out.Violate("C24."+mode+".applied-twice", "reader %d applied payload %s (hook #%d) twice: apply #%d and #%d", ri, a.Hash, genuine[a.Hash], first, ai)
				continue
			}
			seen[a.Hash] = ai
			ts, ok := trueSeq[a.Hash]
			if !ok {
				harnessError(fmt.Sprintf("reader %d applied payload %s (hook #%d) which the sender-side tap never saw", ri, a.Hash, genuine[a.Hash]))
			}
			if ts <= lastSeq {
				out.Violate("C24."+mode+".applied-out-of-sequence-order", "reader %d applied seq %d (hook #%d, producer %d) after seq %d (hook #%d, producer %d)", ri, ts, genuine[a.Hash], hookWriter[a.Hash], lastSeq, genuine[lastHash], hookWriter[lastHash])
			}
			lastSeq, lastHash = ts, a.Hash
			// the frame that carried it must have claimed the writer's sequence number
			if a.Link != nil {
				claimed := false
				any := false
				for _, f := range a.Link.half[1].dlv {
					if f.Entry && f.PHash == a.Hash {
						any = true
						if f.Seq == ts {
							claimed = true
						}
					}
				}
				if any && !claimed {
					out.Violate("C24."+mode+".applied-under-forged-sequence", "reader %d applied payload %s from a frame whose sequence number is not the writer's %d", ri, a.Hash, ts)
				}
			}
		}
		if p.Mode == "adversarial" {
			// a connection the adversary never touched must not be closed by the writer
			for _, l := range links {
				if !l.touched && l.closedBy == "writer" && p.ConnCap == 0 {
					why := firstRaw(st.wlog.lines, "error")
					circ := "previous-connection-already-closed"
					if l.idx == 0 {
						circ = "first-connection"
					}
					if l.staleAtDial {
						circ = "stale-previous-connection-of-same-reader"
					}
					out.Violate("C24.adv.untouched-connection-closed-by-writer."+circ, "connection %s carried no fault, delay or back-pressure, yet the writer closed it at t=%dns (connections of this reader: %d; the writer still held the reader's previous connection when this one was dialled: %v). writer log: %s", l.name(), l.closedAt, len(links), l.staleAtDial, why)
				}
			}
			continue
		}

		// ---- passive configuration
		if st.estFailed {
			out.Violate("C24.passive.handshake-failed."+dropReason(rs.log.lines), "reader %d did not get connected over a clean wire within 12 s; reader log: %s", ri, firstRaw(rs.log.lines, "error", "warn"))
			continue
		}
		dropped := false
		for _, l := range links {
			if !l.open() {
				dropped = true
				reason := "n/a"
				if l.closedBy == "reader" {
					reason = dropReason(rs.log.lines)
					if l.ends[0].midTO > 0 {
						// circumstance: a read deadline of the reader had expired
						// part-way through a frame on this connection
						if reason == "no-reason-logged" {
							reason = "after-read-deadline-expired-mid-frame"
						} else {
							reason += ".after-read-deadline-expired-mid-frame"
						}
					}
					if reason == "sequence-not-advancing" && wireSeqReuse(l) {
						reason += ".writer-numbered-two-entries-alike"
					}
					// circumstance: before the drop the reader had failed to
					// apply an entry of this connection locally (injected). That
					// costs the entry, it does not make the stream any less
					// authentic or ordered. One sub-case is told apart because
					// the protocol treats it differently: the refused entry was
					// the last one before a checkpoint.
					nFail, closing := 0, false
					for _, f := range rs.failed {
						if f.Link == l && f.At <= l.closedAt {
							nFail++
							if closesCheckpointWindow(l, f.Hash) {
								closing = true
							}
						}
					}
					if nFail > 0 {
						if closing && strings.HasPrefix(reason, "checkpoint-sequence-mismatch") {
							// (one id whatever else happened on the connection: the
							// refused entry accounts for the mismatch by itself)
							reason = "checkpoint-sequence-mismatch.after-local-apply-failure-on-entry-closing-a-checkpoint-window"
						} else {
							reason += ".after-local-apply-failure"
						}
					}
				} else {
					reason = "writer-side"
					if l.ends[1].midTO > 0 {
						reason = "after-ack-read-deadline-expired-mid-frame"
					}
				}
				out.Violate("C24.passive.connection-dropped.by-"+l.closedBy+"."+reason,
					"reader %d: healthy connection %s was closed by the %s at t=%dns; %s; reader log: %s; writer log: %s",
					ri, l.name(), l.closedBy, l.closedAt, wireOrder(l, hookWriter), firstRaw(rs.log.lines, "error"), firstRaw(st.wlog.lines, "error"))
				break
			}
		}
		if len(links) != 1 && !dropped {
			out.Violate("C24.passive.reader-dialled-again", "reader %d dialled %d connections over a clean wire", ri, len(links))
			dropped = true
		}
		if dropped || !st.quiesced {
			continue
		}
		// completeness: every entry queued while connected is applied, except
		// as many as the writer itself counted as dropped
		// ... and except exactly the entries whose local apply the injector
		// refused on this reader (a reader-local failure may cost that entry,
		// nothing else). An entry the local WAL merely shed is not excused.
		refused := map[string]string{}
		for _, f := range rs.failed {
			refused[f.Hash] = f.Stage
		}
		var missing, excused []string
		for _, h := range st.hooks {
			if !h.Covered {
				continue
			}
			if _, ok := seen[h.Hash]; !ok {
				if stg, ok := refused[h.Hash]; ok {
					excused = append(excused, fmt.Sprintf("hook#%d(%s)", h.Idx, stg))
					continue
				}
				missing = append(missing, fmt.Sprintf("hook#%d(producer %d, seq %d)", h.Idx, h.Writer, trueSeq[h.Hash]))
			}
		}
		if int64(len(missing)) > st.dropped {
			circ := ""
			if len(rs.failed) > 0 {
				circ = ".after-local-apply-failure"
			} else if len(rs.walDropped) > 0 {
				circ = ".after-local-wal-shed-an-entry"
			}
			out.Violate("C24.passive.entry-lost-without-drop-report"+circ, "reader %d stayed connected; %d queued entries were never applied but the writer reports only %d dropped: %v (entries whose local apply was refused by the injector, not counted: %v; shed by the local WAL only: %d)", ri, len(missing), st.dropped, missing, excused, len(rs.walDropped))
		}
	}
}

func runC24(planAny any, cfg simrt.Config) *simkit.Outcome {
	p := planAny.(*C24Plan)
	out := &simkit.Outcome{}
	if p.Readers < 1 {
		p.Readers = 1
	}
	dir := scratch()
	defer os.RemoveAll(dir)
	st := &c24run{p: p, stepMaxNs: cfg.StepMaxNs}
	cfg.MaxSteps = 400_000
	res := simrt.Run(cfg, func() { st.body(dir) })
	security.SimHook_Dial = nil
	out.Absorb(res)
	for _, pn := range res.Panics {
		if strings.Contains(pn, "HARNESS") {
			fmt.Fprintf(os.Stderr, "HARNESS-ERROR %s\n", pn)
			os.Exit(2)
		}
	}
	mode := "passive"
	if p.Mode == "adversarial" {
		mode = "adv"
	}
	if len(res.Panics) > 0 {
		first := res.Panics[0]
		if i := strings.IndexByte(first, '\n'); i > 0 {
			first = first[:i]
		}
		out.Violate("C24."+mode+".panic", "%s", res.Panics[0])
		return out
	}
	if res.Outcome != "ok" {
		return out // simkit reports dead-lock / step-limit as harness trouble
	}
	judgeC24(st, out)
	applied := 0
	for _, rs := range st.readers {
		applied += len(rs.applied)
	}
	out.Stats["probe.hooks"] += int64(len(st.hooks))
	out.Stats["probe.applied"] += int64(applied)
	out.Stats["probe.sender_dropped"] += st.dropped
	out.Stats["probe.links"] += int64(len(st.net.links))
	if st.dropped > 0 {
		out.Stats["probe.run_with_sender_drop"]++
		out.Stats["probe.run_with_sender_drop."+mode]++
	}
	out.Stats["probe.drop_while_other_producer_in_hook"] += st.dropsOverlapped
	if st.dropsOverlapped > 0 {
		out.Stats["probe.run_with_drop_while_other_producer_in_hook."+mode]++
	}
	if p.LogYield {
		out.Stats["probe.run_with_log_yield"]++
	}
	if len(st.net.links) > p.Readers {
		out.Stats["probe.run_with_reconnect"]++
	}
	cps := 0
	for _, l := range st.net.links {
		for _, f := range l.half[1].sent {
			if f.CP {
				cps++
			}
		}
	}
	out.Stats["probe.checkpoints_sent"] += int64(cps)
	nRefused, nShed, thenCP, thenCPmid := 0, 0, 0, 0
	for _, rs := range st.readers {
		nRefused += len(rs.failed)
		nShed += len(rs.walDropped)
		for _, f := range rs.failed {
			if f.Link != nil && checkpointAfter(f.Link, f.Hash) {
				thenCP++
				if !closesCheckpointWindow(f.Link, f.Hash) {
					thenCPmid++
				}
			}
		}
	}
	if nRefused > 0 {
		out.Stats["probe.run_with_local_apply_failure"]++
		out.Stats["probe.local_apply_failures"] += int64(nRefused)
	}
	if thenCP > 0 {
		out.Stats["probe.run_with_checkpoint_after_local_apply_failure"]++
	}
	if thenCPmid > 0 {
		out.Stats["probe.run_with_checkpoint_after_local_apply_failure_mid_window"]++
	}
	if nShed > 0 {
		out.Stats["probe.run_with_local_wal_shed"]++
	}
	out.Stats["mode."+mode]++
	if st.net.stalled > 0 {
		out.Stats["probe.run_with_frame_in_pieces"]++
		out.Stats["probe.frames_in_pieces"] += int64(st.net.stalled)
	}
	for _, k := range []string{"probe.read_deadline_expired", "probe.read_deadline_expired_mid_frame", "probe.read_deadline_expired_mid_payload"} {
		if v := res.Stats[k]; v > 0 {
			out.Stats[k+"."+mode] += v
		}
	}
	if p.Mode == "passive" {
		if !st.quiesced && len(out.Violations) == 0 {
			out.Discard = "not-quiesced"
			return out
		}
		out.Nontrivial = res.Decisions > 0 && applied > 0
	} else {
		out.Nontrivial = st.net.fired > 0 && len(st.hooks) > 0
	}
	return out
}

// ---------------------------------------------------------------------------
// shrinking and description

func cloneC24(p *C24Plan) *C24Plan {
	b, _ := json.Marshal(p)
	q := &C24Plan{}
	if err := json.NewDecoder(bytes.NewReader(b)).Decode(q); err != nil {
		panic(err)
	}
	return q
}

func shrinkC24(planAny any) []any {
	p := planAny.(*C24Plan)
	var out []any
	add := func(f func(q *C24Plan) bool) {
		q := cloneC24(p)
		if f(q) {
			out = append(out, q)
		}
	}
	// fewer writers
	for i := range p.Writers {
		i := i
		if len(p.Writers) > 1 {
			add(func(q *C24Plan) bool { q.Writers = append(q.Writers[:i], q.Writers[i+1:]...); return true })
		}
	}
	// fewer ops
	for i := range p.Writers {
		i := i
		if n := len(p.Writers[i].Ops); n > 1 {
			add(func(q *C24Plan) bool { q.Writers[i].Ops = q.Writers[i].Ops[:n/2]; return true })
			add(func(q *C24Plan) bool { q.Writers[i].Ops = q.Writers[i].Ops[:n-1]; return true })
			add(func(q *C24Plan) bool { q.Writers[i].Ops = q.Writers[i].Ops[1:]; return true })
		}
	}
	for i := range p.Faults {
		i := i
		add(func(q *C24Plan) bool { q.Faults = append(q.Faults[:i], q.Faults[i+1:]...); return true })
	}
	for i := range p.Stalls {
		i := i
		add(func(q *C24Plan) bool { q.Stalls = append(q.Stalls[:i], q.Stalls[i+1:]...); return true })
		if len(p.Stalls[i].Cuts) > 1 {
			add(func(q *C24Plan) bool {
				x := &q.Stalls[i]
				x.Cuts, x.GapMs = x.Cuts[:1], x.GapMs[:1]
				return true
			})
		}
	}
	for i := range p.ApplyFails {
		i := i
		add(func(q *C24Plan) bool { q.ApplyFails = append(q.ApplyFails[:i], q.ApplyFails[i+1:]...); return true })
		if p.ApplyFails[i].Nth > 0 {
			add(func(q *C24Plan) bool { q.ApplyFails[i].Nth--; return true })
		}
	}
	add(func(q *C24Plan) bool {
		if q.Readers <= 1 {
			return false
		}
		q.Readers = 1
		for i := range q.ApplyFails {
			q.ApplyFails[i].Reader = 0
		}
		return true
	})
	add(func(q *C24Plan) bool { ok := q.Early; q.Early = false; return ok })
	add(func(q *C24Plan) bool { ok := q.Checkpoint != 0; q.Checkpoint = 0; return ok })
	add(func(q *C24Plan) bool { ok := q.LatencyUs != 0; q.LatencyUs = 0; return ok })
	add(func(q *C24Plan) bool { ok := q.ConnCap != 0; q.ConnCap = 0; return ok })
	add(func(q *C24Plan) bool { ok := q.ApplyDelayUs != 0; q.ApplyDelayUs = 0; return ok })
	add(func(q *C24Plan) bool { ok := q.WriteTimeoutMs != 0; q.WriteTimeoutMs = 0; return ok })
	add(func(q *C24Plan) bool { ok := len(q.DialFail) > 0; q.DialFail = nil; return ok })
	add(func(q *C24Plan) bool { ok := q.StallWriterMs != 0; q.StallWriterMs = 0; return ok })
	add(func(q *C24Plan) bool { ok := q.BufferSize != 10000; q.BufferSize = 10000; return ok })
	add(func(q *C24Plan) bool { ok := q.AckMs != 1000; q.AckMs = 1000; return ok })
	add(func(q *C24Plan) bool { ok := q.LogYield; q.LogYield = false; return ok })
	add(func(q *C24Plan) bool {
		ok := false
		for i := range q.Writers {
			if q.Writers[i].StartUs != 0 {
				q.Writers[i].StartUs, ok = 0, true
			}
			for j := range q.Writers[i].Ops {
				o := &q.Writers[i].Ops[j]
				if o.SleepUs != 0 {
					o.SleepUs, ok = 0, true
				}
				if o.AlignK > 1 {
					o.AlignK, ok = o.AlignK-1, true
				}
			}
		}
		return ok
	})
	add(func(q *C24Plan) bool {
		ok := false
		for i := range q.Writers {
			for j := range q.Writers[i].Ops {
				o := &q.Writers[i].Ops[j]
				if o.Size != 4 || o.Kind != "meta" || o.DB != "db" {
					o.Size, o.Kind, o.DB, ok = 4, "meta", "db", true
				}
			}
		}
		return ok
	})
	return out
}

func descC24(planAny any) any {
	p := planAny.(*C24Plan)
	ops := 0
	for _, w := range p.Writers {
		ops += len(w.Ops)
	}
	var kinds []string
	for _, f := range p.Faults {
		kinds = append(kinds, fmt.Sprintf("%s@r%d/c%d/d%d#%d", f.Kind, f.Reader, f.Conn, f.Dir, f.Frame))
	}
	sort.Strings(kinds)
	var stalls []string
	for _, x := range p.Stalls {
		stalls = append(stalls, fmt.Sprintf("r%d/c%d/d%d#%d cuts=%v gap_ms=%v past_deadline=%v", x.Reader, x.Conn, x.Dir, x.Frame, x.Cuts, x.GapMs, x.PastDeadline))
	}
	var afs []string
	for _, f := range p.ApplyFails {
		afs = append(afs, fmt.Sprintf("r%d#%d:%s", f.Reader, f.Nth, f.Stage))
	}
	return map[string]any{"apply_fails": afs, "stalls": stalls, "mode": p.Mode, "readers": p.Readers, "writers": len(p.Writers), "ops": ops, "buffer_size": p.BufferSize,
		"checkpoint": p.Checkpoint, "early": p.Early, "faults": kinds, "latency_us": p.LatencyUs, "conn_cap": p.ConnCap,
		"apply_delay_us": p.ApplyDelayUs, "reconnect_ms": p.ReconnectMs, "log_yield": p.LogYield}
}
