//go:build verif

package main

// In-memory network for the replication stream: net.Conn pairs whose
// Read/Write/Set*Deadline park on the simulator and read the simulated clock,
// with a frame-level adversary between the two ends. Both protocols that
// travel over the connection (the cluster handshake codec and the
// replication codec) use the framing [4-byte big-endian length][1-byte
// type][JSON], so the wire re-assembles whole frames from the byte stream and
// hands each one to the adversary before it becomes readable at the far end.

import (
	"crypto/sha256"
	"encoding/binary"
	"encoding/hex"
	"encoding/json"
	"fmt"
	"io"
	"net"
	"os"
	"runtime/debug"
	"time"

	"github.com/basekick-labs/arc/internal/simrt"
)

// WireFault is one adversary action, tied to the Frame-th frame travelling
// in direction Dir (0 = reader→writer, 1 = writer→reader) on the Conn-th
// connection dialled by reader Reader.
type WireFault struct {
	Reader int    `json:"reader"`
	Conn   int    `json:"conn"`
	Dir    int    `json:"dir"`
	Frame  int    `json:"frame"`
	Kind   string `json:"kind"` // drop dup swap flip trunc replay replay-cp splice inject reset halfopen delay
	A      int    `json:"a,omitempty"`
	B      int    `json:"b,omitempty"`
}

// WireStall is a pure delay fault of the delay-only (passive) configuration:
// the Frame-th frame travelling in direction Dir on the Conn-th connection of
// reader Reader reaches the far end in pieces (cut at Cuts, per-mille of the
// frame length) with a pause of GapMs[i] milliseconds before piece i+1, as a
// congested or briefly black-holed TCP path delivers a segment train. With
// PastDeadline the first pause additionally lasts until the read deadline the
// receiving end has pending at that moment (read from the running code) has
// passed. Nothing is altered, dropped, duplicated or reordered; every later
// frame queues up behind the stalled one.
type WireStall struct {
	Reader       int     `json:"reader"`
	Conn         int     `json:"conn"`
	Dir          int     `json:"dir"`
	Frame        int     `json:"frame"`
	Cuts         []int   `json:"cuts"`
	GapMs        []int64 `json:"gap_ms"`
	PastDeadline bool    `json:"past_deadline,omitempty"`
}

type timeoutErr struct{}

func (timeoutErr) Error() string   { return "i/o timeout (simulated)" }
func (timeoutErr) Timeout() bool   { return true }
func (timeoutErr) Temporary() bool { return true }

type resetErr struct{}

func (resetErr) Error() string   { return "connection reset by peer (simulated)" }
func (resetErr) Timeout() bool   { return false }
func (resetErr) Temporary() bool { return false }

type simAddr string

func (a simAddr) Network() string { return "sim" }
func (a simAddr) String() string  { return string(a) }

// frameRec is what the taps remember about a frame.
type frameRec struct {
	Idx     int
	Type    byte
	Seq     uint64 // entry frames / checkpoint last_seq
	PHash   string // sha256 of the entry payload (entry frames that parse)
	Entry   bool   // parsed as a replication entry
	CP      bool   // parsed as a checkpoint
	Bad     bool   // did not parse
	Forged  bool   // produced or modified by the adversary
	At      int64
	rawCopy []byte
}

type qframe struct {
	data []byte
	at   int64
}

// half is one direction of a link.
type half struct {
	l       *link
	dir     int
	asm     []byte   // written, not yet a whole frame
	q       []qframe // in flight
	rbuf    []byte   // readable at the far end
	wclosed bool     // writing end closed: EOF once drained
	rclosed bool     // reading end closed: writes fail
	blackh  bool     // half-open: bytes vanish
	nframes int
	sent    []frameRec // as written by the sending end
	dlv     []frameRec // as handed to the receiving end
	passed  int        // bytes of the frame being assembled that were already passed through
	held    []byte     // swap: delivered after the next frame
	lastAt  int64
	// frame boundaries of the delivered byte stream (reach probe: a read
	// deadline that expires in the middle of a frame)
	dlvBytes int64
	bounds   map[int64]bool
	consumed int64
	starts   []int64 // start offsets of the delivered frames (ascending)
	pieces   int     // frames delivered in pieces (delay-only fault)
}

// frameOffset returns how far into a delivered frame the byte offset off of
// the stream lies (0 = at a frame boundary).
func (h *half) frameOffset(off int64) int64 {
	st := int64(0)
	for _, s := range h.starts {
		if s > off {
			break
		}
		st = s
	}
	return off - st
}

func (h *half) buffered() int {
	n := len(h.rbuf)
	for _, f := range h.q {
		n += len(f.data)
	}
	return n
}

// pump moves in-flight frames whose delivery time has come to rbuf.
func (h *half) pump() {
	now := simrt.SimNow()
	for len(h.q) > 0 && h.q[0].at <= now {
		h.rbuf = append(h.rbuf, h.q[0].data...)
		h.q = h.q[1:]
	}
}

type link struct {
	n           *simNet
	reader      int
	idx         int // per-reader connection index
	half        [2]*half
	closedBy    string // "reader" "writer" "adversary" (first close)
	closedAt    int64
	closeNote   string
	touched     bool // the adversary acted on this link (or it ever exerted back-pressure)
	openedAt    int64
	clientRst   bool // reader end sees a reset
	serverRst   bool
	ends        [2]*end
	staleAtDial bool // the writer had not yet closed its end of this reader's previous connection
}

func (l *link) name() string { return fmt.Sprintf("r%d/c%d", l.reader, l.idx) }

type end struct {
	l        *link
	side     int // 0 = reader (client), 1 = writer (server)
	closed   bool
	rdl      time.Time
	wdl      time.Time
	rt, wt   *simrt.Timer
	midTO    int // read deadlines that expired after part of a frame had been consumed
	midPayTO int // ... of which inside the frame's payload
}

// simNet is the per-run network.
type simNet struct {
	links     []*link
	perReader map[int]int
	faults    []WireFault
	stalls    []WireStall
	stalled   int // frames delivered in pieces
	// maxDelayNs bounds how long after it was written a byte of a stalled
	// frame (or of a frame queued behind it) may reach the far end: a pure
	// delay fault stays inside the freshness window of the stream's own
	// replay defence, beyond which a late frame is rightly refused as a
	// replayed one. Set by the harness from the running code.
	maxDelayNs int64
	latencyNs  int64
	capBytes   int
	fired      int
	onAccept   func(c net.Conn, l *link)
	dialFail   map[int]bool // global dial attempt indexes that fail
	dials      int
}

func newSimNet() *simNet { return &simNet{perReader: map[int]int{}, dialFail: map[int]bool{}} }

func (n *simNet) dial(reader int) (net.Conn, error) {
	simrt.Yield()
	d := n.dials
	n.dials++
	if n.dialFail[d] {
		simrt.Count("fault.dial_fail", 1)
		simrt.Event("DIAL-FAIL reader=%d attempt=%d", reader, d)
		return nil, fmt.Errorf("dial sim: connection refused (simulated)")
	}
	l := &link{n: n, reader: reader, idx: n.perReader[reader], openedAt: simrt.SimNow()}
	n.perReader[reader]++
	for _, ol := range n.links {
		if ol.reader == reader && !ol.ends[1].closed {
			l.staleAtDial = true
		}
	}
	l.half[0] = &half{l: l, dir: 0}
	l.half[1] = &half{l: l, dir: 1}
	l.ends[0] = &end{l: l, side: 0}
	l.ends[1] = &end{l: l, side: 1}
	n.links = append(n.links, l)
	simrt.Event("DIAL %s", l.name())
	n.onAccept(l.ends[1], l)
	return l.ends[0], nil
}

func (l *link) noteClose(who, note string) {
	if l.closedBy == "" {
		l.closedBy, l.closedAt, l.closeNote = who, simrt.SimNow(), note
		simrt.Event("LINK-CLOSE %s by=%s %s", l.name(), who, note)
	}
}

func (l *link) open() bool { return l.closedBy == "" }

func (e *end) who() string {
	if e.side == 0 {
		return "reader"
	}
	return "writer"
}

func (e *end) Read(p []byte) (int, error) {
	if simrt.Killed() {
		return 0, net.ErrClosed
	}
	simrt.Yield()
	h := e.l.half[1-e.side]
	n := 0
	var err error
	simrt.Block("conn-read", func() bool {
		if e.closed {
			err = net.ErrClosed
			return true
		}
		if (e.side == 0 && e.l.clientRst) || (e.side == 1 && e.l.serverRst) {
			err = resetErr{}
			return true
		}
		h.pump()
		if len(h.rbuf) > 0 {
			n = copy(p, h.rbuf)
			h.rbuf = h.rbuf[n:]
			h.consumed += int64(n)
			return true
		}
		if h.wclosed && len(h.q) == 0 {
			err = io.EOF
			return true
		}
		if !e.rdl.IsZero() && !simrt.Now().Before(e.rdl) {
			err = timeoutErr{}
			simrt.Count("probe.read_deadline_expired", 1)
			if h.consumed != 0 && !h.bounds[h.consumed] {
				simrt.Count("probe.read_deadline_expired_mid_frame", 1)
				if h.frameOffset(h.consumed) > 5 {
					// at least one payload byte consumed, at least one missing
					simrt.Count("probe.read_deadline_expired_mid_payload", 1)
					e.midPayTO++
				}
				e.midTO++
				simrt.Event("READ-TIMEOUT-MID-FRAME %s side=%s", e.l.name(), e.who())
			}
			return true
		}
		return false
	})
	if simrt.Killed() && n == 0 && err == nil {
		return 0, net.ErrClosed
	}
	return n, err
}

func (e *end) Write(p []byte) (int, error) {
	if simrt.Killed() {
		return 0, net.ErrClosed
	}
	simrt.Yield()
	h := e.l.half[e.side]
	var err error
	ok := false
	simrt.Block("conn-write", func() bool {
		if e.closed {
			err = net.ErrClosed
			return true
		}
		if (e.side == 0 && e.l.clientRst) || (e.side == 1 && e.l.serverRst) {
			err = resetErr{}
			return true
		}
		if h.rclosed {
			err = fmt.Errorf("write sim: broken pipe (simulated)")
			return true
		}
		h.pump()
		c := e.l.n.capBytes
		if c == 0 || h.blackh || h.buffered() == 0 || h.buffered()+len(p) <= c {
			ok = true
			return true
		}
		e.l.touched = true // back-pressure: a slow reader, not a healthy idle link
		if !e.wdl.IsZero() && !simrt.Now().Before(e.wdl) {
			err = timeoutErr{}
			return true
		}
		return false
	})
	if err != nil || !ok {
		if err == nil {
			err = net.ErrClosed
		}
		return 0, err
	}
	if h.blackh {
		return len(p), nil
	}
	h.asm = append(h.asm, p...)
	h.extract()
	return len(p), nil
}

func (e *end) Close() error {
	if e.closed {
		return nil
	}
	e.closed = true
	// debugging aid for replays: who closed which end, with the call stack
	if os.Getenv("VERIF_C24_CLOSESTACK") != "" {
		fmt.Fprintf(os.Stderr, "CLOSE %s by %s t=%d\n%s\n", e.l.name(), e.who(), simrt.SimNow(), debug.Stack())
	}
	if !e.l.half[e.side].blackh {
		// on a half-open link neither FIN nor RST reaches the other end
		e.l.half[e.side].wclosed = true
		e.l.half[1-e.side].rclosed = true
	}
	if e.rt != nil {
		e.rt.Stop()
	}
	if e.wt != nil {
		e.wt.Stop()
	}
	if simrt.Active() && !simrt.Killed() {
		e.l.noteClose(e.who(), "")
	}
	return nil
}

func (e *end) LocalAddr() net.Addr { return simAddr(fmt.Sprintf("sim-%s-%s", e.l.name(), e.who())) }
func (e *end) RemoteAddr() net.Addr {
	return simAddr(fmt.Sprintf("sim-%s-peer-of-%s", e.l.name(), e.who()))
}

func (e *end) SetDeadline(t time.Time) error {
	e.SetReadDeadline(t)
	return e.SetWriteDeadline(t)
}

// arm keeps a simulator timer pending at the deadline so that the clock can
// advance to it when every task is parked.
func arm(old *simrt.Timer, t time.Time) *simrt.Timer {
	if old != nil {
		old.Stop()
	}
	if t.IsZero() || !simrt.Active() || simrt.Killed() {
		return nil
	}
	d := t.Sub(simrt.Now())
	if d <= 0 {
		return nil
	}
	return simrt.NewTimer(d)
}

func (e *end) SetReadDeadline(t time.Time) error {
	if e.closed {
		return net.ErrClosed
	}
	e.rdl = t
	e.rt = arm(e.rt, t)
	return nil
}

func (e *end) SetWriteDeadline(t time.Time) error {
	if e.closed {
		return net.ErrClosed
	}
	e.wdl = t
	e.wt = arm(e.wt, t)
	return nil
}

// ---------------------------------------------------------------------------
// framing, taps and the adversary

type entryJSON struct {
	Seq     uint64 `json:"seq"`
	TS      uint64 `json:"ts"`
	Payload []byte `json:"payload"`
	Tag     string `json:"tag,omitempty"`
}

type cpJSON struct {
	LastSeq uint64 `json:"last_seq"`
	Hash    string `json:"cumulative_payload_hash"`
}

func phash(b []byte) string {
	s := sha256.Sum256(b)
	return hex.EncodeToString(s[:12])
}

// wire message type bytes of the replication stream as seen on the wire
// (the adversary knows the protocol; the oracle does not depend on them
// beyond recognising which delivered frames carried which payload).
const (
	wtEntry      = 0x10
	wtCheckpoint = 0x14
	wtError      = 0x1F
)

// parseFrame recognises replication entries and checkpoints in the
// writer→reader direction (the handshake frames use a different type space).
func parseFrame(idx int, fr []byte, dir int) frameRec {
	rec := frameRec{Idx: idx, At: simrt.SimNow()}
	if len(fr) < 5 {
		rec.Bad = true
		return rec
	}
	rec.Type = fr[4]
	if dir == 0 {
		return rec
	}
	switch rec.Type {
	case wtEntry:
		var e entryJSON
		if json.Unmarshal(fr[5:], &e) != nil {
			rec.Bad = true
			return rec
		}
		rec.Entry, rec.Seq, rec.PHash = true, e.Seq, phash(e.Payload)
	case wtCheckpoint:
		var c cpJSON
		if json.Unmarshal(fr[5:], &c) != nil {
			rec.Bad = true
			return rec
		}
		rec.CP, rec.Seq = true, c.LastSeq
	}
	return rec
}

// faultFor returns the adversary action planned for frame idx of this half.
func (h *half) faultFor(idx int) *WireFault {
	n := h.l.n
	for i := range n.faults {
		x := &n.faults[i]
		if x.Reader == h.l.reader && x.Conn == h.l.idx && x.Dir == h.dir && x.Frame == idx {
			return x
		}
	}
	return nil
}

// cutThrough: a frame the adversary leaves alone on a zero-latency link is
// passed on byte by byte as it is written (a reader can observe a partially
// arrived frame, as on a real socket); otherwise whole frames are delivered.
func (h *half) cutThrough(idx int) bool {
	return h.l.n.latencyNs == 0 && h.held == nil && len(h.q) == 0 && !h.blackh && h.faultFor(idx) == nil && h.stallFor(idx) == nil
}

// stallFor returns the delay-only fault planned for frame idx of this half.
func (h *half) stallFor(idx int) *WireStall {
	n := h.l.n
	for i := range n.stalls {
		x := &n.stalls[i]
		if x.Reader == h.l.reader && x.Conn == h.l.idx && x.Dir == h.dir && x.Frame == idx {
			return x
		}
	}
	return nil
}

// enqueue makes data readable at the far end at time at (never before
// anything handed over earlier).
func (h *half) enqueue(data []byte, at int64) {
	if at < h.lastAt {
		at = h.lastAt
	}
	h.lastAt = at
	if at <= simrt.SimNow() && len(h.q) == 0 {
		h.rbuf = append(h.rbuf, data...)
		return
	}
	h.q = append(h.q, qframe{data: data, at: at})
	simrt.NewTimer(time.Duration(at - simrt.SimNow())) // lets the clock reach the delivery time
}

// deliverPieces hands an unmodified frame to the far end in pieces with pauses
// in between (pure delay).
func (h *half) deliverPieces(fr []byte, s *WireStall) {
	h.noteDelivered(fr, false)
	var cuts []int
	for _, c := range s.Cuts {
		k := 1 + int(int64(c)*int64(len(fr)-1)/1000)
		if k >= len(fr) {
			k = len(fr) - 1
		}
		if k >= 1 && (len(cuts) == 0 || k > cuts[len(cuts)-1]) {
			cuts = append(cuts, k)
		}
	}
	if len(cuts) == 0 {
		h.enqueue(fr, simrt.SimNow()+h.l.n.latencyNs)
		return
	}
	h.pieces++
	h.l.n.stalled++
	simrt.Count("fault.wire_pieces", 1)
	at := simrt.SimNow() + h.l.n.latencyNs
	if at < h.lastAt {
		at = h.lastAt
	}
	prev := 0
	for i, k := range append(cuts, len(fr)) {
		if i > 0 {
			gap := int64(0)
			if i-1 < len(s.GapMs) {
				gap = s.GapMs[i-1] * int64(time.Millisecond)
			}
			if i == 1 && s.PastDeadline {
				// the read deadline the receiving end has pending right now
				if rd := h.l.ends[1-h.dir].rdl; !rd.IsZero() {
					if d := rd.Sub(simrt.Now()); d > 0 && simrt.SimNow()+int64(d) > at {
						at = simrt.SimNow() + int64(d)
					}
				}
			}
			at += gap
			if m := h.l.n.maxDelayNs; m > 0 && at > simrt.SimNow()+m {
				at = simrt.SimNow() + m // never below lastAt, which obeyed the same bound earlier
			}
		}
		simrt.Event("PIECE %s dir=%d #%d bytes=%d..%d of %d in=%dns", h.l.name(), h.dir, len(h.dlv)-1, prev, k, len(fr), at-simrt.SimNow())
		h.enqueue(append([]byte(nil), fr[prev:k]...), at)
		prev = k
	}
}

func (h *half) extract() {
	for {
		ct := h.cutThrough(h.nframes)
		avail := len(h.asm)
		need := -1
		if avail >= 4 {
			n := int(binary.BigEndian.Uint32(h.asm[:4]))
			if n < 1 || n > 200<<20 {
				panic(fmt.Sprintf("HARNESS: sender wrote an impossible frame length %d on %s dir %d", n, h.l.name(), h.dir))
			}
			need = 4 + n
		}
		end := avail
		if need >= 0 && end > need {
			end = need
		}
		if ct && end > h.passed {
			h.rbuf = append(h.rbuf, h.asm[h.passed:end]...)
			h.passed = end
		}
		if need < 0 || avail < need {
			return
		}
		fr := make([]byte, need)
		copy(fr, h.asm[:need])
		h.asm = h.asm[need:]
		through := h.passed == need
		if h.passed != 0 && !through {
			panic("HARNESS: frame partially passed through")
		}
		h.passed = 0
		h.onFrame(fr, through)
	}
}

// noteDelivered records a frame in the delivery tap.
func (h *half) noteDelivered(fr []byte, forged bool) {
	idx := len(h.dlv)
	rec := parseFrame(idx, fr, h.dir)
	rec.Forged = forged
	h.dlv = append(h.dlv, rec)
	if h.bounds == nil {
		h.bounds = map[int64]bool{}
	}
	h.starts = append(h.starts, h.dlvBytes)
	h.dlvBytes += int64(len(fr))
	if !forged {
		h.bounds[h.dlvBytes] = true
	}
}

func (h *half) deliver(fr []byte, forged bool) {
	h.noteDelivered(fr, forged)
	h.enqueue(fr, simrt.SimNow()+h.l.n.latencyNs)
}

func (h *half) onFrame(fr []byte, through bool) {
	l := h.l
	n := l.n
	idx := h.nframes
	h.nframes++
	rec := parseFrame(idx, fr, h.dir)
	h.sent = append(h.sent, rec)
	if h.dir == 1 && (rec.Entry || rec.CP) {
		simrt.Event("WIRE %s #%d type=%#x seq=%d", l.name(), idx, rec.Type, rec.Seq)
	}
	f := h.faultFor(idx)
	// frames of this link become splice/replay material
	defer func() {
		if h.dir == 1 && idx > 0 {
			cp := make([]byte, len(fr))
			copy(cp, fr)
			h.sent[idx].rawCopy = cp
		}
	}()
	if through {
		if f != nil {
			panic("HARNESS: a frame with a planned fault was passed through")
		}
		h.noteDelivered(fr, false)
		return
	}
	if f == nil {
		if s := h.stallFor(idx); s != nil {
			h.deliverPieces(fr, s)
		} else {
			h.deliver(fr, false)
		}
		h.flushHeld()
		return
	}
	l.touched = true
	n.fired++
	simrt.Count("fault.wire_"+f.Kind, 1)
	simrt.Event("FAULT %s dir=%d #%d %s a=%d b=%d", l.name(), h.dir, idx, f.Kind, f.A, f.B)
	switch f.Kind {
	case "drop":
		h.flushHeld()
	case "dup":
		h.deliver(fr, false)
		h.deliver(append([]byte(nil), fr...), true)
		h.flushHeld()
	case "swap":
		// deliver after the next frame (or never, if none follows)
		h.flushHeld()
		h.held = fr
	case "flip":
		m := append([]byte(nil), fr...)
		pos := 0
		switch f.B % 4 {
		case 0: // anywhere
			pos = f.A % len(m)
		case 1: // body
			if len(m) > 5 {
				pos = 5 + f.A%(len(m)-5)
			}
		case 2: // header
			pos = f.A % 5
		case 3: // tail (tag / hmac live at the end of the JSON object)
			k := 40
			if k > len(m) {
				k = len(m)
			}
			pos = len(m) - 1 - f.A%k
		}
		m[pos] ^= byte(1 << (uint(f.A/7) % 8))
		h.deliver(m, true)
		h.flushHeld()
	case "trunc":
		k := 1 + f.A%(len(fr)-1)
		h.deliver(fr[:k], true)
		h.flushHeld()
	case "replay", "replay-cp":
		h.deliver(fr, false)
		// re-deliver an earlier frame of this link
		var cands [][]byte
		for _, s := range h.sent[:idx] {
			if s.rawCopy == nil {
				continue
			}
			if f.Kind == "replay-cp" && !s.CP {
				continue
			}
			if f.Kind == "replay" && !s.Entry {
				continue
			}
			cands = append(cands, s.rawCopy)
		}
		if f.Kind == "replay-cp" && rec.CP {
			cands = append(cands, fr)
		}
		if len(cands) > 0 {
			h.deliver(append([]byte(nil), cands[f.A%len(cands)]...), true)
		}
		h.flushHeld()
	case "splice":
		h.deliver(fr, false)
		var cands [][]byte
		for _, ol := range n.links {
			if ol == l || ol.reader != l.reader && f.B%2 == 0 {
				continue
			}
			for _, s := range ol.half[1].sent {
				if s.rawCopy != nil {
					cands = append(cands, s.rawCopy)
				}
			}
		}
		if len(cands) > 0 {
			h.deliver(append([]byte(nil), cands[f.A%len(cands)]...), true)
		}
		h.flushHeld()
	case "inject":
		if f.B%2 == 0 {
			h.deliver(fr, false)
		}
		h.deliver(h.forge(f, rec), true)
		if f.B%2 == 1 {
			h.deliver(fr, false)
		}
		h.flushHeld()
	case "reset":
		l.clientRst, l.serverRst = true, true
		l.noteClose("adversary", "reset")
	case "halfopen":
		// the reader's side dies (host reboot, NAT timeout): the reader sees a
		// reset, the writer sees nothing and its bytes vanish.
		l.clientRst = true
		l.half[1].blackh = true
		l.half[0].blackh = true
		l.noteClose("adversary", "halfopen")
	case "delay":
		h.lastAt = simrt.SimNow() + int64(f.A%2000)*int64(time.Millisecond)
		h.deliver(fr, false)
		h.flushHeld()
	default:
		panic("HARNESS: unknown wire fault " + f.Kind)
	}
}

func (h *half) flushHeld() {
	if h.held != nil {
		fr := h.held
		h.held = nil
		h.deliver(fr, true)
	}
}

// forge builds an adversary-made frame. The adversary has seen every frame
// on the wire but does not know the shared secret.
func (h *half) forge(f *WireFault, cur frameRec) []byte {
	var lastEntry *entryJSON
	var maxSeq uint64
	for _, s := range h.sent {
		if s.Entry && s.rawCopy != nil {
			var e entryJSON
			if json.Unmarshal(s.rawCopy[5:], &e) == nil {
				lastEntry = &e
			}
		}
		if s.Entry && s.Seq > maxSeq {
			maxSeq = s.Seq
		}
	}
	if cur.Entry && cur.Seq > maxSeq {
		maxSeq = cur.Seq
	}
	r := simrt.Stream("forge")
	body := []byte(nil)
	typ := byte(wtEntry)
	switch f.A % 6 {
	case 0: // new payload, tag lifted from a genuine entry
		e := entryJSON{Seq: maxSeq + 1, TS: 1, Payload: append([]byte("FORGED-"), r.Bytes(8+r.Intn(40))...)}
		if lastEntry != nil {
			e.Tag = lastEntry.Tag
		} else {
			e.Tag = hex.EncodeToString(r.Bytes(8))
		}
		body, _ = json.Marshal(e)
	case 1: // new payload, random tag of the right length
		e := entryJSON{Seq: maxSeq + 1, TS: 1, Payload: append([]byte("FORGED-"), r.Bytes(8+r.Intn(40))...), Tag: hex.EncodeToString(r.Bytes(8))}
		body, _ = json.Marshal(e)
	case 2: // new payload, no tag
		e := entryJSON{Seq: maxSeq + 1, TS: 1, Payload: append([]byte("FORGED-"), r.Bytes(8+r.Intn(40))...)}
		body, _ = json.Marshal(e)
	case 3: // genuine payload and tag under a later sequence number
		e := entryJSON{Seq: maxSeq + 1, TS: 1, Payload: []byte("FORGED-none"), Tag: hex.EncodeToString(r.Bytes(8))}
		if lastEntry != nil {
			e = *lastEntry
			e.Seq = maxSeq + 1 + uint64(f.B%3)
		}
		body, _ = json.Marshal(e)
	case 4: // error frame
		typ = wtError
		body = []byte(`{"code":"WRITE_FAILED","message":"forged"}`)
	case 5: // genuine entry with the payload swapped, tag kept
		e := entryJSON{Seq: maxSeq + 1, TS: 1, Payload: []byte("FORGED-swap"), Tag: hex.EncodeToString(r.Bytes(8))}
		if lastEntry != nil {
			e = *lastEntry
			e.Seq = maxSeq + 1
			e.Payload = append([]byte("FORGED-"), e.Payload...)
		}
		body, _ = json.Marshal(e)
	}
	fr := make([]byte, 5+len(body))
	binary.BigEndian.PutUint32(fr[:4], uint32(1+len(body)))
	fr[4] = typ
	copy(fr[5:], body)
	return fr
}
