//go:build verif

package replication

// VerifSetCheckpointInterval sets the SenderConfig.CheckpointInterval knob of
// a sender that was constructed by the coordinator (which does not plumb the
// knob). Must be called before any reader connects.
func VerifSetCheckpointInterval(s *Sender, n int) {
	if n > 0 {
		s.cfg.CheckpointInterval = n
	}
}

// VerifSetWriteTimeout sets SenderConfig.WriteTimeout (configuration knob).
func VerifSetWriteTimeout(s *Sender, ns int64) {
	if ns > 0 {
		s.cfg.WriteTimeout = timeDuration(ns)
	}
}

// VerifSenderConfig reports the running configuration (read by oracles
// instead of importing constants).
func VerifSenderConfig(s *Sender) (bufferSize, checkpointInterval int, writeTimeoutNs int64) {
	return s.cfg.BufferSize, s.cfg.CheckpointInterval, int64(s.cfg.WriteTimeout)
}

// VerifQueueLen is the number of entries waiting in the sender's queue.
func VerifQueueLen(s *Sender) int { return len(s.entryChan) }

// VerifDropped is the sender's own count of entries it dropped.
func VerifDropped(s *Sender) int64 { return s.totalEntriesDropped.Load() }

// VerifReceived is the sender's count of entries handed to Replicate.
func VerifReceived(s *Sender) int64 { return s.totalEntriesReceived.Load() }

// VerifReaderCount is ReaderCount without taking the lock (callable from a
// scheduler-side condition; only one task runs at a time in the simulator).
func VerifReaderCount(s *Sender) int { return len(s.readers) }
