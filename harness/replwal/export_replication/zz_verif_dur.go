//go:build verif

package replication

import "time"

func timeDuration(ns int64) time.Duration { return time.Duration(ns) }
