//go:build verif

package main

import (
	"bytes"
	"context"
	"database/sql"
	"errors"
	"fmt"
	"io"
	"io/fs"
	"os"
	"path/filepath"
	"sort"
	"strings"
	"time"

	"github.com/basekick-labs/arc/internal/backup"
	"github.com/basekick-labs/arc/internal/simrt"
	"github.com/basekick-labs/arc/internal/storage"
	"github.com/basekick-labs/arc/internal/verifsim/simkit"
)

type firedFault struct {
	phase, layer, area, kind, key string
}

// world is the per-run environment: directories, fault bookkeeping.
type world struct {
	p                   *C13Plan
	root                string
	src, dst, bak, tmp  string
	auxSrc, auxDst      string
	phase               string
	priorID             string
	seenFS, seenBE      []int
	fired               []firedFault
	mutOps              int
	n1                  *simrt.Node
	listed              bool
	delBefore, delAfter map[string]bool
	crashedInBackup     bool
}

func newWorld(p *C13Plan, root string) *world {
	w := &world{p: p, root: root, phase: "setup", seenFS: make([]int, len(p.FS)), seenBE: make([]int, len(p.BE)),
		delBefore: map[string]bool{}, delAfter: map[string]bool{}}
	w.src, w.dst, w.bak, w.tmp = filepath.Join(root, "src"), filepath.Join(root, "dst"), filepath.Join(root, "bak"), filepath.Join(root, "tmp")
	w.auxSrc, w.auxDst = filepath.Join(root, "auxsrc"), filepath.Join(root, "auxdst")
	for _, d := range []string{w.src, w.dst, w.bak, w.tmp, w.auxSrc, w.auxDst} {
		if err := os.MkdirAll(d, 0o755); err != nil {
			panic(err)
		}
	}
	return w
}

func under(abs, dir string) (string, bool) {
	if abs == dir {
		return "", true
	}
	if strings.HasPrefix(abs, dir+"/") {
		return abs[len(dir)+1:], true
	}
	return "", false
}

// classify maps an absolute path to (area, key). key is the storage-relative
// path of the data file the operation works for (staging suffix removed) or
// an @name for the backup's own files.
func (w *world) classify(abs string) (area, key string) {
	if rel, ok := under(abs, w.tmp); ok {
		return "tmp", "@tmp:" + rel
	}
	if rel, ok := under(abs, w.src); ok {
		return "src", strings.TrimSuffix(rel, ".part")
	}
	if rel, ok := under(abs, w.dst); ok {
		return "dst", strings.TrimSuffix(rel, ".part")
	}
	if rel, ok := under(abs, w.auxSrc); ok {
		return "aux", "@live:" + rel
	}
	if rel, ok := under(abs, w.auxDst); ok {
		return "aux", "@live:" + rel
	}
	if rel, ok := under(abs, w.bak); ok {
		parts := strings.SplitN(rel, "/", 2)
		if parts[0] != "" && parts[0] == w.priorID {
			return "prior", rel
		}
		if len(parts) < 2 {
			return "bak", "@dir"
		}
		rest := parts[1]
		switch {
		case strings.HasPrefix(rest, "data/"):
			return "bak", strings.TrimSuffix(rest[5:], ".part")
		case rest == "data":
			return "bak", "@dir"
		case rest == "manifest.json" || (!strings.Contains(rest, "/") && strings.HasPrefix(rest, ".arc-")):
			return "bak", "@manifest"
		case strings.HasPrefix(rest, "config"):
			return "bak", "@config"
		case strings.HasPrefix(rest, "metadata/iceberg-catalog"):
			return "bak", "@catalog"
		case strings.HasPrefix(rest, "metadata"):
			return "bak", "@sqlite"
		}
		return "bak", "@other:" + rest
	}
	return "outside", abs
}

func errnoOf(s string) error {
	switch s {
	case "ENOSPC":
		return simrt.ENOSPC
	case "EACCES":
		return simrt.EACCES
	}
	return simrt.EIO
}

func (w *world) inject(op *simrt.FSOp) simrt.FSAction {
	if w.phase == "backup" && w.p.CrashAt >= 0 && op.Node == w.n1 && op.Mut {
		idx := w.mutOps
		w.mutOps++
		if idx == w.p.CrashAt {
			w.crashedInBackup = true
			if w.p.CrashAfter {
				return simrt.FSAction{Crash: 2}
			}
			return simrt.FSAction{Crash: 1}
		}
	}
	if w.phase != "backup" && w.phase != "restore" {
		return simrt.FSAction{}
	}
	area, key := w.classify(op.Path)
	for i := range w.p.FS {
		f := &w.p.FS[i]
		if f.Phase != w.phase || f.Area != area || f.Kind != op.Kind {
			continue
		}
		if f.Target != "*" && f.Target != key {
			continue
		}
		n := w.seenFS[i]
		w.seenFS[i]++
		if n < f.Skip || (f.Count > 0 && n >= f.Skip+f.Count) {
			continue
		}
		w.fired = append(w.fired, firedFault{phase: w.phase, layer: "fs", area: area, kind: op.Kind, key: key})
		simrt.Event("FAULT fs %s %s.%s %s %s", w.phase, area, op.Kind, key, f.Errno)
		act := simrt.FSAction{Err: errnoOf(f.Errno)}
		if op.Kind == "write" && f.Short > 0 && op.N > 1 {
			act.Short = f.Short
		}
		return act
	}
	return simrt.FSAction{}
}

func (w *world) observe(op *simrt.FSOp, err error) {
	if w.phase != "backup" || err != nil {
		return
	}
	area, key := w.classify(op.Path)
	if area != "src" {
		return
	}
	switch op.Kind {
	case "walk":
		w.listed = true
	case "remove":
		if w.listed {
			w.delAfter[key] = true
		} else {
			w.delBefore[key] = true
		}
	}
}

// beMatch returns the backend-level fault that applies to this call.
func (w *world) beMatch(opName, path string) *BEFault {
	for i := range w.p.BE {
		f := &w.p.BE[i]
		if f.Phase != w.phase || f.Op != opName {
			continue
		}
		if f.Target != "*" && f.Target != path {
			continue
		}
		n := w.seenBE[i]
		w.seenBE[i]++
		if f.Count > 0 && n >= f.Count {
			continue
		}
		area := "src"
		if w.phase == "restore" {
			area = "dst"
		}
		w.fired = append(w.fired, firedFault{phase: w.phase, layer: "be", area: area, kind: opName, key: path})
		simrt.Count("fault.backend."+opName+"."+f.Mode, 1)
		simrt.Event("FAULT backend %s %s %s %s", w.phase, opName, path, f.Mode)
		return f
	}
	return nil
}

// faultBackend wraps the data storage (a real LocalBackend) the way a remote
// backend fails: whole calls fail, possibly after partial transfer or after
// the effect was applied.
type faultBackend struct {
	storage.Backend
	lister storage.ObjectLister
	w      *world
}

var errSimBackend = errors.New("simulated storage backend failure")

func (f *faultBackend) ListObjects(ctx context.Context, prefix string) ([]storage.ObjectInfo, error) {
	if ft := f.w.beMatch("listobjects", "*"); ft != nil {
		return nil, errSimBackend
	}
	return f.lister.ListObjects(ctx, prefix)
}

func (f *faultBackend) ReadTo(ctx context.Context, path string, wr io.Writer) error {
	if ft := f.w.beMatch("readto", filepath.ToSlash(path)); ft != nil {
		switch ft.Mode {
		case "notfound":
			return fmt.Errorf("file not found: %s", path)
		case "partial":
			if b, err := f.Backend.Read(ctx, path); err == nil && len(b) > 1 {
				wr.Write(b[:len(b)/2])
			}
			return fmt.Errorf("connection reset by peer: %w", errSimBackend)
		}
		return errSimBackend
	}
	return f.Backend.ReadTo(ctx, path, wr)
}

func (f *faultBackend) WriteReader(ctx context.Context, path string, rd io.Reader, size int64) error {
	if ft := f.w.beMatch("writereader", filepath.ToSlash(path)); ft != nil {
		switch ft.Mode {
		case "partial":
			io.CopyN(io.Discard, rd, size/2)
			return fmt.Errorf("upload aborted: %w", errSimBackend)
		case "after":
			if err := f.Backend.WriteReader(ctx, path, rd, size); err != nil {
				return err
			}
			return fmt.Errorf("response lost after upload: %w", errSimBackend)
		}
		return errSimBackend
	}
	return f.Backend.WriteReader(ctx, path, rd, size)
}

// ---------------------------------------------------------------------------

var sqliteTpl []byte

func sqliteTemplate() []byte {
	if sqliteTpl != nil {
		return sqliteTpl
	}
	path := filepath.Join(scratchBase(), fmt.Sprintf("verif-bak-tpl.%d.db", os.Getpid()))
	os.Remove(path)
	defer os.Remove(path)
	db, err := sql.Open("sqlite3", path)
	if err != nil {
		panic(err)
	}
	for _, q := range []string{"CREATE TABLE tokens (id INTEGER PRIMARY KEY, name TEXT)", "INSERT INTO tokens(name) VALUES ('a'),('b'),('c')"} {
		if _, err := db.Exec(q); err != nil {
			panic(err)
		}
	}
	db.Close()
	b, err := os.ReadFile(path)
	if err != nil {
		panic(err)
	}
	sqliteTpl = b
	return b
}

// hfail reports harness trouble: never a verdict.
func hfail(format string, args ...any) {
	fmt.Fprintf(os.Stderr, "HARNESS-ERROR backup harness: "+format+"\n", args...)
	os.Exit(2)
}

func mustWrite(path string, b []byte) {
	if err := os.MkdirAll(filepath.Dir(path), 0o755); err != nil {
		hfail("%v", err)
	}
	if err := os.WriteFile(path, b, 0o600); err != nil {
		hfail("%v", err)
	}
}

func (w *world) newManager(dataDir, auxDir string) (*backup.Manager, *storage.LocalBackend, error) {
	local, err := storage.NewLocalBackend(dataDir, quiet)
	if err != nil {
		return nil, nil, err
	}
	cfg := &backup.ManagerConfig{DataStorage: &faultBackend{Backend: local, lister: local, w: w}, BackupPath: w.bak, Logger: quiet}
	if w.p.SQLite {
		cfg.SQLiteDBPath = filepath.Join(auxDir, "arc.db")
	}
	if w.p.Catalog {
		cfg.IcebergCatalogDBPath = filepath.Join(auxDir, "iceberg.db")
	}
	if w.p.Config {
		cfg.ConfigPath = filepath.Join(auxDir, "arc.toml")
	}
	m, err := backup.NewManager(cfg)
	return m, local, err
}

func readTree(dir string) map[string][]byte {
	out := map[string][]byte{}
	err := filepath.WalkDir(dir, func(p string, d fs.DirEntry, err error) error {
		if err != nil {
			if os.IsNotExist(err) {
				return nil
			}
			return err
		}
		if d.IsDir() {
			return nil
		}
		b, err := os.ReadFile(p)
		if err != nil {
			return err
		}
		rel, _ := filepath.Rel(dir, p)
		out[filepath.ToSlash(rel)] = b
		return nil
	})
	if err != nil {
		hfail("cannot read tree %s: %v", dir, err)
	}
	return out
}

type phaseOut struct {
	started  bool // the manager could be constructed and the call was made
	returned bool // the call returned (no process death)
	err      error
	status   string
	skipped  int64
	id       string
}

func runC13(planAny any, cfg simrt.Config) *simkit.Outcome {
	p := planAny.(*C13Plan)
	out := &simkit.Outcome{}
	root := mkScratch()
	defer os.RemoveAll(root)
	w := newWorld(p, root)
	os.Setenv("TMPDIR", w.tmp)

	// the property's reference: every data / Iceberg metadata file of the source tree
	S := map[string][]byte{}
	for _, f := range p.Files {
		if f.Kind != "other" {
			S[f.Path] = content(f)
		}
	}
	if p.SQLite {
		mustWrite(filepath.Join(w.auxSrc, "arc.db"), sqliteTemplate())
	}
	if p.Catalog {
		mustWrite(filepath.Join(w.auxSrc, "iceberg.db"), sqliteTemplate())
	}
	if p.Config {
		mustWrite(filepath.Join(w.auxSrc, "arc.toml"), []byte("[storage]\nbackend = \"local\"\n# secret\n"))
		mustWrite(filepath.Join(w.auxDst, "arc.toml"), []byte("# fresh install\n"))
	}

	var bk, rs phaseOut
	var manifest *backup.Manifest
	var B map[string][]byte
	completed := false
	backupID := ""

	res := simrt.Run(cfg, func() {
		simrt.SetPathRoot(root)
		simrt.SetFSInjector(w.inject)
		simrt.SetFSObserver(w.observe)
		w.n1 = simrt.NodeOf("n1")
		ctx := context.Background()

		// ---- optional earlier backup of a prefix of the tree --------------
		if p.Prior > 0 {
			for _, f := range p.Files[:p.Prior] {
				b := content(f)
				if strings.HasSuffix(f.Path, "version-hint.text") {
					b = contentSeed(f, f.Seed^0xabcdef) // the one file Iceberg rewrites in place
				}
				mustWrite(filepath.Join(w.src, f.Path), b)
			}
			w.phase = "prior"
			t := simrt.GoOn("prior-backup", w.n1, func() {
				m, _, err := w.newManager(w.src, w.auxSrc)
				if err != nil {
					return
				}
				if r, err := m.CreateBackup(ctx, backup.BackupOptions{}); err == nil {
					w.priorID = r.Manifest.BackupID
				}
			})
			simrt.Join(t)
			simrt.Sleep(1500 * time.Millisecond)
			simrt.Event("PRIOR-BACKUP ok=%v", w.priorID != "")
		}
		for _, f := range p.Files {
			mustWrite(filepath.Join(w.src, f.Path), content(f))
		}

		// ---- the backup ---------------------------------------------------
		w.phase = "backup"
		tb := simrt.GoOn("backup", w.n1, func() {
			m, _, err := w.newManager(w.src, w.auxSrc)
			if err != nil {
				bk.err, bk.returned = err, true
				return
			}
			bk.started = true
			r, err := m.CreateBackup(ctx, backup.BackupOptions{IncludeMetadata: p.SQLite, IncludeConfig: p.Config})
			bk.err, bk.returned = err, true
			if pr := m.GetProgress(); pr != nil {
				bk.status, bk.skipped, bk.id = pr.Status, pr.SkippedFiles, pr.BackupID
			}
			if r != nil && r.Manifest != nil {
				bk.id = r.Manifest.BackupID
			}
		})
		var td *simrt.Task
		if len(p.Deletes) > 0 {
			td = simrt.GoOn("compactor", w.n1, func() {
				local, err := storage.NewLocalBackend(w.src, quiet)
				if err != nil {
					return
				}
				for _, d := range p.Deletes {
					if d.File < 0 || d.File >= len(p.Files) {
						continue
					}
					simrt.Sleep(time.Duration(d.AfterUs) * time.Microsecond)
					local.Delete(ctx, p.Files[d.File].Path)
				}
			})
		}
		simrt.Join(tb)
		if td != nil {
			simrt.Join(td)
		}
		w.phase = "inspect"
		simrt.Event("BACKUP returned=%v ok=%v status=%s skipped=%d", bk.returned, bk.returned && bk.err == nil, bk.status, bk.skipped)

		// ---- what is in the backup storage now ------------------------------
		ents, err := os.ReadDir(w.bak)
		if err != nil {
			hfail("%v", err)
		}
		var ids []string
		for _, e := range ents {
			if e.IsDir() && strings.HasPrefix(e.Name(), "backup-") && e.Name() != w.priorID {
				ids = append(ids, e.Name())
			}
		}
		if len(ids) > 1 {
			hfail("%d backup directories after one backup", len(ids))
		}
		if len(ids) == 1 {
			backupID = ids[0]
		}
		if bk.id != "" && backupID != "" && bk.id != backupID {
			hfail("backup id mismatch %s / %s", bk.id, backupID)
		}
		if backupID == "" {
			backupID = bk.id
		}
		if backupID == "" {
			return
		}
		if mb, err := os.ReadFile(filepath.Join(w.bak, backupID, "manifest.json")); err == nil {
			if m, err := backup.UnmarshalManifest(mb); err == nil {
				manifest, completed = m, true
			}
		}
		B = readTree(filepath.Join(w.bak, backupID, "data"))

		// ---- restore into empty storage (a new process) ---------------------
		if w.n1.Dead {
			simrt.Revive(w.n1)
		}
		w.phase = "restore"
		tr := simrt.GoOn("restore", w.n1, func() {
			m, _, err := w.newManager(w.dst, w.auxDst)
			if err != nil {
				rs.err, rs.returned = err, true
				return
			}
			rs.started = true
			_, err = m.RestoreBackup(ctx, backup.RestoreOptions{BackupID: backupID, RestoreData: true, RestoreMetadata: p.RestoreMetadata, RestoreConfig: p.RestoreConfig})
			rs.err, rs.returned = err, true
			if pr := m.GetProgress(); pr != nil {
				rs.status = pr.Status
			}
		})
		simrt.Join(tr)
		w.phase = "done"
		simrt.Event("RESTORE returned=%v ok=%v status=%s", rs.returned, rs.returned && rs.err == nil, rs.status)
	})
	out.Absorb(res)
	if len(res.Panics) > 0 {
		out.Violate("C13.panic", "task panicked: %s", firstLine(res.Panics[0]))
		return out
	}
	if res.Outcome != "ok" {
		return out
	}

	nFired := map[string]int{}
	for _, f := range w.fired {
		nFired[f.phase]++
	}
	out.Stats["probe.files"] += int64(len(S))
	if w.crashedInBackup {
		out.Stats["probe.crash_in_backup"]++
	}
	out.Stats["probe.deleted_before_listing"] += int64(len(w.delBefore))
	out.Stats["probe.deleted_after_listing"] += int64(len(w.delAfter))
	switch {
	case bk.returned && bk.err == nil:
		out.Stats["probe.backup_ok"]++
		if bk.skipped > 0 {
			out.Stats["probe.backup_ok_with_skips"]++
		}
	case bk.returned:
		out.Stats["probe.backup_failed"]++
		if nFired["backup"] == 0 && len(w.delAfter)+len(w.delBefore) == 0 {
			out.Stats["probe.backup_failed_without_fault"]++
		}
	}
	if backupID == "" {
		return out
	}
	if completed {
		out.Stats["probe.backup_completed_on_disk"]++
	}

	sortedKeys := func(m map[string][]byte) []string {
		ks := make([]string, 0, len(m))
		for k := range m {
			ks = append(ks, k)
		}
		sort.Strings(ks)
		return ks
	}

	// ---- rule 1: a completed backup that lacks inventoried files says so ---
	if completed {
		var missing []string
		for _, path := range sortedKeys(S) {
			if w.delBefore[path] {
				continue // gone before the backup listed the storage: never part of this backup
			}
			if _, ok := B[path]; !ok {
				missing = append(missing, path)
			}
		}
		if len(missing) > 0 {
			out.Stats["probe.completed_backup_lacks_files"]++
			if manifest.SkippedFiles == 0 {
				circ := "no-read-failure"
				if nFired["backup"] > 0 {
					circ = "other-fault"
				}
				for _, m := range missing {
					if w.delAfter[m] || w.firedOn("backup", m) != "" {
						circ = "unreadable-files-skipped"
					}
				}
				for _, f := range w.fired {
					if f.phase == "backup" && f.area == "tmp" {
						circ = "unreadable-files-skipped" // a failed temp-file write is classified as a source read failure
					}
				}
				out.Violate("C13.backup-incomplete-not-recorded."+circ, "backup %s completed (manifest written) without %d of %d data/Iceberg-metadata files (first: %s) but its manifest records skipped_files=0, i.e. claims to be complete", backupID, len(missing), len(S), missing[0])
			}
		}
		for _, path := range sortedKeys(B) {
			if s, ok := S[path]; ok && !bytes.Equal(s, B[path]) {
				out.Violate("C13.completed-backup-holds-wrong-bytes", "backup copy of %s has %d bytes, differs from the %d-byte source file", path, len(B[path]), len(s))
				break
			}
		}
	}

	// ---- rule 2: restore reproduces every backed-up file or does not report success
	if !rs.returned {
		return out
	}
	errStr := func(e error) string {
		if e == nil {
			return "nil"
		}
		return strings.ReplaceAll(e.Error(), root, "")
	}
	R := readTree(w.dst)
	success := (rs.started && rs.err == nil) || rs.status == "completed"
	if success {
		out.Stats["probe.restore_reported_success"]++
	} else {
		out.Stats["probe.restore_reported_failure"]++
	}
	var absent, differ []string
	for _, path := range sortedKeys(S) {
		if _, backedUp := B[path]; !backedUp {
			continue
		}
		got, ok := R[path]
		if !ok {
			absent = append(absent, path)
		} else if !bytes.Equal(got, S[path]) {
			differ = append(differ, path)
		}
	}
	if success {
		if len(absent) > 0 {
			out.Violate("C13.restore-reports-success.file-missing."+w.restoreCirc(absent[0]), "restore of %s reported success (err=%s, status=%q) but %d of %d backed-up files are not in the restored storage (first: %s)", backupID, errStr(rs.err), rs.status, len(absent), len(B), absent[0])
		}
		if len(differ) > 0 {
			circ := w.restoreCirc(differ[0])
			if !bytes.Equal(B[differ[0]], S[differ[0]]) {
				circ = "backup-copy-differs"
			}
			out.Violate("C13.restore-reports-success.bytes-differ."+circ, "restore of %s reported success but %s has %d bytes that differ from the %d-byte original", backupID, differ[0], len(R[differ[0]]), len(S[differ[0]]))
		}
		w.checkAux(out, p, manifest, backupID)
	} else if completed && nFired["restore"] == 0 && len(absent)+len(differ) > 0 {
		out.Violate("C13.fault-free-restore-of-completed-backup-incomplete", "restore of completed backup %s into empty storage, with no fault injected during the restore, left %d files missing and %d different (err=%s, status=%q)", backupID, len(absent), len(differ), errStr(rs.err), rs.status)
	}
	if completed && success && len(absent)+len(differ) == 0 {
		out.Stats["probe.roundtrip_ok"]++
	}
	out.Nontrivial = completed && rs.started && (len(w.fired) > 0 || w.crashedInBackup || len(w.delAfter)+len(w.delBefore) > 0)
	return out
}

// firedOn names the fault (area) that fired for this file in the phase.
func (w *world) firedOn(phase, path string) string {
	for _, f := range w.fired {
		if f.phase != phase {
			continue
		}
		if f.key == path || (f.kind == "mkdir" && (f.key == "" || strings.HasPrefix(path, f.key+"/"))) {
			return f.area
		}
	}
	return ""
}

func (w *world) restoreCirc(path string) string {
	switch w.firedOn("restore", path) {
	case "bak":
		return "backup-read-error"
	case "dst":
		return "data-write-error"
	}
	// not attributable to this path: temp files carry no path, directory-level faults
	areas := map[string]bool{}
	for _, f := range w.fired {
		if f.phase == "restore" {
			areas[f.area] = true
		}
	}
	switch {
	case areas["tmp"]:
		return "temp-file-error"
	case areas["dst"]:
		return "data-write-error"
	case areas["bak"]:
		return "backup-read-error"
	case len(areas) > 0:
		return "other-fault"
	}
	return "no-fault"
}

// checkAux: the restore reported success; the SQLite database(s) and the
// config file it was asked to restore must then be the backed-up ones.
func (w *world) checkAux(out *simkit.Outcome, p *C13Plan, m *backup.Manifest, id string) {
	if m == nil {
		return
	}
	cmp := func(what, bakRel, live string) {
		want, err := os.ReadFile(filepath.Join(w.bak, id, bakRel))
		if err != nil {
			return // not in the backup: nothing was backed up
		}
		got, err := os.ReadFile(filepath.Join(w.auxDst, live))
		if err != nil || !bytes.Equal(got, want) {
			out.Violate("C13.restore-reports-success."+what+"-not-restored", "restore reported success but %s is not the backed-up %s (read err=%v, %d vs %d bytes)", live, bakRel, err, len(got), len(want))
		}
	}
	if p.RestoreMetadata && m.HasMetadata && p.SQLite {
		cmp("sqlite", "metadata/arc.db", "arc.db")
		if m.HasIcebergCatalog && p.Catalog {
			cmp("iceberg-catalog", "metadata/iceberg-catalog.db", "iceberg.db")
		}
	}
	if p.RestoreConfig && m.HasConfig && p.Config {
		cmp("config", "config/arc.toml", "arc.toml")
	}
}

func firstLine(s string) string {
	if i := strings.IndexByte(s, '\n'); i >= 0 {
		return s[:i]
	}
	return s
}
