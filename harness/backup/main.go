//go:build verif

// Area backup: property C13 (backup then restore reproduces the data or
// reports failure). The real backup.Manager (CreateBackup / RestoreBackup,
// manifests) runs over real LocalBackends under the simulator. Faults: per
// path seeded read/write failures in the file-system layer below both
// LocalBackends and below backup's own temp files (EIO/ENOSPC/EACCES, short
// writes), a fault-injecting storage.Backend wrapper around the data storage
// (remote-backend style failures), a concurrent "compactor" deleting source
// files during the backup, and process death in the middle of a backup.
package main

import (
	"fmt"
	"io"
	"os"
	"path/filepath"
	"sort"
	"strings"
	"sync/atomic"

	"github.com/rs/zerolog"

	"github.com/basekick-labs/arc/internal/simrt"
	"github.com/basekick-labs/arc/internal/verifsim/simkit"
)

// FileSpec is one file of the source storage tree.
type FileSpec struct {
	Path string `json:"path"` // storage-relative
	Kind string `json:"kind"` // data (*.parquet) | ice (Iceberg table metadata) | other (no requirement)
	Size int    `json:"size"`
	Seed uint64 `json:"seed"`
}

// FSFault fails file-system operations below the LocalBackends / temp files.
type FSFault struct {
	Phase  string `json:"phase"`  // backup | restore
	Area   string `json:"area"`   // src | bak | tmp | dst | aux
	Kind   string `json:"kind"`   // simrt.FSOp.Kind: open create (also temp files) read write close rename mkdir walk readfile stat
	Target string `json:"target"` // file path | @manifest | @sqlite | @catalog | @config | * (any path of the area)
	Skip   int    `json:"skip"`   // matching operations let through first
	Count  int    `json:"count"`  // matching operations failed after that (0 = all)
	Errno  string `json:"errno"`  // EIO | ENOSPC | EACCES
	Short  int    `json:"short,omitempty"`
}

// BEFault fails calls on the data storage.Backend (wrapper above LocalBackend).
type BEFault struct {
	Phase  string `json:"phase"`  // backup | restore
	Op     string `json:"op"`     // readto | listobjects | writereader
	Target string `json:"target"` // file path | *
	Mode   string `json:"mode"`   // err | notfound | partial | after
	Count  int    `json:"count"`  // 0 = every call
}

// DelSpec: the concurrent compactor/retention task deletes a source file.
type DelSpec struct {
	File    int `json:"file"`
	AfterUs int `json:"after_us"`
}

type C13Plan struct {
	Files           []FileSpec `json:"files"`
	Prior           int        `json:"prior"` // an earlier backup of Files[:Prior] exists in the backup storage
	Deletes         []DelSpec  `json:"deletes,omitempty"`
	FS              []FSFault  `json:"fs_faults,omitempty"`
	BE              []BEFault  `json:"be_faults,omitempty"`
	CrashAt         int        `json:"crash_at"` // -1: none; else process death at the k-th mutating fs op of the backup
	CrashAfter      bool       `json:"crash_after,omitempty"`
	SQLite          bool       `json:"sqlite"`
	Catalog         bool       `json:"catalog"`
	Config          bool       `json:"config"`
	RestoreMetadata bool       `json:"restore_metadata"`
	RestoreConfig   bool       `json:"restore_config"`
}

var quiet = zerolog.New(io.Discard).Level(zerolog.Disabled)
var scratchSeq atomic.Int64

func scratchBase() string {
	b := os.Getenv("VERIF_SCRATCH")
	if b == "" {
		b = "/dev/shm"
	}
	return b
}

func mkScratch() string {
	d := filepath.Join(scratchBase(), fmt.Sprintf("verif-bak.%d.%d", os.Getpid(), scratchSeq.Add(1)))
	os.RemoveAll(d)
	if err := os.MkdirAll(d, 0o755); err != nil {
		panic(err)
	}
	return d
}

// content is the byte content of a file (pure function of the spec).
func content(f FileSpec) []byte { return contentSeed(f, f.Seed) }

func contentSeed(f FileSpec, seed uint64) []byte {
	b := make([]byte, f.Size)
	x := seed*0x9e3779b97f4a7c15 + 0x1234567
	for i := range b {
		x ^= x << 13
		x ^= x >> 7
		x ^= x << 17
		b[i] = byte(x >> 24)
	}
	if f.Kind == "data" && len(b) >= 8 {
		copy(b, "PAR1")
		copy(b[len(b)-4:], "PAR1")
	}
	return b
}

func hex(r *simrt.Rand, n int) string {
	const d = "0123456789abcdef"
	b := make([]byte, n)
	for i := range b {
		b[i] = d[r.Intn(16)]
	}
	return string(b)
}

func genSize(r *simrt.Rand, large *int) int {
	switch x := r.Intn(100); {
	case x < 8:
		return 0
	case x < 75:
		return 1 + r.Intn(2000)
	case x < 90:
		return 2000 + r.Intn(18000)
	default:
		if *large >= 2 {
			return 1 + r.Intn(2000)
		}
		*large++
		// around and above io.Copy's 32 KiB buffer: multi-chunk copies
		return []int{32767, 32768, 32769, 40000, 65536, 70001}[r.Intn(6)]
	}
}

func genTree(r *simrt.Rand) []FileSpec {
	dbPool := []string{"prod", "default", "metrics_db", "db-2", "telegraf"}
	measPool := []string{"cpu", "mem", "sensors", "metadata", "disk_io", "http.requests"}
	hourPool := []string{"2026/07/14/15", "2026/07/14/16", "2026/07/15/00", "2025/12/31/23", "2026/01/01/00"}
	perm := r.Perm(len(dbPool))
	ndb := 1 + r.Intn(3)
	var dbs []string
	for i := 0; i < ndb; i++ {
		dbs = append(dbs, dbPool[perm[i]])
	}
	nmeas := 1 + r.Intn(3)
	mperm := r.Perm(len(measPool))
	var meass []string
	for i := 0; i < nmeas; i++ {
		meass = append(meass, measPool[mperm[i]])
	}
	nh := 1 + r.Intn(3)
	hperm := r.Perm(len(hourPool))
	var hours []string
	for i := 0; i < nh; i++ {
		hours = append(hours, hourPool[hperm[i]])
	}
	var total int
	switch x := r.Intn(100); {
	case x < 30:
		total = 1 + r.Intn(6)
	case x < 75:
		total = 10 + r.Intn(11)
	default:
		total = 21 + r.Intn(20)
	}
	seen := map[string]bool{}
	var files []FileSpec
	large := 0
	add := func(path, kind string) bool {
		if seen[path] {
			return false
		}
		seen[path] = true
		files = append(files, FileSpec{Path: path, Kind: kind, Size: genSize(r, &large), Seed: r.Uint64() >> 1})
		return true
	}
	// Iceberg tables
	nIce := 0
	if r.Chance(60) {
		ntab := 1 + r.Intn(2)
		for t := 0; t < ntab && nIce < total; t++ {
			dir := fmt.Sprintf("arc_%s.db/%s/metadata", dbs[r.Intn(len(dbs))], meass[r.Intn(len(meass))])
			u := hex(r, 8) + "-" + hex(r, 4)
			cands := []string{
				fmt.Sprintf("%05d-%s.metadata.json", r.Intn(4), u),
				fmt.Sprintf("%05d-%s.metadata.json", 4+r.Intn(4), hex(r, 8)),
				fmt.Sprintf("v%d.metadata.json", 1+r.Intn(9)),
				fmt.Sprintf("snap-%d-1-%s.avro", 1000+r.Intn(9000), u),
				fmt.Sprintf("%s-m0.avro", u),
				"version-hint.text",
				fmt.Sprintf("%s.puffin", hex(r, 6)),
			}
			k := 2 + r.Intn(len(cands)-1)
			cp := r.Perm(len(cands))
			for i := 0; i < k && nIce < total; i++ {
				if add(dir+"/"+cands[cp[i]], "ice") {
					nIce++
				}
			}
			if r.Chance(30) {
				// Iceberg-managed data file next to the metadata dir
				add(strings.TrimSuffix(dir, "/metadata")+"/data/"+fmt.Sprintf("00000-%d-%s.parquet", r.Intn(4), u), "data")
				nIce++
			}
		}
	}
	for len(files) < total {
		db, meas, hr := dbs[r.Intn(len(dbs))], meass[r.Intn(len(meass))], hours[r.Intn(len(hours))]
		ts := fmt.Sprintf("2026%02d%02d_%02d%02d%02d", 1+r.Intn(12), 1+r.Intn(28), r.Intn(24), r.Intn(60), r.Intn(60))
		var name string
		switch r.Intn(10) {
		case 0:
			name = fmt.Sprintf("%s_%s_%d_b%d_compacted.parquet", meas, ts, 1700000000000000000+r.Int63n(1e17), r.Intn(3))
		case 1:
			name = fmt.Sprintf("%s_%s_%d_b0_daily.parquet", meas, ts, 1700000000000000000+r.Int63n(1e17))
		default:
			name = fmt.Sprintf("%s_%s_%09d.parquet", meas, ts, r.Intn(1000000000))
		}
		path := fmt.Sprintf("%s/%s/%s/%s", db, meas, hr, name)
		if r.Chance(2) {
			path = name // file directly in the storage root
		}
		add(path, "data")
	}
	// files nobody promises to back up
	if r.Chance(35) {
		n := 1 + r.Intn(3)
		for i := 0; i < n; i++ {
			db, meas, hr := dbs[r.Intn(len(dbs))], meass[r.Intn(len(meass))], hours[r.Intn(len(hours))]
			switch r.Intn(4) {
			case 0:
				add(fmt.Sprintf("%s/%s/%s/.arc-%d.tmp", db, meas, hr, r.Intn(1000000)), "other")
			case 1:
				add(fmt.Sprintf("%s/%s/%s/%s_pull_%d.parquet.part", db, meas, hr, meas, r.Intn(1000)), "other")
			case 2:
				add(fmt.Sprintf("%s/_SUCCESS", db), "other")
			default:
				add("README.txt", "other")
			}
		}
	}
	// shuffle so that "prior backup" prefixes and delete indexes are arbitrary
	sp := r.Perm(len(files))
	out := make([]FileSpec, len(files))
	for i, j := range sp {
		out[i] = files[j]
	}
	return out
}

func relevantIdx(files []FileSpec) []int {
	var idx []int
	for i, f := range files {
		if f.Kind != "other" {
			idx = append(idx, i)
		}
	}
	return idx
}

var errnos = []string{"EIO", "ENOSPC", "EACCES"}

func genC13(r *simrt.Rand, tier string) any {
	p := &C13Plan{CrashAt: -1}
	p.Files = genTree(r)
	rel := relevantIdx(p.Files)
	n := len(rel)
	pick := func() string { return p.Files[rel[r.Intn(n)]].Path }
	if r.Chance(20) && len(p.Files) > 1 {
		p.Prior = 1 + r.Intn(len(p.Files)-1)
	}
	p.SQLite = r.Chance(30)
	p.Catalog = p.SQLite && r.Chance(40)
	p.Config = r.Chance(30)
	p.RestoreMetadata = r.Chance(70)
	p.RestoreConfig = r.Chance(50)

	mode := r.Intn(100)
	backupFaults, restoreFaults := false, false
	switch {
	case mode < 25:
	case mode < 50:
		backupFaults = true
	case mode < 85:
		restoreFaults = true
	default:
		backupFaults, restoreFaults = true, true
	}
	budget := n / 10 // skips a backup is allowed to absorb (read from nowhere: just a generator bias)
	if backupFaults {
		if r.Chance(65) {
			// skippable (source-side) failures on a few distinct files
			k := 1
			if budget > 1 {
				k = 1 + r.Intn(budget)
			}
			if r.Chance(15) {
				k += 1 + r.Intn(3) // deliberately too many
			}
			for i := 0; i < k; i++ {
				tgt := pick()
				switch r.Intn(8) {
				case 0:
					p.FS = append(p.FS, FSFault{Phase: "backup", Area: "src", Kind: "open", Target: tgt, Count: 1, Errno: errnos[r.Intn(3)]})
				case 1:
					p.FS = append(p.FS, FSFault{Phase: "backup", Area: "src", Kind: "read", Target: tgt, Skip: r.Intn(2), Count: 1, Errno: "EIO"})
				case 2:
					p.FS = append(p.FS, FSFault{Phase: "backup", Area: "src", Kind: "open", Target: tgt, Count: 0, Errno: "EACCES"})
				case 3:
					p.BE = append(p.BE, BEFault{Phase: "backup", Op: "readto", Target: tgt, Mode: "err", Count: 1})
				case 4:
					p.BE = append(p.BE, BEFault{Phase: "backup", Op: "readto", Target: tgt, Mode: "notfound", Count: 0})
				case 5:
					p.BE = append(p.BE, BEFault{Phase: "backup", Op: "readto", Target: tgt, Mode: "partial", Count: 1})
				case 6:
					f := FSFault{Phase: "backup", Area: "tmp", Kind: "write", Target: "*", Skip: r.Intn(n + 1), Count: 1, Errno: "ENOSPC"}
					if r.Bool() {
						f.Short = 1 + r.Intn(64)
					}
					p.FS = append(p.FS, f)
				default:
					p.Deletes = append(p.Deletes, DelSpec{File: rel[r.Intn(n)], AfterUs: r.Intn(3000)})
				}
			}
		} else {
			k := 1 + r.Intn(2)
			for i := 0; i < k; i++ {
				tgt := pick()
				switch r.Intn(12) {
				case 0:
					p.FS = append(p.FS, FSFault{Phase: "backup", Area: "src", Kind: "walk", Target: "*", Count: 1, Errno: "EIO"})
				case 1:
					p.BE = append(p.BE, BEFault{Phase: "backup", Op: "listobjects", Target: "*", Mode: "err", Count: 1})
				case 2:
					p.FS = append(p.FS, FSFault{Phase: "backup", Area: "tmp", Kind: "create", Target: "*", Skip: r.Intn(n + 1), Count: r.Intn(2), Errno: errnos[1+r.Intn(2)]})
				case 3:
					p.FS = append(p.FS, FSFault{Phase: "backup", Area: "tmp", Kind: "read", Target: "*", Skip: r.Intn(2*n + 1), Count: 1, Errno: "EIO"})
				case 4:
					p.FS = append(p.FS, FSFault{Phase: "backup", Area: "bak", Kind: "create", Target: tgt, Count: 1, Errno: errnos[r.Intn(3)]})
				case 5:
					f := FSFault{Phase: "backup", Area: "bak", Kind: "write", Target: tgt, Count: 1, Errno: "ENOSPC"}
					if r.Bool() {
						f.Short = 1 + r.Intn(64)
					}
					p.FS = append(p.FS, f)
				case 6:
					p.FS = append(p.FS, FSFault{Phase: "backup", Area: "bak", Kind: "rename", Target: tgt, Count: 1, Errno: "EIO"})
				case 7:
					p.FS = append(p.FS, FSFault{Phase: "backup", Area: "bak", Kind: "close", Target: tgt, Count: 1, Errno: "EIO"})
				case 8:
					p.FS = append(p.FS, FSFault{Phase: "backup", Area: "bak", Kind: "mkdir", Target: "*", Skip: r.Intn(6), Count: 1, Errno: errnos[1+r.Intn(2)]})
				case 9:
					p.FS = append(p.FS, FSFault{Phase: "backup", Area: "bak", Kind: []string{"create", "write", "rename", "close"}[r.Intn(4)], Target: "@manifest", Count: 1, Errno: errnos[r.Intn(2)]})
				case 10:
					p.FS = append(p.FS, FSFault{Phase: "backup", Area: "aux", Kind: []string{"readfile", "open", "stat"}[r.Intn(3)], Target: "*", Count: 1, Errno: "EIO"})
				default:
					p.FS = append(p.FS, FSFault{Phase: "backup", Area: "bak", Kind: []string{"create", "write", "rename"}[r.Intn(3)], Target: []string{"@sqlite", "@config", "@catalog"}[r.Intn(3)], Count: 1, Errno: "ENOSPC"})
				}
			}
		}
		if r.Chance(25) && len(p.Deletes) == 0 {
			k := 1 + r.Intn(2)
			for i := 0; i < k; i++ {
				p.Deletes = append(p.Deletes, DelSpec{File: rel[r.Intn(n)], AfterUs: r.Intn(3000)})
			}
		}
		if r.Chance(20) {
			p.CrashAt = r.Intn(5*n + 12)
			p.CrashAfter = r.Bool()
		}
	}
	if restoreFaults {
		k := 1
		if r.Chance(35) {
			k = 2 + r.Intn(3)
		}
		for i := 0; i < k; i++ {
			tgt := pick()
			switch r.Intn(16) {
			case 0:
				p.FS = append(p.FS, FSFault{Phase: "restore", Area: "bak", Kind: "readfile", Target: "@manifest", Count: 1, Errno: "EIO"})
			case 1:
				p.FS = append(p.FS, FSFault{Phase: "restore", Area: "bak", Kind: "walk", Target: "*", Count: 1, Errno: "EIO"})
			case 2:
				p.FS = append(p.FS, FSFault{Phase: "restore", Area: "bak", Kind: "open", Target: tgt, Count: r.Intn(2), Errno: errnos[r.Intn(3)]})
			case 3:
				p.FS = append(p.FS, FSFault{Phase: "restore", Area: "bak", Kind: "read", Target: tgt, Skip: r.Intn(2), Count: 1, Errno: "EIO"})
			case 4:
				p.FS = append(p.FS, FSFault{Phase: "restore", Area: "tmp", Kind: "create", Target: "*", Skip: r.Intn(n + 1), Count: r.Intn(2), Errno: errnos[1+r.Intn(2)]})
			case 5:
				f := FSFault{Phase: "restore", Area: "tmp", Kind: "write", Target: "*", Skip: r.Intn(n + 1), Count: 1, Errno: "ENOSPC"}
				if r.Bool() {
					f.Short = 1 + r.Intn(64)
				}
				p.FS = append(p.FS, f)
			case 6:
				p.FS = append(p.FS, FSFault{Phase: "restore", Area: "tmp", Kind: "read", Target: "*", Skip: r.Intn(2*n + 1), Count: 1, Errno: "EIO"})
			case 7:
				p.FS = append(p.FS, FSFault{Phase: "restore", Area: "dst", Kind: "mkdir", Target: "*", Skip: r.Intn(6), Count: 1, Errno: errnos[1+r.Intn(2)]})
			case 8:
				p.FS = append(p.FS, FSFault{Phase: "restore", Area: "dst", Kind: "create", Target: tgt, Count: r.Intn(2), Errno: errnos[r.Intn(3)]})
			case 9:
				f := FSFault{Phase: "restore", Area: "dst", Kind: "write", Target: tgt, Count: 1, Errno: "ENOSPC"}
				if r.Bool() {
					f.Short = 1 + r.Intn(64)
				}
				p.FS = append(p.FS, f)
			case 10:
				p.FS = append(p.FS, FSFault{Phase: "restore", Area: "dst", Kind: []string{"close", "rename"}[r.Intn(2)], Target: tgt, Count: 1, Errno: "EIO"})
			case 11:
				p.BE = append(p.BE, BEFault{Phase: "restore", Op: "writereader", Target: tgt, Mode: "err", Count: r.Intn(2)})
			case 12:
				p.BE = append(p.BE, BEFault{Phase: "restore", Op: "writereader", Target: tgt, Mode: "partial", Count: 1})
			case 13:
				p.BE = append(p.BE, BEFault{Phase: "restore", Op: "writereader", Target: tgt, Mode: "after", Count: 1})
			case 14:
				p.FS = append(p.FS, FSFault{Phase: "restore", Area: "bak", Kind: "readfile", Target: []string{"@sqlite", "@config", "@catalog"}[r.Intn(3)], Count: 1, Errno: "EIO"})
			default:
				p.FS = append(p.FS, FSFault{Phase: "restore", Area: "aux", Kind: []string{"create", "write", "close"}[r.Intn(3)], Target: "*", Skip: r.Intn(3), Count: 1, Errno: errnos[r.Intn(3)]})
			}
		}
	}
	return p
}

func shrinkC13(planAny any) []any {
	p := planAny.(*C13Plan)
	var out []any
	cp := func() *C13Plan {
		q := *p
		q.Files = append([]FileSpec(nil), p.Files...)
		q.FS = append([]FSFault(nil), p.FS...)
		q.BE = append([]BEFault(nil), p.BE...)
		q.Deletes = append([]DelSpec(nil), p.Deletes...)
		return &q
	}
	for i := range p.FS {
		q := cp()
		q.FS = append(q.FS[:i], q.FS[i+1:]...)
		out = append(out, q)
	}
	for i := range p.BE {
		q := cp()
		q.BE = append(q.BE[:i], q.BE[i+1:]...)
		out = append(out, q)
	}
	if len(p.Deletes) > 0 {
		q := cp()
		q.Deletes = nil
		out = append(out, q)
	}
	if p.CrashAt >= 0 {
		q := cp()
		q.CrashAt = -1
		out = append(out, q)
	}
	if p.Prior > 0 {
		q := cp()
		q.Prior = 0
		out = append(out, q)
	}
	if p.SQLite || p.Catalog || p.Config {
		q := cp()
		q.SQLite, q.Catalog, q.Config = false, false, false
		out = append(out, q)
	}
	// drop files (delete indexes refer to positions: only when no deletes are planned)
	if len(p.Deletes) == 0 && len(p.Files) > 1 {
		if len(p.Files) > 4 {
			for _, half := range [][2]int{{0, len(p.Files) / 2}, {len(p.Files) / 2, len(p.Files)}} {
				q := cp()
				q.Files = append([]FileSpec(nil), p.Files[half[0]:half[1]]...)
				if q.Prior > len(q.Files)-1 {
					q.Prior = 0
				}
				out = append(out, q)
			}
		}
		for i := range p.Files {
			q := cp()
			q.Files = append(q.Files[:i], q.Files[i+1:]...)
			if q.Prior > len(q.Files)-1 {
				q.Prior = 0
			}
			out = append(out, q)
		}
	}
	for i, f := range p.Files {
		if f.Size > 16 {
			q := cp()
			q.Files[i].Size = 16
			out = append(out, q)
		}
	}
	for i, f := range p.FS {
		if f.Skip > 0 {
			q := cp()
			q.FS[i].Skip = 0
			out = append(out, q)
		}
	}
	return out
}

func descC13(planAny any) any {
	p := planAny.(*C13Plan)
	kinds := map[string]int{}
	bytes := 0
	for _, f := range p.Files {
		kinds[f.Kind]++
		bytes += f.Size
	}
	var faults []string
	for _, f := range p.FS {
		s := fmt.Sprintf("%s:fs:%s.%s(%s,skip=%d,count=%d,%s", f.Phase, f.Area, f.Kind, f.Target, f.Skip, f.Count, f.Errno)
		if f.Short > 0 {
			s += fmt.Sprintf(",short=%d", f.Short)
		}
		faults = append(faults, s+")")
	}
	for _, f := range p.BE {
		faults = append(faults, fmt.Sprintf("%s:backend:%s(%s,%s,count=%d)", f.Phase, f.Op, f.Target, f.Mode, f.Count))
	}
	sort.Strings(faults)
	d := map[string]any{"files": kinds, "bytes": bytes, "faults": faults, "prior_backup_files": p.Prior,
		"sqlite": p.SQLite, "catalog": p.Catalog, "config": p.Config}
	if len(p.Deletes) > 0 {
		d["concurrent_deletes"] = len(p.Deletes)
	}
	if p.CrashAt >= 0 {
		d["crash_at_mutating_fsop"] = p.CrashAt
	}
	return d
}

func main() {
	zerolog.SetGlobalLevel(zerolog.Disabled)
	if os.Getenv("VERIF_LOG") != "" {
		zerolog.SetGlobalLevel(zerolog.DebugLevel)
		quiet = zerolog.New(os.Stderr).Level(zerolog.DebugLevel)
	}
	simkit.Main(&simkit.Check{ID: "C13", Gen: genC13, New: func() any { return &C13Plan{} }, Run: runC13, Shrink: shrinkC13, Desc: descC13})
}
