//go:build verif

package edgesync

// Accessors for the C08 harness (overlay-only file).
func VerifValidateSyncPath(p string) error { return validateSyncPath(p) }
func VerifValidateSpokeID(id string) error { return validateSpokeID(id) }
