//go:build verif

// Area localfs: property C08 — storage keys stay inside the root; files
// appear atomically under their final name, at every crash point.
package main

import (
	"bytes"
	"context"
	"crypto/sha256"
	"errors"
	"fmt"
	"io"
	"os"
	"path/filepath"
	"sort"
	"strings"
	"sync/atomic"

	"github.com/rs/zerolog"

	raftpkg "github.com/basekick-labs/arc/internal/cluster/raft"
	"github.com/basekick-labs/arc/internal/edgesync"
	"github.com/basekick-labs/arc/internal/simrt"
	"github.com/basekick-labs/arc/internal/storage"
	"github.com/basekick-labs/arc/internal/verifsim/simkit"
)

type Op struct {
	Kind   string `json:"kind"`  // write writereader append delete stat read readtoat list exists removedir listobjects
	Via    string `json:"via"`   // "" (request header) | manifest | sync
	Key    string `json:"key"`   // raw key as the caller received it
	Spoke  string `json:"spoke"` // for via=sync
	Size   int    `json:"size"`
	Seed   int64  `json:"seed"`
	FailAt int    `json:"fail_at"` // streamed ops: reader returns an error after this many bytes (-1 = never)
	EOFAt  int    `json:"eof_at"`  // append only: the source stream ends cleanly (io.EOF) after this many bytes although appendSize promised more (-1 = never)
	Part   int    `json:"part"`    // append: bytes already staged in <key>.part
	Task   int    `json:"task"`    // ops with different task numbers run concurrently
}

type Fault struct {
	Index int    `json:"index"` // index among mutating fs ops of the whole sequence
	Mode  string `json:"mode"`  // none crash-before crash-after torn eio enospc
}

type C08Plan struct {
	Ops []Op `json:"ops"`
	// Enumerate: run the sequence once per (mutating fs op index × mode).
	Enumerate bool `json:"enumerate"`
}

var quiet = zerolog.New(io.Discard).Level(zerolog.Disabled)
var seq atomic.Int64

func scratch() string {
	b := os.Getenv("VERIF_SCRATCH")
	if b == "" {
		b = "/dev/shm"
	}
	d := filepath.Join(b, fmt.Sprintf("verif-fs.%d.%d", os.Getpid(), seq.Add(1)))
	os.RemoveAll(d)
	os.MkdirAll(d, 0o755)
	return d
}

var pieces = []string{"..", ".", "\x00", "/", "\\", "a", "b", "db", "cpu", "....//", "%2e%2e", "~", " ", "é", "..\\", "/..", "../", "x.parquet", "2026", "\n", ":", "C:", "*", ".part", ".arc-1.tmp"}

func genKey(r *simrt.Rand) string {
	switch r.Intn(8) {
	case 0:
		return "db/cpu/2026/01/01/00/f" + fmt.Sprint(r.Intn(3)) + ".parquet"
	case 1:
		return "k" + fmt.Sprint(r.Intn(3))
	case 2:
		return "/etc/passwd"
	case 3:
		return strings.Repeat("../", 1+r.Intn(6)) + "victim"
	case 4, 5:
		// a traversal string with 1-3 separator/filler characters inserted at
		// random positions: exercises the order of the sanitising steps
		base := []string{"../victim", "../../x", "..", "a/../../b", "/../x", "..\\..\\w", "x/../../../y.parquet"}[r.Intn(7)]
		ins := []string{"\x00", "/", "\\", " ", ".", "\x00\x00", "%00", "\t"}
		for k := 0; k < 1+r.Intn(3); k++ {
			pos := r.Intn(len(base) + 1)
			base = base[:pos] + ins[r.Intn(len(ins))] + base[pos:]
		}
		return base
	}
	n := 1 + r.Intn(7)
	var sb strings.Builder
	for i := 0; i < n; i++ {
		sb.WriteString(pieces[r.Intn(len(pieces))])
	}
	if r.Chance(30) {
		sb.WriteString(".parquet")
	}
	if r.Chance(5) {
		return strings.Repeat(sb.String(), 40)
	}
	return sb.String()
}

func genC08(r *simrt.Rand, tier string) any {
	p := &C08Plan{Enumerate: true}
	n := 1 + r.Intn(4)
	kinds := []string{"write", "write", "writereader", "writereader", "append", "delete", "stat", "read", "readto", "readtoat", "list", "exists", "removedir", "listobjects"}
	var keys []string
	for i := 0; i < 1+r.Intn(2); i++ {
		keys = append(keys, genKey(r))
	}
	concurrent := r.Chance(20)
	for i := 0; i < n; i++ {
		op := Op{Kind: kinds[r.Intn(len(kinds))], Key: keys[r.Intn(len(keys))], Size: []int{0, 1, 10, 300, 5000, 70000}[r.Intn(6)], Seed: int64(r.Intn(1 << 20)), FailAt: -1, EOFAt: -1}
		switch r.Intn(4) {
		case 0:
			op.Via = "manifest"
		case 1:
			op.Via = "sync"
			op.Spoke = []string{"spoke1", "..", ".hidden", "a/b", "s\x00", "edge-7"}[r.Intn(6)]
		}
		if (op.Kind == "writereader" || op.Kind == "append") && r.Chance(35) && op.Size > 0 {
			op.FailAt = r.Intn(op.Size)
		}
		op.EOFAt = -1
		if op.Kind == "append" {
			op.Part = r.Intn(op.Size + 1)
			if op.FailAt < 0 && op.Size-op.Part > 1 && r.Chance(30) {
				// a resumed transfer whose peer closes the stream early without an error
				op.EOFAt = r.Intn(op.Size - op.Part - 1)
			}
		}
		if concurrent && r.Chance(50) {
			// the second task works on its own keys (same directories): the
			// property quantifies over inputs and crash points, not over two
			// writers racing on ONE key
			op.Task = 1
			op.Key += "_t1"
		}
		p.Ops = append(p.Ops, op)
	}
	return p
}

func content(seed int64, size int) []byte {
	return simrt.NewRand(uint64(seed)*2654435761 + uint64(size)).Bytes(size)
}

type failingReader struct {
	r      io.Reader
	n      int
	failAt int
}

var errInjectedReader = errors.New("injected reader error")

func (f *failingReader) Read(p []byte) (int, error) {
	if f.failAt >= 0 && f.n >= f.failAt {
		return 0, errInjectedReader
	}
	if f.failAt >= 0 && f.n+len(p) > f.failAt {
		p = p[:f.failAt-f.n]
	}
	// small chunks: more file-system operations, hence more crash points
	if len(p) > 4096 {
		p = p[:4096]
	}
	n, err := f.r.Read(p)
	f.n += n
	return n, err
}

// route applies the validator the real caller of this kind of key applies
// and returns the key handed to the backend (ok=false: rejected up front).
func route(op *Op) (string, bool) {
	switch op.Via {
	case "manifest":
		if err := raftpkg.ValidateManifestPath(op.Key); err != nil {
			return "", false
		}
		return op.Key, true
	case "sync":
		if err := edgesync.VerifValidateSpokeID(op.Spoke); err != nil {
			return "", false
		}
		if err := edgesync.VerifValidateSyncPath(op.Key); err != nil {
			return "", false
		}
		return edgesync.NamespacedPath(op.Spoke, op.Key), true
	}
	return op.Key, true
}

type execResult struct {
	mutOps   int64
	touched  []string
	crashed  bool
	res      simrt.Result
	complete map[[32]byte]bool // hashes of complete intended contents
	// what readers of final keys were handed that is not a complete content
	readerSaw []string
}

func exec(p *C08Plan, cfg simrt.Config, root string, f Fault) *execResult {
	er := &execResult{complete: map[[32]byte]bool{}}
	er.complete[sha256.Sum256(nil)] = false
	for _, op := range p.Ops {
		if op.Kind == "write" || op.Kind == "writereader" || op.Kind == "append" {
			er.complete[sha256.Sum256(content(op.Seed, op.Size))] = true
		}
	}
	er.res = simrt.Run(cfg, func() {
		simrt.SetPathRoot(root)
		nd := simrt.NodeOf("n1")
		simrt.RecordTouched(true)
		mut := int64(0)
		simrt.SetFSInjector(func(o *simrt.FSOp) simrt.FSAction {
			if !o.Mut || o.Node != nd {
				return simrt.FSAction{}
			}
			idx := mut
			mut++
			if f.Mode == "none" || idx != int64(f.Index) {
				return simrt.FSAction{}
			}
			simrt.Count("fault."+f.Mode, 1)
			switch f.Mode {
			case "crash-before":
				return simrt.FSAction{Crash: 1}
			case "crash-after":
				return simrt.FSAction{Crash: 2}
			case "torn":
				if o.Kind == "write" && o.N > 1 {
					return simrt.FSAction{Crash: 3, Short: 1 + int(idx*131)%(o.N-1)}
				}
				return simrt.FSAction{Crash: 1}
			case "eio":
				return simrt.FSAction{Err: simrt.EIO}
			case "enospc":
				if o.Kind == "write" && o.N > 1 {
					return simrt.FSAction{Err: simrt.ENOSPC, Short: 1 + int(idx*17)%(o.N-1)}
				}
				return simrt.FSAction{Err: simrt.ENOSPC}
			}
			return simrt.FSAction{}
		})
		var be *storage.LocalBackend
		h := simrt.GoOn("setup", nd, func() {
			var err error
			be, err = storage.NewLocalBackend(filepath.Join(root, "data"), quiet)
			if err != nil {
				be = nil // an injected fault failed the constructor: nothing to judge but the tree
			}
		})
		simrt.Join(h)
		if be == nil {
			er.mutOps = mut
			er.crashed = nd.Dead
			er.touched = append([]string(nil), simrt.TouchedPaths()...)
			return
		}
		runOps := func(task int) {
			ctx := context.Background()
			for i := range p.Ops {
				op := &p.Ops[i]
				if op.Task != task {
					continue
				}
				key, ok := route(op)
				if !ok {
					simrt.Event("OP %d %s rejected-by-validator", i, op.Kind)
					continue
				}
				data := content(op.Seed, op.Size)
				var err error
				switch op.Kind {
				case "write":
					err = be.Write(ctx, key, data)
				case "writereader":
					err = be.WriteReader(ctx, key, &failingReader{r: bytes.NewReader(data), failAt: op.FailAt}, int64(len(data)))
				case "append":
					// a previous transfer left <key>.part with the first Part bytes (staged through the real backend)
					full := be.GetFullPath(key)
					if full != "" && strings.HasPrefix(full, filepath.Join(root, "data")+string(os.PathSeparator)) {
						// harness pre-condition, not under test: plain os calls, no fault injection
						if er2 := os.MkdirAll(filepath.Dir(full), 0o700); er2 == nil {
							os.WriteFile(full+".part", data[:op.Part], 0o600)
						}
					}
					tail := data[op.Part:]
					if op.EOFAt >= 0 && op.EOFAt < len(tail) {
						tail = tail[:op.EOFAt] // clean early EOF; appendSize below still promises the full remainder
					}
					err = be.AppendReader(ctx, key, &failingReader{r: bytes.NewReader(tail), failAt: op.FailAt}, int64(len(data)-op.Part))
				case "delete":
					err = be.Delete(ctx, key)
				case "stat":
					_, err = be.StatFile(ctx, key)
				case "read":
					var got []byte
					got, err = be.Read(ctx, key)
					if err == nil && !er.complete[sha256.Sum256(got)] {
						er.readerSaw = append(er.readerSaw, fmt.Sprintf("Read(%q) during the run returned %d bytes", key, len(got)))
					}
				case "readto":
					var buf bytes.Buffer
					err = be.ReadTo(ctx, key, &buf)
					if err == nil && !er.complete[sha256.Sum256(buf.Bytes())] {
						er.readerSaw = append(er.readerSaw, fmt.Sprintf("ReadTo(%q) during the run returned %d bytes", key, buf.Len()))
					}
				case "readtoat":
					err = be.ReadToAt(ctx, key, io.Discard, int64(op.Part))
				case "list":
					_, err = be.List(ctx, key)
				case "exists":
					_, err = be.Exists(ctx, key)
				case "removedir":
					err = be.RemoveDirectory(ctx, key)
				case "listobjects":
					_, err = be.ListObjects(ctx, key)
				}
				simrt.Event("OP %d %s err=%v", i, op.Kind, err != nil)
			}
		}
		h0 := simrt.GoOn("ops0", nd, func() { runOps(0) })
		h1 := simrt.GoOn("ops1", nd, func() { runOps(1) })
		simrt.Join(h0)
		simrt.Join(h1)
		// readers after the run (after a crash: the restarted process). Read and
		// ReadTo are the APIs that serve a FINAL key (ReadToAt is the resume API
		// and falls back to <key>.part by design).
		simrt.SetFSInjector(nil)
		rd := simrt.NodeOf("reader")
		hr := simrt.GoOn("readers", rd, func() {
			be2, err := storage.NewLocalBackend(filepath.Join(root, "data"), quiet)
			if err != nil {
				return
			}
			seen := map[string]bool{}
			for i := range p.Ops {
				op := &p.Ops[i]
				if op.Kind != "write" && op.Kind != "writereader" && op.Kind != "append" {
					continue
				}
				key, ok := route(op)
				if !ok || seen[key] {
					continue
				}
				seen[key] = true
				if got, err := be2.Read(context.Background(), key); err == nil && !er.complete[sha256.Sum256(got)] {
					er.readerSaw = append(er.readerSaw, fmt.Sprintf("Read(%q) after the run returned %d bytes", key, len(got)))
				}
				var buf bytes.Buffer
				if err := be2.ReadTo(context.Background(), key, &buf); err == nil && !er.complete[sha256.Sum256(buf.Bytes())] {
					er.readerSaw = append(er.readerSaw, fmt.Sprintf("ReadTo(%q) after the run returned %d bytes", key, buf.Len()))
				}
			}
		})
		simrt.Join(hr)
		er.mutOps = mut
		er.crashed = nd.Dead
		er.touched = append([]string(nil), simrt.TouchedPaths()...)
	})
	return er
}

// judge checks confinement and atomicity on the directory tree left behind.
func judge(out *simkit.Outcome, p *C08Plan, root string, er *execResult, what string) {
	dataRoot := filepath.Join(root, "data")
	suffix := ""
	for _, t := range er.touched {
		c := filepath.Clean(t)
		if c != dataRoot && !strings.HasPrefix(c, dataRoot+string(os.PathSeparator)) {
			out.Violate("C08.escapes-root", "%s: file-system operation on %q, outside the storage root", what, strings.TrimPrefix(c, root))
			return
		}
	}
	if len(er.readerSaw) > 0 {
		api := "Read"
		if strings.HasPrefix(er.readerSaw[0], "ReadTo") {
			api = "ReadTo"
		}
		out.Violate("C08.reader-handed-partial-content-for-final-key."+api, "%s: %s, which is not the complete content of any write (crashed=%v)", what, er.readerSaw[0], er.crashed)
		return
	}
	// nothing may exist next to the data root
	ents, _ := os.ReadDir(root)
	for _, e := range ents {
		if e.Name() != "data" {
			out.Violate("C08.escapes-root", "%s: %q was created outside the storage root", what, e.Name())
			return
		}
	}
	filepath.WalkDir(dataRoot, func(pth string, d os.DirEntry, err error) error {
		if err != nil || d.IsDir() {
			return nil
		}
		name := d.Name()
		if strings.HasSuffix(name, ".part") || (strings.HasPrefix(name, ".arc-") && strings.HasSuffix(name, ".tmp")) {
			return nil // staging names: the property protects final names only
		}
		b, err := os.ReadFile(pth)
		if err != nil {
			return nil
		}
		if !er.complete[sha256.Sum256(b)] {
			rel, _ := filepath.Rel(dataRoot, pth)
			out.Violate("C08.partial-file-under-final-name"+suffix, "%s: %q holds %d bytes that are not the complete content of any write (crashed=%v)", what, rel, len(b), er.crashed)
		}
		return nil
	})
}

func runC08(planAny any, cfg simrt.Config) *simkit.Outcome {
	p := planAny.(*C08Plan)
	out := &simkit.Outcome{}
	root := scratch()
	defer os.RemoveAll(root)
	base := exec(p, cfg, root, Fault{Mode: "none"})
	out.Absorb(base.res)
	if len(base.res.Panics) > 0 {
		out.Violate("C08.panic", "%s", base.res.Panics[0])
		return out
	}
	if base.res.Outcome != "ok" {
		return out
	}
	judge(out, p, root, base, "fault-free")
	evals := int64(1)
	if p.Enumerate && len(out.Violations) == 0 {
		modes := []string{"crash-before", "crash-after", "torn", "eio", "enospc"}
		for i := int64(0); i < base.mutOps && len(out.Violations) == 0; i++ {
			for _, m := range modes {
				r2 := scratch()
				er := exec(p, cfg, r2, Fault{Index: int(i), Mode: m})
				evals++
				for k, v := range er.res.Stats {
					out.Stats[k] += v
				}
				if len(er.res.Panics) > 0 {
					out.Violate("C08.panic", "fault %s@%d: %s", m, i, er.res.Panics[0])
				} else if er.res.Outcome == "ok" {
					judge(out, p, r2, er, fmt.Sprintf("fault %s at mutating fs op %d/%d", m, i, base.mutOps))
				}
				os.RemoveAll(r2)
				if len(out.Violations) > 0 {
					break
				}
			}
		}
	}
	out.Evals = evals
	out.Stats["probe.mutating_fs_ops"] += base.mutOps
	out.Nontrivial = base.mutOps > 0
	return out
}

func shrinkC08(planAny any) []any {
	p := planAny.(*C08Plan)
	var out []any
	for i := range p.Ops {
		if len(p.Ops) > 1 {
			q := *p
			q.Ops = append(append([]Op(nil), p.Ops[:i]...), p.Ops[i+1:]...)
			out = append(out, &q)
		}
	}
	for i, op := range p.Ops {
		if op.Size > 10 {
			q := *p
			q.Ops = append([]Op(nil), p.Ops...)
			q.Ops[i].Size = 10
			if q.Ops[i].FailAt > 5 {
				q.Ops[i].FailAt = 5
			}
			if q.Ops[i].Part > 10 {
				q.Ops[i].Part = 5
			}
			out = append(out, &q)
		}
		if op.Task != 0 {
			q := *p
			q.Ops = append([]Op(nil), p.Ops...)
			for j := range q.Ops {
				q.Ops[j].Task = 0
			}
			out = append(out, &q)
		}
	}
	return out
}

func descC08(planAny any) any {
	p := planAny.(*C08Plan)
	var s []string
	for _, op := range p.Ops {
		s = append(s, fmt.Sprintf("%s(via=%s key=%q size=%d failAt=%d part=%d task=%d)", op.Kind, op.Via, op.Key, op.Size, op.FailAt, op.Part, op.Task))
	}
	sort.Strings(nil)
	return map[string]any{"ops": s, "faults": "each mutating fs operation × {crash-before, crash-after, torn write, EIO, ENOSPC/short write}"}
}

func main() {
	zerolog.SetGlobalLevel(zerolog.Disabled)
	simkit.Main(&simkit.Check{ID: "C08", Gen: genC08, New: func() any { return &C08Plan{} }, Run: runC08, Shrink: shrinkC08, Desc: descC08})
}
