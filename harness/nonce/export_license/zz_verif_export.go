//go:build verif

package license

// VerifClient returns a client that holds lic without contacting a server.
func VerifClient(lic *License) *Client {
	return &Client{license: lic, offline: true, stopCh: make(chan struct{})}
}
