//go:build verif

package security

import "time"

// VerifTTL returns the retention the cache was constructed with.
func (nc *NonceCache) VerifTTL() time.Duration { return nc.ttl }

// VerifObserveTolerance installs pass-through observers on the five
// validators of the nonce-protected message types: obs sees the tolerance the
// caller (handler) actually passed, then the unmodified validator runs.
// The validators contain no scheduling point, so un-setting the hook for the
// duration of the inner call cannot be observed by another task.
func VerifObserveTolerance(obs func(kind, nonce string, tolerance time.Duration)) {
	if obs == nil {
		SimHook_ValidateReplicateSyncHMAC = nil
		SimHook_ValidateForwardHMAC = nil
		SimHook_ValidateCacheInvalidateHMAC = nil
		SimHook_ValidateSyncFileHMAC = nil
		SimHook_ValidateSyncReconcileHMAC = nil
		return
	}
	var h1 func(string, string, string, string, uint64, int64, string, time.Duration) error
	h1 = func(sharedSecret, nonce, readerID, clusterName string, lastKnownSeq uint64, timestamp int64, receivedMAC string, tolerance time.Duration) error {
		obs("sync", nonce, tolerance)
		SimHook_ValidateReplicateSyncHMAC = nil
		defer func() { SimHook_ValidateReplicateSyncHMAC = h1 }()
		return ValidateReplicateSyncHMAC(sharedSecret, nonce, readerID, clusterName, lastKnownSeq, timestamp, receivedMAC, tolerance)
	}
	SimHook_ValidateReplicateSyncHMAC = h1

	var h2 func(string, string, string, string, []byte, int64, string, time.Duration) error
	h2 = func(sharedSecret, nonce, nodeID, clusterName string, payload []byte, timestamp int64, receivedMAC string, tolerance time.Duration) error {
		obs("forward", nonce, tolerance)
		SimHook_ValidateForwardHMAC = nil
		defer func() { SimHook_ValidateForwardHMAC = h2 }()
		return ValidateForwardHMAC(sharedSecret, nonce, nodeID, clusterName, payload, timestamp, receivedMAC, tolerance)
	}
	SimHook_ValidateForwardHMAC = h2

	var h3 func(string, string, string, string, int64, string, time.Duration) error
	h3 = func(sharedSecret, nonce, nodeID, clusterName string, timestamp int64, receivedMAC string, tolerance time.Duration) error {
		obs("cacheinv", nonce, tolerance)
		SimHook_ValidateCacheInvalidateHMAC = nil
		defer func() { SimHook_ValidateCacheInvalidateHMAC = h3 }()
		return ValidateCacheInvalidateHMAC(sharedSecret, nonce, nodeID, clusterName, timestamp, receivedMAC, tolerance)
	}
	SimHook_ValidateCacheInvalidateHMAC = h3

	var h4 func(string, string, string, string, string, string, int64, string, time.Duration) error
	h4 = func(sharedSecret, nonce, spokeID, hubID, targetPath, contentSHA256 string, timestamp int64, receivedMAC string, tolerance time.Duration) error {
		obs("edgefile", nonce, tolerance)
		SimHook_ValidateSyncFileHMAC = nil
		defer func() { SimHook_ValidateSyncFileHMAC = h4 }()
		return ValidateSyncFileHMAC(sharedSecret, nonce, spokeID, hubID, targetPath, contentSHA256, timestamp, receivedMAC, tolerance)
	}
	SimHook_ValidateSyncFileHMAC = h4

	var h5 func(string, string, string, string, []byte, int64, string, time.Duration) error
	h5 = func(sharedSecret, nonce, spokeID, hubID string, body []byte, timestamp int64, receivedMAC string, tolerance time.Duration) error {
		obs("edgerec", nonce, tolerance)
		SimHook_ValidateSyncReconcileHMAC = nil
		defer func() { SimHook_ValidateSyncReconcileHMAC = h5 }()
		return ValidateSyncReconcileHMAC(sharedSecret, nonce, spokeID, hubID, body, timestamp, receivedMAC, tolerance)
	}
	SimHook_ValidateSyncReconcileHMAC = h5
}
