//go:build verif

// Area nonce: property C26 (nonce-protected cluster requests cannot be
// replayed). See c26.go for workload and oracle, world.go for the receivers,
// siteconf.go for how the main.go construction-site values are obtained.
package main

import (
	"os"

	"github.com/rs/zerolog"

	"github.com/basekick-labs/arc/internal/verifsim/simkit"
)

func main() {
	zerolog.SetGlobalLevel(zerolog.Disabled)
	if os.Getenv("VERIF_LOG") != "" {
		zerolog.SetGlobalLevel(zerolog.DebugLevel)
	}
	calibrate()
	simkit.Main(&simkit.Check{ID: "C26", Gen: genC26, New: func() any { return &C26Plan{} }, Run: runC26, Shrink: shrinkC26, Desc: descC26})
}
