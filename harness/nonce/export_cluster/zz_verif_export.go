//go:build verif

package cluster

import (
	"net"

	"github.com/basekick-labs/arc/internal/cluster/security"
)

// VerifHandlePeerConnection feeds one accepted peer connection to the real
// dispatch code (what acceptLoop does for every accepted socket).
func (c *Coordinator) VerifHandlePeerConnection(conn net.Conn) { c.handlePeerConnection(conn) }

// VerifNonceCache returns the replay cache the coordinator currently holds
// (nil while it has not constructed one).
func (c *Coordinator) VerifNonceCache() *security.NonceCache { return c.nonceCache }
