//go:build verif

package cluster

import (
	"net"

	"github.com/basekick-labs/arc/internal/cluster/security"
)

// VerifHandlePeerConnection feeds one accepted peer connection to the real
// dispatch code (what acceptLoop does for every accepted socket).
func (c *Coordinator) VerifHandlePeerConnection(conn net.Conn) { c.handlePeerConnection(conn) }

// VerifNonceCache returns the cache Start() constructed.
func (c *Coordinator) VerifNonceCache() *security.NonceCache { return c.nonceCache }
