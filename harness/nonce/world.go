//go:build verif

package main

// The receiving side of the nonce-protected message types, built from real
// arc code: a Coordinator made by NewCoordinator + Start (so the coordinator
// NonceCache comes from the real construction site, whenever in the
// coordinator's life that site runs), the cache-invalidate and
// edge-sync HTTP handlers made by their real constructors with the retention
// and tolerance values of their cmd/arc/main.go construction sites.

import (
	"bufio"
	"bytes"
	"context"
	"crypto/sha256"
	"database/sql"
	"encoding/hex"
	"encoding/json"
	"fmt"
	"io"
	"net"
	"os"
	"path/filepath"
	"strconv"
	"sync/atomic"
	"time"

	"github.com/gofiber/fiber/v2"
	_ "github.com/mattn/go-sqlite3"
	"github.com/rs/zerolog"
	"github.com/valyala/fasthttp"

	"github.com/basekick-labs/arc/internal/api"
	"github.com/basekick-labs/arc/internal/cluster"
	"github.com/basekick-labs/arc/internal/cluster/protocol"
	"github.com/basekick-labs/arc/internal/cluster/security"
	"github.com/basekick-labs/arc/internal/config"
	"github.com/basekick-labs/arc/internal/edgesync"
	"github.com/basekick-labs/arc/internal/license"
	"github.com/basekick-labs/arc/internal/simrt"
	"github.com/basekick-labs/arc/internal/storage"
)

const (
	tSync     = "sync"     // replication sync handshake (coordinator TCP protocol)
	tForward  = "forward"  // forwarded apply (coordinator TCP protocol)
	tCacheInv = "cacheinv" // POST /api/v1/internal/cache/invalidate
	tEdgeFile = "edgefile" // POST /api/v1/sync/file
	tEdgeRec  = "edgerec"  // POST /api/v1/sync/reconcile
)

var allTypes = []string{tSync, tForward, tCacheInv, tEdgeFile, tEdgeRec}

const (
	clusterName   = "c26-cluster"
	clusterSecret = "c26-cluster-shared-secret"
	hubNodeID     = "hub-1"
	edgeHubID     = "hub-A"
)

var peerIDs = []string{"peer-a", "peer-b"}
var spokeIDs = []string{"spoke-a", "spoke-b"}

func spokeSecret(id string) string { return "secret-of-" + id }

func harnessFail(format string, args ...any) {
	panic("HARNESS-ERROR nonce: " + fmt.Sprintf(format, args...))
}

var quiet = zerolog.New(io.Discard).Level(zerolog.Disabled)

func logger() zerolog.Logger {
	if os.Getenv("VERIF_LOG") != "" {
		return zerolog.New(os.Stderr).Level(zerolog.DebugLevel)
	}
	return quiet
}

var scratchSeq atomic.Int64

func scratchDir() string {
	b := os.Getenv("VERIF_SCRATCH")
	if b == "" {
		b = "/dev/shm"
	}
	d := filepath.Join(b, fmt.Sprintf("verif-nonce.%d.%d", os.Getpid(), scratchSeq.Add(1)))
	os.RemoveAll(d)
	if err := os.MkdirAll(d, 0o755); err != nil {
		harnessFail("scratch: %v", err)
	}
	return d
}

// scriptConn is what an accepted peer socket looks like to the coordinator:
// the bytes the peer sent, then EOF; everything the coordinator writes is kept.
type scriptConn struct {
	in     *bytes.Reader
	out    bytes.Buffer
	closed bool
}

func (c *scriptConn) Read(p []byte) (int, error) {
	if c.in.Len() == 0 {
		return 0, io.EOF
	}
	return c.in.Read(p)
}
func (c *scriptConn) Write(p []byte) (int, error) {
	if c.closed {
		return 0, net.ErrClosed
	}
	return c.out.Write(p)
}
func (c *scriptConn) Close() error { c.closed = true; return nil }
func (c *scriptConn) LocalAddr() net.Addr {
	return &net.TCPAddr{IP: net.IPv4(10, 0, 0, 1), Port: 9100}
}
func (c *scriptConn) RemoteAddr() net.Addr {
	return &net.TCPAddr{IP: net.IPv4(10, 0, 0, 2), Port: 40000}
}
func (c *scriptConn) SetDeadline(time.Time) error      { return nil }
func (c *scriptConn) SetReadDeadline(time.Time) error  { return nil }
func (c *scriptConn) SetWriteDeadline(time.Time) error { return nil }

type world struct {
	hub     *simrt.Node
	types   map[string]bool
	coord   *cluster.Coordinator
	handler fasthttp.RequestHandler
	cacheH  *api.CacheInvalidateHandler
	edgeNC  *security.NonceCache
	cacheNC *security.NonceCache
	db      *sql.DB
	dir     string
	hdr     map[string]string
	conns   []*httpConn // simulated HTTP server connections (one fasthttp.RequestCtx each)

	invalidations int64
	tolSeen       map[string]time.Duration // nonce -> tolerance the handler passed to its validator
	tolKind       map[string]string
}

func (w *world) close() {
	security.VerifObserveTolerance(nil)
	if w.db != nil {
		w.db.Close()
	}
	if w.dir != "" {
		os.RemoveAll(w.dir)
	}
}

// buildWorld constructs the receivers for the enabled types. It must run on a
// task of the hub node (constructors read the clock).
func buildWorld(types map[string]bool, hcInterval int) *world {
	w := &world{hub: simrt.CurNode(), types: types, tolSeen: map[string]time.Duration{}, tolKind: map[string]string{}, hdr: api.VerifSyncHeaderNames()}
	security.VerifObserveTolerance(func(kind, nonce string, tol time.Duration) {
		w.tolSeen[nonce] = tol
		w.tolKind[nonce] = kind
	})
	if types[tSync] || types[tForward] {
		lic := license.VerifClient(&license.License{LicenseKey: "verif", Tier: "enterprise", Status: "active", Features: []string{license.FeatureClustering}})
		c, err := cluster.NewCoordinator(&cluster.CoordinatorConfig{
			Config: &config.ClusterConfig{Enabled: true, NodeID: hubNodeID, Role: "writer", ClusterName: clusterName,
				SharedSecret: clusterSecret, HealthCheckInterval: hcInterval, HealthCheckTimeout: 1, UnhealthyThreshold: 3},
			LicenseClient: lic, Version: "verif", APIAddress: "10.0.0.1:8000", Logger: logger(),
		})
		if err != nil {
			harnessFail("NewCoordinator: %v", err)
		}
		if err := c.Start(); err != nil {
			harnessFail("Coordinator.Start: %v", err)
		}
		// Nothing is assumed about WHEN the coordinator constructs its replay
		// cache (in Start, on the first request, ...): see coordTTL.
		w.coord = c
	}
	if types[tCacheInv] || types[tEdgeFile] || types[tEdgeRec] {
		app := fiber.New(fiber.Config{DisableStartupMessage: true, BodyLimit: 8 << 20})
		if types[tCacheInv] {
			w.cacheNC = security.NewNonceCache(sites.CacheInvTTL)
			w.cacheH = api.NewCacheInvalidateHandler(clusterSecret, clusterName, hubNodeID, w.cacheNC, sites.CacheInvTol,
				func() { w.invalidations++ }, logger())
			w.cacheH.Register(app)
		}
		if types[tEdgeFile] || types[tEdgeRec] {
			w.dir = scratchDir()
			be, err := storage.NewLocalBackend(filepath.Join(w.dir, "data"), logger())
			if err != nil {
				harnessFail("local backend: %v", err)
			}
			db, err := sql.Open("sqlite3", ":memory:")
			if err != nil {
				harnessFail("sqlite: %v", err)
			}
			db.SetMaxOpenConns(1)
			w.db = db
			idx, err := edgesync.NewHubIndex(db, logger())
			if err != nil {
				harnessFail("hub index: %v", err)
			}
			rcv, err := edgesync.NewReceiver(edgesync.ReceiverConfig{Backend: be, Index: idx, Logger: logger()})
			if err != nil {
				harnessFail("receiver: %v", err)
			}
			rec, err := edgesync.NewReconciler(edgesync.ReconcilerConfig{Index: idx, Backend: be})
			if err != nil {
				harnessFail("reconciler: %v", err)
			}
			w.edgeNC = security.NewNonceCache(sites.EdgeSyncTTL)
			h, err := api.NewEdgeSyncHandler(api.EdgeSyncHandlerConfig{
				Receiver: rcv, Reconciler: rec,
				SpokeSecrets: func(ctx context.Context, spokeID string) (string, bool) {
					for _, s := range spokeIDs {
						if s == spokeID {
							return spokeSecret(s), true
						}
					}
					return "", false
				},
				Replay: w.edgeNC, HubID: edgeHubID, MaxFileBytes: 1 << 20, Logger: logger(),
			})
			if err != nil {
				harnessFail("edge sync handler: %v", err)
			}
			h.RegisterRoutes(app)
		}
		w.handler = app.Handler()
	}
	return w
}

// ttlOf returns the retention of the cache guarding message type t, read
// from the constructed cache object.
func (w *world) ttlOf(t string) time.Duration {
	switch t {
	case tSync, tForward:
		return w.coordTTL()
	case tCacheInv:
		return w.cacheNC.VerifTTL()
	default:
		return w.edgeNC.VerifTTL()
	}
}

// coordTTL is the retention of the coordinator's replay cache. The cache is
// looked up at the moment of the question: a coordinator may construct it in
// Start() or at any later point up to the first replay check. While it does
// not exist yet the value learned by calibration (a constant of the build,
// read from a cache object after a request had been served) is used. Having
// neither is harness trouble: the retention cannot be known.
func (w *world) coordTTL() time.Duration {
	if nc := w.coord.VerifNonceCache(); nc != nil {
		return nc.VerifTTL()
	}
	if c, ok := calib.types[tSync]; ok && c.TTL > 0 {
		return c.TTL
	}
	if c, ok := calib.types[tForward]; ok && c.TTL > 0 {
		return c.TTL
	}
	harnessFail("the coordinator has no nonce cache (not after Start, not after requests were served): its retention cannot be determined")
	return 0
}

// request is one signed request, kept as the exact bytes that go on the wire
// so that a replay is byte-identical.
type request struct {
	typ    string
	nonce  string
	sender string
	ts     int64
	wire   []byte            // coordinator protocol frame
	path   string            // HTTP
	hdr    map[string]string // HTTP
	body   []byte            // HTTP
}

func nonceFor(salt uint32, idx int) string {
	h := sha256.Sum256([]byte(fmt.Sprintf("c26-nonce-%d-%d", salt, idx)))
	return hex.EncodeToString(h[:])
}

func encodeFrame(m *protocol.Message) []byte {
	var b bytes.Buffer
	if err := protocol.NewEncoder(&b).Encode(m); err != nil {
		harnessFail("encode: %v", err)
	}
	return b.Bytes()
}

// sign builds the request a legitimate sender would emit with timestamp ts,
// using arc's own Compute*HMAC functions.
func (w *world) sign(typ string, senderIdx int, idx int, nonce string, ts int64) *request {
	rq := &request{typ: typ, nonce: nonce, ts: ts}
	switch typ {
	case tSync:
		rq.sender = peerIDs[senderIdx]
		seq := uint64(100 + idx)
		p := &protocol.ReplicateSync{ReaderID: rq.sender, LastKnownSequence: seq, Nonce: nonce, ClusterName: clusterName, Timestamp: ts,
			HMAC: security.ComputeReplicateSyncHMAC(clusterSecret, nonce, rq.sender, clusterName, seq, ts)}
		rq.wire = encodeFrame(&protocol.Message{Type: protocol.MsgReplicateSync, Payload: p})
	case tForward:
		rq.sender = peerIDs[senderIdx]
		cmd := []byte(fmt.Sprintf(`{"type":0,"payload":{"verif":%d}}`, idx))
		p := &protocol.ForwardApplyRequest{CommandJSON: cmd, NodeID: rq.sender, Nonce: nonce, Timestamp: ts,
			HMAC: security.ComputeForwardHMAC(clusterSecret, nonce, rq.sender, clusterName, cmd, ts)}
		rq.wire = encodeFrame(&protocol.Message{Type: protocol.MsgForwardApply, Payload: p})
	case tCacheInv:
		rq.sender = peerIDs[senderIdx]
		rq.path = api.CacheInvalidatePath
		rq.hdr = map[string]string{"X-Arc-Node-ID": rq.sender, "X-Arc-Cluster": clusterName, "X-Arc-Nonce": nonce,
			"X-Arc-Timestamp": strconv.FormatInt(ts, 10),
			"X-Arc-HMAC":      security.ComputeCacheInvalidateHMAC(clusterSecret, nonce, rq.sender, clusterName, ts)}
	case tEdgeFile:
		rq.sender = spokeIDs[senderIdx]
		rq.path = "/api/v1/sync/file"
		rq.body = []byte(fmt.Sprintf("c26 file body %d of %s", idx, rq.sender))
		sum := sha256.Sum256(rq.body)
		sha := hex.EncodeToString(sum[:])
		fp := fmt.Sprintf("db1/cpu/2026/01/01/00/f%d.parquet", idx)
		mac, err := security.ComputeSyncFileHMAC(spokeSecret(rq.sender), nonce, rq.sender, edgeHubID, fp, sha, ts)
		if err != nil {
			harnessFail("ComputeSyncFileHMAC: %v", err)
		}
		rq.hdr = map[string]string{w.hdr["spoke"]: rq.sender, w.hdr["hub"]: edgeHubID, w.hdr["path"]: fp, w.hdr["sha256"]: sha,
			w.hdr["size"]: strconv.Itoa(len(rq.body)), w.hdr["nonce"]: nonce, w.hdr["ts"]: strconv.FormatInt(ts, 10), w.hdr["mac"]: mac}
	case tEdgeRec:
		rq.sender = spokeIDs[senderIdx]
		rq.path = "/api/v1/sync/reconcile"
		sum := sha256.Sum256([]byte(fmt.Sprintf("rec-%d", idx)))
		body, _ := json.Marshal(map[string]any{"entries": []edgesync.ReconcileEntry{{Path: fmt.Sprintf("db1/cpu/2026/01/01/00/r%d.parquet", idx), SHA256: hex.EncodeToString(sum[:]), SizeBytes: 10}}})
		rq.body = body
		mac, err := security.ComputeSyncReconcileHMAC(spokeSecret(rq.sender), nonce, rq.sender, edgeHubID, body, ts)
		if err != nil {
			harnessFail("ComputeSyncReconcileHMAC: %v", err)
		}
		rq.hdr = map[string]string{w.hdr["spoke"]: rq.sender, w.hdr["hub"]: edgeHubID, w.hdr["nonce"]: nonce,
			w.hdr["ts"]: strconv.FormatInt(ts, 10), w.hdr["mac"]: mac}
	default:
		harnessFail("unknown message type %q", typ)
	}
	return rq
}

// response is what the receiver answered, reduced to what a peer can see.
type response struct {
	status  int    // HTTP
	syncErr string // sync ack error text
	code    string // forward ack code
	okAck   bool   // a well-formed ack came back
}

// send delivers rq to the real receiver entry point (must run on a hub task).
func (w *world) send(rq *request) response {
	switch rq.typ {
	case tSync, tForward:
		conn := &scriptConn{in: bytes.NewReader(append([]byte(nil), rq.wire...))}
		w.coord.VerifHandlePeerConnection(conn)
		m, err := protocol.NewDecoder(bytes.NewReader(conn.out.Bytes())).Decode()
		if err != nil {
			harnessFail("%s: no decodable ack from coordinator: %v", rq.typ, err)
		}
		switch a := m.Payload.(type) {
		case *protocol.ReplicateSyncAck:
			return response{okAck: true, syncErr: a.Error}
		case *protocol.ForwardApplyAck:
			return response{okAck: true, code: string(a.Code)}
		}
		harnessFail("%s: unexpected ack type %v", rq.typ, m.Type)
	default:
		// old-style plans / calibration: connection 0, canonical header order
		hc := w.acquireConn(0)
		defer w.releaseConn(hc)
		return w.sendHTTP(rq, hc, 0)
	}
	return response{}
}

// ---------------------------------------------------------------------------
// HTTP connections
//
// fasthttp serves every request of a keep-alive connection with ONE
// RequestCtx (and hands that RequestCtx to a later connection through its
// pool once the connection is closed): the next request is parsed into the
// same header slots, body buffer and read buffer, overwriting the bytes of
// the previous one. arc runs Fiber with Immutable=false, so everything a
// handler obtains from c.Get/c.Body/... points into those buffers and is
// valid only until the handler returns. An httpConn is that unit of buffer
// reuse: one RequestCtx + one read buffer; requests reach it as wire bytes
// and are parsed by fasthttp's own request parser, and between two requests
// exactly what fasthttp's serveConn does is done (reset user values, request,
// response). A "connection index" of a plan therefore stands for a keep-alive
// connection or, equally, for a sequence of connections that received the
// same pooled RequestCtx one after the other.

type httpConn struct {
	idx    int
	ctx    fasthttp.RequestCtx
	src    bytes.Reader
	br     *bufio.Reader
	busy   bool
	served int // requests parsed on this connection so far
}

type nopLogger struct{}

func (nopLogger) Printf(string, ...interface{}) {}

// acquireConn returns connection idx, or - when that one is in the middle of
// a request (HTTP/1.1: one request at a time per connection) - the next idle
// one. Called by the driver, never by concurrently running tasks.
func (w *world) acquireConn(idx int) *httpConn {
	if idx < 0 {
		idx = 0
	}
	for ; ; idx++ {
		for len(w.conns) <= idx {
			hc := &httpConn{idx: len(w.conns)}
			hc.ctx.Init2(&scriptConn{in: bytes.NewReader(nil)}, nopLogger{}, false)
			hc.br = bufio.NewReaderSize(&hc.src, 8192)
			w.conns = append(w.conns, hc)
		}
		if hc := w.conns[idx]; !hc.busy {
			hc.busy = true
			return hc
		}
	}
}

func (w *world) releaseConn(hc *httpConn) { hc.busy = false }

// servedOn is the number of requests parsed so far on connection idx.
func (w *world) servedOn(idx int) int {
	if idx < 0 || idx >= len(w.conns) {
		return 0
	}
	return w.conns[idx].served
}

// headerOrder returns the header names of rq in the order they go on the
// wire: order 0 is the canonical (sorted) one, any other value selects a
// fixed permutation. The order of header fields is not covered by any MAC.
func headerOrder(hdr map[string]string, order int) []string {
	ks := sortedKeys(hdr)
	if order <= 0 {
		return ks
	}
	x := uint32(order)*2654435761 + 12345
	for i := len(ks) - 1; i > 0; i-- {
		x = x*1664525 + 1013904223
		j := int((x >> 8) % uint32(i+1))
		ks[i], ks[j] = ks[j], ks[i]
	}
	return ks
}

// httpWire renders rq as the bytes a client puts on the connection.
func httpWire(rq *request, order int) []byte {
	var b bytes.Buffer
	fmt.Fprintf(&b, "POST %s HTTP/1.1\r\nHost: %s:8000\r\n", rq.path, hubNodeID)
	for _, k := range headerOrder(rq.hdr, order) {
		fmt.Fprintf(&b, "%s: %s\r\n", k, rq.hdr[k])
	}
	fmt.Fprintf(&b, "Content-Length: %d\r\n\r\n", len(rq.body))
	b.Write(rq.body)
	return b.Bytes()
}

// sendHTTP delivers rq on connection hc (must run on a hub task; hc was
// acquired by the driver).
func (w *world) sendHTTP(rq *request, hc *httpConn, order int) response {
	wire := httpWire(rq, order)
	hc.src.Reset(wire)
	hc.br.Reset(&hc.src)
	if err := hc.ctx.Request.Read(hc.br); err != nil {
		harnessFail("%s: fasthttp cannot parse the harness's request: %v", rq.typ, err)
	}
	hc.served++
	w.handler(&hc.ctx)
	r := response{status: hc.ctx.Response.StatusCode()}
	// what fasthttp's serveConn does before it reads the connection's next request
	hc.ctx.ResetUserValues()
	hc.ctx.Request.Reset()
	hc.ctx.Response.Reset()
	// the socket bytes are gone as well: nothing may alias the request after
	// the handler returned
	for i := range wire {
		wire[i] = 0xAA
	}
	return r
}

func sortedKeys(m map[string]string) []string {
	ks := make([]string, 0, len(m))
	for k := range m {
		ks = append(ks, k)
	}
	for i := 1; i < len(ks); i++ {
		for j := i; j > 0 && ks[j] < ks[j-1]; j-- {
			ks[j], ks[j-1] = ks[j-1], ks[j]
		}
	}
	return ks
}

// accepted maps a response to the accept/reject decision of the
// authentication stage. Anything unexpected is harness trouble.
func accepted(typ string, r response) bool {
	switch typ {
	case tSync:
		switch r.syncErr {
		case calib.syncRejectErr:
			return false
		case calib.syncAcceptErr:
			return true
		}
		harnessFail("sync: ack error %q is neither the learned reject nor the learned accept answer", r.syncErr)
	case tForward:
		switch protocol.ForwardApplyCode(r.code) {
		case protocol.ForwardCodeAuth:
			return false
		case protocol.ForwardCodeRaftUnavailable:
			return true // passed authentication and replay check; the stubbed-out raft layer answers
		}
		harnessFail("forward: unexpected ack code %q", r.code)
	case tCacheInv:
		switch r.status {
		case fiber.StatusForbidden:
			return false
		case fiber.StatusNoContent:
			return true
		}
		harnessFail("cache-invalidate: unexpected status %d", r.status)
	case tEdgeFile, tEdgeRec:
		switch r.status {
		case fiber.StatusUnauthorized:
			return false
		case fiber.StatusOK:
			return true
		}
		harnessFail("%s: unexpected status %d", typ, r.status)
	}
	return false
}
