//go:build verif

package main

// Extraction of the nonce-retention / tolerance values that cmd/arc/main.go
// passes at its two NonceCache construction sites. main() cannot be executed
// by a harness, so the argument EXPRESSIONS are taken from the source file of
// the tree this binary was built from and evaluated with a small constant
// evaluator that resolves identifiers through the arc sources themselves
// (nothing is hard-coded here; an expression the evaluator cannot handle is a
// HARNESS-ERROR, never a verdict).

import (
	"fmt"
	"go/ast"
	"go/constant"
	"go/parser"
	"go/printer"
	"go/token"
	"os"
	"path/filepath"
	"runtime"
	"sort"
	"strconv"
	"strings"
	"time"
)

const arcModule = "github.com/basekick-labs/arc"

// siteValues are the values found at the main.go construction sites.
type siteValues struct {
	Root         string
	EdgeSyncTTL  time.Duration // security.NewNonceCache(<expr>) in api.EdgeSyncHandlerConfig{Replay: ...}
	CacheInvTTL  time.Duration // security.NewNonceCache(<expr>) passed to api.NewCacheInvalidateHandler
	CacheInvTol  time.Duration // tolerance argument of api.NewCacheInvalidateHandler
	EdgeSyncExpr string
	CacheTTLExpr string
	CacheTolExpr string
}

// repoRoot is the tree this binary was built from: the overlay puts this file
// at <root>/cmd/verifsim-nonce/, and the compiler records that path.
func repoRoot() string {
	if r := os.Getenv("VERIF_REPO_ROOT"); r != "" {
		return r
	}
	_, f, _, ok := runtime.Caller(0)
	if !ok {
		panic("nonce harness: runtime.Caller failed")
	}
	return filepath.Dir(filepath.Dir(filepath.Dir(f)))
}

type constDef struct {
	expr ast.Expr
	file *ast.File
	iota bool
}

type pkgScope struct {
	dir    string
	fset   *token.FileSet
	consts map[string]*constDef
}

type evaluator struct {
	root   string
	scopes map[string]*pkgScope // by directory
}

func (ev *evaluator) scope(dir string) (*pkgScope, error) {
	if s := ev.scopes[dir]; s != nil {
		return s, nil
	}
	ents, err := os.ReadDir(dir)
	if err != nil {
		return nil, err
	}
	s := &pkgScope{dir: dir, fset: token.NewFileSet(), consts: map[string]*constDef{}}
	var names []string
	for _, e := range ents {
		n := e.Name()
		if e.IsDir() || !strings.HasSuffix(n, ".go") || strings.HasSuffix(n, "_test.go") {
			continue
		}
		names = append(names, n)
	}
	sort.Strings(names)
	for _, n := range names {
		f, err := parser.ParseFile(s.fset, filepath.Join(dir, n), nil, parser.SkipObjectResolution)
		if err != nil {
			return nil, err
		}
		for _, d := range f.Decls {
			gd, ok := d.(*ast.GenDecl)
			if !ok || gd.Tok != token.CONST {
				continue
			}
			for _, sp := range gd.Specs {
				vs := sp.(*ast.ValueSpec)
				for i, nm := range vs.Names {
					cd := &constDef{file: f}
					if i < len(vs.Values) {
						cd.expr = vs.Values[i]
					} else {
						cd.iota = true // implicit repetition: not supported
					}
					s.consts[nm.Name] = cd
				}
			}
		}
	}
	ev.scopes[dir] = s
	return s, nil
}

func importPathOf(f *ast.File, name string) string {
	for _, im := range f.Imports {
		p, _ := strconv.Unquote(im.Path.Value)
		local := filepath.Base(p)
		if im.Name != nil {
			local = im.Name.Name
		}
		if local == name {
			return p
		}
	}
	return ""
}

var timeConsts = map[string]time.Duration{
	"Nanosecond": time.Nanosecond, "Microsecond": time.Microsecond, "Millisecond": time.Millisecond,
	"Second": time.Second, "Minute": time.Minute, "Hour": time.Hour,
}

func (ev *evaluator) eval(e ast.Expr, f *ast.File, sc *pkgScope, depth int) (constant.Value, error) {
	if depth > 40 {
		return nil, fmt.Errorf("constant expression too deep (cycle?)")
	}
	switch x := e.(type) {
	case *ast.BasicLit:
		if x.Kind != token.INT && x.Kind != token.FLOAT {
			return nil, fmt.Errorf("unsupported literal %s", x.Value)
		}
		return constant.MakeFromLiteral(x.Value, x.Kind, 0), nil
	case *ast.ParenExpr:
		return ev.eval(x.X, f, sc, depth+1)
	case *ast.UnaryExpr:
		v, err := ev.eval(x.X, f, sc, depth+1)
		if err != nil {
			return nil, err
		}
		if x.Op != token.SUB && x.Op != token.ADD {
			return nil, fmt.Errorf("unsupported unary operator %s", x.Op)
		}
		return constant.UnaryOp(x.Op, v, 0), nil
	case *ast.BinaryExpr:
		a, err := ev.eval(x.X, f, sc, depth+1)
		if err != nil {
			return nil, err
		}
		b, err := ev.eval(x.Y, f, sc, depth+1)
		if err != nil {
			return nil, err
		}
		op := x.Op
		switch op {
		case token.ADD, token.SUB, token.MUL:
		case token.QUO:
			if a.Kind() == constant.Int && b.Kind() == constant.Int {
				op = token.QUO_ASSIGN // integer division
			}
			if constant.Sign(b) == 0 {
				return nil, fmt.Errorf("division by zero")
			}
		default:
			return nil, fmt.Errorf("unsupported binary operator %s", op)
		}
		return constant.BinaryOp(a, op, b), nil
	case *ast.Ident:
		cd := sc.consts[x.Name]
		if cd == nil {
			return nil, fmt.Errorf("identifier %q is not a package-level constant of %s", x.Name, sc.dir)
		}
		if cd.iota || cd.expr == nil {
			return nil, fmt.Errorf("constant %q uses implicit repetition/iota (unsupported)", x.Name)
		}
		return ev.eval(cd.expr, cd.file, sc, depth+1)
	case *ast.SelectorExpr:
		pk, ok := x.X.(*ast.Ident)
		if !ok {
			return nil, fmt.Errorf("unsupported selector expression")
		}
		path := importPathOf(f, pk.Name)
		switch {
		case path == "time":
			d, ok := timeConsts[x.Sel.Name]
			if !ok {
				return nil, fmt.Errorf("time.%s is not a duration constant", x.Sel.Name)
			}
			return constant.MakeInt64(int64(d)), nil
		case strings.HasPrefix(path, arcModule+"/"):
			dir := filepath.Join(ev.root, strings.TrimPrefix(path, arcModule+"/"))
			s2, err := ev.scope(dir)
			if err != nil {
				return nil, err
			}
			cd := s2.consts[x.Sel.Name]
			if cd == nil || cd.iota || cd.expr == nil {
				return nil, fmt.Errorf("%s.%s is not a plain constant", pk.Name, x.Sel.Name)
			}
			return ev.eval(cd.expr, cd.file, s2, depth+1)
		}
		return nil, fmt.Errorf("cannot resolve %s.%s (import %q)", pk.Name, x.Sel.Name, path)
	case *ast.CallExpr:
		// conversions only: time.Duration(x), int64(x), int(x), float64(x)
		if len(x.Args) != 1 {
			return nil, fmt.Errorf("unsupported call in constant expression")
		}
		conv := ""
		switch fn := x.Fun.(type) {
		case *ast.Ident:
			conv = fn.Name
		case *ast.SelectorExpr:
			if pk, ok := fn.X.(*ast.Ident); ok && importPathOf(f, pk.Name) == "time" && fn.Sel.Name == "Duration" {
				conv = "int64"
			}
		}
		v, err := ev.eval(x.Args[0], f, sc, depth+1)
		if err != nil {
			return nil, err
		}
		switch conv {
		case "int64", "int":
			if v.Kind() == constant.Int {
				return v, nil
			}
			fv, _ := constant.Float64Val(v)
			return constant.MakeInt64(int64(fv)), nil
		case "float64":
			return constant.ToFloat(v), nil
		}
		return nil, fmt.Errorf("unsupported call in constant expression")
	}
	return nil, fmt.Errorf("unsupported expression kind %T", e)
}

func (ev *evaluator) duration(e ast.Expr, f *ast.File, sc *pkgScope) (time.Duration, error) {
	v, err := ev.eval(e, f, sc, 0)
	if err != nil {
		return 0, err
	}
	if v.Kind() != constant.Int {
		iv := constant.ToInt(v)
		if iv.Kind() != constant.Int {
			return 0, fmt.Errorf("expression does not evaluate to an integral duration (%s)", v)
		}
		v = iv
	}
	n, ok := constant.Int64Val(v)
	if !ok {
		return 0, fmt.Errorf("duration overflows int64")
	}
	return time.Duration(n), nil
}

func exprString(fset *token.FileSet, e ast.Expr) string {
	var b strings.Builder
	printer.Fprint(&b, fset, e)
	return b.String()
}

// isPkgCall reports whether call is <pkg with import path>.<fn>(...).
func isPkgCall(f *ast.File, call *ast.CallExpr, importPath, fn string) bool {
	se, ok := call.Fun.(*ast.SelectorExpr)
	if !ok || se.Sel.Name != fn {
		return false
	}
	pk, ok := se.X.(*ast.Ident)
	return ok && importPathOf(f, pk.Name) == importPath
}

func nonceCacheArg(f *ast.File, e ast.Expr) (ast.Expr, bool) {
	call, ok := e.(*ast.CallExpr)
	if !ok || len(call.Args) != 1 || !isPkgCall(f, call, arcModule+"/internal/cluster/security", "NewNonceCache") {
		return nil, false
	}
	return call.Args[0], true
}

// loadSites finds and evaluates the main.go construction sites.
func loadSites(root string) (*siteValues, error) {
	ev := &evaluator{root: root, scopes: map[string]*pkgScope{}}
	dir := filepath.Join(root, "cmd", "arc")
	sc, err := ev.scope(dir)
	if err != nil {
		return nil, err
	}
	mainPath := filepath.Join(dir, "main.go")
	f, err := parser.ParseFile(sc.fset, mainPath, nil, parser.SkipObjectResolution)
	if err != nil {
		return nil, err
	}
	const apiPath = arcModule + "/internal/api"
	sv := &siteValues{Root: root}
	var edge, cacheTTL, cacheTol []ast.Expr
	var serr error
	ast.Inspect(f, func(n ast.Node) bool {
		call, ok := n.(*ast.CallExpr)
		if !ok {
			return true
		}
		if isPkgCall(f, call, apiPath, "NewEdgeSyncHandler") && len(call.Args) == 1 {
			cl, ok := call.Args[0].(*ast.CompositeLit)
			if !ok {
				serr = fmt.Errorf("api.NewEdgeSyncHandler argument is not a composite literal")
				return true
			}
			for _, el := range cl.Elts {
				kv, ok := el.(*ast.KeyValueExpr)
				if !ok {
					continue
				}
				if k, ok := kv.Key.(*ast.Ident); ok && k.Name == "Replay" {
					arg, ok := nonceCacheArg(f, kv.Value)
					if !ok {
						serr = fmt.Errorf("EdgeSyncHandlerConfig.Replay is not a direct security.NewNonceCache(...) call: %s", exprString(sc.fset, kv.Value))
						return true
					}
					edge = append(edge, arg)
				}
			}
		}
		if isPkgCall(f, call, apiPath, "NewCacheInvalidateHandler") {
			if len(call.Args) != 7 {
				serr = fmt.Errorf("api.NewCacheInvalidateHandler has %d arguments, 7 expected", len(call.Args))
				return true
			}
			arg, ok := nonceCacheArg(f, call.Args[3])
			if !ok {
				serr = fmt.Errorf("nonce cache argument of api.NewCacheInvalidateHandler is not a direct security.NewNonceCache(...) call: %s", exprString(sc.fset, call.Args[3]))
				return true
			}
			cacheTTL = append(cacheTTL, arg)
			cacheTol = append(cacheTol, call.Args[4])
		}
		return true
	})
	if serr != nil {
		return nil, serr
	}
	if len(edge) != 1 || len(cacheTTL) != 1 {
		return nil, fmt.Errorf("expected exactly one edge-sync and one cache-invalidate NonceCache construction site in %s, found %d and %d", mainPath, len(edge), len(cacheTTL))
	}
	sv.EdgeSyncExpr, sv.CacheTTLExpr, sv.CacheTolExpr = exprString(sc.fset, edge[0]), exprString(sc.fset, cacheTTL[0]), exprString(sc.fset, cacheTol[0])
	if sv.EdgeSyncTTL, err = ev.duration(edge[0], f, sc); err != nil {
		return nil, fmt.Errorf("edge-sync nonce retention %q: %w", sv.EdgeSyncExpr, err)
	}
	if sv.CacheInvTTL, err = ev.duration(cacheTTL[0], f, sc); err != nil {
		return nil, fmt.Errorf("cache-invalidate nonce retention %q: %w", sv.CacheTTLExpr, err)
	}
	if sv.CacheInvTol, err = ev.duration(cacheTol[0], f, sc); err != nil {
		return nil, fmt.Errorf("cache-invalidate tolerance %q: %w", sv.CacheTolExpr, err)
	}
	return sv, nil
}
