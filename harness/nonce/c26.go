//go:build verif

package main

// C26 — nonce-protected cluster requests cannot be replayed.
//
// Workload: signed requests of the five nonce-protected message types with a
// timestamp offset inside, at the edges of and outside the tolerance (both
// directions), delivered to the real receivers and re-delivered byte for byte
// at chosen times: immediately, concurrently, around the expiry of the nonce
// entry, around the end of the freshness window, after wall-clock steps.
// Every run starts with freshly constructed receivers; in a share of the runs
// the first requests a receiver handles in its life arrive together (cold
// start: every peer reconnects at once, a frame is duplicated on the wire).
// The HTTP message types travel over simulated server connections (world.go:
// one fasthttp RequestCtx per connection, reused for every request of that
// connection as fasthttp does), with other traffic - the peers' next
// legitimate requests, unauthenticated junk - on the same connections between
// a request and its replay; a replay may come over any connection and with
// its header fields in any order.
// Oracle (property text only): per (type, sender, nonce) at most one delivery
// is accepted; a delivery whose timestamp is outside the window is rejected.

import (
	"encoding/json"
	"fmt"
	"os"
	"sort"
	"strings"
	"time"

	"github.com/basekick-labs/arc/internal/simrt"
	"github.com/basekick-labs/arc/internal/verifsim/simkit"
)

type Msg struct {
	Type   string `json:"type"`
	Sender int    `json:"sender"`
	OffPm  int    `json:"off_pm"`  // signed timestamp offset at first send: permille of the type's tolerance ...
	OffSec int    `json:"off_sec"` // ... plus this many seconds (positive = future-dated)
}

type Op struct {
	Op     string `json:"op"`               // send | wait | until | step | traffic
	Msgs   []int  `json:"msgs,omitempty"`   // send: requests delivered concurrently (an index may repeat)
	Conns  []int  `json:"conns,omitempty"`  // send: per delivery, the HTTP connection it arrives on (absent = 0)
	Orders []int  `json:"orders,omitempty"` // send: per delivery, the order of its header fields (absent/0 = canonical)
	// traffic: one other request on HTTP connection Conn: a fresh, correctly
	// signed request of message type Typ from sender Sender that is never
	// replayed or (Junk) a request with the same header fields and worthless values
	Typ    string `json:"typ,omitempty"`
	Sender int    `json:"sender,omitempty"`
	Conn   int    `json:"conn,omitempty"`
	Order  int    `json:"order,omitempty"`
	Junk   bool   `json:"junk,omitempty"`
	Ref    string `json:"ref,omitempty"` // wait/step: sec|tol|ttl   until: nonce_expiry|win_end|win_start
	RefMsg int    `json:"ref_msg"`
	Pm     int    `json:"pm,omitempty"` // permille of Ref
	Sec    int    `json:"sec,omitempty"`
	Ms     int    `json:"ms,omitempty"`
	Sleep  bool   `json:"sleep,omitempty"` // wait by sleeping (background tasks run) instead of a clock jump
}

type C26Plan struct {
	Msgs       []Msg  `json:"msgs"`
	Ops        []Op   `json:"ops"`
	HCInterval int    `json:"hc_interval_s"` // coordinator health-check/heartbeat interval (background tasks)
	Salt       uint32 `json:"salt"`
}

// ---------------------------------------------------------------------------
// calibration: what the running configuration of this build is

type typeCal struct{ Tol, TTL time.Duration }

var calib struct {
	types         map[string]typeCal
	syncRejectErr string
	syncAcceptErr string
}
var sites *siteValues

// calibrate runs once per process: it builds every receiver, sends one
// fresh, correctly signed request per type and learns (a) the tolerance the
// handler passes to its validator, (b) the retention of the guarding cache,
// (c) how the sync handshake answers an unauthenticated request. These are
// constants of the build; plans are expressed relative to them.
func calibrate() {
	var err error
	sites, err = loadSites(repoRoot())
	if err != nil {
		fmt.Fprintf(os.Stderr, "HARNESS-ERROR nonce: cannot read the NonceCache construction sites of cmd/arc/main.go: %v\n", err)
		os.Exit(2)
	}
	calib.types = map[string]typeCal{}
	cfg := simrt.DefaultConfig(0xC26)
	res := simrt.Run(cfg, func() {
		hub := simrt.NodeOf("hub")
		simrt.Join(simrt.GoOn("calibrate", hub, func() {
			en := map[string]bool{}
			for _, t := range allTypes {
				en[t] = true
			}
			w := buildWorld(en, 3600)
			defer w.close()
			now := simrt.Now().Unix()
			// unauthenticated sync request: same frame, MAC of another secret
			bad := w.sign(tSync, 0, 900, nonceFor(0, 900), now)
			good := w.sign(tSync, 0, 901, nonceFor(0, 901), now)
			bad.wire = []byte(strings.Replace(string(bad.wire), bad.nonce, nonceFor(0, 902), 1)) // nonce no longer matches the MAC
			calib.syncRejectErr = w.send(bad).syncErr
			calib.syncAcceptErr = w.send(good).syncErr
			if calib.syncRejectErr == calib.syncAcceptErr {
				harnessFail("sync handshake answers a request with a wrong MAC and a correct one identically (%q)", calib.syncAcceptErr)
			}
			for i, t := range allTypes {
				rq := w.sign(t, 0, 910+i, nonceFor(0, 910+i), simrt.Now().Unix())
				if !accepted(t, w.send(rq)) {
					harnessFail("calibration: a fresh correctly signed %s request was rejected", t)
				}
				tol, ok := w.tolSeen[rq.nonce]
				if !ok {
					harnessFail("calibration: handler of %s did not call its validator", t)
				}
				calib.types[t] = typeCal{Tol: tol, TTL: w.ttlOf(t)}
			}
		}))
	})
	if res.Outcome != "ok" || len(res.Panics) > 0 {
		fmt.Fprintf(os.Stderr, "HARNESS-ERROR nonce: calibration run failed: %s %v\n", res.Outcome, res.Panics)
		os.Exit(2)
	}
	for _, t := range allTypes {
		c := calib.types[t]
		if c.Tol < time.Second || c.TTL <= 0 {
			fmt.Fprintf(os.Stderr, "HARNESS-ERROR nonce: implausible configuration for %s: tolerance %v retention %v\n", t, c.Tol, c.TTL)
			os.Exit(2)
		}
	}
	if os.Getenv("VERIF_LOG") != "" || os.Getenv("VERIF_REPLAY_VERBOSE") != "" {
		for _, t := range allTypes {
			fmt.Fprintf(os.Stderr, "calibration %-8s tolerance=%v retention=%v\n", t, calib.types[t].Tol, calib.types[t].TTL)
		}
		fmt.Fprintf(os.Stderr, "sites: edge-sync NewNonceCache(%s)=%v cache-invalidate NewNonceCache(%s)=%v tolerance(%s)=%v\n",
			sites.EdgeSyncExpr, sites.EdgeSyncTTL, sites.CacheTTLExpr, sites.CacheInvTTL, sites.CacheTolExpr, sites.CacheInvTol)
	}
}

// ---------------------------------------------------------------------------
// generation

func genOffset(r *simrt.Rand) (pm, sec int) {
	switch k := r.Intn(100); {
	case k < 25: // about now
		return 0, r.Range(-2, 2)
	case k < 45: // anywhere inside
		return r.Range(-1000, 1000), 0
	case k < 70: // at the edges, both directions
		pm = 1000
		if r.Chance(50) {
			pm = -1000
		}
		return pm, r.Range(-2, 2)
	case k < 85: // clearly future-dated, inside
		return r.Range(300, 1000), r.Range(-2, 0)
	default: // outside
		pm = r.Range(1000, 1600)
		sec = r.Range(1, 5)
		if r.Chance(50) {
			pm, sec = -pm, -sec
		}
		return pm, sec
	}
}

// script returns the ops of one request (index i). With replayOnly the
// request's first delivery happens elsewhere (cold-start burst) and the script
// only holds what follows it.
func script(r *simrt.Rand, i int, m Msg, replayOnly bool) []Op {
	send := func(n int) Op {
		o := Op{Op: "send"}
		for k := 0; k < n; k++ {
			o.Msgs = append(o.Msgs, i)
		}
		return o
	}
	until := func(ref string, sec, ms int) Op { return Op{Op: "until", Ref: ref, RefMsg: i, Sec: sec, Ms: ms} }
	aroundExpiry := func() Op {
		switch r.Intn(6) {
		case 0:
			return until("nonce_expiry", -1-r.Intn(3), r.Intn(1000))
		case 1:
			return until("nonce_expiry", 0, -1-r.Intn(50))
		case 2:
			return until("nonce_expiry", 0, r.Intn(50))
		case 3:
			return until("nonce_expiry", 0, 200+r.Intn(800))
		case 4:
			return until("nonce_expiry", 1+r.Intn(3), r.Intn(1000))
		default:
			return until("nonce_expiry", r.Range(3, 120), r.Intn(1000))
		}
	}
	smallWait := func() Op {
		return Op{Op: "wait", Ref: "sec", RefMsg: i, Sec: r.Intn(3), Ms: r.Intn(1000), Sleep: r.Chance(30)}
	}
	var ops []Op
	k := r.Intn(9)
	if k == 8 && !isHTTPType(m.Type) {
		k = 0
	}
	switch k {
	case 8: // the connection that carried the request carries other requests before the replay arrives
		ops = []Op{send(1)}
		for n := 1 + r.Intn(3); n > 0; n-- {
			// Conn -1: the connection of this request's latest delivery (resolved in genC26)
			ops = append(ops, Op{Op: "traffic", Typ: m.Type, Sender: m.Sender, Conn: -1, RefMsg: i, Junk: true})
			if r.Chance(30) {
				ops = append(ops, smallWait())
			}
		}
		if r.Chance(30) {
			ops = append(ops, Op{Op: "wait", Ref: "tol", RefMsg: i, Pm: r.Intn(900), Ms: r.Intn(1000)})
		}
		ops = append(ops, send(1))
	case 0: // immediate replay
		ops = []Op{send(1), smallWait(), send(1)}
	case 1: // replay around the expiry of the nonce entry
		ops = []Op{send(1), aroundExpiry(), send(1)}
		if r.Chance(40) {
			ops = append(ops, aroundExpiry(), send(1))
		}
	case 2: // replay around the end of the freshness window
		ops = []Op{send(1), until("win_end", r.Range(-2, 2), r.Intn(1000)), send(1)}
	case 3: // random delays
		ops = []Op{send(1)}
		for k := 0; k < 1+r.Intn(3); k++ {
			ops = append(ops, Op{Op: "wait", Ref: []string{"tol", "ttl"}[r.Intn(2)], RefMsg: i, Pm: r.Intn(1500), Ms: r.Intn(1000), Sleep: r.Chance(25)}, send(1))
		}
	case 4: // concurrent duplicates, then a late replay
		ops = []Op{send(2 + r.Intn(2))}
		if r.Chance(60) {
			ops = append(ops, aroundExpiry(), send(1+r.Intn(2)))
		}
	case 5: // arrives before its window opens, is retried when it opens, replayed later
		ops = []Op{send(1), until("win_start", r.Range(-2, 1), r.Intn(1000)), send(1), aroundExpiry(), send(1)}
	case 6: // long tail: replays every ~retention
		ops = []Op{send(1)}
		for k := 0; k < 3; k++ {
			ops = append(ops, Op{Op: "wait", Ref: "ttl", RefMsg: i, Pm: r.Range(300, 1200), Ms: r.Intn(1000), Sleep: r.Chance(20)}, send(1))
		}
	default: // single delivery near a window edge, replay at the other edge
		ops = []Op{until("win_start", r.Range(-1, 1), r.Intn(1000)), send(1), until("win_end", r.Range(-1, 2), r.Intn(1000)), send(1)}
	}
	if replayOnly {
		if ops[0].Op == "send" {
			ops = ops[1:]
		}
		has := false
		for _, o := range ops {
			has = has || o.Op == "send"
		}
		if !has {
			ops = append(ops, smallWait(), send(1))
		}
	}
	return ops
}

// fullConnModePct: share of the plans with HTTP requests that run in full
// connection mode (see genC26).
const fullConnModePct = 1

// maxConns bounds the connection indices a plan may name.
const maxConns = 64

func isHTTPType(t string) bool { return t == tCacheInv || t == tEdgeFile || t == tEdgeRec }

// receiverOf groups the message types by the replay cache that guards them.
func receiverOf(t string) string {
	switch t {
	case tSync, tForward:
		return "coordinator"
	case tCacheInv:
		return "cacheinv"
	default:
		return "edgesync"
	}
}

var coordTypes = []string{tSync, tForward}

func genC26(r *simrt.Rand, tier string) any {
	p := &C26Plan{Salt: uint32(r.Intn(1 << 30)), HCInterval: []int{5, 30, 3600}[r.Intn(3)]}
	var enabled []string
	for _, t := range allTypes {
		if r.Chance(40) {
			enabled = append(enabled, t)
		}
	}
	if len(enabled) == 0 {
		enabled = []string{allTypes[r.Intn(len(allTypes))]}
	}
	nm := 1 + r.Intn(4)
	if tier == "thorough" && r.Chance(50) {
		nm = 3 + r.Intn(4) // more requests: more eviction sweeps and interleavings per run
	}
	// Cold start: the very first requests of a receiver's life are delivered
	// concurrently (2-4 deliveries: a request, often its wire duplicate, often
	// requests of other senders / the other message type behind the same
	// guard), everything else - in particular the replays of exactly these
	// requests - follows. The coordinator is the one receiver whose replay
	// guard is constructed by arc code under test at a time of arc's choosing
	// (the HTTP handlers get theirs passed in), so it is favoured here.
	burst := r.Chance(35)
	inBurst := map[int]bool{}
	var burstOp Op
	if burst {
		burstOp = Op{Op: "send", Msgs: []int{0}}
		inBurst[0] = true
		if r.Chance(70) {
			burstOp.Msgs = append(burstOp.Msgs, 0)
		}
		for i := 1; i < nm && len(burstOp.Msgs) < 4; i++ {
			if r.Chance(60) {
				burstOp.Msgs = append(burstOp.Msgs, i)
				inBurst[i] = true
			}
		}
		if len(burstOp.Msgs) == 1 {
			burstOp.Msgs = append(burstOp.Msgs, 0)
		}
		perm := r.Perm(len(burstOp.Msgs))
		ms := make([]int, len(perm))
		for k, j := range perm {
			ms[k] = burstOp.Msgs[j]
		}
		burstOp.Msgs = ms
	}
	scripts := make([][]Op, nm)
	for i := 0; i < nm; i++ {
		m := Msg{Type: enabled[r.Intn(len(enabled))], Sender: r.Intn(2)}
		m.OffPm, m.OffSec = genOffset(r)
		if inBurst[i] {
			if i == 0 && r.Chance(75) {
				m.Type = coordTypes[r.Intn(len(coordTypes))]
			}
			if i > 0 && r.Chance(70) {
				// same guard as request 0
				switch receiverOf(p.Msgs[0].Type) {
				case "coordinator":
					m.Type = coordTypes[r.Intn(len(coordTypes))]
				case "edgesync":
					m.Type = []string{tEdgeFile, tEdgeRec}[r.Intn(2)]
				default:
					m.Type = p.Msgs[0].Type
				}
			}
			if r.Chance(60) {
				m.OffPm, m.OffSec = 0, r.Range(-2, 2)
			}
		}
		p.Msgs = append(p.Msgs, m)
		scripts[i] = script(r, i, m, inBurst[i])
	}
	// initial phase: sub-second position and distance to the first eviction sweep
	p.Ops = append(p.Ops, Op{Op: "wait", Ref: "sec", Sec: r.Intn(90), Ms: r.Intn(1000)})
	if burst {
		p.Ops = append(p.Ops, burstOp)
	}
	// interleave the scripts, keeping each script's order
	for {
		var live []int
		for i, s := range scripts {
			if len(s) > 0 {
				live = append(live, i)
			}
		}
		if len(live) == 0 {
			break
		}
		i := live[r.Intn(len(live))]
		p.Ops = append(p.Ops, scripts[i][0])
		scripts[i] = scripts[i][1:]
	}
	// merge adjacent sends of different requests into one concurrent delivery sometimes
	if r.Chance(30) {
		var ops []Op
		for _, o := range p.Ops {
			if n := len(ops); n > 0 && o.Op == "send" && ops[n-1].Op == "send" && o.Conns == nil && ops[n-1].Conns == nil && len(ops[n-1].Msgs)+len(o.Msgs) <= 4 && r.Chance(60) {
				ops[n-1].Msgs = append(append([]int(nil), ops[n-1].Msgs...), o.Msgs...)
				continue
			}
			ops = append(ops, o)
		}
		p.Ops = ops
	}
	// HTTP connections: which connection a delivery arrives on, the order of
	// its header fields, and what else those connections carry in between.
	//
	// Usual mode: every signed request arrives on a connection of its own (a
	// peer that does not keep connections alive, a replaying attacker), and what
	// follows on a used connection is junk, which never gets as far as the replay
	// check. Full mode: few connections, signed requests and junk on any of them.
	// Full mode is kept rare for one reason only: a signed request that reaches
	// the replay check through a RequestCtx that has carried an accepted request
	// before makes a receiver that wrongly kept references into request buffers
	// behave according to the per-map random hash seed of the Go runtime, and the
	// verdict machinery (vcheck) rightly refuses batches that do not reproduce.
	// In the usual mode such a receiver misbehaves reproducibly.
	var httpTypes []string
	seenT := map[string]bool{}
	for _, m := range p.Msgs {
		if isHTTPType(m.Type) && !seenT[m.Type] {
			seenT[m.Type] = true
			httpTypes = append(httpTypes, m.Type)
		}
	}
	if len(httpTypes) > 0 {
		full := r.Chance(fullConnModePct)
		nconn, next := 1+r.Intn(3), 0
		pick := func() int {
			if full {
				return r.Intn(nconn)
			}
			next++
			return next - 1
		}
		trafficPct := []int{0, 15, 40}[r.Intn(3)]
		lastConn := map[int]int{}
		var ops []Op
		for _, o := range p.Ops {
			switch o.Op {
			case "traffic": // from a script
				if c, ok := lastConn[o.RefMsg]; ok && o.Conn < 0 {
					o.Conn = c
				} else {
					o.Conn = pick()
				}
				o.RefMsg = 0
				if full {
					o.Junk = r.Chance(40)
					if r.Chance(30) {
						o.Sender = r.Intn(2)
					}
				}
				if r.Chance(20) {
					o.Order = r.Intn(6)
				}
				ops = append(ops, o)
				continue
			case "send":
			default:
				ops = append(ops, o)
				continue
			}
			o.Conns, o.Orders = nil, nil
			anyHTTP := false
			for _, mi := range o.Msgs {
				c, ord := 0, 0
				if isHTTPType(p.Msgs[mi].Type) {
					anyHTTP = true
					c = pick()
					if r.Chance(25) {
						ord = 1 + r.Intn(5)
					}
					lastConn[mi] = c
				}
				o.Conns, o.Orders = append(o.Conns, c), append(o.Orders, ord)
			}
			if !anyHTTP {
				o.Conns, o.Orders = nil, nil
			}
			ops = append(ops, o)
			for k, mi := range o.Msgs {
				m := p.Msgs[mi]
				if !isHTTPType(m.Type) || !r.Chance(trafficPct) {
					continue
				}
				t := Op{Op: "traffic", Typ: m.Type, Sender: m.Sender, Conn: o.Conns[k], Order: o.Orders[k], Junk: true}
				if r.Chance(30) {
					t.Typ = httpTypes[r.Intn(len(httpTypes))]
				}
				if r.Chance(30) {
					t.Sender = r.Intn(2)
				}
				if r.Chance(15) {
					t.Order = r.Intn(6)
				}
				switch {
				case full:
					t.Junk = r.Chance(40)
					if r.Chance(20) {
						t.Conn = r.Intn(nconn)
					}
				case r.Chance(35):
					// another peer's signed request, on a connection of its own
					t.Junk, t.Conn = false, pick()
				}
				ops = append(ops, t)
			}
		}
		p.Ops = ops
	}
	// wall-clock steps of the receiver (fault)
	if r.Chance(20) {
		for k := 0; k < 1+r.Intn(2); k++ {
			st := Op{Op: "step", Ref: "tol", RefMsg: r.Intn(nm), Pm: r.Range(-1500, 1500), Sec: r.Range(-3, 3)}
			if r.Chance(40) {
				st = Op{Op: "step", Ref: "sec", RefMsg: 0, Sec: r.Range(-5, 5), Ms: r.Intn(1000)}
			}
			at := 1 + r.Intn(len(p.Ops))
			p.Ops = append(p.Ops[:at], append([]Op{st}, p.Ops[at:]...)...)
		}
	}
	if len(p.Ops) > 40 {
		p.Ops = p.Ops[:40]
	}
	return p
}

// ---------------------------------------------------------------------------
// execution

type delivery struct {
	op                 int
	startSim, endSim   int64
	startWall, endWall int64 // receiver wall clock (ns) when the request arrived / was answered
	accepted           bool
	tol                time.Duration // tolerance the handler passed to the validator for this request
	stepsBefore        int           // receiver clock steps that happened before this delivery
	conn, order        int           // HTTP: connection it arrived on, order of its header fields
	served             int           // HTTP: requests parsed on that connection up to and including this one
	reusedConn         bool          // HTTP: the connection had carried requests before this one
	afterReuse         bool          // HTTP: see probe.replay_after_connection_reuse
}

type msgState struct {
	rq         *request
	deliveries []delivery
	acceptWall int64 // receiver wall clock at the end of the first accepted delivery
	hasAccept  bool
	accConn    int // HTTP: connection, header order of the first accepted delivery and the
	accOrder   int // number of requests that connection had parsed when it was done
	accServed  int
}

func runC26(planAny any, cfg simrt.Config) *simkit.Outcome {
	p := planAny.(*C26Plan)
	out := &simkit.Outcome{}
	for i, m := range p.Msgs {
		if _, ok := calib.types[m.Type]; !ok || m.Sender < 0 || m.Sender > 1 {
			panic(fmt.Sprintf("HARNESS-ERROR nonce: bad plan message %d", i))
		}
	}
	st := make([]*msgState, len(p.Msgs))
	for i := range st {
		st[i] = &msgState{}
	}
	var w *world
	var invalidations, cacheAccepts, traffic int64
	steps := 0
	type wallSample struct{ sim, wall int64 }
	var samples []wallSample   // receiver wall clock at op boundaries (it is monotonic in between)
	var backSteps []wallSample // backward receiver clock steps: sim time, size (negative)
	res := simrt.Run(cfg, func() {
		hub := simrt.NodeOf("hub")
		hubWall := func() int64 { return cfg.EpochNs + simrt.SimNow() + hub.WallOffset }
		types := map[string]bool{}
		for _, m := range p.Msgs {
			types[m.Type] = true
		}
		simrt.Join(simrt.GoOn("boot", hub, func() { w = buildWorld(types, p.HCInterval) }))
		if w == nil {
			return // boot task panicked; reported through res.Panics
		}
		defer w.close()
		advance := func(d time.Duration, sleep bool) {
			if d <= 0 {
				return
			}
			if sleep {
				simrt.Sleep(d)
			} else {
				simrt.AdvanceClock(d)
				simrt.Yield()
			}
		}
		refDur := func(o Op) time.Duration {
			var unit time.Duration
			switch o.Ref {
			case "tol":
				unit = calib.types[p.Msgs[o.RefMsg].Type].Tol
			case "ttl":
				unit = w.ttlOf(p.Msgs[o.RefMsg].Type)
			default:
				unit = 0
			}
			return time.Duration(int64(unit)/1000*int64(o.Pm)) + time.Duration(o.Sec)*time.Second + time.Duration(o.Ms)*time.Millisecond
		}
		for oi, o := range p.Ops {
			if o.RefMsg < 0 || o.RefMsg >= len(p.Msgs) {
				continue
			}
			samples = append(samples, wallSample{simrt.SimNow(), hubWall()})
			switch o.Op {
			case "wait":
				d := refDur(o)
				simrt.Event("WAIT %d sleep=%v", int64(d), o.Sleep)
				advance(d, o.Sleep)
			case "step":
				d := refDur(o)
				if d != 0 {
					samples = append(samples, wallSample{simrt.SimNow(), hubWall()})
					simrt.StepWall(hub, d)
					steps++
					if d < 0 {
						backSteps = append(backSteps, wallSample{simrt.SimNow(), int64(d)})
					}
					samples = append(samples, wallSample{simrt.SimNow(), hubWall()})
				}
			case "until":
				ms := st[o.RefMsg]
				m := p.Msgs[o.RefMsg]
				tolS := int64(calib.types[m.Type].Tol / time.Second)
				var anchor int64
				switch o.Ref {
				case "nonce_expiry":
					if !ms.hasAccept {
						continue
					}
					anchor = ms.acceptWall + int64(w.ttlOf(m.Type))
				case "win_end":
					if ms.rq == nil {
						continue
					}
					anchor = (ms.rq.ts + tolS) * int64(time.Second)
				case "win_start":
					if ms.rq == nil {
						// not signed yet: the window is defined by the first send; sign now
						ms.rq = signMsg(w, p, o.RefMsg, hubWall())
					}
					anchor = (ms.rq.ts - tolS) * int64(time.Second)
				default:
					continue
				}
				target := anchor + int64(o.Sec)*int64(time.Second) + int64(o.Ms)*int64(time.Millisecond)
				d := time.Duration(target - hubWall())
				simrt.Event("UNTIL %s m=%d adv=%d", o.Ref, o.RefMsg, int64(d))
				advance(d, o.Sleep)
			case "send":
				var tasks []*simrt.Task
				var held []*httpConn
				type slot struct {
					mi int
					d  delivery
				}
				slots := make([]*slot, 0, len(o.Msgs))
				for k, mi := range o.Msgs {
					if mi < 0 || mi >= len(p.Msgs) {
						continue
					}
					ms := st[mi]
					if ms.rq == nil {
						ms.rq = signMsg(w, p, mi, hubWall())
					}
					sl := &slot{mi: mi}
					slots = append(slots, sl)
					rq := ms.rq
					var hc *httpConn
					order := 0
					if isHTTPType(rq.typ) {
						c := 0
						if k < len(o.Conns) {
							c = o.Conns[k]
						}
						if k < len(o.Orders) {
							order = o.Orders[k]
						}
						hc = w.acquireConn(c % maxConns)
						held = append(held, hc)
					}
					tasks = append(tasks, simrt.GoOn("deliver", hub, func() {
						sl.d = delivery{op: oi, startSim: simrt.SimNow(), startWall: simrt.Now().UnixNano(), stepsBefore: steps}
						var r response
						if hc != nil {
							sl.d.conn, sl.d.order, sl.d.reusedConn = hc.idx, order, hc.served > 0
							if ms.hasAccept {
								// a replay that arrives after the connection (RequestCtx) that carried
								// the accepted original has parsed other requests, and does not itself
								// come through that connection with the same header order
								sl.d.afterReuse = w.servedOn(ms.accConn) > ms.accServed && (hc.idx != ms.accConn || order != ms.accOrder)
							}
							r = w.sendHTTP(rq, hc, order)
							sl.d.served = hc.served
						} else {
							r = w.send(rq)
						}
						sl.d.accepted = accepted(rq.typ, r)
						sl.d.endSim, sl.d.endWall = simrt.SimNow(), simrt.Now().UnixNano()
						sl.d.tol = w.tolSeen[rq.nonce]
						simrt.Event("DELIVER m=%d %s accepted=%v", sl.mi, rq.typ, sl.d.accepted)
					}))
				}
				for _, t := range tasks {
					simrt.Join(t)
				}
				for _, hc := range held {
					w.releaseConn(hc)
				}
				for _, sl := range slots {
					ms := st[sl.mi]
					if sl.d.endSim == 0 && sl.d.startSim == 0 {
						continue // task died (panic is reported separately)
					}
					ms.deliveries = append(ms.deliveries, sl.d)
					if sl.d.accepted && !ms.hasAccept {
						ms.hasAccept, ms.acceptWall = true, sl.d.endWall
						ms.accConn, ms.accOrder, ms.accServed = sl.d.conn, sl.d.order, sl.d.served
					}
				}
			case "traffic":
				if !isHTTPType(o.Typ) || !types[o.Typ] || o.Sender < 0 || o.Sender > 1 {
					continue
				}
				hc := w.acquireConn(o.Conn % maxConns)
				simrt.Join(simrt.GoOn("traffic", hub, func() {
					idx := 10000 + oi
					rq := w.sign(o.Typ, o.Sender, idx, nonceFor(p.Salt, idx), simrt.Now().Unix())
					if o.Junk {
						// same fields, same lengths, nothing valid in them: what anybody who
						// can reach the port can send
						for k, v := range rq.hdr {
							rq.hdr[k] = strings.Repeat("0", len(v))
						}
					}
					st := w.sendHTTP(rq, hc, o.Order).status
					traffic++
					ok := false
					if !o.Junk {
						ok = accepted(o.Typ, response{status: st})
						if ok && o.Typ == tCacheInv {
							cacheAccepts++
						}
					}
					simrt.Event("TRAFFIC %s conn=%d junk=%v status=%d", o.Typ, hc.idx, o.Junk, st)
				}))
				w.releaseConn(hc)
			}
		}
		invalidations = w.invalidations
		// a coordinator that has accepted nonce-protected requests and holds no
		// replay cache at all: nothing the harness learned about retention applies
		if w.coord != nil && w.coord.VerifNonceCache() == nil {
			for mi, ms := range st {
				if t := p.Msgs[mi].Type; ms.hasAccept && (t == tSync || t == tForward) {
					harnessFail("the coordinator accepted a %s request and holds no nonce cache afterwards", t)
				}
			}
		}
	})
	out.Absorb(res)
	if len(res.Panics) > 0 {
		panic("HARNESS-ERROR nonce: task panicked: " + res.Panics[0])
	}
	if res.Outcome != "ok" {
		return out
	}

	// ------------------------------------------------------------------ oracle
	replays, outside, afterReuse := 0, 0, 0
	for mi, ms := range st {
		if ms.rq == nil {
			continue
		}
		m := p.Msgs[mi]
		typ := m.Type
		ttl := int64(calib.types[typ].TTL)
		var acc []delivery
		for di, d := range ms.deliveries {
			tol := d.tol
			if tol == 0 {
				tol = calib.types[typ].Tol // handler never reached its validator for this request
			}
			tsNs := ms.rq.ts * int64(time.Second)
			// The timestamp has one-second granularity: it can denote any instant of
			// [ts, ts+1s). "Outside the window" = outside for every such instant.
			stalePast := d.startWall-tsNs >= int64(tol)+int64(time.Second)
			staleFuture := tsNs-d.endWall > int64(tol)
			if stalePast || staleFuture {
				outside++
			}
			if di > 0 {
				replays++
			}
			if d.afterReuse {
				afterReuse++
			}
			if d.accepted {
				acc = append(acc, d)
				if typ == tCacheInv {
					cacheAccepts++
				}
				if stalePast {
					out.Violate("C26.stale-accepted.past."+typ, "%s request of %s accepted %.3fs after its signed timestamp; the handler's tolerance is %v (request %d, delivery %d)",
						typ, ms.rq.sender, float64(d.startWall-tsNs)/1e9, tol, mi, di)
				}
				if staleFuture {
					out.Violate("C26.stale-accepted.future."+typ, "%s request of %s accepted %.3fs before its signed timestamp; the handler's tolerance is %v (request %d, delivery %d)",
						typ, ms.rq.sender, float64(tsNs-d.endWall)/1e9, tol, mi, di)
				}
			}
			// driver sanity: the very first delivery of a request that is comfortably
			// inside the window must get through, otherwise nothing here means anything
			if di == 0 && !d.accepted {
				margin := int64(2 * time.Second)
				inside := d.endWall-tsNs <= int64(tol)-margin && tsNs-d.startWall <= int64(tol)-margin
				sibling := false
				for _, e := range ms.deliveries {
					if e.op == d.op && e.accepted {
						sibling = true
					}
				}
				reused := false
				for _, e := range ms.deliveries {
					reused = reused || (e.op == d.op && e.reusedConn)
				}
				if inside && !sibling && int64(tol) > 2*margin && reused {
					// The request (or a concurrent copy of it) was parsed by a RequestCtx that
					// had parsed others before. Its rejection is not an accept, so the property
					// has nothing to say, and it is not provably the driver's doing either (a
					// receiver confused by buffer reuse does this): counted, not fatal.
					out.Stats["note.fresh_first_delivery_rejected_on_reused_connection"]++
				} else if inside && !sibling && int64(tol) > 2*margin {
					panic(fmt.Sprintf("HARNESS-ERROR nonce: first delivery of a fresh, correctly signed %s request (offset %.3fs, tolerance %v) was rejected (request %d; plan %s)", typ, float64(tsNs-d.startWall)/1e9, tol, mi, planJSON(p)))
				}
			}
		}
		sort.SliceStable(acc, func(i, j int) bool { return acc[i].startSim < acc[j].startSim })
		for k := 0; k+1 < len(acc); k++ {
			a1, a2 := acc[k], acc[k+1]
			// A backward step of the receiver's clock un-ages timestamps. No finite
			// retention survives that: once the clock has legitimately passed the
			// configured retention of the entry and is then set back, the fault - not
			// arc - permits the second accept. Anything else stays a violation.
			backward, peak := false, a2.startWall
			for _, b := range backSteps {
				if b.sim >= a1.endSim && b.sim <= a2.startSim {
					backward = true
				}
			}
			for _, sm := range samples {
				if sm.sim >= a1.endSim && sm.sim <= a2.startSim && sm.wall > peak {
					peak = sm.wall
				}
			}
			if backward && peak-a1.startWall >= ttl {
				out.Stats["probe.double_accept_excused_by_backward_clock_step"]++
				continue
			}
			circ := ""
			switch {
			case a2.startSim < a1.endSim && a1.startSim < a2.endSim:
				circ = "concurrent-duplicates"
			case a2.endWall-a1.startWall >= ttl && a2.startWall-ms.rq.ts*int64(time.Second) >= int64(max(a2.tol, calib.types[typ].Tol))+int64(time.Second):
				// the replay was outside the window as well (also reported as stale-accepted)
				circ = "nonce-retention-expired-outside-window"
			case a2.endWall-a1.startWall >= ttl && a2.startWall-ms.rq.ts*int64(time.Second) > int64(max(a2.tol, calib.types[typ].Tol)):
				// the replay arrived in the last (partial) second in which the
				// second-granular freshness check still passes
				circ = "nonce-retention-expired-in-final-truncated-second"
			case a2.endWall-a1.startWall >= ttl:
				circ = "nonce-retention-expired-inside-window"
			default:
				circ = "within-nonce-retention"
			}
			stepNote := ""
			if a2.stepsBefore > a1.stepsBefore {
				stepNote = fmt.Sprintf("; %d receiver clock step(s) in between", a2.stepsBefore-a1.stepsBefore)
			}
			if isHTTPType(typ) {
				stepNote += fmt.Sprintf("; first on HTTP connection %d (request no. %d there, header order %d), replay on connection %d (request no. %d there, header order %d)",
					a1.conn, a1.served, a1.order, a2.conn, a2.served, a2.order)
				if a2.afterReuse {
					stepNote += ", after the first one's connection had parsed other requests"
				}
			}
			tsNs := ms.rq.ts * int64(time.Second)
			out.Violate("C26.replay-accepted."+circ+"."+typ,
				"%s request (sender %s, one nonce) accepted %d times: first accepted at signed-timestamp%+.3fs, byte-identical replay accepted %.3fs later (receiver clock) at signed-timestamp%+.3fs; nonce retention %v, tolerance %v%s (request %d)",
				typ, ms.rq.sender, len(acc), float64(a1.startWall-tsNs)/1e9, float64(a2.startWall-a1.startWall)/1e9, float64(a2.startWall-tsNs)/1e9,
				time.Duration(ttl), calib.types[typ].Tol, stepNote, mi)
		}
	}
	if cacheAccepts != invalidations {
		panic(fmt.Sprintf("HARNESS-ERROR nonce: %d cache-invalidate requests answered 204 but the invalidation callback ran %d times", cacheAccepts, invalidations))
	}
	out.Stats["probe.replay_deliveries"] += int64(replays)
	out.Stats["probe.outside_window_deliveries"] += int64(outside)
	out.Stats["probe.replay_after_connection_reuse"] += int64(afterReuse)
	out.Stats["probe.other_traffic_requests"] += traffic
	out.Stats["fault.clock_step_runs"] += int64(min(steps, 1))
	for _, ms := range st {
		for _, d := range ms.deliveries {
			if d.accepted {
				out.Stats["probe.accepted"]++
			} else {
				out.Stats["probe.rejected"]++
			}
		}
	}
	out.Nontrivial = replays > 0 || outside > 0
	return out
}

// signMsg signs request mi with a timestamp relative to the receiver's clock.
func signMsg(w *world, p *C26Plan, mi int, hubWallNs int64) *request {
	m := p.Msgs[mi]
	tolS := int64(calib.types[m.Type].Tol / time.Second)
	ts := hubWallNs/int64(time.Second) + tolS*int64(m.OffPm)/1000 + int64(m.OffSec)
	simrt.Event("SIGN m=%d %s off=%d", mi, m.Type, ts-hubWallNs/int64(time.Second))
	return w.sign(m.Type, m.Sender, mi, nonceFor(p.Salt, mi), ts)
}

// ---------------------------------------------------------------------------
// shrinking, description

func clonePlan(p *C26Plan) *C26Plan {
	q := *p
	q.Msgs = append([]Msg(nil), p.Msgs...)
	q.Ops = make([]Op, len(p.Ops))
	for i, o := range p.Ops {
		q.Ops[i] = o
		q.Ops[i].Msgs = append([]int(nil), o.Msgs...)
		q.Ops[i].Conns = append([]int(nil), o.Conns...)
		q.Ops[i].Orders = append([]int(nil), o.Orders...)
	}
	return &q
}

func shrinkC26(planAny any) []any {
	p := planAny.(*C26Plan)
	var out []any
	// drop a request with everything that refers to it
	if len(p.Msgs) > 1 {
		for mi := range p.Msgs {
			q := clonePlan(p)
			q.Msgs = append(q.Msgs[:mi:mi], q.Msgs[mi+1:]...)
			var ops []Op
			for _, o := range q.Ops {
				if o.Op == "send" {
					var ms, cs, od []int
					for k, x := range o.Msgs {
						if x == mi {
							continue
						}
						if x > mi {
							x--
						}
						ms = append(ms, x)
						if k < len(o.Conns) {
							cs = append(cs, o.Conns[k])
						}
						if k < len(o.Orders) {
							od = append(od, o.Orders[k])
						}
					}
					if len(ms) == 0 {
						continue
					}
					o.Msgs, o.Conns, o.Orders = ms, cs, od
				} else if o.Op != "traffic" {
					if o.RefMsg == mi {
						if o.Op == "until" {
							continue
						}
						o.RefMsg = 0
						if o.Ref != "sec" {
							continue
						}
					} else if o.RefMsg > mi {
						o.RefMsg--
					}
				}
				ops = append(ops, o)
			}
			q.Ops = ops
			out = append(out, q)
		}
	}
	// drop an op
	for i := range p.Ops {
		q := clonePlan(p)
		q.Ops = append(q.Ops[:i:i], q.Ops[i+1:]...)
		out = append(out, q)
	}
	// fewer concurrent copies
	for i, o := range p.Ops {
		if o.Op == "send" && len(o.Msgs) > 1 {
			for k := range o.Msgs {
				q := clonePlan(p)
				q.Ops[i].Msgs = append(q.Ops[i].Msgs[:k:k], q.Ops[i].Msgs[k+1:]...)
				if k < len(q.Ops[i].Conns) {
					q.Ops[i].Conns = append(q.Ops[i].Conns[:k:k], q.Ops[i].Conns[k+1:]...)
				}
				if k < len(q.Ops[i].Orders) {
					q.Ops[i].Orders = append(q.Ops[i].Orders[:k:k], q.Ops[i].Orders[k+1:]...)
				}
				out = append(out, q)
			}
		}
	}
	// simpler values
	for i, o := range p.Ops {
		if o.Op == "send" {
			for k := range o.Conns {
				if o.Conns[k] != 0 {
					q := clonePlan(p)
					q.Ops[i].Conns[k] = 0
					out = append(out, q)
				}
			}
			for k := range o.Orders {
				if o.Orders[k] != 0 {
					q := clonePlan(p)
					q.Ops[i].Orders[k] = 0
					out = append(out, q)
				}
			}
		}
		if o.Op == "traffic" {
			if o.Conn != 0 {
				q := clonePlan(p)
				q.Ops[i].Conn = 0
				out = append(out, q)
			}
			if o.Order != 0 {
				q := clonePlan(p)
				q.Ops[i].Order = 0
				out = append(out, q)
			}
		}
		if o.Sleep {
			q := clonePlan(p)
			q.Ops[i].Sleep = false
			out = append(out, q)
		}
		if o.Ms != 0 {
			q := clonePlan(p)
			q.Ops[i].Ms = 0
			out = append(out, q)
		}
		if o.Op == "wait" && o.Ref == "sec" && o.Sec != 0 {
			q := clonePlan(p)
			q.Ops[i].Sec = 0
			out = append(out, q)
		}
	}
	for i, m := range p.Msgs {
		if m.OffSec != 0 {
			q := clonePlan(p)
			q.Msgs[i].OffSec = 0
			out = append(out, q)
		}
		if m.Sender != 0 {
			q := clonePlan(p)
			q.Msgs[i].Sender = 0
			out = append(out, q)
		}
		if m.OffPm != 0 && m.OffPm != 1000 && m.OffPm != -1000 {
			q := clonePlan(p)
			switch {
			case m.OffPm > 1000:
				q.Msgs[i].OffPm = 1000
			case m.OffPm < -1000:
				q.Msgs[i].OffPm = -1000
			default:
				q.Msgs[i].OffPm = 0
			}
			out = append(out, q)
		}
	}
	if p.HCInterval != 3600 {
		q := clonePlan(p)
		q.HCInterval = 3600
		out = append(out, q)
	}
	return out
}

func descC26(planAny any) any {
	p := planAny.(*C26Plan)
	var ms, ops []string
	for i, m := range p.Msgs {
		ms = append(ms, fmt.Sprintf("#%d %s from sender %d, timestamp = receiver now %+d‰ of tolerance %+ds", i, m.Type, m.Sender, m.OffPm, m.OffSec))
	}
	for _, o := range p.Ops {
		switch o.Op {
		case "send":
			d := fmt.Sprintf("send%v", o.Msgs)
			if len(o.Conns) > 0 {
				d += fmt.Sprintf(" on HTTP connections %v, header orders %v", o.Conns, o.Orders)
			}
			ops = append(ops, d)
		case "traffic":
			what := "fresh signed"
			if o.Junk {
				what = "junk"
			}
			ops = append(ops, fmt.Sprintf("other %s %s request from sender %d on HTTP connection %d (header order %d)", what, o.Typ, o.Sender, o.Conn, o.Order))
		case "wait":
			ops = append(ops, fmt.Sprintf("wait(%d‰ %s +%ds +%dms%s)", o.Pm, o.Ref, o.Sec, o.Ms, map[bool]string{true: " sleeping"}[o.Sleep]))
		case "until":
			ops = append(ops, fmt.Sprintf("until(%s of #%d %+ds %+dms)", o.Ref, o.RefMsg, o.Sec, o.Ms))
		case "step":
			ops = append(ops, fmt.Sprintf("clock-step(%d‰ %s %+ds %+dms)", o.Pm, o.Ref, o.Sec, o.Ms))
		}
	}
	cal := map[string]string{}
	var ts []string
	for _, m := range p.Msgs {
		cal[m.Type] = fmt.Sprintf("%s: tolerance %v, nonce retention %v", m.Type, calib.types[m.Type].Tol, calib.types[m.Type].TTL)
	}
	for t := range cal {
		ts = append(ts, t)
	}
	sort.Strings(ts)
	var cs []string
	for _, t := range ts {
		cs = append(cs, cal[t])
	}
	return map[string]any{"requests": ms, "timeline": ops, "configuration": cs, "hc_interval_s": p.HCInterval}
}

func planJSON(p *C26Plan) string {
	b, _ := json.Marshal(p)
	return string(b)
}
