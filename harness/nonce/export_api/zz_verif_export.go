//go:build verif

package api

import "time"

// VerifTolerance returns the tolerance the handler was constructed with.
func (h *CacheInvalidateHandler) VerifTolerance() time.Duration { return h.tolerance }

// VerifSyncHeaderNames returns the edge-sync request header names.
func VerifSyncHeaderNames() map[string]string {
	return map[string]string{
		"spoke": headerSpokeID, "hub": headerHubID, "path": headerPath, "sha256": headerSHA256, "size": headerSize,
		"offset": headerOffset, "nonce": headerNonce, "ts": headerTS, "mac": headerMAC,
	}
}
