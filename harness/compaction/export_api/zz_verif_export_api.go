package api

import (
	"context"
	"time"
)

// VerifRealFileMeta runs the real getFileMaxTimeAndRowCount with the F-seam
// lifted, so that a hook can fail some reads and pass the others through.
// One task runs at a time; a task scheduled while the real read is in
// progress merely sees the seam lifted (its read is not faulted).
func (h *RetentionHandler) VerifRealFileMeta(ctx context.Context, filePath string) (time.Time, int64, error) {
	saved := SimHook_RetentionFileMeta
	SimHook_RetentionFileMeta = nil
	defer func() { SimHook_RetentionFileMeta = saved }()
	return h.getFileMaxTimeAndRowCount(ctx, filePath)
}
