//go:build verif

// Area compaction: properties C09 (compaction never loses or duplicates rows,
// even across crashes) and C11 (retention only deletes data older than the
// cutoff). This file holds what both checks share: scratch handling, the
// Parquet fixtures (written with the real ingest.ArrowWriter), the read-back
// (arrow-go pqarrow, trusted base), the simulated "pod" that boots the real
// compaction.Manager over a real storage.LocalBackend, and the in-process
// replacement of the exec boundary (compaction.RunJobInSubprocess).
package main

import (
	"bytes"
	"context"
	"database/sql"
	"encoding/json"
	"errors"
	"fmt"
	"io"
	"os"
	"path/filepath"
	"sort"
	"strings"
	"sync/atomic"
	"time"

	"github.com/apache/arrow-go/v18/arrow"
	"github.com/apache/arrow-go/v18/arrow/array"
	"github.com/apache/arrow-go/v18/arrow/memory"
	"github.com/apache/arrow-go/v18/parquet/file"
	"github.com/apache/arrow-go/v18/parquet/pqarrow"
	_ "github.com/duckdb/duckdb-go/v2"
	"github.com/rs/zerolog"

	"github.com/basekick-labs/arc/internal/compaction"
	"github.com/basekick-labs/arc/internal/config"
	"github.com/basekick-labs/arc/internal/ingest"
	"github.com/basekick-labs/arc/internal/simrt"
	"github.com/basekick-labs/arc/internal/storage"
)

// ---------------------------------------------------------------------------
// scratch

var scratchSeq atomic.Int64

func scratchBase() string {
	b := os.Getenv("VERIF_SCRATCH")
	if b == "" {
		b = "/dev/shm"
	}
	return b
}

func mkScratch(tag string) string {
	d := filepath.Join(scratchBase(), fmt.Sprintf("verif-cmp.%d.%s%d", os.Getpid(), tag, scratchSeq.Add(1)))
	os.RemoveAll(d)
	if err := os.MkdirAll(d, 0o755); err != nil {
		harnessFatal("mkdir scratch: %v", err)
	}
	return d
}

func harnessFatal(format string, args ...any) {
	fmt.Fprintf(os.Stderr, "HARNESS-ERROR "+format+"\n", args...)
	os.Exit(2)
}

var timing = os.Getenv("VERIF_TIMING") != ""

var quietLogger = zerolog.New(io.Discard).Level(zerolog.Disabled)

func harnessLogger() zerolog.Logger {
	if os.Getenv("VERIF_LOG") != "" {
		return zerolog.New(os.Stderr).Level(zerolog.DebugLevel)
	}
	return quietLogger
}

func firstLine(s string) string {
	if i := strings.IndexByte(s, '\n'); i > 0 {
		return s[:i]
	}
	return s
}

// copyTree copies a directory tree of regular files (fixtures are tiny).
func copyTree(src, dst string) {
	err := filepath.WalkDir(src, func(p string, d os.DirEntry, err error) error {
		if err != nil {
			return err
		}
		rel, _ := filepath.Rel(src, p)
		t := filepath.Join(dst, rel)
		if d.IsDir() {
			return os.MkdirAll(t, 0o755)
		}
		b, err := os.ReadFile(p)
		if err != nil {
			return err
		}
		return os.WriteFile(t, b, 0o600)
	})
	if err != nil {
		harnessFatal("copy fixture: %v", err)
	}
}

// ---------------------------------------------------------------------------
// fixtures: rows and files

// RowSpec is one stored row. Values of all columns are functions of the spec,
// so plans stay small. Rid is unique per row in a plan; (Host, Reg, T) is the
// dedup key material and is drawn from small domains so duplicates occur.
type RowSpec struct {
	Rid  int64 `json:"rid"`
	T    int64 `json:"t"`               // µs offset from the partition start (C09) / absolute shape offset (C11)
	Host int   `json:"host"`            // tag value selector; -1 = NULL
	Reg  int   `json:"reg"`             // second tag selector; -1 = NULL
	NulS bool  `json:"nul_s,omitempty"` // string field NULL
}

// FileSpec is one Parquet file of the fixture.
type FileSpec struct {
	Name      string    `json:"name"` // base name (without directory)
	HasHost   bool      `json:"has_host"`
	HasReg    bool      `json:"has_reg"`
	HasS      bool      `json:"has_s"`
	HasB      bool      `json:"has_b"`
	TagMeta   bool      `json:"tag_meta"`   // write arc:tags metadata naming the tag columns present
	DedupTime bool      `json:"dedup_time"` // write arc:dedup_time
	Rows      []RowSpec `json:"rows"`
}

func (f *FileSpec) tagCols() []string {
	var t []string
	if f.HasHost {
		t = append(t, "host")
	}
	if f.HasReg {
		t = append(t, "region")
	}
	return t
}

// rowVals is the logical content of row r as stored in file f (absent and
// NULL columns are omitted). base is the absolute µs the T offsets refer to.
func (f *FileSpec) rowVals(r RowSpec, base int64) map[string]any {
	m := map[string]any{"time": base + r.T, "rid": r.Rid, "v": float64(r.Rid) * 0.5}
	if f.HasHost && r.Host >= 0 {
		m["host"] = fmt.Sprintf("h%d", r.Host)
	}
	if f.HasReg && r.Reg >= 0 {
		m["region"] = fmt.Sprintf("r%d", r.Reg)
	}
	if f.HasS && !r.NulS {
		m["s"] = fmt.Sprintf("s%d", r.Rid)
	}
	if f.HasB {
		m["b"] = r.Rid%2 == 0
	}
	return m
}

var fixtureWriter = ingest.NewArrowWriter(&config.IngestConfig{Compression: "snappy", WriteStatistics: true, DataPageVersion: "2.0"}, quietLogger)

// encode produces the Parquet bytes of f with the real ingest writer.
func (f *FileSpec) encode(meas string, base int64) []byte {
	n := len(f.Rows)
	cols := map[string]interface{}{}
	valid := map[string][]bool{}
	tm, rid, v := make([]int64, n), make([]int64, n), make([]float64, n)
	for i, r := range f.Rows {
		tm[i], rid[i], v[i] = base+r.T, r.Rid, float64(r.Rid)*0.5
	}
	cols["time"], cols["rid"], cols["v"] = tm, rid, v
	if f.HasHost {
		c, ok := make([]string, n), make([]bool, n)
		for i, r := range f.Rows {
			if r.Host >= 0 {
				c[i], ok[i] = fmt.Sprintf("h%d", r.Host), true
			}
		}
		cols["host"], valid["host"] = c, ok
	}
	if f.HasReg {
		c, ok := make([]string, n), make([]bool, n)
		for i, r := range f.Rows {
			if r.Reg >= 0 {
				c[i], ok[i] = fmt.Sprintf("r%d", r.Reg), true
			}
		}
		cols["region"], valid["region"] = c, ok
	}
	if f.HasS {
		c, ok := make([]string, n), make([]bool, n)
		for i, r := range f.Rows {
			if !r.NulS {
				c[i], ok[i] = fmt.Sprintf("s%d", r.Rid), true
			}
		}
		cols["s"], valid["s"] = c, ok
	}
	if f.HasB {
		c := make([]bool, n)
		for i, r := range f.Rows {
			c[i] = r.Rid%2 == 0
		}
		cols["b"] = c
	}
	var tags []string
	if f.TagMeta {
		tags = f.tagCols()
	}
	b, err := fixtureWriter.WriteParquetColumnar(context.Background(), meas, cols, valid, tags, f.DedupTime, nil)
	if err != nil {
		harnessFatal("fixture encode: %v", err)
	}
	return b
}

// ---------------------------------------------------------------------------
// read-back (arrow-go pqarrow; trusted base)

func readParquetBytes(b []byte) ([]map[string]any, error) {
	rdr, err := file.NewParquetReader(bytes.NewReader(b))
	if err != nil {
		return nil, fmt.Errorf("open parquet: %w", err)
	}
	defer rdr.Close()
	fr, err := pqarrow.NewFileReader(rdr, pqarrow.ArrowReadProperties{}, memory.DefaultAllocator)
	if err != nil {
		return nil, err
	}
	tbl, err := fr.ReadTable(context.Background())
	if err != nil {
		return nil, err
	}
	defer tbl.Release()
	rows := make([]map[string]any, int(tbl.NumRows()))
	for i := range rows {
		rows[i] = map[string]any{}
	}
	for ci := 0; ci < int(tbl.NumCols()); ci++ {
		col := tbl.Column(ci)
		name := col.Name()
		off := 0
		for _, chunk := range col.Data().Chunks() {
			for i := 0; i < chunk.Len(); i++ {
				if v := cell(chunk, i); v != nil {
					rows[off+i][name] = v
				}
			}
			off += chunk.Len()
		}
	}
	return rows, nil
}

func readParquetFile(path string) ([]map[string]any, error) {
	b, err := os.ReadFile(path)
	if err != nil {
		return nil, err
	}
	return readParquetBytes(b)
}

// readParquetDedupMeta reports the deduplication metadata a file actually
// carries in its footer: the arc:tags column list (nil when absent or empty)
// and the arc:dedup_time marker.
func readParquetDedupMeta(path string) (tags []string, dedupTime bool, err error) {
	b, err := os.ReadFile(path)
	if err != nil {
		return nil, false, err
	}
	rdr, err := file.NewParquetReader(bytes.NewReader(b))
	if err != nil {
		return nil, false, fmt.Errorf("open parquet: %w", err)
	}
	defer rdr.Close()
	kv := rdr.MetaData().KeyValueMetadata()
	if v := kv.FindValue("arc:tags"); v != nil && *v != "" {
		tags = strings.Split(*v, ",")
		sort.Strings(tags)
	}
	if v := kv.FindValue("arc:dedup_time"); v != nil && *v == "true" {
		dedupTime = true
	}
	return tags, dedupTime, nil
}

func cell(a arrow.Array, i int) any {
	if a.IsNull(i) {
		return nil
	}
	switch x := a.(type) {
	case *array.Int64:
		return x.Value(i)
	case *array.Int32:
		return int64(x.Value(i))
	case *array.Float64:
		return x.Value(i)
	case *array.String:
		return x.Value(i)
	case *array.LargeString:
		return x.Value(i)
	case *array.Binary:
		return string(x.Value(i))
	case *array.Boolean:
		return x.Value(i)
	case *array.Timestamp:
		u := x.DataType().(*arrow.TimestampType).Unit
		v := int64(x.Value(i))
		switch u {
		case arrow.Second:
			return v * 1_000_000
		case arrow.Millisecond:
			return v * 1000
		case arrow.Microsecond:
			return v
		default:
			return v / 1000
		}
	case *array.Dictionary:
		return cell(x.Dictionary(), x.GetValueIndex(i))
	default:
		return fmt.Sprintf("%v", a.ValueStr(i))
	}
}

// canon renders a row as a canonical string (sorted col=value, NULL/absent omitted).
func canon(m map[string]any) string {
	keys := make([]string, 0, len(m))
	for k, v := range m {
		if v != nil {
			keys = append(keys, k)
		}
	}
	sort.Strings(keys)
	var b strings.Builder
	for _, k := range keys {
		fmt.Fprintf(&b, "%s=%v;", k, m[k])
	}
	return b.String()
}

// dedupKey is the (tags,time) key of a row over the given tag columns
// (missing/NULL tag = NULL).
func dedupKey(m map[string]any, tags []string) string {
	var b strings.Builder
	fmt.Fprintf(&b, "t=%v", m["time"])
	for _, t := range tags {
		if v, ok := m[t]; ok && v != nil {
			fmt.Fprintf(&b, "|%s=%v", t, v)
		} else {
			fmt.Fprintf(&b, "|%s=NULL", t)
		}
	}
	return b.String()
}

// listDataFiles returns every file under dir (relative, slash-separated, sorted).
func listFiles(dir string) []string {
	var out []string
	filepath.WalkDir(dir, func(p string, d os.DirEntry, err error) error {
		if err != nil || d.IsDir() {
			return nil
		}
		rel, _ := filepath.Rel(dir, p)
		out = append(out, filepath.ToSlash(rel))
		return nil
	})
	sort.Strings(out)
	return out
}

func isVisibleParquet(rel string) bool {
	base := filepath.Base(rel)
	return strings.HasSuffix(base, ".parquet") && !strings.HasPrefix(base, ".") && !strings.HasPrefix(rel, compaction.ManifestBasePath+"/")
}

// oracle-side DuckDB (fresh in-memory instance per process; trusted base).
var oracleDB *sql.DB

func oracleDuck() *sql.DB {
	if oracleDB == nil {
		db, err := sql.Open("duckdb", "")
		if err != nil {
			harnessFatal("oracle duckdb: %v", err)
		}
		db.SetMaxOpenConns(1)
		if _, err := db.Exec("SET threads=1"); err != nil {
			harnessFatal("oracle duckdb: %v", err)
		}
		oracleDB = db
	}
	return oracleDB
}

// duckCount is what a DuckDB scan of the measurement directory shows.
func duckCount(dataDir, db, meas string) (int64, error) {
	glob := filepath.Join(dataDir, db, meas, "**", "*.parquet")
	var n int64
	q := fmt.Sprintf("SELECT count(*) FROM read_parquet('%s', union_by_name=true)", strings.ReplaceAll(glob, "'", "''"))
	err := oracleDuck().QueryRow(q).Scan(&n)
	if err != nil && strings.Contains(err.Error(), "No files found") {
		return 0, nil
	}
	return n, err
}

// ---------------------------------------------------------------------------
// pod: one arc process (compaction manager + its subprocess jobs)

type PodKnobs struct {
	HourlyMinFiles   int    `json:"hourly_min_files"`
	MaxFilesPerBatch int    `json:"max_files_per_batch"`
	MaxConcurrent    int    `json:"max_concurrent"`
	Daily            bool   `json:"daily"`
	DailyMinFiles    int    `json:"daily_min_files"`
	ConsumedHook     string `json:"consumed_hook,omitempty"` // "" | ok | err  (Manager.SetOnConsumedInputs => ParentFinalizesManifest)
	NoOrderBy        bool   `json:"no_order_by,omitempty"`   // empty default sort keys
	// ObjStore hides the LocalBackend behind an object-store facade: List has
	// key-prefix semantics (as S3/Azure) and none of LocalBackend's optional
	// interfaces (directory listing/removal, batch delete, object listing) are
	// visible, so arc takes its generic storage.Backend code paths.
	ObjStore bool `json:"obj_store,omitempty"`
}

// objStore is that facade. Everything but List goes straight to the real
// LocalBackend.
type objStore struct {
	storage.Backend
}

func (o *objStore) List(ctx context.Context, prefix string) ([]string, error) {
	all, err := o.Backend.List(ctx, "")
	if err != nil {
		return nil, err
	}
	var out []string
	for _, k := range all {
		k = filepath.ToSlash(k)
		if strings.HasPrefix(k, prefix) {
			out = append(out, k)
		}
	}
	sort.Strings(out)
	return out, nil
}

type jobRec struct {
	idx    int
	node   *simrt.Node
	part   string // database/partition the job works on
	files  int
	killed bool
	done   bool
	fsBase int64 // node fs-op counter when the job started (colocated jobs share the pod's counter)
	stBase int64
	fsEnd  int64
	stEnd  int64
}

type pod struct {
	sn      *simrt.Node
	root    string
	dataDir string
	tmpDir  string
	knobs   PodKnobs
	local   *storage.LocalBackend
	backend storage.Backend // what arc components get: local, or the object-store facade over it
	mgr     *compaction.Manager
	boots   int
	// subprocess emulation
	colocate bool // run jobs on the pod's node (pod-crash episodes) instead of their own node
	jobs     []*jobRec
	onJob    func(j *jobRec) // called right before the job task starts (arms faults)
	onKilled func(j *jobRec) // called on the parent's task when a job process was found killed
	// inspect, when set, sees the input list of every job before it starts
	// (diagnosis only; must not touch instrumented code)
	inspect func(files []string)
	// partInputs counts job inputs that are ".part" staging files
	partInputs int
}

func newPod(root string, k PodKnobs) *pod {
	return &pod{sn: simrt.NodeOf("pod"), root: root, dataDir: filepath.Join(root, "data"), tmpDir: filepath.Join(root, "tmp"), knobs: k}
}

// boot mirrors the compaction wiring of cmd/arc/main.go (tiers, lock manager,
// manager, orphaned temp dir sweep). Must run on a pod task.
func (p *pod) boot() {
	p.boots++
	local, err := storage.NewLocalBackend(p.dataDir, harnessLogger())
	if err != nil {
		panic(err)
	}
	p.local = local
	p.backend = local
	if p.knobs.ObjStore {
		p.backend = &objStore{Backend: local}
	}
	var tiers []compaction.Tier
	tiers = append(tiers, compaction.NewHourlyTier(&compaction.HourlyTierConfig{StorageBackend: p.backend, MinAgeHours: 1, MinFiles: p.knobs.HourlyMinFiles, Enabled: true, Logger: harnessLogger()}))
	if p.knobs.Daily {
		tiers = append(tiers, compaction.NewDailyTier(&compaction.DailyTierConfig{StorageBackend: p.backend, MinAgeHours: 24, MinFiles: p.knobs.DailyMinFiles, Enabled: true, Logger: harnessLogger()}))
	}
	mc := &compaction.ManagerConfig{StorageBackend: p.backend, LockManager: compaction.NewLockManager(), MaxConcurrent: p.knobs.MaxConcurrent,
		MaxFilesPerBatch: p.knobs.MaxFilesPerBatch, TempDirectory: p.tmpDir, Tiers: tiers, Logger: harnessLogger(),
		Threads: 1, MemoryLimit: "256MB"} // compaction.threads / compaction.memory_limit: one DuckDB thread per job keeps the simulation cheap
	if p.knobs.NoOrderBy {
		mc.DefaultSortKeys = []string{}
	}
	p.mgr = compaction.NewManager(mc)
	switch p.knobs.ConsumedHook {
	case "ok":
		p.mgr.SetOnConsumedInputs(func([]string) error { return nil })
	case "err":
		p.mgr.SetOnConsumedInputs(func([]string) error { return errors.New("receipt marking failed (simulated)") })
	}
	if err := p.mgr.CleanupOrphanedTempDirs(); err != nil {
		panic(err)
	}
}

// onNode runs f as a task of the pod and waits; false when the pod died meanwhile.
func (p *pod) onNode(what string, f func()) bool {
	done := false
	h := simrt.GoOn(what, p.sn, func() { f(); done = true })
	simrt.Join(h)
	return done
}

// cycle runs one compaction cycle for all enabled tiers (what the schedulers
// and the trigger endpoint call).
func (p *pod) cycle() error {
	_, err := p.mgr.RunCompactionCycle(context.Background())
	return err
}

// curPod is the pod whose manager is currently calling RunJobInSubprocess.
// One simulation runs at a time per process, and one pod per simulation.
var curPod *pod

// hookRunJob replaces compaction.RunJobInSubprocess: the same JSON hand-over
// in both directions, but the "process" is a task group on its own simulated
// node running the real RunSubprocessJob; a kill is a crash of that node and
// is reported the way exec reports a SIGKILLed child.
func hookRunJob(ctx context.Context, cfg *compaction.SubprocessJobConfig, logger zerolog.Logger, extraEnv ...string) (*compaction.SubprocessJobResult, error) {
	p := curPod
	if p == nil {
		panic("harness: RunJobInSubprocess outside an episode")
	}
	raw, err := json.Marshal(cfg)
	if err != nil {
		return nil, fmt.Errorf("failed to serialize job config: %w", err)
	}
	var child compaction.SubprocessJobConfig
	if err := json.Unmarshal(raw, &child); err != nil {
		return nil, fmt.Errorf("subprocess failed: %w (stderr: %s)", errors.New("exit status 1"), "error: invalid job config: "+err.Error())
	}
	j := &jobRec{idx: len(p.jobs), files: len(cfg.Files), part: cfg.Database + "/" + cfg.PartitionPath}
	if p.colocate {
		j.node = p.sn
	} else {
		j.node = simrt.NodeOf(fmt.Sprintf("job%d", j.idx))
		j.node.WallOffset = p.sn.WallOffset // a child process reads its machine's wall clock
	}
	j.fsBase, j.stBase = j.node.FSOps(), j.node.Steps()
	p.jobs = append(p.jobs, j)
	for _, f := range cfg.Files {
		if strings.HasSuffix(f, ".part") {
			// a "<key>.part" staging file left behind by an interrupted
			// LocalBackend.WriteReader is handed to the job as an input
			p.partInputs++
			simrt.Probe("staging_part_file_as_job_input")
		}
	}
	simrt.Event("JOB-START job=%d files=%d batch=%d", j.idx, len(cfg.Files), cfg.BatchNumber)
	if p.inspect != nil {
		p.inspect(cfg.Files)
	}
	if p.onJob != nil {
		p.onJob(j)
	}
	var res *compaction.SubprocessJobResult
	var rerr error
	t0 := time.Now()
	h := simrt.GoOn("subprocess", j.node, func() {
		res, rerr = compaction.RunSubprocessJob(&child)
		j.done = true
	})
	simrt.Join(h)
	if timing {
		fmt.Fprintf(os.Stderr, "TIMING job %d files=%d wall=%v\n", j.idx, len(cfg.Files), time.Since(t0))
	}
	j.fsEnd, j.stEnd = j.node.FSOps(), j.node.Steps()
	if !j.done {
		j.killed = true
		simrt.Count("fault.job_killed", 1)
		simrt.Event("JOB-KILLED job=%d", j.idx)
		if p.onKilled != nil {
			p.onKilled(j)
		}
		if ctx.Err() != nil {
			return nil, fmt.Errorf("subprocess cancelled: %w", ctx.Err())
		}
		return nil, fmt.Errorf("subprocess failed: %w (stderr: %s)", errors.New("signal: killed"), "")
	}
	if rerr != nil {
		simrt.Event("JOB-EXIT1 job=%d", j.idx)
		return nil, fmt.Errorf("subprocess failed: %w (stderr: %s)", errors.New("exit status 1"), "error: "+rerr.Error()+"\n")
	}
	out, err := json.Marshal(res)
	if err != nil {
		return nil, fmt.Errorf("subprocess failed: %w (stderr: %s)", errors.New("exit status 1"), "error: failed to encode result")
	}
	var back compaction.SubprocessJobResult
	if err := json.Unmarshal(out, &back); err != nil {
		return nil, fmt.Errorf("failed to parse subprocess result: %w (stdout: %s)", err, string(out))
	}
	simrt.Event("JOB-END job=%d success=%v compacted=%d", j.idx, back.Success, back.FilesCompacted)
	return &back, nil
}

// hookCreateBackend lets the job process see the same kind of backend as its
// parent when the object-store facade is on; otherwise the real
// createStorageBackendFromConfig runs.
func hookCreateBackend(cfg *compaction.SubprocessJobConfig, logger zerolog.Logger) (storage.Backend, error) {
	p := curPod
	if p == nil || !p.knobs.ObjStore {
		compaction.SimHook_CreateStorageBackend = nil
		defer func() { compaction.SimHook_CreateStorageBackend = hookCreateBackend }()
		return compaction.CreateStorageBackendForVerif(cfg, logger)
	}
	var lc struct {
		BasePath string `json:"base_path"`
	}
	if err := json.Unmarshal([]byte(cfg.StorageConfig), &lc); err != nil {
		return nil, err
	}
	local, err := storage.NewLocalBackend(lc.BasePath, logger)
	if err != nil {
		return nil, err
	}
	return &objStore{Backend: local}, nil
}

func installHooks() {
	compaction.SimHook_RunJobInSubprocess = hookRunJob
	compaction.SimHook_CreateStorageBackend = hookCreateBackend
}

// simTimeOf formats an instant the way ingest names files.
func fileStamp(t time.Time) string {
	t = t.UTC()
	return fmt.Sprintf("%s_%09d", t.Format("20060102_150405"), t.UnixNano()%1_000_000_000)
}

func hourDir(db, meas string, t time.Time) string {
	t = t.UTC()
	return fmt.Sprintf("%s/%s/%04d/%02d/%02d/%02d", db, meas, t.Year(), int(t.Month()), t.Day(), t.Hour())
}
