//go:build verif

package main

import (
	"context"
	"fmt"
	"os"
	"path/filepath"
	"sort"
	"strings"
	"time"

	"github.com/basekick-labs/arc/internal/compaction"
	"github.com/basekick-labs/arc/internal/simrt"
	"github.com/basekick-labs/arc/internal/verifsim/simkit"
)

// C09 — compaction never loses or duplicates rows, even across crashes.
//
// One plan = one small fixture (1-2 hour partitions of one measurement) + one
// fault family. Run() first executes the plan fault-free (the twin), which
// yields the list of file-system operations of the targeted job / pod, then
// re-executes it once per fault point of the family (fault_enumeration):
//   kill      the job "process" (its own simulated node) dies before/after
//             each mutating storage operation, torn inside upload writes, and
//             at sampled scheduling steps (download / DuckDB / cleanup phases);
//             the parent sees "signal: killed" and runs its real
//             ClassifySubprocessError + half-batch retry path
//   podcrash  parent and job die together at each such point; restart = new
//             Manager over the surviving directory
//   fserr     one storage operation fails (EIO/ENOSPC, short write)
// Kill plans may add episodes in which the kill is followed by ONE transient
// storage error in the parent while it deals with the dead job (settling the
// manifest the job left, before any retry starts): the kill-only episodes
// record the parent's storage operations of that window, the added episodes
// fail one of them each.
// After the fault 1..3 further cycles run without faults (optionally after
// late-arriving files were added) and the oracle compares the rows shown by
// the partition's complete files with the rows written.

type C09File struct {
	FileSpec
	Hour int `json:"hour"` // 0 or 1: which hour partition (offset from the first)
	Sec  int `json:"sec"`  // creation time offset (seconds after the partition start): file name stamp
	Nano int `json:"nano"`
}

type C09Plan struct {
	Knobs    PodKnobs  `json:"knobs"`
	DB       string    `json:"db"`
	Meas     string    `json:"meas"`
	AgeHours int       `json:"age_hours"`
	Files    []C09File `json:"files"`
	Late     []C09File `json:"late,omitempty"` // written after the fault cycle
	Family   string    `json:"family"`         // none | kill | podcrash | fserr
	Job      int       `json:"job"`            // kill/fserr: which subprocess invocation of the first cycle
	Only     []string  `json:"only,omitempty"` // restrict to these fault points (keys such as "crash-before@rename:output.part#0")
	MaxPts   int       `json:"max_points"`
	PtSel    int       `json:"point_sel"`
	Steps    int       `json:"step_points"` // number of scheduling-step kill points to add
	// Second, when >0, also kills the next subprocess invocation (a half-batch
	// retry) at this per-mille of the first job's step count.
	Second int   `json:"second_kill_permille,omitempty"`
	Later  int   `json:"later_cycles"`
	GapS   []int `json:"gap_s"` // clock advance before each later cycle
	// DownS > 0: that many seconds (days to months) lie between the end of the
	// first cycle and the pod's next activity: after a pod crash the pod stays
	// down that long before it is restarted, otherwise it idles (scheduler
	// off). DownMode "wallstep" applies the same amount as a forward step of the
	// machine's wall clock instead (NTP correction, VM resume, wrong RTC after a
	// restore): monotonic time does not move.
	DownS    int    `json:"down_s,omitempty"`
	DownMode string `json:"down_mode,omitempty"` // "" (time passes) | wallstep
	// KillStepS > 0 (kill family): the machine's wall clock is stepped forward
	// by this many seconds at the moment the targeted job is killed (the kill
	// and the step have one cause, e.g. a VM that was frozen and resumed), so
	// the parent handles the dead job with the stepped clock.
	KillStepS int `json:"kill_step_s,omitempty"`
	// ParentErr > 0 (kill family): that many further episodes repeat one of the
	// plan's kills and then fail one storage operation (once) of the parent
	// process in the window between the job's death and the next job of that
	// partition (the parent settling the dead job's manifest, cleaning up,
	// deciding about a retry).
	ParentErr int `json:"parent_err_points,omitempty"`
}

// longSpan draws a span of days to months (seconds). The values are plain
// operational magnitudes (a long weekend, a week and a bit, a month, a
// quarter, a year), not constants of arc.
func longSpan(r *simrt.Rand) int {
	days := []int{3, 8, 9, 10, 15, 30, 90, 400}[r.Intn(8)]
	return days*86400 + r.Intn(86400)
}

const daySeconds = 86400

func genRows(r *simrt.Rand, nextRid *int64, n int, dupPool *[]RowSpec) []RowSpec {
	ts := []int64{0, 1, 1_000_000, 60_000_000, 1_800_000_000, 3_599_999_999}
	var out []RowSpec
	for i := 0; i < n; i++ {
		if len(*dupPool) > 0 && r.Chance(8) {
			// exact duplicate of an earlier row (a re-sent batch)
			out = append(out, (*dupPool)[r.Intn(len(*dupPool))])
			continue
		}
		if len(*dupPool) > 0 && r.Chance(12) {
			// a different series at the same instant: agrees with an earlier row on
			// time and on one tag, differs in the other tag (value vs value or
			// value vs NULL); it is a distinct row under every legitimate key
			row := (*dupPool)[r.Intn(len(*dupPool))]
			*nextRid++
			row.Rid, row.NulS = *nextRid, r.Chance(25)
			if r.Chance(67) {
				row.Reg = (row.Reg+2+r.Intn(2))%3 - 1
			} else {
				row.Host = (row.Host+2+r.Intn(3))%4 - 1
			}
			out = append(out, row)
			*dupPool = append(*dupPool, row)
			continue
		}
		*nextRid++
		row := RowSpec{Rid: *nextRid, T: ts[r.Intn(len(ts))], Host: r.Intn(3), Reg: r.Intn(2), NulS: r.Chance(25)}
		if r.Chance(10) {
			row.Host = -1
		}
		if r.Chance(10) {
			row.Reg = -1
		}
		if r.Chance(30) {
			row.T = int64(r.Intn(3_600_000)) * 1000
		}
		out = append(out, row)
		*dupPool = append(*dupPool, row)
	}
	return out
}

func genC09(r *simrt.Rand, tier string) any {
	p := &C09Plan{DB: []string{"db", "db2", "prod"}[r.Intn(3)], Meas: []string{"cpu", "cpu_total", "m"}[r.Intn(3)]}
	p.Knobs = PodKnobs{HourlyMinFiles: []int{2, 3, 5}[r.Intn(3)], MaxFilesPerBatch: []int{2, 3, 4, 6, 30, 30}[r.Intn(6)], MaxConcurrent: 1 + r.Intn(2),
		DailyMinFiles: 2 + r.Intn(2), ConsumedHook: []string{"", "", "", "ok", "err"}[r.Intn(5)], NoOrderBy: r.Chance(15), ObjStore: r.Chance(15)}
	p.AgeHours = 3 + r.Intn(40)
	if r.Chance(25) {
		p.Knobs.Daily = true
		if r.Chance(70) {
			p.AgeHours = 8*24 + r.Intn(48) // older than the daily tier's file-age check window
		}
	}
	maxFiles := 7
	if tier == "thorough" {
		maxFiles = 22
	}
	n := p.Knobs.HourlyMinFiles + r.Intn(maxFiles-1)
	if n < 3 {
		n = 3
	}
	// 0,1 no metadata; 2 host tags; 3 host+region; 4 tag set varies per file; 5 dedup_time only; 6 mixed metadata;
	// 7 schema evolution: the region tag appears (or disappears) at one point of the file-name order
	mode := r.Intn(8)
	evoAdded, evoCut := r.Chance(65), 0
	twoHours := r.Chance(25)
	var rid int64
	var pool []RowSpec
	mk := func(i int, late bool) C09File {
		f := C09File{Sec: r.Intn(4000), Nano: r.Intn(1_000_000_000)}
		if twoHours && r.Chance(40) {
			f.Hour = 1
		}
		f.HasHost, f.HasS, f.HasB = true, r.Chance(60), r.Chance(40)
		f.HasReg = r.Chance(50)
		switch mode {
		case 0, 1:
		case 2:
			f.TagMeta, f.HasReg = true, false
		case 3:
			f.TagMeta, f.HasReg = true, true
		case 4, 7:
			f.TagMeta = true
		case 5:
			f.DedupTime, f.HasReg = true, false
		case 6:
			f.TagMeta = r.Chance(50)
			f.DedupTime = !f.TagMeta && r.Chance(30)
		}
		f.Rows = genRows(r, &rid, 2+r.Intn(8), &pool)
		return f
	}
	for i := 0; i < n; i++ {
		p.Files = append(p.Files, mk(i, false))
	}
	if mode == 7 {
		// the writers switch tag sets once: files named before the cut carry one
		// set, files named after it the other (tier scanners list by name)
		evoCut = 1 + r.Intn(n-1)
		idx := make([]int, n)
		for i := range idx {
			idx[i] = i
		}
		sort.SliceStable(idx, func(a, b int) bool {
			fa, fb := &p.Files[idx[a]], &p.Files[idx[b]]
			if fa.Sec != fb.Sec {
				return fa.Sec < fb.Sec
			}
			return fa.Nano < fb.Nano
		})
		for pos, i := range idx {
			p.Files[i].HasReg = (pos >= evoCut) == evoAdded
		}
	}
	if r.Chance(40) {
		for i, m := 0, p.Knobs.HourlyMinFiles+r.Intn(2); i < m; i++ {
			f := mk(i, true)
			f.Hour = 0
			if mode == 7 {
				f.HasReg = evoAdded // late files come from the current writers
			}
			p.Late = append(p.Late, f)
		}
	}
	p.Family = []string{"kill", "kill", "kill", "podcrash", "podcrash", "fserr", "none"}[r.Intn(7)]
	p.Job = 0
	if r.Chance(20) {
		p.Job = 1
	}
	p.MaxPts = 8
	if tier == "thorough" {
		p.MaxPts = 40
	}
	p.PtSel = r.Intn(1000)
	p.Steps = 2 + r.Intn(3)
	if p.Family == "kill" && r.Chance(25) {
		p.Second = 1 + r.Intn(999)
	}
	p.Later = 1 + r.Intn(3)
	for i := 0; i < p.Later; i++ {
		p.GapS = append(p.GapS, []int{5, 20, 3700, 7200}[r.Intn(4)])
	}
	// long downtime / idle period or wall-clock step after the first cycle
	downPct := map[string]int{"podcrash": 60, "fserr": 30, "kill": 15, "none": 15}[p.Family]
	if r.Chance(downPct) {
		p.DownS = longSpan(r)
		if r.Chance(30) {
			p.DownMode = "wallstep"
		}
	}
	if p.Family == "kill" && r.Chance(35) {
		p.KillStepS = longSpan(r)
	}
	if p.Family == "kill" && r.Chance(75) {
		p.ParentErr = 4
		if tier == "thorough" {
			p.ParentErr = 12
		}
		if p.Knobs.MaxFilesPerBatch < 4 && r.Chance(60) {
			// whether the parent may retry is the question of these episodes: the
			// half-batch retry only runs for batches that can be split into two
			// batches of at least two files
			p.Knobs.MaxFilesPerBatch = []int{4, 6}[r.Intn(2)]
		}
	}
	return p
}

// ---------------------------------------------------------------------------

type fsRec struct {
	idx  int64
	kind string
	rel  string // path relative to the episode root
	rel2 string
	mut  bool
	n    int
	node string
}

// progress describes what the job had made durable before a fault point.
type progress struct {
	manifest bool // crash-recovery manifest present
	output   bool // output at its final name
	deleted  int  // input data files removed
	mdel     bool // manifest removed again
	cleanup  bool
}

func (g progress) label() string {
	switch {
	case g.mdel:
		return "after-manifest-delete"
	case g.output && g.deleted > 0:
		return "output-uploaded.inputs-partly-or-fully-deleted"
	case g.output:
		return "output-uploaded.no-input-deleted"
	case g.manifest:
		return "manifest-written.output-not-yet-visible"
	default:
		return "before-manifest"
	}
}

type faultPoint struct {
	Key   string // stable identity: kind@op-class#ordinal (or step@permille)
	No    int
	Kind  string // crash-before | crash-after | torn | step | err | short
	Idx   int64  // fs op index relative to the window base (crash/err) or step offset (step)
	Label string
	Op    string
	// Parent: after the kill, the parent's storage operation number PRel
	// (counted on the pod's node from the moment the job was found dead) fails once.
	Parent bool
	PRel   int64
	POp    string // kind:class of that operation
}

// parentOp is one storage operation of the parent in the window after a kill.
type parentOp struct {
	Rel int64
	Op  string
}

const parentErrSep = "+parent-err@"

// parentWindowCap bounds the recorded window (the handling of the dead job comes first).
const parentWindowCap = 16

type c09world struct {
	p           *C09Plan
	cfg         simrt.Config
	partStart   time.Time
	tmpl        string           // fixture root (contains data/)
	tags        []string         // tag columns of the measurement (union over all hours): the key of the uniform-metadata check
	hourTags    map[int][]string // hour partition -> its tag columns: union of the arc:tags of the partition's files
	timeOnly    bool             // some file carries arc:dedup_time and no arc:tags: its producer declares one row per timestamp
	dedup       bool
	uniformMeta bool
	job         int            // resolved target subprocess invocation
	node        string         // node whose operations form the fault window
	expInit     map[string]int // canonical row -> count (initial files)
	expLate     map[string]int
	keyOf       map[string]string         // canonical row -> dedup key
	valsOf      map[string]map[string]any // canonical row -> its column values
}

func (w *c09world) fileRel(f *C09File) string {
	pt := w.partStart.Add(time.Duration(f.Hour) * time.Hour)
	created := pt.Add(time.Duration(f.Sec)*time.Second + time.Duration(f.Nano))
	return hourDir(w.p.DB, w.p.Meas, pt) + "/" + w.p.Meas + "_" + fileStamp(created) + ".parquet"
}

func (w *c09world) base(f *C09File) int64 {
	return w.partStart.Add(time.Duration(f.Hour) * time.Hour).UnixMicro()
}

func newC09World(p *C09Plan, cfg simrt.Config) *c09world {
	w := &c09world{p: p, cfg: cfg, expInit: map[string]int{}, expLate: map[string]int{}, keyOf: map[string]string{}, valsOf: map[string]map[string]any{}, hourTags: map[int][]string{}}
	start := time.Unix(0, cfg.EpochNs).UTC()
	w.partStart = start.Truncate(time.Hour).Add(-time.Duration(p.AgeHours) * time.Hour)
	if p.Knobs.Daily {
		// keep both hour partitions inside one UTC day
		w.partStart = w.partStart.Truncate(24 * time.Hour).Add(5 * time.Hour)
	}
	// Dedup key of the oracle. The property lets rows collapse only when they
	// have identical tag values and timestamp. The tag columns of a partition
	// are the union of the arc:tags lists of its files (initial and late); a
	// row of a file that lacks one of them has NULL there, and NULL differs
	// from every value. Rows that differ in any of these columns or in time
	// must therefore both stay visible, whichever files a job happens to
	// compact together. The one exception is a producer's own declaration: a
	// file that carries arc:dedup_time and no arc:tags states that its data has
	// one row per timestamp, so as soon as such a file exists the oracle only
	// demands one surviving row per timestamp (jobs that contain that file may
	// legitimately use time alone).
	// uniformMeta (all files carry the same metadata) makes the key exact for
	// every job, which the within-output check relies on.
	w.uniformMeta = true
	all := append(append([]C09File(nil), p.Files...), p.Late...)
	sig := func(f *C09File) string {
		t := ""
		if f.TagMeta {
			t = strings.Join(f.tagCols(), ",")
		}
		return fmt.Sprintf("%s|%v", t, f.DedupTime)
	}
	hourSet := map[int]map[string]bool{}
	allSet := map[string]bool{}
	for i := range all {
		f := &all[i]
		tagged := f.TagMeta && len(f.tagCols()) > 0
		if tagged {
			if hourSet[f.Hour] == nil {
				hourSet[f.Hour] = map[string]bool{}
			}
			for _, t := range f.tagCols() {
				hourSet[f.Hour][t] = true
				allSet[t] = true
			}
		} else if f.DedupTime {
			w.timeOnly = true
		}
		if tagged || f.DedupTime {
			w.dedup = true
		} else {
			w.uniformMeta = false
		}
		if sig(f) != sig(&all[0]) {
			w.uniformMeta = false
		}
	}
	if !w.timeOnly {
		for h, set := range hourSet {
			var ts []string
			for t := range set {
				ts = append(ts, t)
			}
			sort.Strings(ts)
			w.hourTags[h] = ts
		}
		for t := range allSet {
			w.tags = append(w.tags, t)
		}
	}
	sort.Strings(w.tags)
	for i := range all {
		f := &all[i]
		for _, r := range f.Rows {
			m := f.rowVals(r, w.base(f))
			c := canon(m)
			w.keyOf[c] = dedupKey(m, w.hourTags[f.Hour])
			w.valsOf[c] = m
			if i < len(p.Files) {
				w.expInit[c]++
			} else {
				w.expLate[c]++
			}
		}
	}
	// fixture
	w.tmpl = mkScratch("tmpl")
	for i := range p.Files {
		f := &p.Files[i]
		path := filepath.Join(w.tmpl, "data", filepath.FromSlash(w.fileRel(f)))
		os.MkdirAll(filepath.Dir(path), 0o755)
		if err := os.WriteFile(path, f.encode(p.Meas, w.base(f)), 0o600); err != nil {
			harnessFatal("fixture write: %v", err)
		}
	}
	return w
}

// tracker follows which complete data files exist and what they hold, via
// the file-system observer, and judges "no input file is removed before its
// rows are in a complete output file" at every removal.
type tracker struct {
	w       *c09world
	dataDir string
	present map[string][]string // rel path -> canonical rows
	meta    map[string]fileMeta // rel path -> dedup metadata found in the file's footer
	// mixedKeys: dedup keys of rows that went into a job together with rows
	// that have the same time and the same values in every tag column the
	// job's inputs declare, but a different value in a tag column that only
	// other files of the partition declare (the input holding it carries no
	// arc:tags of its own, e.g. a compacted output). Diagnosis only: it
	// separates the fingerprints of two different causes of a lost key, it
	// never decides whether a key is lost.
	// The value says which kind of input held the rows without declaring
	// the tag: a compacted output or a raw file (e.g. written from WAL replay).
	mixedKeys map[string]string
	viol      []string // rule|msg
	unread    []string
	removals  int
}

type fileMeta struct {
	tags      []string
	dedupTime bool
}

func (t *tracker) load(rel string) {
	path := filepath.Join(t.dataDir, filepath.FromSlash(rel))
	rows, err := readParquetFile(path)
	if err != nil {
		t.unread = append(t.unread, fmt.Sprintf("%s: %v", filepath.Base(rel), err))
		t.present[rel] = nil
		delete(t.meta, rel)
		return
	}
	if tags, dt, err := readParquetDedupMeta(path); err == nil {
		t.meta[rel] = fileMeta{tags: tags, dedupTime: dt}
	} else {
		delete(t.meta, rel)
	}
	cs := make([]string, len(rows))
	for i, r := range rows {
		cs[i] = canon(r)
	}
	t.present[rel] = cs
}

func newTracker(w *c09world, dataDir string) *tracker {
	t := &tracker{w: w, dataDir: dataDir, present: map[string][]string{}, meta: map[string]fileMeta{}, mixedKeys: map[string]string{}}
	for _, rel := range listFiles(dataDir) {
		if isVisibleParquet(rel) {
			t.load(rel)
		}
	}
	return t
}

func (t *tracker) relData(p string) (string, bool) {
	if !strings.HasPrefix(p, t.dataDir+string(filepath.Separator)) {
		return "", false
	}
	rel := filepath.ToSlash(p[len(t.dataDir)+1:])
	return rel, isVisibleParquet(rel)
}

// jobInputs looks at the inputs of a job that is about to start (see mixedKeys).
func (t *tracker) jobInputs(files []string) {
	if !t.w.dedup || t.w.timeOnly {
		return
	}
	declared := map[string]bool{}
	dedupTime := false
	for _, f := range files {
		m, ok := t.meta[filepath.ToSlash(f)]
		if !ok {
			continue
		}
		for _, tg := range m.tags {
			declared[tg] = true
		}
		dedupTime = dedupTime || m.dedupTime
	}
	if len(declared) == 0 && !dedupTime {
		return // no dedup metadata among the inputs
	}
	var cols []string
	for tg := range declared {
		cols = append(cols, tg)
	}
	sort.Strings(cols)
	groups := map[string]map[string]bool{} // key over the declared columns -> oracle keys in it
	holder := map[string]string{}          // group -> kind of undeclaring input that contributed to it
	for _, f := range files {
		rel := filepath.ToSlash(f)
		kind := ""
		if m, ok := t.meta[rel]; !ok || (len(m.tags) == 0 && !m.dedupTime) {
			kind = "raw-file-without-arc-tags"
			if strings.Contains(rel, "_compacted.parquet") || strings.Contains(rel, "_daily.parquet") {
				kind = "compacted-output-without-arc-tags"
			}
		}
		for _, c := range t.present[rel] {
			m, ok := t.w.valsOf[c]
			if !ok {
				continue
			}
			g := dedupKey(m, cols)
			if groups[g] == nil {
				groups[g] = map[string]bool{}
			}
			groups[g][t.w.key(c)] = true
			if kind != "" && holder[g] != "compacted-output-without-arc-tags" {
				holder[g] = kind
			}
		}
	}
	found := false
	for g, ks := range groups {
		if len(ks) > 1 {
			found = true
			h := holder[g]
			if h == "" {
				h = "inputs-declare-narrower-arc-tags"
			}
			for k := range ks {
				if t.mixedKeys[k] != "compacted-output-without-arc-tags" {
					t.mixedKeys[k] = h
				}
			}
		}
	}
	if found {
		simrt.Count("probe.job_merges_rows_differing_in_undeclared_tag", 1)
	}
}

func (t *tracker) observe(op *simrt.FSOp, err error) {
	if err != nil || !op.Mut {
		return
	}
	switch op.Kind {
	case "rename":
		if rel, ok := t.relData(op.Path2); ok {
			t.load(rel)
		}
		if rel, ok := t.relData(op.Path); ok {
			delete(t.present, rel)
		}
	case "remove":
		rel, ok := t.relData(op.Path)
		if !ok {
			return
		}
		rows, had := t.present[rel]
		if !had {
			return
		}
		delete(t.present, rel)
		t.removals++
		// every row (or, with dedup metadata, every key) of the removed file
		// must still be shown by some complete file
		have := map[string]bool{}
		for _, cs := range t.present {
			for _, c := range cs {
				if t.w.dedup {
					have[t.w.key(c)] = true
				} else {
					have[c] = true
				}
			}
		}
		missing, mixed, mixedKind := 0, 0, ""
		for _, c := range rows {
			k := c
			if t.w.dedup {
				k = t.w.key(c)
			}
			if !have[k] {
				if t.w.dedup && t.mixedKeys[k] != "" {
					mixed++
					if mixedKind == "" || t.mixedKeys[k] < mixedKind {
						mixedKind = t.mixedKeys[k]
					}
				} else {
					missing++
				}
			}
		}
		kind := "input"
		if strings.Contains(rel, "_compacted.parquet") || strings.Contains(rel, "_daily.parquet") {
			kind = "compacted-output"
		}
		if missing > 0 {
			t.viol = append(t.viol, fmt.Sprintf("C09.file-removed-before-rows-in-complete-output.%s|%s removed while %d of its %d rows are in no other complete file of the partition", kind, filepath.Base(rel), missing, len(rows)))
		}
		if mixed > 0 {
			t.viol = append(t.viol, fmt.Sprintf("C09.file-removed-before-rows-in-complete-output"+mixedCause+"."+mixedKind+"|%s %s removed while %d of its %d rows are in no other complete file of the partition: the job merged them into rows that differ in a tag column which none of the job's inputs declares in arc:tags (another file of the partition does)", kind, filepath.Base(rel), mixed, len(rows)))
		}
	}
}

func (w *c09world) key(c string) string {
	if k, ok := w.keyOf[c]; ok {
		return k
	}
	return "?" + c
}

type verdict struct {
	rule string
	msg  string
}

// mixedCause marks the rules whose cause is established by the diagnosis of
// tracker.mixedKeys: it does not depend on a fault, so the rule id carries no
// fault circumstance.
const mixedCause = ".collapsed-over-tag-undeclared-by-job-inputs"

func ruleID(v verdict, circumstance string) string {
	if strings.Contains(v.rule, mixedCause) {
		return v.rule
	}
	return v.rule + "." + circumstance
}

// judge compares what the complete files of the measurement show with what
// was written.
func (w *c09world) judge(dataDir string, withLate bool, firstCycle bool, when string, mixedKeys map[string]string) []verdict {
	var out []verdict
	exp := map[string]int{}
	for c, n := range w.expInit {
		exp[c] += n
	}
	if withLate {
		for c, n := range w.expLate {
			exp[c] += n
		}
	}
	got := map[string]int{}
	total := 0
	fileKeysDup := ""
	// a job whose inputs all carry the same dedup metadata must emit one row
	// per (tags,time): judged only for the outputs of the fault-free first
	// cycle, whose inputs are exactly the fixture files
	strict := firstCycle && w.uniformMeta && w.dedup
	for _, rel := range listFiles(dataDir) {
		if !isVisibleParquet(rel) || !strings.HasPrefix(rel, w.p.DB+"/"+w.p.Meas+"/") {
			continue
		}
		rows, err := readParquetFile(filepath.Join(dataDir, filepath.FromSlash(rel)))
		if err != nil {
			out = append(out, verdict{"C09.unreadable-file-at-final-name", fmt.Sprintf("%s: %s: %v", when, filepath.Base(rel), err)})
			continue
		}
		seen := map[string]bool{}
		for _, r := range rows {
			c := canon(r)
			got[c]++
			total++
			if strict && strings.HasSuffix(rel, "_compacted.parquet") {
				k := dedupKey(r, w.tags)
				if seen[k] && fileKeysDup == "" {
					fileKeysDup = filepath.Base(rel)
				}
				seen[k] = true
			}
		}
	}
	if fileKeysDup != "" {
		out = append(out, verdict{"C09.dedup-not-applied-within-output", fmt.Sprintf("%s: every input of the cycle carries the same dedup metadata but compacted output %s holds two rows with the same (tags,time)", when, fileKeysDup)})
	}
	if n, err := duckCount(dataDir, w.p.DB, w.p.Meas); err != nil {
		out = append(out, verdict{"C09.partition-not-scannable", fmt.Sprintf("%s: DuckDB scan of the measurement fails: %s", when, firstLine(err.Error()))})
	} else if int(n) != total {
		out = append(out, verdict{"C09.scan-count-mismatch", fmt.Sprintf("%s: DuckDB scan shows %d rows, the files hold %d", when, n, total)})
	}
	var lost, lostMixed, dup, alien int
	lostMixedKind := ""
	var exLost, exLostMixed, exDup, exAlien string
	if !w.dedup {
		for c, n := range exp {
			if got[c] < n {
				lost += n - got[c]
				exLost = c
			}
		}
		for c, n := range got {
			if e, ok := exp[c]; !ok {
				alien += n
				exAlien = c
			} else if n > e {
				dup += n - e
				exDup = c
			}
		}
	} else {
		groups := map[string]int{}
		for c, n := range got {
			e, ok := exp[c]
			if !ok {
				alien += n
				exAlien = c
				continue
			}
			if n > e {
				dup += n - e
				exDup = c
			}
			groups[w.key(c)] += n
		}
		seenKey := map[string]bool{}
		for c := range exp {
			k := w.key(c)
			if !seenKey[k] && groups[k] == 0 {
				if mixedKeys[k] != "" {
					lostMixed++
					if exLostMixed == "" || c < exLostMixed {
						exLostMixed = c
					}
					if lostMixedKind == "" || mixedKeys[k] < lostMixedKind {
						lostMixedKind = mixedKeys[k]
					}
				} else {
					lost++
					if exLost == "" || c < exLost {
						exLost = c
					}
				}
			}
			seenKey[k] = true
		}
	}
	if lost > 0 {
		out = append(out, verdict{"C09.rows-lost", fmt.Sprintf("%s: %d written rows (dedup keys) are shown by no complete file, e.g. %s", when, lost, exLost)})
	}
	if lostMixed > 0 {
		out = append(out, verdict{"C09.rows-lost" + mixedCause + "." + lostMixedKind, fmt.Sprintf("%s: %d written rows (dedup keys) are shown by no complete file, e.g. %s: a job merged them into rows that differ in a tag column which none of that job's inputs declares in arc:tags (another file of the partition does; the input holding the values carries no arc:tags, e.g. a compacted output)", when, lostMixed, exLostMixed)})
	}
	if dup > 0 {
		out = append(out, verdict{"C09.rows-duplicated", fmt.Sprintf("%s: %d rows are shown more often than they were written, e.g. %s", when, dup, exDup)})
	}
	if alien > 0 {
		out = append(out, verdict{"C09.row-altered-or-fabricated", fmt.Sprintf("%s: %d shown rows were never written in that form, e.g. %s", when, alien, exAlien)})
	}
	return out
}

type epResult struct {
	res        simrt.Result
	verdicts   []verdict
	ops        []fsRec // twin only: ops of the target window
	winSteps   int64
	podSteps   int64
	jobSteps   []int64
	partInputs int
	atFault    string // what the faulted node had made durable when the first cycle ended
	fired      bool
	stepped    bool // the wall clock was stepped when the targeted job was killed
	window     []parentOp // kill episodes: the parent's storage operations after the kill (until the partition's next job or the end of the cycle)
	pfired     bool       // the parent-side storage error was injected
	jobs       int
	killed     int
	cycleErr   string
	note       string
}

// episode executes the plan once; fp == nil is the twin.
func (w *c09world) episode(fp *faultPoint, twin *epResult) *epResult {
	p := w.p
	ep := &epResult{}
	root := mkScratch("ep")
	defer os.RemoveAll(root)
	copyTree(w.tmpl, root)
	family := p.Family
	if timing {
		t0 := time.Now()
		defer func() { fmt.Fprintf(os.Stderr, "TIMING episode wall=%v steps=%d\n", time.Since(t0), ep.res.Steps) }()
	}
	ep.res = simrt.Run(w.cfg, func() {
		simrt.SetPathRoot(root)
		pd := newPod(root, p.Knobs)
		pd.colocate = family == "podcrash"
		curPod = pd
		defer func() { curPod = nil }()
		trk := newTracker(w, pd.dataDir)
		pd.inspect = trk.jobInputs
		var rec []fsRec
		recording := fp == nil
		live := map[string]*progress{}
		relOf := func(p string) string {
			if strings.HasPrefix(p, root) {
				return filepath.ToSlash(strings.TrimPrefix(p, root+"/"))
			}
			return p
		}
		// the parent's window after the kill of the targeted job
		winOpen, winPart, killBase := false, "", int64(0)
		simrt.SetFSObserver(func(op *simrt.FSOp, err error) {
			trk.observe(op, err)
			if winOpen && op.Node == pd.sn && strings.HasPrefix(op.Path, pd.dataDir+string(filepath.Separator)) && len(ep.window) < parentWindowCap {
				ep.window = append(ep.window, parentOp{Rel: op.Index - killBase, Op: opClass(op.Kind, relOf(op.Path))})
			}
			if err == nil && op.Mut && op.Node != nil {
				g := live[op.Node.Name]
				if g == nil {
					g = &progress{}
					live[op.Node.Name] = g
				}
				g.advance(op.Kind, relOf(op.Path), relOf(op.Path2))
			}
			if recording && op.Node != nil {
				r := fsRec{idx: op.Index, kind: op.Kind, mut: op.Mut, n: op.N, node: op.Node.Name}
				if strings.HasPrefix(op.Path, root) {
					r.rel = filepath.ToSlash(strings.TrimPrefix(op.Path, root+"/"))
				} else {
					r.rel = op.Path
				}
				if op.Path2 != "" && strings.HasPrefix(op.Path2, root) {
					r.rel2 = filepath.ToSlash(strings.TrimPrefix(op.Path2, root+"/"))
				}
				rec = append(rec, r)
			}
		})
		// arm the fault
		arm := func(node *simrt.Node) {
			if fp == nil {
				return
			}
			switch fp.Kind {
			case "step":
				node.CrashAtStep = fp.Idx
				ep.fired = true // the CRASH-AT-STEP event tells whether it landed
			default:
				target := fp.Idx
				simrt.SetFSInjector(func(op *simrt.FSOp) simrt.FSAction {
					if op.Node != node || op.Index != target {
						return simrt.FSAction{}
					}
					simrt.SetFSInjector(nil)
					ep.fired = true
					simrt.Event("FAULT %s at op#%d %s %s", fp.Kind, fp.Idx, op.Kind, filepath.Base(op.Path))
					switch fp.Kind {
					case "crash-before":
						return simrt.FSAction{Crash: 1}
					case "crash-after":
						return simrt.FSAction{Crash: 2}
					case "torn":
						if op.Kind == "write" && op.N > 1 {
							simrt.Count("fault.torn_write", 1)
							return simrt.FSAction{Crash: 3, Short: 1 + int(uint64(op.Index*7919+int64(fp.No))%uint64(op.N-1))}
						}
						return simrt.FSAction{Crash: 1}
					case "short":
						if op.Kind == "write" && op.N > 1 {
							return simrt.FSAction{Short: op.N / 2, Err: simrt.ENOSPC}
						}
						return simrt.FSAction{Err: simrt.ENOSPC}
					default: // err
						if fp.No%2 == 0 {
							return simrt.FSAction{Err: simrt.EIO}
						}
						return simrt.FSAction{Err: simrt.EACCES}
					}
				})
			}
		}
		if family == "kill" && fp != nil {
			pd.onKilled = func(j *jobRec) {
				if j.idx != w.job {
					return
				}
				if p.KillStepS > 0 {
					// one machine, one wall clock: jobs started later inherit it
					simrt.StepWall(pd.sn, time.Duration(p.KillStepS)*time.Second)
					ep.stepped = true
				}
				winOpen, winPart, killBase = true, j.part, pd.sn.FSOps()
				if !fp.Parent {
					return
				}
				target := killBase + fp.PRel
				simrt.SetFSInjector(func(op *simrt.FSOp) simrt.FSAction {
					if op.Node != pd.sn || op.Index != target {
						return simrt.FSAction{}
					}
					simrt.SetFSInjector(nil)
					if !winOpen || opClass(op.Kind, relOf(op.Path)) != fp.POp {
						return simrt.FSAction{} // not the operation the kill-only episode saw here
					}
					ep.pfired = true
					simrt.Count("fault.parent_storage_error_after_kill", 1)
					simrt.Event("FAULT parent-err at +%d %s", fp.PRel, fp.POp)
					return simrt.FSAction{Err: simrt.EIO}
				})
			}
		}
		if family == "podcrash" {
			arm(pd.sn)
		} else if fp != nil {
			pd.onJob = func(j *jobRec) {
				if winOpen && j.idx != w.job && j.part == winPart {
					winOpen = false // the partition's next job (a retry) starts: the dead job has been dealt with
				}
				if j.idx == w.job {
					arm(j.node)
				} else if j.idx == w.job+1 && p.Second > 0 && family == "kill" {
					k := twin.winSteps * int64(p.Second) / 1000
					if k < 1 {
						k = 1
					}
					j.node.CrashAtStep = k
				}
			}
		}
		var cerr error
		alive := pd.onNode("cycle1", func() {
			pd.boot()
			cerr = pd.cycle()
		})
		recording = false
		winOpen = false
		simrt.SetFSInjector(nil)
		pd.onJob = nil
		pd.onKilled = nil
		if g := live[w.node]; g != nil {
			ep.atFault = g.label() // the faulted node stopped here (kill / pod crash)
		} else {
			ep.atFault = progress{}.label()
		}
		ep.podSteps = pd.sn.Steps()
		for _, j := range pd.jobs {
			ep.jobSteps = append(ep.jobSteps, j.stEnd-j.stBase)
		}
		ep.ops = rec
		if cerr != nil {
			ep.cycleErr = cerr.Error()
		}
		needBoot := false
		if !alive {
			if family != "podcrash" || fp == nil {
				ep.note = "pod died without a pod-crash fault"
				return
			}
			simrt.Count("fault.pod_crash", 1)
			for _, j := range pd.jobs {
				if j.node != pd.sn && !j.node.Dead {
					simrt.Crash(j.node)
				}
			}
			pd.sn.CrashAtStep = 0
			simrt.Revive(pd.sn)
			needBoot = true
		} else {
			pd.sn.CrashAtStep = 0
		}
		ep.jobs = len(pd.jobs)
		defer func() { ep.partInputs = pd.partInputs }()
		for _, j := range pd.jobs {
			if j.killed {
				ep.killed++
			}
		}
		if fp == nil {
			for _, v := range w.judge(pd.dataDir, false, true, "after the fault-free first cycle", trk.mixedKeys) {
				ep.verdicts = append(ep.verdicts, v)
			}
		}
		if p.DownS > 0 {
			// the pod is down (after a pod crash) or idle for days; nothing runs
			d := time.Duration(p.DownS) * time.Second
			if p.DownMode == "wallstep" {
				simrt.StepWall(pd.sn, d)
			} else {
				simrt.Count("fault.long_downtime", 1)
				simrt.AdvanceClock(d)
			}
		}
		withLate := false
		if len(p.Late) > 0 {
			ok := pd.onNode("late-writes", func() {
				if needBoot {
					pd.boot()
					needBoot = false
				}
				for i := range p.Late {
					f := &p.Late[i]
					// late data for the old partition, flushed now: the file name carries the current time
					pt := w.partStart
					rel := hourDir(p.DB, p.Meas, pt) + "/" + p.Meas + "_" + fileStamp(simrt.Now()) + ".parquet"
					if err := pd.local.Write(context.Background(), rel, f.encode(p.Meas, w.base(f))); err != nil {
						panic(fmt.Sprintf("late write: %v", err))
					}
					simrt.Sleep(time.Millisecond)
				}
			})
			if !ok {
				ep.note = "pod died during late writes"
				return
			}
			withLate = true
		}
		for i := 0; i < p.Later; i++ {
			gap := time.Duration(p.GapS[i%len(p.GapS)]) * time.Second
			if withLate && i == 0 && gap < 2*time.Hour {
				gap = 2*time.Hour + gap // the tier waits until the newest file is older than its minimum age
			}
			simrt.AdvanceClock(gap)
			ok := pd.onNode(fmt.Sprintf("cycle%d", i+2), func() {
				if needBoot {
					pd.boot()
					needBoot = false
				}
				if err := pd.cycle(); err != nil {
					simrt.Event("CYCLE-ERROR %s", strings.ReplaceAll(err.Error(), root, ""))
				}
			})
			if !ok {
				ep.note = "pod died in a fault-free later cycle"
				return
			}
			for _, v := range w.judge(pd.dataDir, withLate, false, fmt.Sprintf("after later cycle %d", i+1), trk.mixedKeys) {
				ep.verdicts = append(ep.verdicts, v)
			}
			simrt.Event("JUDGED cycle=%d files=%d", i+2, len(trk.present))
		}
		for _, s := range trk.viol {
			parts := strings.SplitN(s, "|", 2)
			ep.verdicts = append(ep.verdicts, verdict{parts[0], parts[1]})
		}
		simrt.Count("probe.data_file_removals", int64(trk.removals))
	})
	return ep
}

// advance folds one successful mutating operation into the progress of a job.
func (g *progress) advance(kind, rel, rel2 string) {
	state := "data/" + compaction.ManifestBasePath + "/"
	inState := strings.Contains(rel, state) || strings.Contains(rel2, state)
	switch {
	case kind == "rename" && inState:
		*g = progress{manifest: true} // a new job's manifest: start over
	case kind == "rename" && strings.HasSuffix(rel2, ".parquet") && strings.HasPrefix(rel2, "data/"):
		g.output = true
	case kind == "remove" && inState && strings.HasSuffix(rel, ".json"):
		g.mdel = true
	case kind == "remove" && strings.HasSuffix(rel, ".parquet") && strings.HasPrefix(rel, "data/"):
		g.deleted++
	}
}

// progressAt derives what was durable before fs op number idx of the window.
func progressAt(ops []fsRec, node string, idx int64) progress {
	var g progress
	for _, o := range ops {
		if o.node != node || o.idx >= idx || !o.mut {
			continue
		}
		g.advance(o.kind, o.rel, o.rel2)
	}
	return g
}

// faultPoints enumerates the family's fault space from the twin's recording.
func (w *c09world) faultPoints(twin *epResult) []faultPoint {
	p := w.p
	var pts []faultPoint
	ord := map[string]int{}
	add := func(kind string, idx int64, op string) {
		k := kind + "@" + op
		pts = append(pts, faultPoint{Key: fmt.Sprintf("%s#%d", k, ord[k]), Kind: kind, Idx: idx, Op: op, Label: progressAt(twin.ops, w.node, idx).label()})
		ord[k]++
	}
	var storage, work []fsRec
	for _, o := range twin.ops {
		if !o.mut || o.node != w.node {
			continue
		}
		if strings.HasPrefix(o.rel, "data/") {
			storage = append(storage, o)
		} else {
			work = append(work, o)
		}
	}
	desc := func(o fsRec) string { return opClass(o.kind, o.rel) }
	switch p.Family {
	case "kill", "podcrash":
		for i, o := range storage {
			add("crash-before", o.idx, desc(o))
			if o.kind == "write" && o.n > 1 {
				add("torn", o.idx, desc(o))
			}
			if i == len(storage)-1 {
				add("crash-after", o.idx, desc(o))
			}
		}
		// phase kills inside the work directory (download, compaction, cleanup)
		for k := 0; k < 3 && len(work) > 0; k++ {
			o := work[(p.PtSel+k*len(work)/3)%len(work)]
			add("crash-before", o.idx, desc(o))
		}
		for k := 0; k < p.Steps && twin.winSteps > 1; k++ {
			pm := (int64(p.PtSel)*7 + int64(k)*1000/int64(p.Steps)) % 1000
			pts = append(pts, stepPoint(pm, twin.winSteps))
		}
	case "fserr":
		for _, o := range storage {
			add("err", o.idx, desc(o))
			if o.kind == "write" && o.n > 1 {
				add("short", o.idx, desc(o))
			}
		}
		for k := 0; k < 2 && len(work) > 0; k++ {
			o := work[(p.PtSel+k*len(work)/2)%len(work)]
			add("err", o.idx, desc(o))
		}
	}
	for i := range pts {
		pts[i].No = i
	}
	if len(p.Only) > 0 {
		var sel []faultPoint
		seen := map[string]bool{}
		for _, key := range p.Only {
			if i := strings.Index(key, parentErrSep); i >= 0 {
				key = key[:i] // the kill-only episode runs first: it yields the parent's window
			}
			if seen[key] {
				continue
			}
			seen[key] = true
			if strings.HasPrefix(key, "step@") {
				var pm int64
				fmt.Sscanf(key, "step@%d", &pm)
				if twin.winSteps > 1 {
					sel = append(sel, stepPoint(pm, twin.winSteps))
				}
				continue
			}
			for _, pt := range pts {
				if pt.Key == key {
					sel = append(sel, pt)
				}
			}
		}
		return sel
	}
	if p.MaxPts > 0 && len(pts) > p.MaxPts {
		// Sample: first one point of every phase of the job (what was durable
		// before the point: the property quantifies over a kill "at each phase"),
		// chosen by the plan among the points of that phase; the remaining slots
		// are an evenly spaced sample of the other points with a plan-chosen
		// offset. Phases with few storage operations (the input deletes) would
		// otherwise often go unsampled next to the many operations of an upload.
		taken := make([]bool, len(pts))
		var sel []faultPoint
		var labels []string
		byLabel := map[string][]int{}
		for i, pt := range pts {
			if _, ok := byLabel[pt.Label]; !ok {
				labels = append(labels, pt.Label)
			}
			byLabel[pt.Label] = append(byLabel[pt.Label], i)
		}
		if len(labels) <= p.MaxPts {
			for k, l := range labels {
				c := byLabel[l]
				i := c[(p.PtSel+k)%len(c)]
				taken[i] = true
				sel = append(sel, pts[i])
			}
		}
		var rest []faultPoint
		for i, pt := range pts {
			if !taken[i] {
				rest = append(rest, pt)
			}
		}
		if m := p.MaxPts - len(sel); m > 0 && len(rest) > 0 {
			if m > len(rest) {
				m = len(rest)
			}
			for k := 0; k < m; k++ {
				sel = append(sel, rest[(p.PtSel+k*len(rest)/m)%len(rest)])
			}
		}
		sort.Slice(sel, func(i, j int) bool { return sel[i].No < sel[j].No })
		return sel
	}
	return pts
}

// opClass names a file-system operation by its kind and the class of its
// path (rel is relative to the episode root).
func opClass(kind, rel string) string {
	b := filepath.Base(rel)
	switch {
	case strings.Contains(rel, compaction.ManifestBasePath):
		b = "manifest"
	case strings.HasSuffix(b, ".part"):
		b = "output.part"
	case strings.HasSuffix(b, ".parquet"):
		b = "data-file"
	case strings.HasPrefix(rel, "data/"):
		b = "storage-dir"
	default:
		b = "temp"
	}
	return kind + ":" + b
}

// killCand is a kill point whose kill-only episode showed storage operations
// of the parent in the window after the kill.
type killCand struct {
	fp    faultPoint
	win   []parentOp
	label string // phase in which the job died
}

// parentPoint builds the episode "kill c.fp, then the parent's window
// operation number i fails once".
func parentPoint(c killCand, i int) faultPoint {
	o := c.win[i]
	ord := 0
	for _, x := range c.win[:i] {
		if x.Op == o.Op {
			ord++
		}
	}
	fp := c.fp
	fp.Key = fmt.Sprintf("%s%s%s#%d", c.fp.Key, parentErrSep, o.Op, ord)
	fp.Parent, fp.PRel, fp.POp = true, o.Rel, o.Op
	return fp
}

func parentPointByKey(cands []killCand, key string) (faultPoint, bool) {
	if !strings.Contains(key, parentErrSep) {
		return faultPoint{}, false
	}
	for _, c := range cands {
		if !strings.HasPrefix(key, c.fp.Key+parentErrSep) {
			continue
		}
		for i := range c.win {
			if fp := parentPoint(c, i); fp.Key == key {
				return fp, true
			}
		}
	}
	return faultPoint{}, false
}

// parentPoints samples n (kill point, parent operation) pairs. The space is
// the union of the recorded windows; it is stratified by the phase in which
// the job died (what it had made durable), and the slots are handed out in
// proportion to the number of storage operations the parent performs for a
// job that died in that phase (highest averages), so that the sample is
// spread evenly over the operations. Within a phase the kill point and the
// operation rotate with the plan's selector; no pair is taken twice.
func parentPoints(cands []killCand, n, sel int) []faultPoint {
	type group struct {
		label string
		cs    []killCand
		size  int // operations in the group's largest window
		picks int
	}
	var groups []*group
	byLabel := map[string]*group{}
	for _, c := range cands {
		g := byLabel[c.label]
		if g == nil {
			g = &group{label: c.label}
			byLabel[c.label] = g
			groups = append(groups, g)
		}
		g.cs = append(g.cs, c)
		if len(c.win) > g.size {
			g.size = len(c.win)
		}
	}
	taken := map[string]bool{}
	var out []faultPoint
	for len(out) < n {
		var best *group
		for _, g := range groups {
			total := 0
			for _, c := range g.cs {
				total += len(c.win)
			}
			if g.picks >= total {
				continue // exhausted
			}
			if best == nil || g.size*(best.picks+1) > best.size*(g.picks+1) {
				best = g
			}
		}
		if best == nil {
			break
		}
		// next untaken pair of the group, starting at a plan-chosen position
		found := false
		for a := 0; a < len(best.cs) && !found; a++ {
			c := best.cs[(sel+best.picks+a)%len(best.cs)]
			for b := 0; b < len(c.win) && !found; b++ {
				i := (sel/7 + best.picks*5 + b) % len(c.win)
				fp := parentPoint(c, i)
				if !taken[fp.Key] {
					taken[fp.Key] = true
					out = append(out, fp)
					found = true
				}
			}
		}
		best.picks++
	}
	return out
}

func stepPoint(permille, winSteps int64) faultPoint {
	return faultPoint{Key: fmt.Sprintf("step@%d", permille), Kind: "step", Idx: 1 + permille*(winSteps-1)/1000, Op: "sched-step", Label: "at-scheduling-step"}
}

// violKeys remembers the fault points at which the most recent run found its
// violations, as a hint for the shrinker (which only sees plans); it never
// influences a run.
var violKeys []string

func familyWord(f string) string {
	switch f {
	case "kill":
		return "job-killed"
	case "podcrash":
		return "pod-crashed"
	case "fserr":
		return "storage-error"
	}
	return "fault-free"
}

// clockWord names the clock circumstance of an episode for the rule id: a
// defect that only shows when the wall clock is days ahead by the time the
// fault is handled (a long downtime, or a forward step of the wall clock
// before the next cycle or at the kill; "handling" = the parent settling a
// dead job, or the next cycle with its manifest recovery) gets its own
// fingerprint.
func clockWord(p *C09Plan, ep *epResult) string {
	if p.DownS >= daySeconds || (ep != nil && ep.stepped && p.KillStepS >= daySeconds) {
		return ".next-handling-with-wall-clock-days-ahead"
	}
	return ""
}

func mixHash(h, v uint64) uint64 {
	h ^= v
	h *= 0x100000001b3
	h ^= h >> 29
	return h
}

func runC09(planAny any, cfg simrt.Config) *simkit.Outcome {
	p := planAny.(*C09Plan)
	out := &simkit.Outcome{Stats: map[string]int64{}}
	if len(p.Files) == 0 {
		out.Discard = "empty"
		return out
	}
	if p.Later < 1 {
		p.Later = 1
	}
	if len(p.GapS) == 0 {
		p.GapS = []int{20}
	}
	w := newC09World(p, cfg)
	defer os.RemoveAll(w.tmpl)
	twin := w.episode(nil, nil)
	out.Absorb(twin.res)
	hash, steps := twin.res.TraceHash, twin.res.Steps
	fail := func(ep *epResult, what string) bool {
		if len(ep.res.Panics) > 0 {
			out.Violate("C09.panic."+what, "%s", firstLine(ep.res.Panics[0]))
			out.Panics = ep.res.Panics
			return true
		}
		if ep.res.Outcome != "ok" {
			out.Sim = ep.res.Outcome
			out.Tail = ep.res.Tail
			return true
		}
		if ep.note != "" {
			harnessFatal("C09 episode (%s): %s\n%s", what, ep.note, strings.Join(ep.res.Tail, "\n"))
		}
		return false
	}
	if fail(twin, "fault-free") {
		return out
	}
	for _, v := range twin.verdicts {
		out.Violate(ruleID(v, "fault-free"+clockWord(p, twin)), "%s", v.msg)
	}
	out.Stats["probe.jobs_fault_free"] += int64(twin.jobs)
	if twin.jobs > 0 {
		out.Nontrivial = true
	}
	if len(out.Violations) > 0 || p.Family == "none" || p.Family == "" {
		out.Hash, out.Steps = hash, steps
		return out
	}
	if p.Family == "podcrash" {
		w.node = "pod"
		twin.winSteps = twin.podSteps
	} else {
		if twin.jobs == 0 {
			out.Stats["probe.no_job_to_fault"]++
			out.Hash, out.Steps = hash, steps
			return out
		}
		w.job = p.Job
		if w.job >= twin.jobs {
			w.job = twin.jobs - 1
		}
		w.node = fmt.Sprintf("job%d", w.job)
		twin.winSteps = twin.jobSteps[w.job]
	}
	pts := w.faultPoints(twin)
	nViol := 0
	violKeys = violKeys[:0]
	var cands []killCand
	// exec runs one fault episode and judges it; false = stop enumerating
	exec := func(fp faultPoint) bool {
		ep := w.episode(&fp, twin)
		out.Evals++
		hash = mixHash(hash, ep.res.TraceHash)
		steps += ep.res.Steps
		for k, v := range ep.res.Stats {
			out.Stats[k] += v
		}
		out.SimNs += ep.res.SimNs
		out.Decisions += ep.res.Decisions
		if fail(ep, p.Family+" "+fp.Key) {
			out.Tail = ep.res.Tail
			return false
		}
		if !ep.fired {
			out.Stats["probe.fault_not_reached"]++
			return true
		}
		if fp.Parent && !ep.pfired {
			out.Stats["probe.parent_fault_not_reached"]++
			return true
		}
		if fp.Parent {
			out.Stats["fault."+p.Family+"."+fp.Kind+".then-parent-storage-error"]++
		} else {
			out.Stats["fault."+p.Family+"."+fp.Kind]++
		}
		if p.Family == "kill" && !fp.Parent && ep.killed > 0 && len(ep.window) > 0 {
			c := killCand{fp: fp, win: ep.window, label: fp.Label}
			if fp.Kind == "step" {
				c.label = ep.atFault
			}
			cands = append(cands, c)
		}
		if ep.killed > 1 {
			out.Stats["probe.retry_job_killed_too"]++
		}
		if ep.jobs > twin.jobs {
			out.Stats["probe.extra_jobs_after_fault"]++
		}
		for _, v := range ep.verdicts {
			label := fp.Label
			if fp.Kind == "step" {
				label = ep.atFault // same circumstance as a kill at the adjacent storage operation
			}
			if fp.Parent {
				label += ".then-parent-storage-error-at-" + strings.ReplaceAll(fp.POp, ":", "-")
			}
			if ep.partInputs > 0 && strings.HasPrefix(v.rule, "C09.rows-duplicated") {
				// diagnosis, not oracle: the duplicate rows came from a complete
				// "<output>.part" staging file that a later job read as an input
				label = "leftover-staging-part-file-compacted-as-input"
			}
			rule := ruleID(v, familyWord(p.Family)+"."+label+clockWord(p, ep))
			out.Violate(rule, "fault point %s (index %d in the %s window of node %s; durable before it: %s): %s", fp.Key, fp.Idx, p.Family, w.node, fp.Label, v.msg)
		}
		if len(ep.verdicts) > 0 {
			// keep enumerating: a violation at one point must not hide the
			// later points of the same plan
			if len(out.Tail) == 0 || nViol < len(out.Violations) {
				out.Tail = ep.res.Tail
			}
			if nViol < len(out.Violations) {
				violKeys = append(violKeys, fp.Key)
			}
			nViol = len(out.Violations)
		}
		return true
	}
	more := true
	for _, fp := range pts {
		if more = exec(fp); !more {
			break
		}
	}
	if more && p.Family == "kill" {
		// kill followed by one transient storage error in the parent while it
		// deals with the dead job
		var extra []faultPoint
		if len(p.Only) > 0 {
			for _, key := range p.Only {
				if fp, ok := parentPointByKey(cands, key); ok {
					extra = append(extra, fp)
				}
			}
		} else if p.ParentErr > 0 {
			extra = parentPoints(cands, p.ParentErr, p.PtSel)
		}
		for _, fp := range extra {
			if !exec(fp) {
				break
			}
		}
		pts = append(pts, extra...)
	}
	out.Hash, out.Steps = hash, steps
	out.Stats["probe.fault_points"] += int64(len(pts))
	return out
}

func shrinkC09(planAny any) []any {
	p := planAny.(*C09Plan)
	var out []any
	cp := func() *C09Plan {
		q := *p
		q.Files = append([]C09File(nil), p.Files...)
		q.Late = append([]C09File(nil), p.Late...)
		q.Only = append([]string(nil), p.Only...)
		q.GapS = append([]int(nil), p.GapS...)
		return &q
	}
	if len(p.Only) != 1 && p.Family != "none" {
		for _, k := range violKeys {
			q := cp()
			q.Only = []string{k}
			out = append(out, q)
		}
	}
	if len(p.Late) > 0 {
		q := cp()
		q.Late = nil
		out = append(out, q)
	}
	if p.Later > 1 {
		q := cp()
		q.Later = 1
		out = append(out, q)
	}
	if p.Second > 0 {
		q := cp()
		q.Second = 0
		out = append(out, q)
	}
	if p.DownS > 0 {
		q := cp()
		q.DownS, q.DownMode = 0, ""
		out = append(out, q)
	}
	if p.DownS > 0 && p.DownMode != "" {
		q := cp()
		q.DownMode = ""
		out = append(out, q)
	}
	if p.KillStepS > 0 {
		q := cp()
		q.KillStepS = 0
		out = append(out, q)
	}
	if p.ParentErr > 0 && len(p.Only) == 0 {
		q := cp()
		q.ParentErr = 0
		out = append(out, q)
	}
	if p.Knobs.Daily {
		q := cp()
		q.Knobs.Daily = false
		out = append(out, q)
	}
	if p.Knobs.ConsumedHook != "" {
		q := cp()
		q.Knobs.ConsumedHook = ""
		out = append(out, q)
	}
	for i := range p.Files {
		if len(p.Files) > 2 {
			q := cp()
			q.Files = append(q.Files[:i], q.Files[i+1:]...)
			out = append(out, q)
		}
	}
	for i := range p.Files {
		if len(p.Files[i].Rows) > 1 {
			q := cp()
			f := q.Files[i]
			f.Rows = append([]RowSpec(nil), f.Rows[:1]...)
			q.Files[i] = f
			out = append(out, q)
		}
	}
	return out
}

func descC09(planAny any) any {
	p := planAny.(*C09Plan)
	rows := 0
	meta := map[string]int{}
	for _, f := range p.Files {
		rows += len(f.Rows)
		switch {
		case f.TagMeta:
			meta["arc:tags="+strings.Join(f.tagCols(), ",")]++
		case f.DedupTime:
			meta["arc:dedup_time"]++
		default:
			meta["none"]++
		}
	}
	return map[string]any{"files": len(p.Files), "rows": rows, "late_files": len(p.Late), "metadata": meta, "family": p.Family, "target_job": p.Job,
		"knobs": p.Knobs, "age_hours": p.AgeHours, "later_cycles": p.Later, "gaps_s": p.GapS, "second_kill_permille": p.Second,
		"down_s": p.DownS, "down_mode": p.DownMode, "kill_step_s": p.KillStepS, "parent_err_points": p.ParentErr}
}
