//go:build verif

package main

import (
	"os"

	"github.com/rs/zerolog"

	"github.com/basekick-labs/arc/internal/verifsim/simkit"
)

func main() {
	zerolog.SetGlobalLevel(zerolog.Disabled)
	if os.Getenv("VERIF_LOG") != "" {
		zerolog.SetGlobalLevel(zerolog.DebugLevel)
	}
	if os.Getenv("VERIF_BENCH") != "" {
		benchDuck()
		return
	}
	installHooks()
	simkit.Main(
		&simkit.Check{ID: "C09", Gen: genC09, New: func() any { return &C09Plan{} }, Run: runC09, Shrink: shrinkC09, Desc: descC09},
	)
}
