//go:build verif

package main

import (
	"os"
	"runtime"
	"strconv"
	"syscall"

	"github.com/rs/zerolog"
	"golang.org/x/sys/unix"

	"github.com/basekick-labs/arc/internal/verifsim/simkit"
)

// pinSelf re-executes the binary with a CPU affinity of two cores. Every
// compaction job opens its own DuckDB instance (as the real subprocess does),
// and DuckDB sizes its thread pool from the affinity mask: with all cores
// visible each open spawns/joins a pool per job, which dominates the run time
// (and collapses when the machine is shared with other workers). The
// simulation itself is single-threaded, so nothing is lost.
func pinSelf() {
	if os.Getenv("VERIF_PINNED") != "" || os.Getenv("VERIF_NOPIN") != "" {
		return
	}
	n := runtime.NumCPU()
	if n <= 2 {
		return
	}
	w := os.Getpid()
	for i, a := range os.Args {
		if (a == "-worker" || a == "--worker") && i+1 < len(os.Args) {
			if v, err := strconv.Atoi(os.Args[i+1]); err == nil {
				w = v * 2
			}
		}
	}
	runtime.LockOSThread()
	var set unix.CPUSet
	set.Set(w % n)
	set.Set((w + 1) % n)
	if err := unix.SchedSetaffinity(0, &set); err != nil {
		return
	}
	exe, err := os.Executable()
	if err != nil {
		return
	}
	env := append(os.Environ(), "VERIF_PINNED=1")
	syscall.Exec(exe, os.Args, env) // returns only on failure: continue unpinned
}

func main() {
	pinSelf()
	zerolog.SetGlobalLevel(zerolog.Disabled)
	if os.Getenv("VERIF_LOG") != "" {
		zerolog.SetGlobalLevel(zerolog.DebugLevel)
	}
	installHooks()
	simkit.Main(
		&simkit.Check{ID: "C09", Gen: genC09, New: func() any { return &C09Plan{} }, Run: runC09, Shrink: shrinkC09, Desc: descC09},
		&simkit.Check{ID: "C11", Gen: genC11, New: func() any { return &C11Plan{} }, Run: runC11, Shrink: shrinkC11, Desc: descC11},
	)
}
