//go:build verif

package compaction

import (
	"github.com/basekick-labs/arc/internal/storage"
	"github.com/rs/zerolog"
)

// CreateStorageBackendForVerif exposes the subprocess-side backend factory.
func CreateStorageBackendForVerif(cfg *SubprocessJobConfig, logger zerolog.Logger) (storage.Backend, error) {
	return createStorageBackendFromConfig(cfg, logger)
}
