//go:build verif

package main

import (
	"context"
	"crypto/sha256"
	"encoding/hex"
	"encoding/json"
	"errors"
	"fmt"
	"os"
	"path/filepath"
	"sort"
	"strings"
	"time"

	"github.com/gofiber/fiber/v2"
	"github.com/valyala/fasthttp"

	"github.com/basekick-labs/arc/internal/api"
	"github.com/basekick-labs/arc/internal/config"
	"github.com/basekick-labs/arc/internal/database"
	"github.com/basekick-labs/arc/internal/simrt"
	"github.com/basekick-labs/arc/internal/verifsim/simkit"
)

// C11 — retention only deletes data older than the cutoff.
//
// One simulated arc process ("pod") holds a real LocalBackend, the real
// RetentionHandler (policies in a real SQLite file, per-file max(time) through
// the real database.DuckDB), and the real compaction Manager for interleaved
// histories. The clock of internal/api/retention.go is the simulated clock, so
// the oracle knows the exact cutoff of every execution: files are laid out
// relative to the cutoff of a planned execution instant (below, straddling,
// max exactly equal, above).

type C11File struct {
	FileSpec
	DB    string `json:"db"`
	Meas  string `json:"meas"`
	Day   bool   `json:"day"`    // day-level compacted file (db/meas/Y/M/D/*_daily.parquet)
	Ref   int    `json:"ref"`    // policy whose cutoff (at execution instant RefAt) the row offsets refer to
	RefAt int    `json:"ref_at"` // seconds after the reference instant R0
	Seq   int    `json:"seq"`
	// Same > 0 (files of a write operation only): the file is stored under the
	// key of the plan's file with that Seq and replaces whatever is there (or
	// re-creates what retention or compaction removed): a restore, re-import or
	// recall under the old key, or an in-place rewrite of the file. The rows
	// are this file's own.
	Same int `json:"same,omitempty"`
}

type C11Policy struct {
	DB      string `json:"db"`
	Meas    string `json:"meas"` // "" = all measurements of the database
	RetDays int    `json:"ret_days"`
	BufDays int    `json:"buf_days"`
}

type C11Fault struct {
	Kind string `json:"kind"` // delete-err | list-err | crash-fs | crash-step | meta-err | meta-err-rest
	K    int    `json:"k"`
}

type C11Op struct {
	Kind   string    `json:"kind"` // exec | sched | dry | dry+real | compact | write
	AtS    int       `json:"at_s"` // planned instant: seconds after R0 (operations are ordered by it)
	Policy int       `json:"policy"`
	With   string    `json:"with,omitempty"` // "" | compact (a compaction cycle runs concurrently) | clockjump
	Fault  *C11Fault `json:"fault,omitempty"`
	Files  []C11File `json:"files,omitempty"` // write
}

type C11Plan struct {
	Knobs    PodKnobs    `json:"knobs"`
	Policies []C11Policy `json:"policies"`
	Files    []C11File   `json:"files"`
	Ops      []C11Op     `json:"ops"`
	// Strays: leftovers of earlier interrupted writes (a staging `.part`, a
	// hidden temporary) lying in the partition tree next to or above data files.
	Strays []C11Stray `json:"strays,omitempty"`
}

// C11Stray is a non-data file placed Up directory levels above the directory
// of the plan's initial file number File (0: next to it; for an hourly file
// 1 = day, 2 = month, 3 = year directory).
type C11Stray struct {
	File int    `json:"file"`
	Up   int    `json:"up"`
	Name string `json:"name"`
}

var c11Offsets = []int64{
	-10 * 86400e6, -3 * 86400e6, -3600e6, -1e6, -1, 0, 1, 1e6, 3600e6, 2 * 86400e6, 40 * 86400e6,
}

func genC11File(r *simrt.Rand, rid *int64, seq *int, pols []C11Policy, ats []int) C11File {
	f := C11File{DB: []string{"db", "db", "db2"}[r.Intn(3)], Meas: []string{"cpu", "cpu", "cpu_total", "mem"}[r.Intn(4)], Day: r.Chance(20)}
	*seq++
	f.Seq = *seq
	f.Ref = r.Intn(len(pols))
	f.RefAt = ats[r.Intn(len(ats))]
	f.HasHost, f.HasS = true, r.Chance(50)
	n := 1 + r.Intn(5)
	// shape of the file relative to the cutoff
	shape := r.Intn(6)
	for i := 0; i < n; i++ {
		*rid++
		var t int64
		switch shape {
		case 0: // entirely below
			t = c11Offsets[r.Intn(5)] - int64(r.Intn(1000))
		case 1: // maximum exactly equal to the cutoff
			t = -int64(r.Intn(3600)) * 1e6
			if i == 0 {
				t = 0
			}
		case 2: // maximum one microsecond below
			t = -1 - int64(r.Intn(3600))*1e6
			if i == 0 {
				t = -1
			}
		case 3: // straddling
			t = c11Offsets[r.Intn(len(c11Offsets))]
			if i == 0 {
				t = -3600e6
			}
			if i == 1 {
				t = 3600e6
			}
		case 4: // entirely above
			t = c11Offsets[5+r.Intn(6)] + int64(r.Intn(1000))
		default:
			t = c11Offsets[r.Intn(len(c11Offsets))]
		}
		f.Rows = append(f.Rows, RowSpec{Rid: *rid, T: t, Host: r.Intn(3), Reg: -1, NulS: r.Chance(20)})
	}
	return f
}

func genC11(r *simrt.Rand, tier string) any {
	p := &C11Plan{}
	p.Knobs = PodKnobs{HourlyMinFiles: 2 + r.Intn(2), MaxFilesPerBatch: []int{3, 30}[r.Intn(2)], MaxConcurrent: 1 + r.Intn(2), Daily: r.Chance(40), DailyMinFiles: 2, ObjStore: r.Chance(35)}
	np := 1 + r.Intn(3)
	for i := 0; i < np; i++ {
		pol := C11Policy{DB: []string{"db", "db", "db2"}[r.Intn(3)], RetDays: []int{2, 7, 30}[r.Intn(3)], BufDays: []int{0, 1}[r.Intn(2)]}
		if r.Chance(50) {
			pol.Meas = []string{"cpu", "cpu_total", "mem"}[r.Intn(3)]
		}
		p.Policies = append(p.Policies, pol)
	}
	nops := 1 + r.Intn(5)
	if tier == "thorough" {
		nops = 1 + r.Intn(9)
	}
	at := 0
	var ats []int
	for i := 0; i < nops; i++ {
		ats = append(ats, at)
		at += []int{1, 60, 3600, 86400, 2 * 86400}[r.Intn(5)]
	}
	var rid int64
	seq := 0
	nf := 2 + r.Intn(9)
	for i := 0; i < nf; i++ {
		p.Files = append(p.Files, genC11File(r, &rid, &seq, p.Policies, ats))
	}
	earlier := append([]C11File(nil), p.Files...)
	for i := 0; i < nops; i++ {
		op := C11Op{AtS: ats[i], Policy: r.Intn(np)}
		switch x := r.Intn(100); {
		case x < 30:
			op.Kind = "exec"
		case x < 45:
			op.Kind = "sched"
		case x < 60:
			op.Kind = "dry"
		case x < 72:
			op.Kind = "dry+real"
		case x < 86:
			op.Kind = "compact"
		default:
			op.Kind = "write"
			for k, m := 0, 1+r.Intn(3); k < m; k++ {
				f := genC11File(r, &rid, &seq, p.Policies, ats)
				if r.Chance(50) {
					// same key as an earlier file of the plan, other content
					t := earlier[r.Intn(len(earlier))]
					f.Same, f.DB, f.Meas, f.Day = t.Seq, t.DB, t.Meas, t.Day
				}
				op.Files = append(op.Files, f)
			}
			for _, f := range op.Files {
				if f.Same == 0 {
					earlier = append(earlier, f)
				}
			}
		}
		if op.Kind == "exec" || op.Kind == "sched" {
			switch x := r.Intn(100); {
			case x < 12:
				op.With = "compact"
			case x < 20:
				op.With = "clockjump"
			}
			switch x := r.Intn(100); {
			case x < 10:
				op.Fault = &C11Fault{Kind: "delete-err", K: r.Intn(4)}
			case x < 16:
				op.Fault = &C11Fault{Kind: "list-err", K: r.Intn(3)}
			case x < 24:
				op.Fault = &C11Fault{Kind: "crash-fs", K: r.Intn(30)}
			case x < 30:
				op.Fault = &C11Fault{Kind: "crash-step", K: 1 + r.Intn(80)}
			case x < 38:
				// the K-th per-file metadata read fails (transient engine or
				// object-store error) ...
				op.Fault = &C11Fault{Kind: "meta-err", K: r.Intn(5)}
			case x < 44:
				// ... or it and every later one (deadline or cancellation mid-scan)
				op.Fault = &C11Fault{Kind: "meta-err-rest", K: r.Intn(5)}
			}
		}
		p.Ops = append(p.Ops, op)
	}
	if len(p.Files) > 0 && r.Chance(35) {
		for k, n := 0, 1+r.Intn(2); k < n; k++ {
			p.Strays = append(p.Strays, C11Stray{File: r.Intn(len(p.Files)), Up: r.Intn(4),
				Name: []string{".leftover", "cpu_20260101_000000_000000000.parquet.part", ".tmp_upload"}[r.Intn(3)]})
		}
	}
	return p
}

// ---------------------------------------------------------------------------

// shared DuckDB of the process (the query engine instance the handler gets in
// cmd/arc); its sandbox root is the parent of every C11 scratch directory.
var c11Duck *database.DuckDB
var c11Base string

func c11DuckDB() *database.DuckDB {
	if c11Duck == nil {
		c11Base = mkScratch("c11base")
		d, err := database.New(&database.Config{MemoryLimit: "256MB", ThreadCount: 1, MaxConnections: 2, LocalStorageRoot: c11Base}, quietLogger)
		if err != nil {
			harnessFatal("database.New: %v", err)
		}
		c11Duck = d
	}
	return c11Duck
}

type c11world struct {
	p   *C11Plan
	cfg simrt.Config
	r0  time.Time
	pd  *pod
	rh  *api.RetentionHandler
	// files whose metadata read the injector failed during the run being judged
	metaFailed map[string]bool
	app        *fiber.App
	hnd        fasthttp.RequestHandler
	ids        []int64 // policy ids
	out        *simkit.Outcome
	rows       map[string][]rowAt // rel path -> rows (cache; dropped when the harness writes under the key)
	nSeq       int
	// target is the planned instant of the current operation
	target time.Time
}

// alignTo moves the clock to exactly the planned instant (when it is still in
// the future) and returns the instant the handler will read: no scheduling
// point lies between this call and the handler's own time.Now().
func (w *c11world) alignTo() time.Time {
	if d := w.target.Sub(simrt.Now()); d > 0 {
		simrt.AdvanceClock(d)
		simrt.Count("probe.exec_exactly_at_planned_instant", 1)
	}
	return simrt.Now()
}

type rowAt struct {
	c  string // canonical row
	us int64
}

func (w *c11world) cutoffFor(pol C11Policy, at time.Time) time.Time {
	return at.UTC().AddDate(0, 0, -(pol.RetDays + pol.BufDays))
}

func (w *c11world) fileRel(f *C11File) (string, int64) {
	pol := w.p.Policies[f.Ref%len(w.p.Policies)]
	cut := w.cutoffFor(pol, w.r0.Add(time.Duration(f.RefAt)*time.Second))
	base := cut.UnixMicro()
	if f.Same > 0 {
		// stored under the key of an earlier file of the plan
		if t := w.fileBySeq(f.Same); t != nil && t.Same == 0 && len(t.Rows) > 0 {
			rel, _ := w.fileRel(t)
			return rel, base
		}
	}
	// directory from the first row's time
	t0 := time.UnixMicro(base + f.Rows[0].T).UTC()
	stamp := fileStamp(t0.Add(time.Duration(f.Seq) * time.Millisecond))
	if f.Day {
		return fmt.Sprintf("%s/%s/%04d/%02d/%02d/%s_%s_b1_daily.parquet", f.DB, f.Meas, t0.Year(), int(t0.Month()), t0.Day(), f.Meas, stamp), base
	}
	return hourDir(f.DB, f.Meas, t0) + "/" + f.Meas + "_" + stamp + ".parquet", base
}

func (w *c11world) fileBySeq(seq int) *C11File {
	for i := range w.p.Files {
		if w.p.Files[i].Seq == seq {
			return &w.p.Files[i]
		}
	}
	for oi := range w.p.Ops {
		for i := range w.p.Ops[oi].Files {
			if w.p.Ops[oi].Files[i].Seq == seq {
				return &w.p.Ops[oi].Files[i]
			}
		}
	}
	return nil
}

func (w *c11world) request(method, path string, body any) (int, []byte) {
	var ctx fasthttp.RequestCtx
	ctx.Init(&fasthttp.Request{}, nil, nil)
	ctx.Request.Header.SetMethod(method)
	ctx.Request.SetRequestURI(path)
	if body != nil {
		b, _ := json.Marshal(body)
		ctx.Request.Header.SetContentType("application/json")
		ctx.Request.SetBodyRaw(b)
	}
	w.hnd(&ctx)
	return ctx.Response.StatusCode(), append([]byte(nil), ctx.Response.Body()...)
}

// boot (re)creates the process: storage, compaction manager, retention handler.
func (w *c11world) boot() {
	w.pd.boot()
	if w.rh != nil {
		w.rh.Close() // release the dead process's SQLite handle
	}
	rh, err := api.NewRetentionHandler(w.pd.backend, c11DuckDB(), &config.RetentionConfig{Enabled: true, DBPath: filepath.Join(w.pd.root, "meta", "retention.db")}, nil, nil, harnessLogger())
	if err != nil {
		panic(fmt.Sprintf("NewRetentionHandler: %v", err))
	}
	w.rh = rh
	w.app = fiber.New(fiber.Config{DisableStartupMessage: true})
	rh.RegisterRoutes(w.app)
	w.hnd = w.app.Handler()
}

// snapshot lists the data files with their rows.
func (w *c11world) snapshot() map[string][]rowAt {
	out := map[string][]rowAt{}
	for _, rel := range listFiles(w.pd.dataDir) {
		if !isVisibleParquet(rel) {
			continue
		}
		if rs, ok := w.rows[rel]; ok {
			out[rel] = rs
			continue
		}
		rows, err := readParquetFile(filepath.Join(w.pd.dataDir, filepath.FromSlash(rel)))
		if err != nil {
			w.out.Violate("C11.unreadable-file-at-final-name", "%s: %v", rel, err)
			continue
		}
		var rs []rowAt
		for _, r := range rows {
			us, _ := r["time"].(int64)
			rs = append(rs, rowAt{c: canon(r), us: us})
		}
		w.rows[rel] = rs
		out[rel] = rs
	}
	return out
}

func treeHash(dir string) string {
	h := sha256.New()
	for _, rel := range listFiles(dir) {
		b, _ := os.ReadFile(filepath.Join(dir, filepath.FromSlash(rel)))
		fmt.Fprintf(h, "%s|%d|", rel, len(b))
		h.Write(b)
	}
	// directories too: a dry run must not even tidy up
	filepath.WalkDir(dir, func(p string, d os.DirEntry, err error) error {
		if err == nil && d.IsDir() {
			rel, _ := filepath.Rel(dir, p)
			fmt.Fprintf(h, "D%s|", rel)
		}
		return nil
	})
	return hex.EncodeToString(h.Sum(nil))
}

func inScope(pol C11Policy, rel string) bool {
	parts := strings.Split(rel, "/")
	if len(parts) < 3 || parts[0] != pol.DB {
		return false
	}
	return pol.Meas == "" || parts[1] == pol.Meas
}

type execResp struct {
	DeletedCount int64  `json:"deleted_count"`
	FilesDeleted int    `json:"files_deleted"`
	DryRun       bool   `json:"dry_run"`
	CutoffDate   string `json:"cutoff_date"`
	Error        string `json:"error"`
}

// expected computes what the property prescribes for a run with this cutoff.
func expected(pol C11Policy, snap map[string][]rowAt, cutoffUS int64) (files int, rows int64) {
	for rel, rs := range snap {
		if !inScope(pol, rel) || len(rs) == 0 {
			continue
		}
		old := true
		for _, r := range rs {
			if r.us >= cutoffUS {
				old = false
			}
		}
		if old {
			files++
			rows += int64(len(rs))
		}
	}
	return
}

func runC11(planAny any, cfg simrt.Config) *simkit.Outcome {
	p := planAny.(*C11Plan)
	out := &simkit.Outcome{Stats: map[string]int64{}}
	if len(p.Policies) == 0 || len(p.Ops) == 0 {
		out.Discard = "empty"
		return out
	}
	c11DuckDB()
	if p.Knobs.ObjStore {
		out.Stats["probe.object_store_facade_runs"]++
	}
	root := filepath.Join(c11Base, fmt.Sprintf("run%d", scratchSeq.Add(1)))
	os.MkdirAll(root, 0o755)
	defer os.RemoveAll(root)
	w := &c11world{p: p, cfg: cfg, out: out, rows: map[string][]rowAt{}}
	start := time.Unix(0, cfg.EpochNs).UTC()
	w.r0 = start.Add(time.Hour).Truncate(time.Microsecond)
	if p.Knobs.ObjStore {
		// the handler addresses files of a non-local backend by their key; the
		// query engine then resolves them against the working directory
		cwd, _ := os.Getwd()
		os.MkdirAll(filepath.Join(root, "data"), 0o755)
		if err := os.Chdir(filepath.Join(root, "data")); err != nil {
			harnessFatal("chdir: %v", err)
		}
		defer os.Chdir(cwd)
	}
	res := simrt.Run(cfg, func() {
		simrt.SetPathRoot(root)
		w.pd = newPod(root, p.Knobs)
		curPod = w.pd
		defer func() { curPod = nil }()
		defer func() {
			if w.rh != nil {
				w.rh.Close()
			}
		}()
		needBoot := true
		ensure := func() {
			if needBoot {
				w.boot()
				needBoot = false
			}
		}
		writeFiles := func(fs []C11File) {
			for i := range fs {
				f := &fs[i]
				if len(f.Rows) == 0 {
					continue
				}
				rel, base := w.fileRel(f)
				if err := w.pd.local.Write(context.Background(), rel, f.encode(f.Meas, base)); err != nil {
					panic(fmt.Sprintf("fixture write: %v", err))
				}
				delete(w.rows, rel) // the key may have held other content before
				if f.Same > 0 {
					simrt.Count("probe.writes_under_an_earlier_key", 1)
				}
			}
		}
		ok := w.pd.onNode("setup", func() {
			ensure()
			writeFiles(p.Files)
			for _, st := range p.Strays {
				f := &p.Files[st.File%len(p.Files)]
				if len(f.Rows) == 0 {
					continue
				}
				rel, _ := w.fileRel(f)
				dir := filepath.Dir(filepath.FromSlash(rel))
				for u := 0; u < st.Up; u++ {
					dir = filepath.Dir(dir)
				}
				// never above <db>/<measurement>
				if len(strings.Split(filepath.ToSlash(dir), "/")) < 3 {
					continue
				}
				if err := os.WriteFile(filepath.Join(w.pd.dataDir, dir, st.Name), []byte("leftover"), 0o644); err != nil {
					panic(fmt.Sprintf("fixture stray: %v", err))
				}
				simrt.Count("probe.stray_leftover_files", 1)
			}
			for i, pol := range p.Policies {
				body := map[string]any{"name": fmt.Sprintf("p%d", i), "database": pol.DB, "retention_days": pol.RetDays, "buffer_days": pol.BufDays, "is_active": true}
				if pol.Meas != "" {
					body["measurement"] = pol.Meas
				}
				st, rb := w.request("POST", "/api/v1/retention/", body)
				if st != 201 {
					panic(fmt.Sprintf("create policy: %d %s", st, rb))
				}
				var pr struct {
					ID int64 `json:"id"`
				}
				json.Unmarshal(rb, &pr)
				w.ids = append(w.ids, pr.ID)
			}
		})
		if !ok {
			panic("setup died")
		}
		lastEnd := simrt.Now()
		for oi := range p.Ops {
			op := &p.Ops[oi]
			// coarse advance here; the exact alignment to the planned instant
			// happens inside the calling task, right before the call (alignTo)
			target := w.r0.Add(time.Duration(op.AtS) * time.Second)
			w.target = target
			if d := target.Add(-time.Second).Sub(simrt.Now()); d > 0 {
				simrt.AdvanceClock(d)
			}
			onTime := true
			pol := p.Policies[op.Policy%len(p.Policies)]
			pid := w.ids[op.Policy%len(p.Policies)]
			switch op.Kind {
			case "write":
				for i := range op.Files {
					if op.Files[i].Same > 0 {
						// content under an existing key changes a few seconds
						// after the last activity at the earliest: the new
						// object carries a modification time of its own
						if d := lastEnd.Add(2 * time.Second).Sub(simrt.Now()); d > 0 {
							simrt.AdvanceClock(d)
						}
						break
					}
				}
				if !w.pd.onNode("write", func() { ensure(); writeFiles(op.Files) }) {
					panic("write died")
				}
			case "compact":
				if !w.pd.onNode("compact", func() {
					ensure()
					if err := w.pd.cycle(); err != nil {
						simrt.Event("CYCLE-ERROR %s", strings.ReplaceAll(err.Error(), w.pd.root, ""))
					}
				}) {
					panic("compaction died without a fault")
				}
				simrt.Count("probe.compaction_cycles", 1)
			case "dry", "dry+real":
				w.dryRun(op, pol, pid, ensure, onTime)
			case "exec", "sched":
				if w.realRun(op, pol, pid, ensure, onTime, op.Fault, op.With) {
					needBoot = true
				}
			}
			if len(out.Violations) > 0 {
				return
			}
			lastEnd = simrt.Now()
		}
	})
	out.Absorb(res)
	if len(res.Panics) > 0 {
		out.Violate("C11.panic", "%s", firstLine(res.Panics[0]))
	}
	out.Nontrivial = out.Stats["probe.real_runs"] > 0 || out.Stats["probe.dry_runs"] > 0
	return out
}

// dryRun executes a dry run through the HTTP handler and checks: tree
// byte-identical, and the reported counts are what a real run deletes.
func (w *c11world) dryRun(op *C11Op, pol C11Policy, pid int64, ensure func(), onTime bool) {
	out := w.out
	var st int
	var rb []byte
	var before, after string
	var snap map[string][]rowAt
	var callAt time.Time
	ok := w.pd.onNode("dry", func() {
		ensure()
		snap = w.snapshot()
		before = treeHash(w.pd.dataDir)
		callAt = w.alignTo()
		st, rb = w.request("POST", fmt.Sprintf("/api/v1/retention/%d/execute", pid), map[string]any{"dry_run": true, "confirm": false})
		after = treeHash(w.pd.dataDir)
	})
	if !ok {
		panic("dry run died")
	}
	simrt.Count("probe.dry_runs", 1)
	if before != after {
		out.Violate("C11.dry-run-changed-the-tree", "the data directory differs after a dry run of policy %+v", pol)
	}
	if st != 200 {
		out.Violate("C11.dry-run-failed-without-fault", "status %d: %s", st, rb)
		return
	}
	var resp execResp
	json.Unmarshal(rb, &resp)
	cutoff := w.cutoffFor(pol, callAt)
	w.checkCutoffEcho(resp, cutoff)
	ef, er := expected(pol, snap, cutoffUS(cutoff))
	if resp.FilesDeleted != ef || resp.DeletedCount != er {
		out.Violate("C11.dry-run-count-differs-from-real-deletion", "dry run of %+v at cutoff %s reports %d files / %d rows; a run that deletes exactly the files whose rows are all older than the cutoff removes %d files / %d rows",
			pol, cutoff.Format(time.RFC3339Nano), resp.FilesDeleted, resp.DeletedCount, ef, er)
	}
	simrt.Event("DRY policy=%d files=%d rows=%d", op.Policy, resp.FilesDeleted, resp.DeletedCount)
	if op.Kind != "dry+real" {
		return
	}
	// the real run right after must delete what the dry run announced, unless a
	// file's maximum lies between the two cutoffs
	var st2 int
	var rb2 []byte
	var callAt2 time.Time
	ok = w.pd.onNode("real-after-dry", func() {
		callAt2 = simrt.Now()
		st2, rb2 = w.request("POST", fmt.Sprintf("/api/v1/retention/%d/execute", pid), map[string]any{"dry_run": false, "confirm": true})
	})
	if !ok {
		panic("real run died")
	}
	simrt.Count("probe.real_runs", 1)
	if st2 != 200 {
		out.Violate("C11.run-failed-without-fault", "status %d: %s", st2, rb2)
		return
	}
	var resp2 execResp
	json.Unmarshal(rb2, &resp2)
	cut2 := w.cutoffFor(pol, callAt2)
	w.judgeReal(pol, snap, w.snapshot(), cut2, true, "", "real run after dry run")
	ef2, er2 := expected(pol, snap, cutoffUS(cut2))
	if ef2 == ef && er2 == er && (resp2.FilesDeleted != resp.FilesDeleted || resp2.DeletedCount != resp.DeletedCount) {
		out.Violate("C11.dry-run-count-differs-from-real-run", "dry run announced %d files / %d rows, the real run right after deleted %d files / %d rows", resp.FilesDeleted, resp.DeletedCount, resp2.FilesDeleted, resp2.DeletedCount)
	}
}

func cutoffUS(t time.Time) int64 {
	// rows carry microsecond timestamps; ts >= cutoff  <=>  ts_us >= ceil(cutoff_us)
	us := t.UnixMicro()
	if t.Nanosecond()%1000 != 0 {
		us++
	}
	return us
}

func (w *c11world) checkCutoffEcho(resp execResp, cutoff time.Time) {
	if resp.CutoffDate != "" && resp.CutoffDate != cutoff.Format(time.RFC3339) {
		harnessFatal("C11: handler cutoff %s differs from the oracle's %s (clock drifted between the oracle's reading and the handler's)", resp.CutoffDate, cutoff.Format(time.RFC3339))
	}
}

func (w *c11world) failedMeta(rel string) bool {
	for p := range w.metaFailed {
		if p = filepath.ToSlash(p); p == rel || strings.HasSuffix(p, "/"+rel) {
			return true
		}
	}
	return false
}

// judgeReal applies the property to one real execution.
func (w *c11world) judgeReal(pol C11Policy, before, after map[string][]rowAt, cutoff time.Time, success bool, fault string, what string) {
	out := w.out
	cu := cutoffUS(cutoff)
	have := map[string]int{}
	for _, rs := range after {
		for _, r := range rs {
			have[r.c]++
		}
	}
	// (a) no removed row at or after the cutoff; nothing outside the policy's scope is touched
	type lostRow struct {
		rel string
		r   rowAt
	}
	var young, foreign []lostRow
	rels := make([]string, 0, len(before))
	for rel := range before {
		rels = append(rels, rel)
	}
	sort.Strings(rels)
	for _, rel := range rels {
		for _, r := range before[rel] {
			if have[r.c] > 0 {
				have[r.c]--
				continue
			}
			if !inScope(pol, rel) {
				foreign = append(foreign, lostRow{rel, r})
			} else if r.us >= cu {
				young = append(young, lostRow{rel, r})
			}
		}
	}
	sfx := ""
	if fault != "" {
		sfx = ".under-" + fault
	}
	if len(young) > 0 {
		eq := ".timestamp-equal-to-cutoff" // only when every such row sits exactly on the cutoff
		for _, l := range young {
			if l.r.us != cu || cutoff.Nanosecond()%1000 != 0 {
				eq = ""
			}
		}
		out.Violate("C11.row-at-or-after-cutoff-deleted"+eq+sfx, "%s, policy %+v, cutoff %s: %d rows with ts >= cutoff are gone, e.g. %s from %s", what, pol, cutoff.Format(time.RFC3339Nano), len(young), young[0].r.c, young[0].rel)
	}
	if len(foreign) > 0 {
		out.Violate("C11.row-outside-policy-scope-deleted"+sfx, "%s, policy %+v: %d rows of other databases/measurements are gone, e.g. %s from %s", what, pol, len(foreign), foreign[0].r.c, foreign[0].rel)
	}
	// (b) after a successful run no surviving file of a covered measurement is entirely old
	if success {
		for _, rel := range rels {
			rs, still := after[rel]
			if !still || !inScope(pol, rel) || len(rs) == 0 {
				continue
			}
			if w.failedMeta(rel) {
				// the run could not learn this file's time range: keeping it
				// is the only safe answer, whatever the run then reports
				continue
			}
			old := true
			for _, r := range rs {
				if r.us >= cu {
					old = false
				}
			}
			if old {
				out.Violate("C11.entirely-old-file-remains-after-successful-run"+sfx, "%s, policy %+v, cutoff %s reported success, but %s (all %d rows older than the cutoff) is still there", what, pol, cutoff.Format(time.RFC3339Nano), rel, len(rs))
				break
			}
		}
	}
}

// realRun executes the policy for real (HTTP handler or the scheduler's
// ExecutePolicy), possibly with a fault or a concurrent activity. Returns
// true when the process died (restart needed).
func (w *c11world) realRun(op *C11Op, pol C11Policy, pid int64, ensure func(), onTime bool, fault *C11Fault, with string) bool {
	out := w.out
	var before map[string][]rowAt
	var callAt time.Time
	var st int
	var rb []byte
	var serr error
	finished := false
	faultFired := ""
	w.pd.onNode("pre", func() { ensure(); before = w.snapshot() })
	// faults
	pd := w.pd
	pd.sn.CrashAtStep = 0
	if fault != nil {
		switch fault.Kind {
		case "crash-step":
			pd.sn.CrashAtStep = pd.sn.Steps() + int64(fault.K)
		default:
			seen := 0
			base := pd.sn.FSOps()
			simrt.SetFSInjector(func(o *simrt.FSOp) simrt.FSAction {
				if o.Node != pd.sn {
					return simrt.FSAction{}
				}
				switch fault.Kind {
				case "delete-err":
					if o.Kind == "remove" && strings.HasSuffix(o.Path, ".parquet") {
						seen++
						if seen-1 == fault.K {
							faultFired = "storage-delete-error"
							return simrt.FSAction{Err: simrt.EIO}
						}
					}
				case "list-err":
					if o.Kind == "walk" {
						seen++
						if seen-1 == fault.K {
							faultFired = "storage-list-error"
							return simrt.FSAction{Err: simrt.EIO}
						}
					}
				case "crash-fs":
					if o.Mut && o.Index-base >= int64(fault.K) {
						simrt.SetFSInjector(nil)
						faultFired = "process-crash"
						if o.Index%2 == 0 {
							return simrt.FSAction{Crash: 1}
						}
						return simrt.FSAction{Crash: 2}
					}
				}
				return simrt.FSAction{}
			})
		}
	}
	metaFailed := map[string]bool{} // files whose metadata read was failed in this run
	if fault != nil && (fault.Kind == "meta-err" || fault.Kind == "meta-err-rest") {
		seen := 0
		api.SimHook_RetentionFileMeta = func(h *api.RetentionHandler, ctx context.Context, filePath string) (time.Time, int64, error) {
			seen++
			if seen-1 == fault.K || (fault.Kind == "meta-err-rest" && seen-1 > fault.K) {
				faultFired = "metadata-read-error"
				metaFailed[filePath] = true
				simrt.Event("META-READ-FAIL #%d %s", seen-1, strings.TrimPrefix(filePath, pd.root))
				if fault.Kind == "meta-err-rest" {
					return time.Time{}, 0, context.DeadlineExceeded
				}
				return time.Time{}, 0, errors.New("IO Error: could not read parquet footer (injected)")
			}
			return h.VerifRealFileMeta(ctx, filePath)
		}
		defer func() { api.SimHook_RetentionFileMeta = nil }()
	}
	var side *simrt.Task
	switch with {
	case "compact":
		side = simrt.GoOn("side-compaction", pd.sn, func() {
			if err := pd.cycle(); err != nil {
				simrt.Event("CYCLE-ERROR %s", strings.ReplaceAll(err.Error(), pd.root, ""))
			}
		})
		simrt.Count("probe.retention_concurrent_with_compaction", 1)
	case "clockjump":
		side = simrt.GoOn("side-clock", simrt.NodeOf("harness"), func() {
			simrt.Sleep(50 * time.Microsecond)
			simrt.AdvanceClock(36 * time.Hour)
		})
	}
	h := simrt.GoOn("retention", pd.sn, func() {
		callAt = w.alignTo()
		if op.Kind == "sched" {
			_, serr = w.rh.ExecutePolicy(context.Background(), pid)
			if serr == nil {
				st = 200
			} else {
				st = 500
			}
		} else {
			st, rb = w.request("POST", fmt.Sprintf("/api/v1/retention/%d/execute", pid), map[string]any{"dry_run": false, "confirm": true})
		}
		finished = true
	})
	simrt.Join(h)
	if side != nil {
		simrt.Join(side)
	}
	simrt.SetFSInjector(nil)
	died := pd.sn.Dead
	if fault != nil && fault.Kind == "crash-step" && pd.sn.CrashAtStep == 0 && died {
		faultFired = "process-crash"
	}
	pd.sn.CrashAtStep = 0
	if died {
		for _, j := range pd.jobs {
			if j.node != pd.sn && !j.node.Dead {
				simrt.Crash(j.node) // the job processes die with the pod
			}
		}
		simrt.Revive(pd.sn)
	}
	if !finished && !died {
		panic("retention task ended without finishing and without a crash")
	}
	simrt.Count("probe.real_runs", 1)
	if faultFired != "" {
		simrt.Count("fault."+faultFired, 1)
	}
	after := w.snapshot()
	cutoff := w.cutoffFor(pol, callAt)
	if callAt.IsZero() {
		// crashed before the call started: nothing may have changed
		cutoff = w.cutoffFor(pol, simrt.Now())
	}
	success := finished && st == 200
	if finished && op.Kind != "sched" && st == 200 {
		var resp execResp
		json.Unmarshal(rb, &resp)
		w.checkCutoffEcho(resp, cutoff)
	}
	if finished && st != 200 && faultFired == "" && with == "" {
		out.Violate("C11.run-failed-without-fault", "status %d: %s %v", st, rb, serr)
	}
	what := fmt.Sprintf("%s at R0+%ds", op.Kind, op.AtS)
	if with != "" {
		what += " concurrent with " + with
	}
	w.metaFailed = metaFailed
	w.judgeReal(pol, before, after, cutoff, success, faultFired, what)
	w.metaFailed = nil
	simrt.Event("REAL policy=%d status=%d finished=%v fault=%s", op.Policy, st, finished, faultFired)
	_ = onTime
	return died
}

func shrinkC11(planAny any) []any {
	p := planAny.(*C11Plan)
	var out []any
	cp := func() *C11Plan {
		q := *p
		q.Files = append([]C11File(nil), p.Files...)
		q.Ops = append([]C11Op(nil), p.Ops...)
		q.Policies = append([]C11Policy(nil), p.Policies...)
		return &q
	}
	for i := range p.Ops {
		if len(p.Ops) > 1 {
			q := cp()
			q.Ops = append(q.Ops[:i], q.Ops[i+1:]...)
			out = append(out, q)
		}
	}
	for i := range p.Strays {
		q := cp()
		q.Strays = append(append([]C11Stray(nil), p.Strays[:i]...), p.Strays[i+1:]...)
		out = append(out, q)
	}
	for i := range p.Ops {
		if p.Ops[i].Fault != nil || p.Ops[i].With != "" {
			q := cp()
			o := q.Ops[i]
			o.Fault, o.With = nil, ""
			q.Ops[i] = o
			out = append(out, q)
		}
	}
	for i := range p.Files {
		if len(p.Files) > 1 {
			q := cp()
			q.Files = append(q.Files[:i], q.Files[i+1:]...)
			out = append(out, q)
		}
	}
	for i := range p.Files {
		if len(p.Files[i].Rows) > 1 {
			for j := range p.Files[i].Rows {
				q := cp()
				f := q.Files[i]
				f.Rows = append(append([]RowSpec(nil), f.Rows[:j]...), f.Rows[j+1:]...)
				q.Files[i] = f
				out = append(out, q)
			}
		}
	}
	if p.Knobs.Daily {
		q := cp()
		q.Knobs.Daily = false
		out = append(out, q)
	}
	return out
}

func descC11(planAny any) any {
	p := planAny.(*C11Plan)
	var ops []string
	for _, o := range p.Ops {
		s := fmt.Sprintf("%s@%ds(p%d)", o.Kind, o.AtS, o.Policy)
		if o.With != "" {
			s += "+" + o.With
		}
		if o.Fault != nil {
			s += fmt.Sprintf("!%s#%d", o.Fault.Kind, o.Fault.K)
		}
		if o.Kind == "write" {
			same := 0
			for _, f := range o.Files {
				if f.Same > 0 {
					same++
				}
			}
			s += fmt.Sprintf("[%d files, %d under the key of an earlier file]", len(o.Files), same)
		}
		ops = append(ops, s)
	}
	var fl []string
	for _, f := range p.Files {
		mn, mx := f.Rows[0].T, f.Rows[0].T
		for _, r := range f.Rows {
			if r.T < mn {
				mn = r.T
			}
			if r.T > mx {
				mx = r.T
			}
		}
		lvl := "hour"
		if f.Day {
			lvl = "day"
		}
		fl = append(fl, fmt.Sprintf("%s/%s %s rows=%d span=[%dus,%dus] vs cutoff(p%d@%ds)", f.DB, f.Meas, lvl, len(f.Rows), mn, mx, f.Ref, f.RefAt))
	}
	return map[string]any{"policies": p.Policies, "files": fl, "ops": ops}
}
