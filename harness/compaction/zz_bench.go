//go:build verif

package main

import (
	"database/sql"
	"fmt"
	"os"
	"time"
)

func benchDuck() {
	for i := 0; i < 3; i++ {
		t0 := time.Now()
		db, err := sql.Open("duckdb", "")
		if err != nil {
			panic(err)
		}
		if err := db.Ping(); err != nil {
			panic(err)
		}
		t1 := time.Now()
		db.Exec("SET threads=1")
		t2 := time.Now()
		out := fmt.Sprintf("/dev/shm/bench-%d.parquet", os.Getpid())
		_, err = db.Exec("COPY (SELECT range AS a FROM range(10)) TO '" + out + "' (FORMAT PARQUET, COMPRESSION ZSTD)")
		t3 := time.Now()
		var n int
		db.QueryRow("SELECT count(*) FROM parquet_kv_metadata('" + out + "')").Scan(&n)
		t4 := time.Now()
		db.Close()
		t5 := time.Now()
		os.Remove(out)
		fmt.Println("open", t1.Sub(t0), "set", t2.Sub(t1), "copy", t3.Sub(t2), err, "kv", t4.Sub(t3), "close", t5.Sub(t4))
	}
}
