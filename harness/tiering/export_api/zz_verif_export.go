//go:build verif

package api

import (
	"context"

	"github.com/rs/zerolog"

	"github.com/basekick-labs/arc/internal/storage"
	"github.com/basekick-labs/arc/internal/tiering"
)

// VerifTierReadExpr returns the FROM expression the query layer builds for a
// database/measurement when a tiering manager is wired in: the real
// buildReadParquetExprForMeasurement -> buildMultiTierReadParquet path on a
// QueryHandler that has only the fields that path reads.
func VerifTierReadExpr(m *tiering.Manager, hot storage.Backend, logger zerolog.Logger, database, measurement string) string {
	h := &QueryHandler{storage: hot, logger: logger}
	h.SetTieringManager(m)
	return h.buildReadParquetExprForMeasurement(context.Background(), database, measurement, "SELECT * FROM "+database+"."+measurement, "FROM")
}
