//go:build verif

package tiering

// VerifRunScheduled runs the function the cron entry calls (the scheduler's
// cycle with its own time-out context), without starting the cron library.
func (m *Manager) VerifRunScheduled() { m.scheduler.runMigration() }
