//go:build verif

package tiering

import "time"

// VerifRunScheduled runs the function the cron entry calls (the scheduler's
// cycle with its own time-out context), without starting the cron library.
func (m *Manager) VerifRunScheduled() { m.scheduler.runMigration() }

// VerifTierCacheTTL exposes the running value of the tier look-up cache TTL.
func VerifTierCacheTTL() time.Duration { return tierCacheTTL }
