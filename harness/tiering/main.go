//go:build verif

// Area tiering: property C12 (tier migration never makes data unreadable or
// visible twice).
//
// Real code under test: tiering.Manager (RunMigrationCycle / the scheduler's
// cron callback), Migrator (MigrateTier, MigrateBatch, MigrateFile,
// copyFileStreaming, ReconcileOrphanedFiles, CleanupEmptyDirectories),
// MetadataStore and PolicyStore on a real SQLite file, two real
// storage.LocalBackend instances (hot, cold) and, for visibility, the query
// layer's own path builder (QueryHandler.buildReadParquetExprForMeasurement ->
// buildMultiTierReadParquet -> MetadataStore.GetTiersForMeasurement).
//
// Faults are injected underneath that code: file-system operations of
// LocalBackend (simrt FS shim: errors, short writes, crash before an
// operation, torn write) and SQLite statements (a database/sql driver wrapper:
// SQLITE_BUSY before the statement, crash before the statement).
//
// Level fault_enumeration: for every generated case the crash point is
// enumerated over the mutating storage/metadata steps of the first cycle.
//
// Execution shape (one simrt.Run per crash point, plus one without a crash):
//
//	boot -> cycle 0 (planned step failures; crash before mutating step k)
//	     -> [restart after simulated downtime] -> cycle 1 (step failures, optional 2nd crash)
//	     -> [restart] -> fault-free cycle -> exact visibility evaluation
//
// Oracle, from the property statement only:
//
//	A  (first half) after every mutation of a data file's final name in either
//	   tier - i.e. at every instant a process death could freeze - the complete
//	   content of every file is present in at least one tier
//	   (C12.file-complete-in-no-tier.*). Query-level reading of the same half:
//	   right after a crash+restart, and after a completed cycle in which steps
//	   failed, a query still reads every row at least once and matches no
//	   incomplete file (…transient.gone-after-next-clean-cycle when the next
//	   fault-free cycle repairs it).
//	B  (second half) after a fault-free cycle (migration and orphan
//	   reconciliation have finished) the files the query layer would read
//	   contain every row exactly once (C12.rows-invisible.*,
//	   C12.rows-visible-N-times.*, C12.query-reads-incomplete-file.*); the
//	   suffix says whether it heals when the tier look-up cache expires, with a
//	   second fault-free cycle, or never.
//
// Nothing about which files ought to migrate is judged.
package main

import (
	"bytes"
	"context"
	"database/sql"
	"database/sql/driver"
	"fmt"
	"io"
	"io/fs"
	"os"
	"path/filepath"
	"regexp"
	"runtime/pprof"
	"sort"
	"strings"
	"sync/atomic"
	"time"

	sqlite3 "github.com/mattn/go-sqlite3"
	"github.com/rs/zerolog"

	"github.com/basekick-labs/arc/internal/api"
	"github.com/basekick-labs/arc/internal/config"
	"github.com/basekick-labs/arc/internal/license"
	"github.com/basekick-labs/arc/internal/simrt"
	"github.com/basekick-labs/arc/internal/storage"
	"github.com/basekick-labs/arc/internal/tiering"
	"github.com/basekick-labs/arc/internal/verifsim/simkit"
)

// ---------------------------------------------------------------------------
// plan

type FileSpec struct {
	DB    string `json:"db"`
	Meas  string `json:"meas"`
	AgeD  int    `json:"age_days"` // age of the partition at the start of the run
	Hour  int    `json:"hour"`
	Daily bool   `json:"daily"` // name ends in _daily.parquet (the only files the migrator moves)
	Size  int    `json:"size"`
	Rows  int    `json:"rows"`
}

// Fault is a step failure: the Nth (1-based; 0 = every) operation of a class
// during one cycle fails before it has any effect (Err "short": a write
// applies a prefix, then fails).
type Fault struct {
	Cycle int    `json:"cycle"`
	Class string `json:"class"`
	Nth   int    `json:"nth"`
	Err   string `json:"err"` // eio enospc eacces busy short
}

type C12Plan struct {
	HotMaxAgeDays int        `json:"hot_max_age_days"`
	MaxConcurrent int        `json:"max_concurrent"`
	BatchSize     int        `json:"batch_size"`
	EpochOffH     int        `json:"epoch_off_h"`
	Files         []FileSpec `json:"files"`
	Scheduled     bool       `json:"scheduled"` // cron callback (own 2h context) instead of the manual trigger
	Faults        []Fault    `json:"faults,omitempty"`
	Queries       int        `json:"queries"` // tier look-ups issued concurrently with every cycle
	// crash enumeration over the mutating steps of cycle 0
	CrashCap   int  `json:"crash_cap"`   // 0: no crash runs
	CrashPhase int  `json:"crash_phase"` // offset of the strided subset when there are more points than CrashCap
	CrashLo    int  `json:"crash_lo,omitempty"`
	CrashHi    int  `json:"crash_hi,omitempty"` // 0: no upper bound
	Torn       bool `json:"torn"`               // a crash landing on a write leaves a prefix of that write
	// after the first crash
	DowntimeH      int  `json:"downtime_h"`      // wall-clock time that passes before the restart
	Crash2         int  `json:"crash2"`          // >0: second crash before the Crash2-th mutating step after the restart (boot + cycle 1)
	RestartBetween bool `json:"restart_between"` // orderly restart between cycles even without a crash
	// CopyLatencyMs > 0: promoting a copied file into the cold tier takes this
	// much simulated time, so that successive migrations get distinct
	// (second-resolution) migrated_at stamps as they do with real object stores.
	CopyLatencyMs int `json:"copy_latency_ms,omitempty"`
}

var faultClasses = []string{
	"hot.open.data", "hot.read.data", "hot.remove.data", "hot.remove.dir", "hot.stat.data", "hot.walk.dir",
	"cold.mkdir.dir", "cold.create.part", "cold.write.part", "cold.close.part", "cold.rename.part", "cold.remove.data",
	"sql.record_file", "sql.record_migration", "sql.update_tier", "sql.complete_migration", "sql.cleanup",
	"sql.q_old_files", "sql.q_recent_migrated", "sql.q_lookup", "sql.q_tiers", "sql.q_policy",
}

var sizes = []int{64, 200, 4096, 32767, 32768, 32769, 70000, 150000}

func genC12(r *simrt.Rand, tier string) any {
	p := &C12Plan{
		HotMaxAgeDays: []int{1, 7, 30}[r.Intn(3)],
		MaxConcurrent: []int{1, 2, 4}[r.Intn(3)],
		BatchSize:     []int{1, 2, 100}[r.Intn(3)],
		EpochOffH:     r.Intn(24 * 60),
		Scheduled:     r.Chance(50),
		Queries:       r.Intn(4),
		CrashCap:      24,
		CrashPhase:    r.Intn(1000),
		Torn:          r.Chance(40),
		DowntimeH:     []int{0, 0, 1, 47, 49, 120}[r.Intn(6)],
	}
	if tier == "thorough" {
		p.CrashCap = 96
	}
	if r.Chance(10) {
		p.CrashCap = 0 // step failures only
	}
	if r.Chance(35) {
		p.Crash2 = 1 + r.Intn(60)
	}
	p.RestartBetween = r.Chance(30)
	dbs := []string{"prod", "edge"}[:1+r.Intn(2)]
	meass := []string{"cpu", "mem"}[:1+r.Intn(2)]
	n := 1 + r.Intn(5)
	for i := 0; i < n; i++ {
		f := FileSpec{DB: dbs[r.Intn(len(dbs))], Meas: meass[r.Intn(len(meass))], Hour: r.Intn(24), Daily: r.Chance(80),
			Size: sizes[r.Intn(len(sizes))], Rows: 1 + r.Intn(5)}
		switch r.Intn(10) {
		case 0: // recent: stays hot
			f.AgeD = r.Intn(p.HotMaxAgeDays + 1)
		case 1: // around the threshold
			f.AgeD = p.HotMaxAgeDays + r.Intn(2)
		default:
			f.AgeD = p.HotMaxAgeDays + 1 + r.Intn(40)
		}
		p.Files = append(p.Files, f)
	}
	if r.Chance(60) {
		nf := 1 + r.Intn(3)
		for i := 0; i < nf; i++ {
			cl := faultClasses[r.Intn(len(faultClasses))]
			f := Fault{Cycle: r.Intn(2), Class: cl, Nth: r.Intn(4)}
			switch {
			case strings.HasPrefix(cl, "sql."):
				f.Err = "busy"
			case cl == "cold.write.part":
				f.Err = []string{"eio", "enospc", "short"}[r.Intn(3)]
			default:
				f.Err = []string{"eio", "eacces", "enospc"}[r.Intn(3)]
			}
			p.Faults = append(p.Faults, f)
		}
	}
	// bias towards the orphan clean-up mechanism: a failed source delete leaves
	// a hot orphan for ReconcileOrphanedFiles of the same cycle; a failed scan
	// after a crash leaves the orphans of the crash to it
	if r.Chance(25) {
		p.Faults = append(p.Faults, Fault{Cycle: r.Intn(2), Class: "hot.remove.data", Nth: 1 + r.Intn(3), Err: "eacces"})
	}
	if r.Chance(15) {
		p.Faults = append(p.Faults, Fault{Cycle: 1, Class: "hot.walk.dir", Nth: 1, Err: "eio"})
	}
	if r.Chance(40) {
		p.CopyLatencyMs = []int{700, 1500, 4000}[r.Intn(3)]
	}
	return p
}

// ---------------------------------------------------------------------------
// SQLite driver wrapper: statement-level fault and crash points

// sqlHook is consulted before every statement issued through the wrapped
// driver. It may return an error (the statement is not executed) or crash the
// calling node (does not return).
var sqlHook func(kind, query string) error

type fdriver struct{ inner sqlite3.SQLiteDriver }

func (d *fdriver) Open(dsn string) (driver.Conn, error) {
	c, err := d.inner.Open(dsn)
	if err != nil {
		return nil, err
	}
	return &fconn{c: c.(*sqlite3.SQLiteConn)}, nil
}

// SQLite's own clock. CURRENT_TIMESTAMP (tier_files.migrated_at in UpdateTier
// and RecordFile's upsert, the column defaults, tiering_policies.updated_at)
// reads the OS clock with a resolution of one second, which the simulator does
// not control: whether two tier updates fall into the same real second decides
// the order of GetRecentlyMigratedFiles' "ORDER BY migrated_at DESC" and with
// it the order in which ReconcileOrphanedFiles touches the hot tier, so a run
// was a function of real time. Every statement (DDL included) therefore
// reaches SQLite with its references to the OS clock replaced by
// verif_now(), an SQL function registered on every connection of this driver
// that returns the simulated wall clock of the node issuing the statement, in
// CURRENT_TIMESTAMP's own format and resolution ("YYYY-MM-DD HH:MM:SS", UTC).
// Like CURRENT_TIMESTAMP it is constant within a statement. Stamps that share
// a simulated second tie exactly as stamps sharing a real second do in
// production; which ones do is a function of the seed.
var (
	simStamp     string // value of verif_now() for the statement being executed
	reClockDflt  = regexp.MustCompile(`(?i)\bDEFAULT\s+CURRENT_TIMESTAMP\b`)
	reClockStamp = regexp.MustCompile(`(?i)\bCURRENT_TIMESTAMP\b`)
	reClockDate  = regexp.MustCompile(`(?i)\bCURRENT_DATE\b`)
	reClockTime  = regexp.MustCompile(`(?i)\bCURRENT_TIME\b`)
	reClockNow   = regexp.MustCompile(`(?i)'now'`)
)

const sqliteStampFormat = "2006-01-02 15:04:05"

func init() {
	sql.Register("sqlite3-verif", &fdriver{inner: sqlite3.SQLiteDriver{ConnectHook: func(c *sqlite3.SQLiteConn) error {
		return c.RegisterFunc("verif_now", func() string { return simStamp }, false)
	}}})
}

// simClockSQL sets the instant verif_now() reports to the caller's simulated
// wall clock (simrt.Now() is the OS clock outside a simulation) and returns q
// with SQLite's clock sources replaced.
func simClockSQL(q string) string {
	simStamp = simrt.Now().UTC().Format(sqliteStampFormat)
	if r, ok := simClockCache[q]; ok {
		return r
	}
	r := reClockDflt.ReplaceAllString(q, "DEFAULT (verif_now())")
	r = reClockStamp.ReplaceAllString(r, "verif_now()")
	r = reClockDate.ReplaceAllString(r, "date(verif_now())")
	r = reClockTime.ReplaceAllString(r, "time(verif_now())")
	r = reClockNow.ReplaceAllString(r, "verif_now()")
	if len(simClockCache) >= 1024 {
		clear(simClockCache)
	}
	simClockCache[q] = r
	return r
}

// statement texts are a handful of constants (values are bound); one task
// runs at a time, so no lock
var simClockCache = map[string]string{}

type fconn struct{ c *sqlite3.SQLiteConn }

func (f *fconn) Prepare(q string) (driver.Stmt, error) { return f.c.Prepare(simClockSQL(q)) }
func (f *fconn) Close() error                          { return f.c.Close() }
func (f *fconn) Begin() (driver.Tx, error)             { return f.c.Begin() }
func (f *fconn) BeginTx(ctx context.Context, o driver.TxOptions) (driver.Tx, error) {
	return f.c.BeginTx(ctx, o)
}
func (f *fconn) PrepareContext(ctx context.Context, q string) (driver.Stmt, error) {
	return f.c.PrepareContext(ctx, simClockSQL(q))
}
func (f *fconn) Ping(ctx context.Context) error { return f.c.Ping(ctx) }
func (f *fconn) ExecContext(ctx context.Context, q string, a []driver.NamedValue) (driver.Result, error) {
	if h := sqlHook; h != nil {
		if err := h("exec", q); err != nil {
			return nil, err
		}
	}
	r, err := f.c.ExecContext(ctx, simClockSQL(q), a)
	realClockProbe(q)
	return r, err
}

// realClockProbe is a self-test aid. With VERIF_C12_REALSLEEP_MS=<ms> the
// process really sleeps that long after each of the first
// VERIF_C12_REALSLEEP_N (default 8) tier updates it executes, which moves
// real-second boundaries between statements that normally share one real
// second. Trace hashes must not change (`-oneseed N` then runs the first
// execution with and the second without the sleeps).
var realSleepMs, realSleepLeft = func() (int, int) {
	ms, n := 0, 8
	fmt.Sscan(os.Getenv("VERIF_C12_REALSLEEP_MS"), &ms)
	fmt.Sscan(os.Getenv("VERIF_C12_REALSLEEP_N"), &n)
	return ms, n
}()

func realClockProbe(q string) {
	if realSleepMs > 0 && realSleepLeft > 0 && strings.Contains(q, "UPDATE tier_files") {
		realSleepLeft--
		time.Sleep(time.Duration(realSleepMs) * time.Millisecond)
	}
}
func (f *fconn) QueryContext(ctx context.Context, q string, a []driver.NamedValue) (driver.Rows, error) {
	if h := sqlHook; h != nil {
		if err := h("query", q); err != nil {
			return nil, err
		}
	}
	return f.c.QueryContext(ctx, simClockSQL(q), a)
}

func sqlClass(kind, q string) string {
	has := func(s string) bool { return strings.Contains(q, s) }
	switch {
	case has("INSERT INTO tier_files"):
		return "sql.record_file"
	case has("INSERT INTO tier_migrations"):
		return "sql.record_migration"
	case has("UPDATE tier_files"):
		return "sql.update_tier"
	case has("UPDATE tier_migrations"):
		return "sql.complete_migration"
	case has("DELETE FROM tier_migrations"):
		return "sql.cleanup"
	case has("DELETE FROM tier_files"):
		return "sql.delete_file"
	case has("CREATE TABLE"):
		return "sql.schema"
	case has("partition_time < ?"):
		return "sql.q_old_files"
	case has("migrated_at >= ?"):
		return "sql.q_recent_migrated"
	case has("SELECT database, measurement FROM tier_files WHERE path"):
		return "sql.q_lookup"
	case has("SELECT DISTINCT tier"):
		return "sql.q_tiers"
	case has("tiering_policies"):
		return "sql.q_policy"
	case has("MAX(id)"):
		return "sql.q_cleanup_cutoff"
	}
	if kind == "exec" {
		return "sql.exec_other"
	}
	return "sql.q_other"
}

// ---------------------------------------------------------------------------
// world: one simulated arc process with its two tiers and the metadata file

var quietLogger = zerolog.New(io.Discard).Level(zerolog.Disabled)

func harnessLogger() zerolog.Logger {
	if os.Getenv("VERIF_LOG") != "" {
		return zerolog.New(os.Stderr).Level(zerolog.DebugLevel)
	}
	return quietLogger
}

var scratchSeq atomic.Int64

func mkScratch() string {
	b := os.Getenv("VERIF_SCRATCH")
	if b == "" {
		b = "/dev/shm"
	}
	d := filepath.Join(b, fmt.Sprintf("verif-tier.%d.%d", os.Getpid(), scratchSeq.Add(1)))
	os.RemoveAll(d)
	if err := os.MkdirAll(d, 0o755); err != nil {
		panic(err)
	}
	return d
}

type fileState struct {
	spec    FileSpec
	path    string // storage-relative
	content []byte
	okHot   bool // complete content present under the final name
	okCold  bool
	lost    bool // already reported as complete in no tier
}

type finding struct{ rule, msg string }

type world struct {
	p       *C12Plan
	root    string
	hotDir  string
	coldDir string
	dbPath  string
	node    *simrt.Node
	files   []*fileState
	byPath  map[string]int

	hot, cold *storage.LocalBackend
	db        *sql.DB
	oldDBs    []*sql.DB // handles of dead process lives; closed at the end of the execution
	m         *tiering.Manager
	lic       *license.Client

	// fault / crash control
	inCycle   bool
	cycleIdx  int
	noFaults  bool
	classN    map[string]int
	counting  bool
	pt        int // mutating points seen while counting
	crashAt   int // crash before this point; -1 none
	crashes   int
	faultsHit int
	lastMut   string
	reconcile bool // the cycle has reached ReconcileOrphanedFiles
	lookupErr bool // a failure was injected into UpdateTier's look-up SELECT

	findings []finding
}

func (w *world) violate(rule, format string, args ...any) {
	for _, f := range w.findings {
		if f.rule == rule {
			return
		}
	}
	w.findings = append(w.findings, finding{rule, fmt.Sprintf(format, args...)})
	simrt.Event("VIOLATION %s", rule)
}

func rowID(file, j int) int { return file*1000 + j }

func buildContent(i int, f FileSpec) []byte {
	var b bytes.Buffer
	fmt.Fprintf(&b, "VERIFROWS file=%d db=%s meas=%s rows=%d\n", i, f.DB, f.Meas, f.Rows)
	for j := 0; j < f.Rows; j++ {
		fmt.Fprintf(&b, "row %d\n", rowID(i, j))
	}
	pad := byte('a' + i%26)
	for b.Len() < f.Size {
		b.WriteByte(pad)
	}
	return b.Bytes()
}

const simBase = "2026-02-01T00:00:00Z"

func epochOf(p *C12Plan) time.Time {
	t, _ := time.Parse(time.RFC3339, simBase)
	return t.Add(time.Duration(p.EpochOffH) * time.Hour)
}

func newWorld(p *C12Plan, root string, contents [][]byte) *world {
	w := &world{p: p, root: root, hotDir: filepath.Join(root, "hot"), coldDir: filepath.Join(root, "cold"),
		dbPath: filepath.Join(root, "meta", "arc.db"), byPath: map[string]int{}, crashAt: -1, classN: map[string]int{}}
	os.MkdirAll(w.hotDir, 0o755)
	os.MkdirAll(w.coldDir, 0o755)
	os.MkdirAll(filepath.Dir(w.dbPath), 0o755)
	ep := epochOf(p)
	for i, f := range p.Files {
		pt := ep.Truncate(24*time.Hour).AddDate(0, 0, -f.AgeD).Add(time.Duration(f.Hour) * time.Hour)
		name := fmt.Sprintf("%s_%s_%02d0000_%d.parquet", f.Meas, pt.Format("20060102"), f.Hour, i)
		if f.Daily {
			name = fmt.Sprintf("%s_%s_f%d_daily.parquet", f.Meas, pt.Format("20060102"), i)
		}
		rel := fmt.Sprintf("%s/%s/%04d/%02d/%02d/%02d/%s", f.DB, f.Meas, pt.Year(), int(pt.Month()), pt.Day(), pt.Hour(), name)
		fs := &fileState{spec: f, path: rel, content: contents[i], okHot: true}
		full := filepath.Join(w.hotDir, filepath.FromSlash(rel))
		os.MkdirAll(filepath.Dir(full), 0o755)
		if err := os.WriteFile(full, fs.content, 0o600); err != nil {
			panic(err)
		}
		mt := pt.Add(26 * time.Hour)
		os.Chtimes(full, mt, mt)
		w.files = append(w.files, fs)
		w.byPath[rel] = i
	}
	w.lic = license.VerifLicensedClient(license.FeatureTieredStorage)
	return w
}

// tierOf classifies an absolute path: tier, storage-relative path.
func (w *world) tierOf(p string) (string, string) {
	if strings.HasPrefix(p, w.hotDir+"/") {
		return "hot", p[len(w.hotDir)+1:]
	}
	if strings.HasPrefix(p, w.coldDir+"/") {
		return "cold", p[len(w.coldDir)+1:]
	}
	if p == w.hotDir {
		return "hot", ""
	}
	if p == w.coldDir {
		return "cold", ""
	}
	return "", p
}

func (w *world) fsClass(op *simrt.FSOp) string {
	tier, rel := w.tierOf(op.Path)
	if tier == "" {
		return ""
	}
	what := "dir"
	switch {
	case strings.HasSuffix(rel, ".part"):
		what = "part"
	case strings.HasSuffix(rel, ".parquet"):
		what = "data"
	}
	return tier + "." + op.Kind + "." + what
}

func errOf(name string) error {
	switch name {
	case "enospc":
		return simrt.ENOSPC
	case "eacces":
		return simrt.EACCES
	}
	return simrt.EIO
}

// faultFor returns the planned fault for this occurrence of class, if any.
func (w *world) faultFor(class string) *Fault {
	if !w.inCycle || w.noFaults || class == "" {
		return nil
	}
	w.classN[class]++
	n := w.classN[class]
	for i := range w.p.Faults {
		f := &w.p.Faults[i]
		if f.Cycle == w.cycleIdx && f.Class == class && (f.Nth == 0 || f.Nth == n) {
			return f
		}
	}
	return nil
}

func (w *world) install() {
	simrt.SetFSInjector(func(op *simrt.FSOp) simrt.FSAction {
		if op.Node != w.node {
			return simrt.FSAction{}
		}
		class := w.fsClass(op)
		if w.counting && op.Mut {
			k := w.pt
			w.pt++
			if k == w.crashAt {
				w.crashAt = -1
				w.crashes++
				simrt.Event("CRASH-POINT %d before %s", k, class)
				if w.p.Torn && op.Kind == "write" && op.N > 1 {
					simrt.Count("fault.torn_write", 1)
					return simrt.FSAction{Crash: 3, Short: 1 + (k*7919)%(op.N-1)}
				}
				return simrt.FSAction{Crash: 1}
			}
		}
		if w.p.CopyLatencyMs > 0 && class == "cold.rename.part" {
			simrt.Count("probe.copy_latency_applied", 1)
			simrt.Sleep(time.Duration(w.p.CopyLatencyMs) * time.Millisecond)
		}
		if f := w.faultFor(class); f != nil {
			w.faultsHit++
			simrt.Count("fault."+class, 1)
			if f.Err == "short" && op.Kind == "write" && op.N > 1 {
				return simrt.FSAction{Err: simrt.ENOSPC, Short: op.N / 2}
			}
			return simrt.FSAction{Err: errOf(f.Err)}
		}
		return simrt.FSAction{}
	})
	simrt.SetFSObserver(func(op *simrt.FSOp, err error) {
		if !op.Mut {
			return
		}
		for _, p := range []string{op.Path, op.Path2} {
			if p == "" {
				continue
			}
			tier, rel := w.tierOf(p)
			if i, ok := w.byPath[filepath.ToSlash(rel)]; ok && tier != "" {
				w.lastMut = w.fsClass(op)
				if err == nil {
					switch {
					case w.lastMut == "hot.remove.data" && w.reconcile:
						simrt.Probe("reconcile_deleted_orphan")
					case w.lastMut == "hot.remove.data":
						simrt.Probe("source_deleted_after_migration")
					case w.lastMut == "cold.remove.data":
						simrt.Probe("destination_rolled_back")
					case w.lastMut == "cold.rename.part":
						simrt.Probe("cold_copy_promoted")
					}
				}
				w.recheck(i)
				w.checkA(i, "after-"+w.lastMut)
			}
		}
	})
	sqlHook = func(kind, q string) error {
		t := simrt.CurTask()
		if t == nil || t.Node() != w.node {
			return nil
		}
		class := sqlClass(kind, q)
		if class == "sql.q_recent_migrated" {
			w.reconcile = true
		}
		if kind == "exec" {
			simrt.Event("SQL %s", class)
			if w.counting {
				k := w.pt
				w.pt++
				if k == w.crashAt {
					w.crashAt = -1
					w.crashes++
					simrt.Event("CRASH-POINT %d before %s", k, class)
					simrt.Crash(w.node)
				}
			}
		}
		if f := w.faultFor(class); f != nil {
			w.faultsHit++
			simrt.Count("fault."+class, 1)
			simrt.Event("SQL err %s", class)
			if class == "sql.q_lookup" {
				w.lookupErr = true
			}
			return sqlite3.Error{Code: sqlite3.ErrBusy}
		}
		return nil
	}
}

// recheck re-reads file i in both tiers (harness-side, plain os).
func (w *world) recheck(i int) {
	f := w.files[i]
	rd := func(dir string) bool {
		b, err := os.ReadFile(filepath.Join(dir, filepath.FromSlash(f.path)))
		return err == nil && bytes.Equal(b, f.content)
	}
	f.okHot, f.okCold = rd(w.hotDir), rd(w.coldDir)
}

// checkA is the first half of the property: at any instant (every instant is
// a possible crash point under process-death semantics) the complete content
// of every file is present in at least one tier.
func (w *world) checkA(i int, when string) {
	f := w.files[i]
	if f.okHot || f.okCold || f.lost {
		return
	}
	f.lost = true
	cold := "absent"
	if b, err := os.ReadFile(filepath.Join(w.coldDir, filepath.FromSlash(f.path))); err == nil {
		cold = fmt.Sprintf("incomplete(%d of %d bytes)", len(b), len(f.content))
		if len(b) == len(f.content) {
			cold = "different-content"
		}
	}
	hot := "absent"
	if _, err := os.Stat(filepath.Join(w.hotDir, filepath.FromSlash(f.path))); err == nil {
		hot = "altered"
	}
	w.violate("C12.file-complete-in-no-tier."+when, "%s (size %d): hot copy %s, cold copy %s; a crash at this instant (or the end of this cycle) leaves the file's content unreadable from both tiers", f.path, len(f.content), hot, cold)
}

func (w *world) checkAll(when string) {
	for i := range w.files {
		w.recheck(i)
		w.checkA(i, when)
	}
}

// onNode runs f as a task of the arc node and waits; false if the node died.
func (w *world) onNode(what string, f func()) bool {
	done := false
	h := simrt.GoOn(what, w.node, func() { f(); done = true })
	simrt.Join(h)
	return done
}

// boot constructs the process: the same steps cmd/arc/main.go performs for
// tiering (sharedSQLiteHandle's DSN and pool settings, NewManager).
func (w *world) boot() bool {
	var berr error
	ok := w.onNode("boot", func() {
		lg := harnessLogger()
		hot, err := storage.NewLocalBackend(w.hotDir, lg)
		if err != nil {
			berr = err
			return
		}
		cold, err := storage.NewLocalBackend(w.coldDir, lg)
		if err != nil {
			berr = err
			return
		}
		f, err := os.OpenFile(w.dbPath, os.O_CREATE|os.O_RDWR, 0o600)
		if err != nil {
			berr = err
			return
		}
		f.Close()
		db, err := sql.Open("sqlite3-verif", w.dbPath+"?_journal_mode=WAL&_busy_timeout=5000")
		if err != nil {
			berr = err
			return
		}
		w.db = db
		if err := db.Ping(); err != nil {
			berr = err
			return
		}
		db.SetMaxOpenConns(1)
		db.SetMaxIdleConns(1)
		cfg := &config.TieredStorageConfig{Enabled: true, MigrationSchedule: "0 2 * * *", MigrationMaxConcurrent: w.p.MaxConcurrent,
			MigrationBatchSize: w.p.BatchSize, DefaultHotMaxAgeDays: w.p.HotMaxAgeDays,
			Cold: config.ColdTierConfig{Enabled: true, Backend: "s3"}}
		m, err := tiering.NewManager(&tiering.ManagerConfig{HotBackend: hot, ColdBackend: cold, DB: db, Config: cfg, LicenseClient: w.lic, Logger: lg})
		if err != nil {
			berr = err
			return
		}
		w.hot, w.cold, w.m = hot, cold, m
	})
	if berr != nil {
		panic(fmt.Sprintf("HARNESS-ERROR boot: %v", berr))
	}
	return ok
}

// retireDB drops the handle of a process life that has ended. It is not
// closed here: the last close of a WAL database checkpoints it, which a dead
// process would not do (and which costs ~2 ms); all handles are closed when
// the execution ends.
func (w *world) retireDB() {
	if w.db != nil {
		w.oldDBs = append(w.oldDBs, w.db)
		w.db = nil
	}
	w.m = nil
}

func (w *world) closeAll() {
	w.retireDB()
	for _, db := range w.oldDBs {
		db.Close()
	}
	w.oldDBs = nil
}

// restart: the process is gone (crash or orderly stop); wall-clock time passes;
// a fresh process is built over the same directories and SQLite file.
func (w *world) restart(downtime time.Duration) bool {
	at := simrt.Now()
	w.normaliseStamps(at)
	w.retireDB()
	if downtime > 0 {
		simrt.AdvanceClock(downtime)
	}
	simrt.Revive(w.node)
	simrt.Event("RESTART downtime_h=%d", int(downtime/time.Hour))
	return w.boot()
}

// normaliseStamps is a safety net behind simClockSQL, which makes SQLite's
// clock the simulated one: all simulated instants lie before 2026-08-01 and
// the OS clock after it, so a migrated_at beyond that date reached SQLite's
// own clock by a route the statement rewrite does not know (say a bare
// datetime()). Such stamps are counted (note.c12_os_clock_stamp in the
// summary: the run was not a pure function of its seed) and, the process that
// wrote them being gone, rewritten to the simulated instant of its death so
// that simulated downtime ages them.
func (w *world) normaliseStamps(at time.Time) {
	// issued by the harness task (not a task of the arc node): the statement
	// hook ignores it
	if w.db == nil {
		return
	}
	res, err := w.db.Exec(`UPDATE tier_files SET migrated_at = ? WHERE migrated_at IS NOT NULL AND migrated_at > '2026-08-01'`, at.UTC().Format(sqliteStampFormat))
	if err != nil {
		if !strings.Contains(err.Error(), "no such table") {
			panic(fmt.Sprintf("HARNESS-ERROR normalise: %v", err))
		}
		return
	}
	if n, _ := res.RowsAffected(); n > 0 {
		simrt.Count("note.c12_os_clock_stamp", n)
	}
}

// cycle runs one migration cycle (plus concurrent tier look-ups).
func (w *world) cycle(idx int, clean bool) bool {
	w.cycleIdx, w.noFaults, w.classN, w.inCycle, w.reconcile = idx, clean, map[string]int{}, true, false
	simrt.Event("CYCLE %d clean=%v", idx, clean)
	var q *simrt.Task
	if w.p.Queries > 0 {
		r := simrt.Stream(fmt.Sprintf("queries%d", idx))
		m, hot := w.m, w.hot
		pairs := w.pairs()
		q = simrt.GoOn("queries", w.node, func() {
			for i := 0; i < w.p.Queries; i++ {
				for k := r.Intn(60); k > 0; k-- {
					simrt.Yield()
				}
				pr := pairs[r.Intn(len(pairs))]
				api.VerifTierReadExpr(m, hot, quietLogger, pr[0], pr[1])
			}
		})
	}
	alive := w.onNode("cycle", func() {
		if w.p.Scheduled {
			w.m.VerifRunScheduled()
		} else {
			if err := w.m.TriggerMigration(context.Background()); err != nil {
				simrt.Event("CYCLE-ERROR")
			}
		}
	})
	if q != nil {
		simrt.Join(q)
	}
	w.inCycle = false
	return alive && !w.node.Dead
}

func (w *world) pairs() [][2]string {
	seen := map[string]bool{}
	var out [][2]string
	for _, f := range w.files {
		k := f.spec.DB + "/" + f.spec.Meas
		if !seen[k] {
			seen[k] = true
			out = append(out, [2]string{f.spec.DB, f.spec.Meas})
		}
	}
	sort.Slice(out, func(i, j int) bool { return out[i][0]+"/"+out[i][1] < out[j][0]+"/"+out[j][1] })
	return out
}

// ---------------------------------------------------------------------------
// visibility: what a query would read

func parseReadParquet(expr string) ([]string, error) {
	if strings.Contains(expr, "(SELECT * WHERE 1=0)") {
		return nil, nil
	}
	i := strings.Index(expr, "read_parquet(")
	if i < 0 {
		return nil, fmt.Errorf("no read_parquet in %q", expr)
	}
	s := strings.TrimLeft(expr[i+len("read_parquet("):], " ")
	list := false
	if strings.HasPrefix(s, "[") {
		list = true
		s = s[1:]
	}
	var out []string
	for {
		s = strings.TrimLeft(s, " ")
		if !strings.HasPrefix(s, "'") {
			return nil, fmt.Errorf("expected string literal in %q", expr)
		}
		var b strings.Builder
		j := 1
		for {
			if j >= len(s) {
				return nil, fmt.Errorf("unterminated literal in %q", expr)
			}
			if s[j] == '\'' {
				if j+1 < len(s) && s[j+1] == '\'' {
					b.WriteByte('\'')
					j += 2
					continue
				}
				break
			}
			b.WriteByte(s[j])
			j++
		}
		out = append(out, b.String())
		s = strings.TrimLeft(s[j+1:], " ")
		if !list {
			return out, nil
		}
		if strings.HasPrefix(s, ",") {
			s = s[1:]
			continue
		}
		if strings.HasPrefix(s, "]") {
			return out, nil
		}
		return nil, fmt.Errorf("bad list in %q", expr)
	}
}

// expandGlob lists the files a "<dir>/**/*.parquet" pattern matches.
func expandGlob(pattern string) ([]string, error) {
	const tail = "/**/*.parquet"
	if !strings.HasSuffix(pattern, tail) {
		return nil, fmt.Errorf("unexpected pattern %q", pattern)
	}
	dir := strings.TrimSuffix(pattern, tail)
	var out []string
	err := filepath.WalkDir(dir, func(p string, d fs.DirEntry, err error) error {
		if err != nil {
			if os.IsNotExist(err) {
				return nil
			}
			return err
		}
		if !d.IsDir() && strings.HasSuffix(d.Name(), ".parquet") {
			out = append(out, p)
		}
		return nil
	})
	sort.Strings(out)
	return out, err
}

// evalB is the second half of the property: through the query layer's own
// path construction every row is read exactly once. Returns findings instead
// of recording them so that the caller can classify persistence.
//
// exact=false is the query-level reading of the first half ("complete
// contents remain readable from at least one tier"): used right after a
// crash-restart and after a completed cycle in which steps failed, where
// duplicates are still tolerated; it reports only rows a query cannot read
// (read 0 times, or an incomplete file matched by a pattern the query reads).
func (w *world) evalB(exact bool) []finding {
	var out []finding
	add := func(rule, format string, args ...any) {
		for _, f := range out {
			if f.rule == rule {
				return
			}
		}
		out = append(out, finding{rule, fmt.Sprintf(format, args...)})
	}
	ok := w.onNode("visibility", func() {
		for _, pr := range w.pairs() {
			expr := api.VerifTierReadExpr(w.m, w.hot, quietLogger, pr[0], pr[1])
			pats, err := parseReadParquet(expr)
			if err != nil {
				panic("HARNESS-ERROR " + err.Error())
			}
			count := map[int]int{} // file index -> times its rows are read
			var tiersRead []string
			for _, pat := range pats {
				tier, _ := w.tierOf(pat)
				if tier == "" {
					panic("HARNESS-ERROR query path outside both tiers: " + pat)
				}
				tiersRead = append(tiersRead, tier)
				paths, err := expandGlob(pat)
				if err != nil {
					panic("HARNESS-ERROR " + err.Error())
				}
				for _, fp := range paths {
					_, rel := w.tierOf(fp)
					b, err := os.ReadFile(fp)
					if err != nil {
						panic("HARNESS-ERROR " + err.Error())
					}
					i, known := w.byPath[filepath.ToSlash(rel)]
					if !known || !bytes.Equal(b, w.files[i].content) {
						add("C12.query-reads-incomplete-file."+tier, "the %s-tier pattern of %s/%s matches %s, whose content (%d bytes) is not the complete content of any stored file", tier, pr[0], pr[1], rel, len(b))
						continue
					}
					count[i]++
				}
			}
			sort.Strings(tiersRead)
			// what the metadata table says right now (bypassing the look-up cache)
			var fresh []string
			rows, err := w.db.Query(`SELECT DISTINCT tier FROM tier_files WHERE database = ? AND measurement = ? ORDER BY tier`, pr[0], pr[1])
			if err != nil {
				panic("HARNESS-ERROR " + err.Error())
			}
			for rows.Next() {
				var t string
				rows.Scan(&t)
				fresh = append(fresh, t)
			}
			rows.Close()
			cache := ""
			if len(fresh) > 0 && strings.Join(fresh, ",") != strings.Join(tiersRead, ",") {
				cache = ".stale-tier-lookup-cache.no-statement-of-the-tier-update-failed"
				if w.lookupErr {
					cache = ".stale-tier-lookup-cache.after-failed-lookup-select-in-update-tier"
				}
			}
			for i, f := range w.files {
				if f.spec.DB != pr[0] || f.spec.Meas != pr[1] || count[i] == 1 {
					continue
				}
				if !exact && (count[i] > 1 || cache != "") {
					continue // duplicates tolerated here; a stale cache is reported by the exact evaluation
				}
				w.recheck(i)
				meta := "none"
				if fm, err := w.m.GetMetadata().GetFile(context.Background(), f.path); err == nil && fm != nil {
					meta = string(fm.Tier)
				}
				where := "no-tier"
				switch {
				case f.okHot && f.okCold:
					where = "both-tiers"
				case f.okHot:
					where = "hot-only"
				case f.okCold:
					where = "cold-only"
				}
				det := fmt.Sprintf("tiers read by the query: %v; tiers in the metadata table: %v; file complete in: %s; file's tier metadata: %s", tiersRead, fresh, where, meta)
				if count[i] == 0 {
					add(fmt.Sprintf("C12.rows-invisible%s.file-in-%s.metadata-%s", cache, where, meta), "%d rows of %s are read 0 times by a query on %s/%s (%s)", f.spec.Rows, f.path, pr[0], pr[1], det)
				} else {
					add(fmt.Sprintf("C12.rows-visible-%d-times%s.file-in-%s.metadata-%s", count[i], cache, where, meta), "%d rows of %s are read %d times by a query on %s/%s (%s)", f.spec.Rows, f.path, count[i], pr[0], pr[1], det)
				}
			}
		}
	})
	if !ok {
		panic("HARNESS-ERROR node died during visibility evaluation")
	}
	return out
}

// ---------------------------------------------------------------------------
// one execution

type execResult struct {
	res      simrt.Result
	findings []finding
	n0       int // mutating points of cycle 0
	crashes  int
	faults   int
	inCold   int
	crashTag string
}

func exec(p *C12Plan, cfg simrt.Config, crashAt int, contents [][]byte) *execResult {
	root := mkScratch()
	defer os.RemoveAll(root)
	cfg.EpochNs = epochOf(p).UnixNano()
	w := newWorld(p, root, contents)
	ex := &execResult{}
	defer func() { sqlHook = nil }()
	ex.res = simrt.Run(cfg, func() {
		simrt.SetPathRoot(root)
		w.node = simrt.NodeOf("n1")
		w.install()
		defer w.closeAll()
		if !w.boot() {
			panic("HARNESS-ERROR node died during first boot")
		}
		if f := w.evalB(true); len(f) > 0 {
			panic("HARNESS-ERROR initial state violates visibility: " + f[0].msg)
		}
		// cycle 0: planned step failures, enumerated crash point
		w.counting, w.pt, w.crashAt = true, 0, crashAt
		alive := w.cycle(0, false)
		w.counting = false
		ex.n0 = w.pt
		w.checkAll("end-of-cycle-0")
		// findings of the at-least-once evaluations; reported at the end under
		// one rule id per state, unless the exact evaluation reports the same state
		var pending []finding
		readable := func(when string) {
			for _, f := range w.evalB(false) {
				simrt.Event("UNREADABLE %s %s", when, f.rule)
				pending = append(pending, finding{f.rule, "[" + when + "] " + f.msg})
			}
		}
		if alive {
			readable("after a completed cycle in which steps failed")
		}
		// cycle 1: in the same process, or after a restart (with an optional second crash)
		if !alive || p.RestartBetween {
			down := time.Duration(0)
			if !alive {
				down = time.Duration(p.DowntimeH) * time.Hour
			}
			if !alive && p.Crash2 > 0 {
				w.counting, w.pt, w.crashAt = true, 0, p.Crash2-1
			}
			crashed := !alive
			alive = w.restart(down)
			if alive && crashed {
				readable("after crash and restart, before the next cycle")
			}
		}
		if alive {
			alive = w.cycle(1, false)
		}
		w.counting, w.crashAt = false, -1
		w.checkAll("end-of-cycle-1")
		if alive {
			readable("after a completed cycle in which steps failed")
		}
		// a fault-free cycle (migration + orphan reconciliation finish)
		if !alive || p.RestartBetween {
			if !w.restart(0) {
				panic("HARNESS-ERROR node died during fault-free restart")
			}
		}
		if !w.cycle(2, true) {
			panic("HARNESS-ERROR node died during the fault-free cycle")
		}
		w.checkAll("end-of-clean-cycle")
		first := w.evalB(true)
		for _, pf := range pending {
			dup := false
			for _, f := range first {
				dup = dup || f.rule == pf.rule
			}
			if !dup {
				w.violate(pf.rule+".transient.gone-after-next-clean-cycle", "%s", pf.msg)
			}
		}
		if len(first) > 0 {
			// classification only: does it heal when the tier look-up cache
			// expires, or with one more fault-free cycle?
			simrt.AdvanceClock(tiering.VerifTierCacheTTL() + time.Second)
			has := func(fs []finding, rule string) bool {
				for _, f := range fs {
					if f.rule == rule {
						return true
					}
				}
				return false
			}
			afterTTL := w.evalB(true)
			if !w.cycle(3, true) {
				panic("HARNESS-ERROR node died during the second fault-free cycle")
			}
			second := w.evalB(true)
			for _, f := range first {
				sfx := ".after-clean-cycle.until-cache-ttl-expires"
				if has(afterTTL, f.rule) {
					sfx = ".after-clean-cycle.repaired-by-a-second-cycle"
					if has(second, f.rule) {
						sfx = ".after-clean-cycles.persistent"
					}
				}
				w.violate(f.rule+sfx, "%s", f.msg)
			}
		}
		for _, f := range w.files {
			if f.okCold {
				ex.inCold++
			}
		}
		w.normaliseStamps(simrt.Now()) // counts OS-clock stamps of the last process life
	})
	ex.findings, ex.crashes, ex.faults = w.findings, w.crashes, w.faultsHit
	return ex
}

func firstLine(s string) string {
	if i := strings.IndexByte(s, '\n'); i >= 0 {
		return s[:i]
	}
	return s
}

func runC12(planAny any, cfg simrt.Config) *simkit.Outcome {
	p := planAny.(*C12Plan)
	out := &simkit.Outcome{}
	var hash uint64
	var steps, simNs, decisions, preempts int64
	absorb := func(ex *execResult, label string) bool {
		r := ex.res
		hash = (hash ^ r.TraceHash) * 0x100000001b3
		steps += r.Steps
		simNs += r.SimNs
		decisions += r.Decisions
		preempts += r.Preempts
		out.Absorb(r)
		out.Hash, out.Steps, out.SimNs, out.Decisions, out.Preempts = hash, steps, simNs, decisions, preempts
		for _, pn := range r.Panics {
			if strings.Contains(pn, "HARNESS-ERROR") {
				fmt.Fprintf(os.Stderr, "HARNESS-ERROR %s: %s\n", label, pn)
				os.Exit(2)
			}
			out.Violate("C12.panic", "%s: %s", label, firstLine(pn))
		}
		for _, f := range ex.findings {
			out.Violate(f.rule, "[%s] %s", label, f.msg)
		}
		out.Stats["probe.crashes"] += int64(ex.crashes)
		out.Stats["probe.step_failures"] += int64(ex.faults)
		out.Stats["probe.files_in_cold_at_end"] += int64(ex.inCold)
		if (ex.crashes > 0 || ex.faults > 0 || ex.inCold > 0) && r.Outcome == "ok" {
			out.Nontrivial = true
		}
		return r.Outcome == "ok"
	}
	contents := make([][]byte, len(p.Files))
	for i, f := range p.Files {
		contents[i] = buildContent(i, f)
	}
	twin := exec(p, cfg, -1, contents)
	if !absorb(twin, "no-crash") {
		return out
	}
	out.Stats["probe.crash_points_cycle0"] += int64(twin.n0)
	if p.CrashCap <= 0 || twin.n0 == 0 {
		return out
	}
	lo, hi := p.CrashLo, twin.n0
	if p.CrashHi > 0 && p.CrashHi < hi {
		hi = p.CrashHi
	}
	n := hi - lo
	if n <= 0 {
		return out
	}
	stride := (n + p.CrashCap - 1) / p.CrashCap
	for k := lo + p.CrashPhase%stride; k < hi; k += stride {
		ex := exec(p, cfg, k, contents)
		out.Evals++
		if !absorb(ex, fmt.Sprintf("crash before step %d of %d", k, twin.n0)) {
			return out
		}
		if len(out.Violations) >= 3 {
			break
		}
	}
	return out
}

func shrinkC12(planAny any) []any {
	p := planAny.(*C12Plan)
	var out []any
	cp := func() *C12Plan {
		q := *p
		q.Files = append([]FileSpec(nil), p.Files...)
		q.Faults = append([]Fault(nil), p.Faults...)
		return &q
	}
	if p.CrashCap > 0 {
		q := cp()
		q.CrashCap = 0
		out = append(out, q)
		// bisect the crash range (the upper bound is only known at run time; 4096 is beyond any run)
		hi := p.CrashHi
		if hi == 0 {
			hi = 4096
		}
		if hi-p.CrashLo > 1 {
			mid := (p.CrashLo + hi) / 2
			a, b := cp(), cp()
			a.CrashHi, a.CrashCap = mid, 4096
			b.CrashLo, b.CrashHi, b.CrashCap = mid, hi, 4096
			out = append(out, a, b)
		}
	}
	for i := range p.Faults {
		q := cp()
		q.Faults = append(q.Faults[:i], q.Faults[i+1:]...)
		out = append(out, q)
	}
	for i, f := range p.Faults {
		if f.Cycle == 1 { // the same failure in the first cycle, without any crash
			q := cp()
			q.Faults[i].Cycle, q.CrashCap = 0, 0
			out = append(out, q)
		}
	}
	for i := range p.Files {
		if len(p.Files) > 1 {
			q := cp()
			q.Files = append(q.Files[:i], q.Files[i+1:]...)
			out = append(out, q)
		}
	}
	if p.Crash2 > 0 {
		q := cp()
		q.Crash2 = 0
		out = append(out, q)
	}
	if p.RestartBetween {
		q := cp()
		q.RestartBetween = false
		out = append(out, q)
	}
	if p.DowntimeH > 0 {
		q := cp()
		q.DowntimeH = 0
		out = append(out, q)
	}
	if p.Queries > 0 {
		q := cp()
		q.Queries = 0
		out = append(out, q)
	}
	if p.MaxConcurrent > 1 {
		q := cp()
		q.MaxConcurrent = 1
		out = append(out, q)
	}
	if p.Torn {
		q := cp()
		q.Torn = false
		out = append(out, q)
	}
	if p.Scheduled {
		q := cp()
		q.Scheduled = false
		out = append(out, q)
	}
	for i, f := range p.Files {
		if f.Size > 64 || f.Rows > 1 {
			q := cp()
			q.Files[i].Size, q.Files[i].Rows = 64, 1
			out = append(out, q)
		}
	}
	return out
}

func descC12(planAny any) any {
	p := planAny.(*C12Plan)
	var fs, fl []string
	for _, f := range p.Files {
		fs = append(fs, fmt.Sprintf("%s/%s age=%dd daily=%v size=%d rows=%d", f.DB, f.Meas, f.AgeD, f.Daily, f.Size, f.Rows))
	}
	for _, f := range p.Faults {
		fl = append(fl, fmt.Sprintf("cycle%d %s#%d=%s", f.Cycle, f.Class, f.Nth, f.Err))
	}
	return map[string]any{"files": fs, "step_failures": fl, "hot_max_age_days": p.HotMaxAgeDays, "max_concurrent": p.MaxConcurrent,
		"crash_points": fmt.Sprintf("every mutating storage/metadata step of cycle 0 (cap %d), torn=%v", p.CrashCap, p.Torn),
		"crash2":       p.Crash2, "downtime_h": p.DowntimeH, "scheduled": p.Scheduled, "restart_between": p.RestartBetween}
}

func main() {
	zerolog.SetGlobalLevel(zerolog.Disabled)
	if os.Getenv("VERIF_LOG") != "" {
		zerolog.SetGlobalLevel(zerolog.DebugLevel)
	}
	if pf := os.Getenv("VERIF_CPUPROFILE"); pf != "" {
		f, err := os.Create(pf)
		if err == nil {
			pprof.StartCPUProfile(f)
			go func() { time.Sleep(20 * time.Second); pprof.StopCPUProfile(); f.Close() }()
		}
	}
	simkit.Main(&simkit.Check{ID: "C12", Gen: genC12, New: func() any { return &C12Plan{} }, Run: runC12, Shrink: shrinkC12, Desc: descC12})
}
