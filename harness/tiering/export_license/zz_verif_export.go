//go:build verif

package license

import (
	"time"

	"github.com/rs/zerolog"
)

// VerifLicensedClient returns an in-memory client holding an active licence
// with the given features (the licence server is a stub, see DESIGN §2.8).
func VerifLicensedClient(features ...string) *Client {
	return &Client{
		offline: true,
		license: &License{LicenseKey: "verif", CustomerID: "verif", Tier: TierEnterprise, Features: features,
			ExpiresAt: time.Date(2099, 1, 1, 0, 0, 0, 0, time.UTC), Status: "active", DaysRemaining: 9999},
		stopCh: make(chan struct{}),
		logger: zerolog.Nop(),
	}
}
