//go:build verif

// Area replfile: property C25 (peer file replication never exposes a bad file
// and converges).
//
// Real code under test: filereplication.Puller (worker pool, retry/backoff,
// resume from the .part staging file, catch-up walker and its gate),
// filereplication.FetchClient.Fetch (request, ack validation, streamed body,
// SHA-256 verification), the replica's storage.LocalBackend (StatFile,
// WriteReader, AppendReader, ReadToAt, Delete) and the cluster protocol codec.
//
// Simulated: the serving peer. security.Dial is hooked (F-seam) and returns an
// in-memory connection whose far end is a scripted peer: it decodes the real
// request frame, validates the real fetch HMAC, reads the bytes from an origin
// LocalBackend and answers according to the per-attempt outcome drawn in the
// plan (dial failure, connection lost in the ack header, error ack,
// not-on-peer, wrong size / hash / offset echo in the ack, truncation at any
// byte, corruption of any byte, both, success).
package main

import (
	"bytes"
	"context"
	"crypto/sha256"
	"crypto/tls"
	"encoding/hex"
	"errors"
	"fmt"
	"hash"
	"io"
	"net"
	"os"
	"path/filepath"
	"sort"
	"strings"
	"sync/atomic"
	"time"

	"github.com/rs/zerolog"

	"github.com/basekick-labs/arc/internal/cluster/filereplication"
	"github.com/basekick-labs/arc/internal/cluster/protocol"
	"github.com/basekick-labs/arc/internal/cluster/raft"
	"github.com/basekick-labs/arc/internal/cluster/security"
	"github.com/basekick-labs/arc/internal/simrt"
	"github.com/basekick-labs/arc/internal/storage"
	"github.com/basekick-labs/arc/internal/verifsim/simkit"
)

const (
	selfID      = "replica"
	originID    = "writer-1"
	clusterName = "verif-cluster"
	secret      = "verif-shared-secret"
)

// ---------------------------------------------------------------------------
// plan

// Outcome is the fate of one Fetch call (one connection to one peer).
type Outcome struct {
	// dial | hdr-cut | badtype | errack | notfound | acksize | ackhash | ackoffset | trunc | corrupt | corrupt-trunc | ok
	Kind  string `json:"kind"`
	Code  string `json:"code,omitempty"`  // errack / notfound variant
	Pos   int    `json:"pos,omitempty"`   // byte position (taken modulo the served tail length)
	Pos2  int    `json:"pos2,omitempty"`  // corrupt-trunc: where the stream is cut after the corrupted byte
	Xor   int    `json:"xor,omitempty"`   // corruption mask 1..255
	Reset bool   `json:"reset,omitempty"` // truncated stream ends with a reset error instead of EOF
	Delta int    `json:"delta,omitempty"` // acksize / ackoffset: lie by this much
}

type FileSpec struct {
	Path string `json:"path"`
	Size int    `json:"size"`
	Seed uint64 `json:"seed"`
	Self bool   `json:"self,omitempty"` // origin is the replica itself (nothing to pull)
	// Holders: peers (addresses) that hold the file. Others answer not-found.
	Holders []string `json:"holders"`
	// Pre: staging file left at <path>.part by an earlier process life:
	// "" | prefix (correct bytes, PreLen long) | corrupt-prefix (one byte wrong) |
	// full-corrupt (complete length, one byte wrong) | full-correct (complete, not promoted)
	Pre    string `json:"pre,omitempty"`
	PreLen int    `json:"pre_len,omitempty"`
	// Faults are consumed one per Fetch call for this path, in order; afterwards fetches succeed.
	Faults []Outcome `json:"faults,omitempty"`
	// EmptyResolves: the first k peer look-ups for this path return no peers.
	EmptyResolves int `json:"empty_resolves,omitempty"`
}

type Knobs struct {
	Workers        int      `json:"workers"`
	QueueSize      int      `json:"queue_size"`
	RetryMax       int      `json:"retry_max"`
	BackoffMs      int      `json:"backoff_ms"`
	FetchTimeoutMs int      `json:"fetch_timeout_ms"`
	Peers          []string `json:"peers"` // resolver order
	Chunk          int      `json:"chunk"` // max bytes a connection read returns (0 = unlimited)
}

type Phase struct {
	Mode  string `json:"mode"`            // reactive | catchup | mixed (catch-up walker racing reactive enqueues)
	Order []int  `json:"order,omitempty"` // file indexes in enqueue order (reactive)
	Dup   bool   `json:"dup,omitempty"`   // enqueue every entry twice
	GapUs int    `json:"gap_us,omitempty"`
	Page  int    `json:"page,omitempty"` // manifest page size served to the walker
	// End: keep (same puller continues) | stop (Stop, new puller next) | crash (process death, new puller next)
	End       string `json:"end"`
	CrashKind string `json:"crash_kind,omitempty"` // step | fsop | fsop-torn | end
	CrashK    int    `json:"crash_k,omitempty"`
}

type Plan struct {
	Knobs  Knobs      `json:"knobs"`
	Files  []FileSpec `json:"files"`
	Phases []Phase    `json:"phases"` // fault phases
	Final  Phase      `json:"final"`  // fault-free phase (End ignored)
	// FinalRestart: the fault-free phase starts with a fresh process.
	FinalRestart bool `json:"final_restart,omitempty"`
}

var allPeers = []string{"peerA:9100", "peerB:9100", "peerC:9100"}

func genOutcome(r *simrt.Rand, size int) Outcome {
	pos := func() int {
		switch r.Intn(8) {
		case 0:
			return 0
		case 1:
			return 1
		case 2:
			return size - 1
		case 3:
			return size / 2
		case 4:
			return 32768 % (size + 1)
		case 5:
			return 32767 % (size + 1)
		}
		return r.Intn(size + 1)
	}
	o := Outcome{}
	switch k := r.Intn(100); {
	case k < 10:
		o.Kind = "dial"
	case k < 14:
		o.Kind = "hdr-cut"
		o.Pos = r.Intn(64)
		o.Reset = r.Bool()
	case k < 16:
		o.Kind = "badtype"
	case k < 24:
		o.Kind = "errack"
		o.Code = []string{"backend", "raft", "auth", "invalid_path", "bad_offset", ""}[r.Intn(6)]
	case k < 32:
		o.Kind = "notfound"
		o.Code = []string{"not_found", "manifest", "phase2-notfound", "phase2-manifest"}[r.Intn(4)]
	case k < 38:
		o.Kind = "acksize"
		o.Delta = []int{-1, 1, -size, size, 7, -100000}[r.Intn(6)]
	case k < 44:
		o.Kind = "ackhash"
	case k < 47:
		o.Kind = "ackoffset"
		o.Delta = []int{1, -1, 5}[r.Intn(3)]
	case k < 67:
		o.Kind = "trunc"
		o.Pos = pos()
		o.Reset = r.Bool()
	case k < 85:
		o.Kind = "corrupt"
		o.Pos = pos()
		o.Xor = 1 + r.Intn(255)
	case k < 95:
		o.Kind = "corrupt-trunc"
		o.Pos = pos()
		o.Pos2 = r.Intn(size + 1)
		o.Xor = 1 + r.Intn(255)
		o.Reset = r.Bool()
	default:
		o.Kind = "ok"
	}
	return o
}

func genC25(r *simrt.Rand, tier string) any {
	p := &Plan{}
	np := 1 + r.Intn(3)
	perm := r.Perm(3)
	for i := 0; i < np; i++ {
		p.Knobs.Peers = append(p.Knobs.Peers, allPeers[perm[i]])
	}
	p.Knobs.Workers = 1 + r.Intn(4)
	p.Knobs.QueueSize = []int{1, 2, 4, 64}[r.Intn(4)]
	p.Knobs.RetryMax = 1 + r.Intn(4)
	p.Knobs.BackoffMs = []int{1, 20, 500}[r.Intn(3)]
	p.Knobs.FetchTimeoutMs = []int{2000, 60000}[r.Intn(2)]
	p.Knobs.Chunk = []int{0, 0, 7, 100, 4096, 33000}[r.Intn(6)]
	nf := 1 + r.Intn(4)
	if tier == "thorough" {
		nf = 1 + r.Intn(6)
	}
	sizes := []int{1, 2, 17, 100, 100, 1000, 1000, 4096, 32768, 32769, 40000, 70001}
	faulty := r.Intn(10) != 0 // 10% of plans are completely fault-free
	for i := 0; i < nf; i++ {
		f := FileSpec{
			Path: fmt.Sprintf("db%d/cpu/2026/04/11/%02d/f%d.parquet", r.Intn(2), r.Intn(3), i),
			Size: sizes[r.Intn(len(sizes))], Seed: r.Uint64() >> 1,
		}
		if r.Chance(8) {
			f.Self = true
		}
		for _, pa := range p.Knobs.Peers {
			if r.Chance(65) {
				f.Holders = append(f.Holders, pa)
			}
		}
		if len(f.Holders) == 0 {
			f.Holders = []string{p.Knobs.Peers[r.Intn(len(p.Knobs.Peers))]}
		}
		if faulty {
			if r.Chance(25) && !f.Self {
				f.Pre = []string{"prefix", "prefix", "corrupt-prefix", "full-corrupt", "full-correct"}[r.Intn(5)]
				f.PreLen = r.Intn(f.Size + 1)
			}
			n := []int{0, 1, 1, 2, 2, 3, 4, 6}[r.Intn(8)]
			for k := 0; k < n; k++ {
				f.Faults = append(f.Faults, genOutcome(r, f.Size))
			}
			if r.Chance(12) {
				f.EmptyResolves = 1 + r.Intn(2)
			}
		}
		p.Files = append(p.Files, f)
	}
	nph := 1 + r.Intn(3)
	for i := 0; i < nph; i++ {
		ph := Phase{Mode: []string{"reactive", "reactive", "reactive", "catchup", "catchup", "mixed"}[r.Intn(6)], Order: r.Perm(nf),
			Dup: r.Chance(15), Page: 1 + r.Intn(3)}
		if r.Chance(30) {
			ph.GapUs = r.Intn(3000)
		}
		switch e := r.Intn(10); {
		case e < 5 || !faulty:
			ph.End = "keep"
		case e < 7:
			ph.End = "stop"
		default:
			ph.End = "crash"
			ph.CrashKind = []string{"step", "step", "fsop", "fsop-torn", "end"}[r.Intn(5)]
			ph.CrashK = 1 + r.Intn(400)
			if ph.CrashKind != "step" {
				ph.CrashK = r.Intn(40)
			}
		}
		p.Phases = append(p.Phases, ph)
	}
	p.Final = Phase{Mode: []string{"reactive", "catchup"}[r.Intn(2)], Order: r.Perm(nf), Page: 1 + r.Intn(3), End: "keep"}
	p.FinalRestart = r.Chance(40)
	return p
}

// ---------------------------------------------------------------------------
// run state

type fileState struct {
	spec     *FileSpec
	idx      int
	data     []byte
	sha      string
	entry    *raft.FileEntry
	final    string // absolute final path on the replica
	fetches  int
	resolves int
	flagged  bool // a bad-bytes violation was already raised for this file
	// corruptSeen: wrong bytes were injected for this file (corrupting transfer
	// delivered or a corrupt leftover); explains a hash-mismatching staging file.
	corruptSeen bool
}

type fetchCtl struct {
	fs   *fileState
	out  Outcome
	peer string
}

type runState struct {
	plan       *Plan
	root       string
	repDir     string
	files      map[string]*fileState
	order      []*fileState
	origin     *storage.LocalBackend
	pending    map[int]*fetchCtl
	faultsOff  bool
	out        *simkit.Outcome
	fired      int
	crashes    int
	reached    bool
	fetchCalls int
}

type replica struct {
	node       *simrt.Node
	backend    *storage.LocalBackend
	puller     *filereplication.Puller
	ctx        context.Context
	cancel     context.CancelFunc
	ranCatchup bool
	catchupRet bool // RunCatchUp returned normally
}

var curRS *runState // the run in progress (one per process at a time)

var quiet = zerolog.New(io.Discard).Level(zerolog.Disabled)

func logger() zerolog.Logger {
	if os.Getenv("VERIF_LOG") != "" {
		return zerolog.New(os.Stderr).Level(zerolog.DebugLevel)
	}
	return quiet
}

var seq atomic.Int64

func mkScratch() string {
	b := os.Getenv("VERIF_SCRATCH")
	if b == "" {
		b = "/dev/shm"
	}
	d := filepath.Join(b, fmt.Sprintf("verif-replfile.%d.%d", os.Getpid(), seq.Add(1)))
	os.RemoveAll(d)
	if err := os.MkdirAll(d, 0o755); err != nil {
		harnessFail("scratch: %v", err)
	}
	return d
}

func harnessFail(format string, args ...any) {
	fmt.Fprintf(os.Stderr, "HARNESS-ERROR replfile: "+format+"\n", args...)
	os.Exit(2)
}

func content(seed uint64, n int) []byte { return simrt.NewRand(seed ^ 0xc25c25).Bytes(n) }

func shaHex(b []byte) string {
	h := sha256.Sum256(b)
	return hex.EncodeToString(h[:])
}

func (rs *runState) rel(p string) string { return strings.TrimPrefix(p, rs.root) }

// ---------------------------------------------------------------------------
// the scripted peer behind security.Dial

type resetErr struct{}

func (resetErr) Error() string   { return "read: connection reset by peer" }
func (resetErr) Timeout() bool   { return false }
func (resetErr) Temporary() bool { return false }

type simAddr string

func (a simAddr) Network() string { return "tcp" }
func (a simAddr) String() string  { return string(a) }

type simConn struct {
	rs      *runState
	ctl     *fetchCtl
	req     bytes.Buffer
	ready   bool
	resp    []byte
	pos     int
	tailErr error
	closed  bool
}

func (c *simConn) Write(b []byte) (int, error) {
	simrt.Yield()
	if c.closed {
		return 0, net.ErrClosed
	}
	if c.ready {
		harnessFail("client wrote %d bytes after its request was complete", len(b))
	}
	c.req.Write(b)
	raw := c.req.Bytes()
	if len(raw) >= 4 {
		n := int(uint32(raw[0])<<24 | uint32(raw[1])<<16 | uint32(raw[2])<<8 | uint32(raw[3]))
		if len(raw) >= 4+n {
			msg, err := protocol.NewDecoder(bytes.NewReader(raw)).Decode()
			if err != nil {
				harnessFail("cannot decode client request: %v", err)
			}
			req, ok := msg.Payload.(*protocol.FetchFileRequest)
			if !ok || msg.Type != protocol.MsgFetchFile {
				harnessFail("unexpected client message type %v", msg.Type)
			}
			c.serve(req)
			c.ready = true
		}
	}
	return len(b), nil
}

func encodeAck(t protocol.MessageType, ack *protocol.FetchFileAckHeader) []byte {
	var buf bytes.Buffer
	if err := protocol.NewEncoder(&buf).Encode(&protocol.Message{Type: t, Payload: ack}); err != nil {
		harnessFail("encode ack: %v", err)
	}
	return buf.Bytes()
}

func errAck(code protocol.AckErrorCode, text string) []byte {
	return encodeAck(protocol.MsgFetchFileAck, &protocol.FetchFileAckHeader{Status: "error", Code: code, Error: text})
}

// serve prepares the bytes the peer will send for this connection.
func (c *simConn) serve(req *protocol.FetchFileRequest) {
	rs, ctl := c.rs, c.ctl
	c.tailErr = io.EOF
	if err := security.ValidateFetchHMAC(secret, req.Nonce, req.NodeID, clusterName, req.Path, req.Timestamp, req.HMAC, security.HMACTimestampTolerance); err != nil {
		harnessFail("client request failed fetch-HMAC validation: %v", err)
	}
	fs := rs.files[req.Path]
	if fs == nil || fs != ctl.fs {
		harnessFail("request for path %q does not match the Fetch call (%q)", req.Path, ctl.fs.spec.Path)
	}
	size := int64(fs.spec.Size)
	o := ctl.out
	switch o.Kind {
	case "notfound":
		switch o.Code {
		case "manifest":
			c.resp = errAck(protocol.AckCodeManifest, protocol.ErrMsgFileNotInManifest)
		case "phase2-notfound":
			c.resp = errAck("", protocol.ErrMsgFileNotFound)
		case "phase2-manifest":
			c.resp = errAck("", protocol.ErrMsgFileNotInManifest)
		default:
			c.resp = errAck(protocol.AckCodeNotFound, protocol.ErrMsgFileNotFound)
		}
		return
	case "errack":
		c.resp = errAck(protocol.AckErrorCode(o.Code), "simulated peer error ("+o.Code+")")
		return
	case "badtype":
		c.resp = encodeAck(protocol.MsgFetchFile, &protocol.FetchFileAckHeader{Status: "ok"})
		return
	}
	// like the real serving side: validate the offset
	if req.ByteOffset < 0 || req.ByteOffset >= size {
		simrt.Probe("server_bad_offset")
		c.resp = errAck(protocol.AckCodeBadOffset, fmt.Sprintf("invalid byte offset %d for file size %d", req.ByteOffset, size))
		return
	}
	var body bytes.Buffer
	if err := rs.origin.ReadToAt(context.Background(), req.Path, &body, req.ByteOffset); err != nil {
		harnessFail("origin read %s: %v", req.Path, err)
	}
	tail := body.Bytes()
	if int64(len(tail)) != size-req.ByteOffset {
		harnessFail("origin served %d bytes, expected %d", len(tail), size-req.ByteOffset)
	}
	ack := &protocol.FetchFileAckHeader{Status: "ok", SizeBytes: int64(len(tail)), SHA256: fs.sha, ByteOffset: req.ByteOffset}
	cutBody := -1
	switch o.Kind {
	case "acksize":
		ack.SizeBytes += int64(o.Delta)
		if o.Delta == 0 {
			ack.SizeBytes++
		}
	case "ackhash":
		ack.SHA256 = shaHex(append([]byte("other"), tail...))
	case "ackoffset":
		ack.ByteOffset += int64(o.Delta)
		if o.Delta == 0 {
			ack.ByteOffset++
		}
	case "trunc":
		cutBody = o.Pos % len(tail)
	case "corrupt":
		tail[o.Pos%len(tail)] ^= byte(xorOf(o))
	case "corrupt-trunc":
		ci := o.Pos % len(tail)
		tail[ci] ^= byte(xorOf(o))
		if room := len(tail) - 1 - ci; room > 0 {
			cutBody = ci + 1 + o.Pos2%room
		}
	}
	hdr := encodeAck(protocol.MsgFetchFileAck, ack)
	if o.Kind == "hdr-cut" {
		c.resp = hdr[:o.Pos%len(hdr)]
		if o.Reset {
			c.tailErr = resetErr{}
		}
		return
	}
	if cutBody >= 0 {
		tail = tail[:cutBody]
		if o.Reset {
			c.tailErr = resetErr{}
		}
	}
	c.resp = append(hdr, tail...)
}

func xorOf(o Outcome) int {
	x := o.Xor & 0xff
	if x == 0 {
		x = 0x80
	}
	return x
}

func (c *simConn) Read(b []byte) (int, error) {
	simrt.Yield()
	if c.closed {
		return 0, net.ErrClosed
	}
	if !c.ready {
		harnessFail("client read before sending a complete request")
	}
	if len(b) == 0 {
		return 0, nil
	}
	if c.pos >= len(c.resp) {
		return 0, c.tailErr
	}
	n := len(c.resp) - c.pos
	if n > len(b) {
		n = len(b)
	}
	if ch := c.rs.plan.Knobs.Chunk; ch > 0 {
		// bound the number of reads per transfer
		if min := len(c.resp) / 48; ch < min {
			ch = min
		}
		if n > ch {
			n = ch
		}
	}
	copy(b, c.resp[c.pos:c.pos+n])
	c.pos += n
	return n, nil
}

func (c *simConn) Close() error                       { c.closed = true; return nil }
func (c *simConn) LocalAddr() net.Addr                { return simAddr("replica:0") }
func (c *simConn) RemoteAddr() net.Addr               { return simAddr(c.ctl.peer) }
func (c *simConn) SetDeadline(t time.Time) error      { return nil }
func (c *simConn) SetReadDeadline(t time.Time) error  { return nil }
func (c *simConn) SetWriteDeadline(t time.Time) error { return nil }

func dialHook(network, addr string, timeout time.Duration, tlsCfg *tls.Config) (net.Conn, error) {
	rs := curRS
	if rs == nil {
		harnessFail("security.Dial outside a run")
	}
	simrt.Yield()
	t := simrt.CurTask()
	ctl := rs.pending[t.ID()]
	if ctl == nil {
		harnessFail("security.Dial(%s) from a task that is not inside Fetch", addr)
	}
	if ctl.peer != addr {
		harnessFail("dial address %q differs from the Fetch peer %q", addr, ctl.peer)
	}
	if ctl.out.Kind == "dial" {
		return nil, &net.OpError{Op: "dial", Net: network, Addr: simAddr(addr), Err: errors.New("connection refused")}
	}
	return &simConn{rs: rs, ctl: ctl}, nil
}

// faultFetcher hands every Fetch call its planned outcome, then runs the real
// FetchClient (which dials through the hook above).
type faultFetcher struct {
	rs    *runState
	inner *filereplication.FetchClient
}

func holds(fs *fileState, peer string) bool {
	for _, h := range fs.spec.Holders {
		if h == peer {
			return true
		}
	}
	return false
}

func (f *faultFetcher) Fetch(ctx context.Context, peerAddr string, entry *raft.FileEntry, dst io.Writer, off int64, ph hash.Hash) (int64, error) {
	rs := f.rs
	fs := rs.files[entry.Path]
	if fs == nil {
		harnessFail("Fetch for unknown path %q", entry.Path)
	}
	rs.fetchCalls++
	var o Outcome
	switch {
	case !holds(fs, peerAddr):
		o = Outcome{Kind: "notfound", Code: []string{"not_found", "manifest"}[fs.idx%2]}
		simrt.Count("probe.peer_without_file", 1)
	case rs.faultsOff || fs.fetches >= len(fs.spec.Faults):
		o = Outcome{Kind: "ok"}
	default:
		o = fs.spec.Faults[fs.fetches]
		fs.fetches++
		if o.Kind != "ok" {
			rs.fired++
			simrt.Count("fault."+o.Kind, 1)
		}
		if o.Kind == "corrupt" || o.Kind == "corrupt-trunc" {
			fs.corruptSeen = true
		}
	}
	if off > 0 {
		simrt.Probe("resume_from_partial")
	}
	t := simrt.CurTask()
	rs.pending[t.ID()] = &fetchCtl{fs: fs, out: o, peer: peerAddr}
	simrt.Event("FETCH %s peer=%s off=%d outcome=%s", entry.Path, peerAddr, off, o.Kind)
	n, err := f.inner.Fetch(ctx, peerAddr, entry, dst, off, ph)
	delete(rs.pending, t.ID())
	simrt.Event("FETCH-DONE %s n=%d %s", entry.Path, n, errClass(err))
	return n, err
}

func errClass(err error) string {
	switch {
	case err == nil:
		return "ok"
	case errors.Is(err, filereplication.ErrChecksumMismatch):
		return "checksum-mismatch"
	case errors.Is(err, filereplication.ErrFileNotOnPeer):
		return "not-on-peer"
	case errors.Is(err, filereplication.ErrBadOffset):
		return "bad-offset"
	}
	return "error"
}

// ---------------------------------------------------------------------------
// replica process

func (rs *runState) onNode(n *simrt.Node, what string, f func()) bool {
	done := false
	h := simrt.GoOn(what, n, func() { f(); done = true })
	simrt.Join(h)
	return done
}

func (rs *runState) boot(node *simrt.Node) *replica {
	r := &replica{node: node}
	ok := rs.onNode(node, "boot", func() {
		be, err := storage.NewLocalBackend(rs.repDir, logger())
		if err != nil {
			harnessFail("replica backend: %v", err)
		}
		r.backend = be
		fc, err := filereplication.NewFetchClient(filereplication.FetchClient{SelfNodeID: selfID, ClusterName: clusterName, SharedSecret: secret, DialTimeout: 10 * time.Second})
		if err != nil {
			harnessFail("fetch client: %v", err)
		}
		k := rs.plan.Knobs
		p, err := filereplication.New(filereplication.Config{
			SelfNodeID: selfID, Backend: be, Fetcher: &faultFetcher{rs: rs, inner: fc},
			PeerResolver: filereplication.NewRegistryResolver(rs.resolve),
			Workers:      k.Workers, QueueSize: k.QueueSize, RetryMaxAttempts: k.RetryMax,
			RetryInitialBackoff: time.Duration(k.BackoffMs) * time.Millisecond,
			FetchTimeout:        time.Duration(k.FetchTimeoutMs) * time.Millisecond,
			Logger:              logger(),
		})
		if err != nil {
			harnessFail("puller: %v", err)
		}
		r.puller = p
		r.ctx, r.cancel = context.WithCancel(context.Background())
		p.Start(r.ctx)
	})
	if !ok {
		harnessFail("replica died during boot")
	}
	simrt.Event("BOOT")
	return r
}

func (rs *runState) resolve(originNodeID, path string) []string {
	fs := rs.files[path]
	if fs == nil {
		harnessFail("resolve for unknown path %q", path)
	}
	if !rs.faultsOff && fs.resolves < fs.spec.EmptyResolves {
		fs.resolves++
		rs.fired++
		simrt.Count("fault.no_peers", 1)
		return nil
	}
	return append([]string(nil), rs.plan.Knobs.Peers...)
}

// pageFn serves the manifest to the catch-up walker (sorted by path, cursor = last path).
func (rs *runState) pageFn(page int) func(cursor string, limit int) ([]*raft.FileEntry, string, error) {
	var sorted []*fileState
	sorted = append(sorted, rs.order...)
	sort.Slice(sorted, func(i, j int) bool { return sorted[i].spec.Path < sorted[j].spec.Path })
	if page <= 0 {
		page = 2
	}
	return func(cursor string, limit int) ([]*raft.FileEntry, string, error) {
		simrt.Yield()
		if limit > 0 && page > limit {
			page = limit
		}
		var out []*raft.FileEntry
		for _, fs := range sorted {
			if cursor != "" && fs.spec.Path <= cursor {
				continue
			}
			e := *fs.entry
			out = append(out, &e)
			if len(out) == page {
				break
			}
		}
		next := ""
		if len(out) == page {
			next = out[len(out)-1].Path
		}
		return out, next, nil
	}
}

// ---------------------------------------------------------------------------
// oracle helpers

func (rs *runState) present(fs *fileState) bool {
	b, err := os.ReadFile(fs.final)
	return err == nil && bytes.Equal(b, fs.data)
}

// finalHow describes what is at the final path of a file that is not present-and-correct.
func (rs *runState) finalHow(fs *fileState) string {
	b, err := os.ReadFile(fs.final)
	if err != nil {
		return "absent"
	}
	return fmt.Sprintf("present with %d wrong bytes", len(b))
}

func (rs *runState) partState(fs *fileState) string {
	b, err := os.ReadFile(fs.final + ".part")
	switch {
	case err != nil:
		return "no-part-file"
	case len(b) < len(fs.data):
		return "part-file-short"
	case len(b) > len(fs.data):
		return "part-file-oversize"
	case bytes.Equal(b, fs.data):
		return "part-file-complete-but-not-promoted"
	}
	return "part-file-fullsize-hash-mismatch"
}

// missingClass names the circumstance of a file that is absent at its final
// path: the state of its staging file when that explains a size-based
// "already present" decision; otherwise whether peer look-ups for it came back
// empty or (for the catch-up gate) the puller dropped entries on a full queue.
func (rs *runState) missingClass(fs *fileState, st map[string]int64) string {
	c := rs.partState(fs)
	switch c {
	case "part-file-fullsize-hash-mismatch":
		switch {
		case !fs.corruptSeen:
			c += ".no-corruption-injected"
		case rs.crashes > 0 || fs.spec.Pre != "":
			// the staging file may stem from an earlier process life rather than
			// from a checksum failure of this puller
			c += ".after-crash-or-leftover"
		}
		return c
	case "part-file-complete-but-not-promoted":
		if rs.crashes == 0 && fs.spec.Pre != "full-correct" {
			c += ".no-crash-or-leftover"
		}
		return c
	case "part-file-oversize":
		return c
	}
	c = "part-file-absent-or-short"
	switch {
	case fs.resolves > 0:
		c += ".after-empty-peer-lookup"
	case st != nil && st["dropped"] > 0:
		c += ".after-queue-drop"
	case st != nil && st["failed"] > 0:
		c += ".after-gave-up-pull"
	}
	return c
}

// suspect picks, among files missing at their final path, the one most likely
// to be the entry counted as present (attribution only; detection is by counters).
func (rs *runState) suspect(missing []*fileState) *fileState {
	for _, fs := range missing {
		if st := rs.partState(fs); st == "part-file-fullsize-hash-mismatch" || st == "part-file-complete-but-not-promoted" || st == "part-file-oversize" {
			return fs
		}
	}
	for _, fs := range missing {
		if fs.resolves > 0 {
			return fs
		}
	}
	return missing[0]
}

// checkFinals enforces the safety half: a manifest file is either absent at
// its final path or has exactly the manifest bytes.
func (rs *runState) checkFinals(when string) {
	for _, fs := range rs.order {
		if fs.flagged {
			continue
		}
		b, err := os.ReadFile(fs.final)
		if err != nil {
			continue
		}
		if bytes.Equal(b, fs.data) {
			continue
		}
		fs.flagged = true
		cls := "wrong-size"
		switch {
		case len(b) == len(fs.data):
			cls = "fullsize-hash-mismatch"
		case len(b) < len(fs.data) && bytes.Equal(b, fs.data[:len(b)]):
			cls = "incomplete-prefix"
		case len(b) < len(fs.data):
			cls = "incomplete-and-corrupt"
		}
		simrt.Event("BAD-FINAL %s %s %s", fs.spec.Path, cls, when)
		rs.out.Violate("C25.bad-bytes-at-final-path."+cls+"."+when,
			"%s is visible at its final path with %d bytes whose SHA-256 is %s; the manifest records %d bytes, SHA-256 %s (observed %s)",
			fs.spec.Path, len(b), shaHex(b)[:16], len(fs.data), fs.sha[:16], when)
	}
}

func (rs *runState) observer(op *simrt.FSOp, err error) {
	if !op.Mut {
		return
	}
	for _, fs := range rs.order {
		if op.Path == fs.final || op.Path2 == fs.final {
			rs.checkFinals("after-" + op.Kind)
			return
		}
	}
}

// ---------------------------------------------------------------------------
// phases

func (rs *runState) armCrash(node *simrt.Node, ph *Phase) {
	switch ph.CrashKind {
	case "step":
		k := int64(ph.CrashK)
		if k < 1 {
			k = 1
		}
		node.CrashAtStep = node.Steps() + k
	case "fsop", "fsop-torn":
		seen := 0
		torn := ph.CrashKind == "fsop-torn"
		target := ph.CrashK
		simrt.SetFSInjector(func(op *simrt.FSOp) simrt.FSAction {
			if op.Node != node || !op.Mut || !strings.HasPrefix(op.Path, rs.repDir) {
				return simrt.FSAction{}
			}
			seen++
			if seen <= target {
				return simrt.FSAction{}
			}
			simrt.SetFSInjector(nil)
			if torn && op.Kind == "write" && op.N > 1 {
				simrt.Count("fault.torn_write", 1)
				return simrt.FSAction{Crash: 3, Short: 1 + (target*7919)%(op.N-1)}
			}
			if target%2 == 0 {
				return simrt.FSAction{Crash: 1}
			}
			return simrt.FSAction{Crash: 2}
		})
	}
}

func (rs *runState) disarm(node *simrt.Node) {
	node.CrashAtStep = 0
	simrt.SetFSInjector(nil)
}

// wave enqueues the manifest once (reactively, through the catch-up walker, or
// both), waits until the puller is idle (or dead) and evaluates the
// "counted as present" oracle.
func (rs *runState) wave(r *replica, ph *Phase, name string) {
	p := r.puller
	s0 := p.Stats()
	attempts := map[string]int{}
	mode := ph.Mode
	if (mode == "catchup" || mode == "mixed") && r.ranCatchup {
		mode = "reactive" // the walker is single-shot per puller lifetime
	}
	simrt.Event("WAVE %s mode=%s", name, mode)
	if !rs.faultsOff && ph.End == "crash" {
		rs.armCrash(r.node, ph)
	}
	var walker *simrt.Task
	if mode == "catchup" || mode == "mixed" {
		r.ranCatchup = true
		fetch := rs.pageFn(ph.Page)
		walker = simrt.GoOn("catchup-walker", r.node, func() {
			p.RunCatchUp(r.ctx, fetch)
			r.catchupRet = true
		})
		for _, fs := range rs.order {
			if !fs.spec.Self {
				attempts[fs.spec.Path]++
			}
		}
	}
	if mode == "reactive" || mode == "mixed" {
		order := ph.Order
		valid := len(order) > 0
		for _, i := range order {
			if i < 0 || i >= len(rs.order) {
				valid = false
			}
		}
		if !valid {
			order = nil
			for i := range rs.order {
				order = append(order, i)
			}
		}
		for _, i := range order {
			if r.node.Dead {
				break
			}
			fs := rs.order[i]
			n := 1
			if ph.Dup {
				n = 2
			}
			for k := 0; k < n; k++ {
				e := *fs.entry
				p.Enqueue(&e)
				if !fs.spec.Self {
					attempts[fs.spec.Path]++
				}
			}
			if ph.GapUs > 0 {
				simrt.Sleep(time.Duration(ph.GapUs) * time.Microsecond)
			}
		}
	}
	if walker != nil {
		simrt.Join(walker)
	}
	// wait for quiescence
	nap := time.Duration(rs.plan.Knobs.BackoffMs) * time.Millisecond / 2
	if nap < time.Millisecond {
		nap = time.Millisecond
	}
	if nap > 50*time.Millisecond {
		nap = 50 * time.Millisecond
	}
	idle := false
	for i := 0; i < 20000 && !r.node.Dead; i++ {
		st := p.Stats()
		if st["inflight_count"] == 0 && st["queue_depth"] == 0 {
			idle = true
			break
		}
		simrt.Sleep(nap)
	}
	if !rs.faultsOff && ph.End == "crash" {
		rs.disarm(r.node)
		if !r.node.Dead {
			simrt.Crash(r.node)
		}
		rs.crashes++
		simrt.Count("probe.crash_of_replica", 1)
	}
	if !idle && !r.node.Dead {
		rs.out.Violate("C25.puller-never-idle", "the puller still has work in flight %d polls after the last enqueue (stats %v)", 20000, p.Stats())
		return
	}
	rs.reached = true
	// ---- oracle: counted-as-present never exceeds what is at the final path
	s1 := p.Stats()
	claimed := (s1["skipped_local"] - s0["skipped_local"]) + (s1["pulled"] - s0["pulled"])
	simrt.Count("probe.skipped_local", s1["skipped_local"]-s0["skipped_local"])
	simrt.Count("probe.pulled", s1["pulled"]-s0["pulled"])
	simrt.Count("probe.gave_up", s1["failed"]-s0["failed"])
	simrt.Count("probe.queue_drop", s1["dropped"]-s0["dropped"])
	simrt.Count("probe.checksum_mismatch", s1["checksum_mismatch"]-s0["checksum_mismatch"])
	var bound int64
	var missing []*fileState
	for _, fs := range rs.order {
		if fs.spec.Self || attempts[fs.spec.Path] == 0 {
			continue
		}
		if rs.present(fs) {
			bound += int64(attempts[fs.spec.Path])
		} else {
			missing = append(missing, fs)
		}
	}
	simrt.Event("WAVE-END %s claimed=%d bound=%d missing=%d dead=%v", name, claimed, bound, len(missing), r.node.Dead)
	if claimed > bound {
		if len(missing) == 0 {
			// More claims than enqueue attempts with every file present: one entry was
			// processed twice (the puller's in-flight de-duplication did not hold). Not a
			// violation of the property by itself — the final-path checks below and the
			// write observer judge what the double transfer did to the file.
			simrt.Probe("double_claim_all_present")
		} else {
			fs := rs.suspect(missing)
			st := rs.missingClass(fs, nil)
			rs.out.Violate("C25.counted-present-while-final-path-missing."+st,
				"in wave %s the puller counted %d entries as present (skipped_local +%d, pulled +%d) but only %d enqueue attempts concern files that are complete at their final path; e.g. %s is %s at its final path (%s, manifest size %d)",
				name, claimed, s1["skipped_local"]-s0["skipped_local"], s1["pulled"]-s0["pulled"], bound, fs.spec.Path, rs.finalHow(fs), st, fs.spec.Size)
		}
	}
	// ---- oracle: the catch-up gate (FullyCaughtUp) is "every manifest file counted present"
	if r.ranCatchup && r.catchupRet && !r.node.Dead && p.FullyCaughtUp() {
		simrt.Probe("gate_open")
		var gm []*fileState
		for _, fs := range rs.order {
			if !fs.spec.Self && !rs.present(fs) {
				gm = append(gm, fs)
			}
		}
		if len(gm) > 0 {
			fs := rs.suspect(gm)
			st := rs.missingClass(fs, p.Stats())
			rs.out.Violate("C25.catch-up-gate-open-while-final-path-missing."+st,
				"FullyCaughtUp()=true (status %v) while manifest file %s is %s at its final path (%s)", p.CatchUpStatus(), fs.spec.Path, rs.finalHow(fs), st)
		}
	}
	rs.checkFinals("at-quiescence")
}

func (rs *runState) allPresent() bool {
	for _, fs := range rs.order {
		if !fs.spec.Self && !rs.present(fs) {
			return false
		}
	}
	return true
}

func (rs *runState) execute() {
	p := rs.plan
	simrt.SetPathRoot(rs.root)
	simrt.SetFSObserver(rs.observer)
	// origin node: writes the files with the real backend
	onode := simrt.NodeOf("origin")
	okSetup := rs.onNode(onode, "origin-setup", func() {
		ob, err := storage.NewLocalBackend(filepath.Join(rs.root, "origin"), logger())
		if err != nil {
			harnessFail("origin backend: %v", err)
		}
		rs.origin = ob
		for _, fs := range rs.order {
			if err := ob.Write(context.Background(), fs.spec.Path, fs.data); err != nil {
				harnessFail("origin write: %v", err)
			}
		}
	})
	if !okSetup {
		harnessFail("origin setup died")
	}
	// leftovers of an earlier process life on the replica
	for _, fs := range rs.order {
		if fs.spec.Self {
			os.MkdirAll(filepath.Dir(fs.final), 0o700)
			os.WriteFile(fs.final, fs.data, 0o600)
			continue
		}
		var img []byte
		n := fs.spec.PreLen
		if n > len(fs.data) {
			n = len(fs.data)
		}
		switch fs.spec.Pre {
		case "prefix":
			if n >= len(fs.data) {
				n = len(fs.data) - 1 // a strict prefix; the complete-length case is "full-correct"
			}
			img = append([]byte{}, fs.data[:n]...)
		case "corrupt-prefix":
			if n == 0 {
				n = 1
			}
			img = append([]byte{}, fs.data[:n]...)
			img[(n-1)/2] ^= 0x5a
			fs.corruptSeen = true
		case "full-corrupt":
			img = append([]byte{}, fs.data...)
			img[n%len(img)] ^= 0x5a
			fs.corruptSeen = true
		case "full-correct":
			img = append([]byte{}, fs.data...)
		default:
			continue
		}
		os.MkdirAll(filepath.Dir(fs.final), 0o700)
		if err := os.WriteFile(fs.final+".part", img, 0o600); err != nil {
			harnessFail("pre-seed: %v", err)
		}
		simrt.Count("probe.leftover_part_"+fs.spec.Pre, 1)
	}
	node := simrt.NodeOf("replica")
	var r *replica
	for i := range p.Phases {
		ph := &p.Phases[i]
		if r == nil {
			r = rs.boot(node)
		}
		rs.wave(r, ph, fmt.Sprintf("fault-%d", i))
		if len(rs.out.Violations) > 0 && rs.out.Violations[0].Rule == "C25.puller-never-idle" {
			return
		}
		switch {
		case node.Dead:
			simrt.Revive(node)
			r = nil
		case ph.End == "stop":
			rs.onNode(node, "stop", func() { r.puller.Stop() })
			simrt.Event("STOP")
			r = nil
		}
	}
	// ---- faults stop
	rs.faultsOff = true
	rs.disarm(node)
	simrt.Event("FAULTS-STOP")
	if r != nil && p.FinalRestart {
		rs.onNode(node, "stop", func() { r.puller.Stop() })
		r = nil
	}
	if r == nil {
		r = rs.boot(node)
	}
	// Round 0 announces the whole manifest as planned (reactively or through
	// the start-up walker). Entries dropped on a full queue are, in arc,
	// recovered by a later announcement: rounds 1..2 re-announce every entry
	// that is still missing, one at a time, each run to idle (no drop possible).
	const rounds = 3
	rs.wave(r, &p.Final, "final-0")
	for round := 1; round < rounds && !rs.allPresent(); round++ {
		for i, fs := range rs.order {
			if fs.spec.Self || rs.present(fs) {
				continue
			}
			one := Phase{Mode: "reactive", Order: []int{i}, End: "keep"}
			rs.wave(r, &one, fmt.Sprintf("final-%d.%d", round, i))
		}
	}
	for _, fs := range rs.order {
		if fs.spec.Self || rs.present(fs) {
			continue
		}
		st := rs.missingClass(fs, nil)
		how := rs.finalHow(fs)
		rs.out.Violate("C25.not-converged-after-faults-stop."+st,
			"after the last fault the whole manifest was announced and then every missing entry re-announced alone in %d further rounds (each run to idle): %s is still %s at its final path (%s); puller stats %v",
			rounds-1, fs.spec.Path, how, st, r.puller.Stats())
		break
	}
	rs.onNode(node, "final-stop", func() { r.puller.Stop() })
}

func runC25(planAny any, cfg simrt.Config) *simkit.Outcome {
	p := planAny.(*Plan)
	out := &simkit.Outcome{}
	if len(p.Files) == 0 || len(p.Knobs.Peers) == 0 {
		out.Discard = "empty-plan"
		return out
	}
	root := mkScratch()
	defer os.RemoveAll(root)
	rs := &runState{plan: p, root: root, repDir: filepath.Join(root, "replica"), files: map[string]*fileState{}, pending: map[int]*fetchCtl{}, out: out}
	for i := range p.Files {
		sp := &p.Files[i]
		if sp.Size < 1 {
			sp.Size = 1
		}
		if rs.files[sp.Path] != nil {
			out.Discard = "duplicate-path"
			return out
		}
		d := content(sp.Seed, sp.Size)
		origin := originID
		if sp.Self {
			origin = selfID
		}
		fs := &fileState{spec: sp, idx: i, data: d, sha: shaHex(d), final: filepath.Join(rs.repDir, filepath.FromSlash(sp.Path))}
		parts := strings.Split(sp.Path, "/")
		fs.entry = &raft.FileEntry{Path: sp.Path, SHA256: fs.sha, SizeBytes: int64(sp.Size), Database: parts[0], Measurement: parts[1],
			OriginNodeID: origin, Tier: "hot", LSN: uint64(i + 1)}
		rs.files[sp.Path] = fs
		rs.order = append(rs.order, fs)
	}
	curRS = rs
	res := simrt.Run(cfg, rs.execute)
	curRS = nil
	out.Absorb(res)
	if len(res.Panics) > 0 {
		out.Violate("C25.panic", "task panicked: %s", strings.SplitN(res.Panics[0], "\n", 2)[0])
	}
	out.Stats["probe.fetch_calls"] += int64(rs.fetchCalls)
	out.Nontrivial = rs.reached && (rs.fired > 0 || rs.crashes > 0)
	return out
}

// ---------------------------------------------------------------------------
// shrinking / description

func clonePlan(p *Plan) *Plan {
	q := *p
	q.Knobs.Peers = append([]string(nil), p.Knobs.Peers...)
	q.Files = make([]FileSpec, len(p.Files))
	for i, f := range p.Files {
		f.Holders = append([]string(nil), f.Holders...)
		f.Faults = append([]Outcome(nil), f.Faults...)
		q.Files[i] = f
	}
	q.Phases = make([]Phase, len(p.Phases))
	for i, ph := range p.Phases {
		ph.Order = append([]int(nil), ph.Order...)
		q.Phases[i] = ph
	}
	q.Final.Order = append([]int(nil), p.Final.Order...)
	return &q
}

func shrinkC25(planAny any) []any {
	p := planAny.(*Plan)
	var out []any
	// fewer files
	if len(p.Files) > 1 {
		for i := range p.Files {
			q := clonePlan(p)
			q.Files = append(q.Files[:i], q.Files[i+1:]...)
			for j := range q.Phases {
				q.Phases[j].Order = nil
			}
			q.Final.Order = nil
			out = append(out, q)
		}
	}
	// fewer phases
	if len(p.Phases) > 1 {
		for i := range p.Phases {
			q := clonePlan(p)
			q.Phases = append(q.Phases[:i], q.Phases[i+1:]...)
			out = append(out, q)
		}
	}
	// leftovers before faults, then faults
	for i, f := range p.Files {
		if f.Pre != "" {
			q := clonePlan(p)
			q.Files[i].Pre, q.Files[i].PreLen = "", 0
			out = append(out, q)
		}
	}
	for i, f := range p.Files {
		for k := range f.Faults {
			q := clonePlan(p)
			q.Files[i].Faults = append(q.Files[i].Faults[:k], q.Files[i].Faults[k+1:]...)
			out = append(out, q)
		}
		if f.EmptyResolves > 0 {
			q := clonePlan(p)
			q.Files[i].EmptyResolves = 0
			out = append(out, q)
		}
	}
	// simpler phases
	for i, ph := range p.Phases {
		if ph.End != "keep" {
			q := clonePlan(p)
			q.Phases[i].End, q.Phases[i].CrashKind, q.Phases[i].CrashK = "keep", "", 0
			out = append(out, q)
		}
		if ph.Mode != "reactive" {
			q := clonePlan(p)
			q.Phases[i].Mode = "reactive"
			out = append(out, q)
		}
		if ph.Dup || ph.GapUs > 0 {
			q := clonePlan(p)
			q.Phases[i].Dup, q.Phases[i].GapUs = false, 0
			out = append(out, q)
		}
	}
	if p.FinalRestart {
		q := clonePlan(p)
		q.FinalRestart = false
		out = append(out, q)
	}
	if p.Final.Mode != "reactive" {
		q := clonePlan(p)
		q.Final.Mode = "reactive"
		out = append(out, q)
	}
	// simpler knobs
	if p.Knobs.Workers > 1 {
		q := clonePlan(p)
		q.Knobs.Workers = 1
		out = append(out, q)
	}
	if len(p.Knobs.Peers) > 1 {
		q := clonePlan(p)
		q.Knobs.Peers = q.Knobs.Peers[:1]
		for i := range q.Files {
			q.Files[i].Holders = []string{q.Knobs.Peers[0]}
		}
		out = append(out, q)
	}
	if p.Knobs.Chunk != 0 {
		q := clonePlan(p)
		q.Knobs.Chunk = 0
		out = append(out, q)
	}
	if p.Knobs.BackoffMs > 1 {
		q := clonePlan(p)
		q.Knobs.BackoffMs = 1
		out = append(out, q)
	}
	if p.Knobs.QueueSize < 64 {
		q := clonePlan(p)
		q.Knobs.QueueSize = 64
		out = append(out, q)
	}
	// smaller files, simpler fault arguments
	for i, f := range p.Files {
		for _, sz := range []int{2, 17, 100} {
			if f.Size > sz {
				q := clonePlan(p)
				q.Files[i].Size = sz
				if q.Files[i].PreLen > sz {
					q.Files[i].PreLen = sz / 2
				}
				out = append(out, q)
				break
			}
		}
		for k, o := range f.Faults {
			if o.Reset || o.Pos > 1 || o.Pos2 > 0 {
				q := clonePlan(p)
				q.Files[i].Faults[k].Reset = false
				q.Files[i].Faults[k].Pos = o.Pos % 2
				q.Files[i].Faults[k].Pos2 = 0
				out = append(out, q)
			}
		}
	}
	return out
}

func descC25(planAny any) any {
	p := planAny.(*Plan)
	var files []string
	for _, f := range p.Files {
		var fl []string
		for _, o := range f.Faults {
			s := o.Kind
			switch o.Kind {
			case "trunc", "corrupt", "corrupt-trunc":
				s += fmt.Sprintf("@%d", o.Pos)
			case "errack", "notfound":
				s += ":" + o.Code
			}
			fl = append(fl, s)
		}
		s := fmt.Sprintf("%s size=%d holders=%d", f.Path, f.Size, len(f.Holders))
		if f.Self {
			s += " origin=self"
		}
		if f.Pre != "" {
			s += fmt.Sprintf(" leftover=%s(%d)", f.Pre, f.PreLen)
		}
		if f.EmptyResolves > 0 {
			s += fmt.Sprintf(" empty_resolves=%d", f.EmptyResolves)
		}
		files = append(files, s+" faults=["+strings.Join(fl, ",")+"]")
	}
	var phases []string
	for _, ph := range p.Phases {
		s := ph.Mode + "/" + ph.End
		if ph.End == "crash" {
			s += fmt.Sprintf("(%s %d)", ph.CrashKind, ph.CrashK)
		}
		phases = append(phases, s)
	}
	return map[string]any{"files": files, "phases": phases, "final": p.Final.Mode, "final_restart": p.FinalRestart, "knobs": p.Knobs}
}

func main() {
	zerolog.SetGlobalLevel(zerolog.Disabled)
	if os.Getenv("VERIF_LOG") != "" {
		zerolog.SetGlobalLevel(zerolog.DebugLevel)
	}
	security.SimHook_Dial = dialHook
	simkit.Main(&simkit.Check{ID: "C25", Gen: genC25, New: func() any { return &Plan{} }, Run: runC25, Shrink: shrinkC25, Desc: descC25})
}
