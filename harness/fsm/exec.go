//go:build verif

package main

import (
	"bytes"
	"encoding/json"
	"fmt"
	"io"
	"os"
	"sort"
	"strings"

	hraft "github.com/hashicorp/raft"
	"github.com/rs/zerolog"

	craft "github.com/basekick-labs/arc/internal/cluster/raft"
	"github.com/basekick-labs/arc/internal/simrt"
	"github.com/basekick-labs/arc/internal/verifsim/simkit"
)

var nopLog = zerolog.Nop()

// bufSink is an in-memory raft.SnapshotSink.
type bufSink struct {
	bytes.Buffer
	closed, cancelled bool
}

func (s *bufSink) ID() string    { return "verif" }
func (s *bufSink) Cancel() error { s.cancelled = true; return nil }
func (s *bufSink) Close() error  { s.closed = true; return nil }

type harnessError string

func fail(format string, a ...any) { panic(harnessError(fmt.Sprintf(format, a...))) }

// guarded runs f (real arc code) and reports a panic of that code as a value.
func guarded(f func()) (pv any) {
	defer func() {
		if r := recover(); r != nil {
			if he, ok := r.(harnessError); ok {
				panic(he)
			}
			pv = r
		}
	}()
	f()
	return nil
}

// ---------------------------------------------------------------------------
// canonical dump of the primary records
// ---------------------------------------------------------------------------

var sectionNames = []string{"nodes", "primary_writer_id", "active_compactor_id", "files", "tokens", "organizations", "teams", "roles",
	"measurement_permissions", "token_memberships"}

// primary is the canonical form of the primary records: one JSON text per
// section. encoding/json sorts map keys, entries are rendered with their own
// JSON form (the same form Persist writes).
type primary [10]string

func js(v any) string {
	b, err := json.Marshal(v)
	if err != nil {
		fail("dump: %v", err)
	}
	return string(b)
}

func dumpPrimary(st *craft.VerifState) primary {
	return primary{js(st.Nodes), js(st.PrimaryWriterID), js(st.ActiveCompactorID), js(st.Files), js(st.Tokens), js(st.Orgs), js(st.Teams),
		js(st.Roles), js(st.MPerms), js(st.Memberships)}
}

func (a primary) diff(b primary) (section string, detail string) {
	for i := range a {
		if a[i] != b[i] {
			return sectionNames[i], fmt.Sprintf("%s: %s  VERSUS  %s", sectionNames[i], clip(a[i]), clip(b[i]))
		}
	}
	return "", ""
}

func clip(s string) string {
	if len(s) > 700 {
		return s[:700] + "…"
	}
	return s
}

func (a primary) hash() uint64 {
	h := uint64(0xcbf29ce484222325)
	for _, s := range a {
		for i := 0; i < len(s); i++ {
			h ^= uint64(s[i])
			h *= 0x100000001b3
		}
		h ^= 0xff
		h *= 0x100000001b3
	}
	return h
}

// ---------------------------------------------------------------------------
// engine
// ---------------------------------------------------------------------------

type run struct {
	p    *Plan
	out  *simkit.Outcome
	c22  bool
	c23  bool
	refP []primary           // refP[k] = primary records of the reference after k entries
	snap [][]byte            // snap[k] = persisted snapshot of the reference after k entries
	good []bool              // good[k] = restoring snap[k] reproduced refP[k]
	refI []map[string]string // refI[k] = index findings of the reference after k entries
	stop bool
}

func (r *run) violate(rule, format string, a ...any) {
	r.out.Violate(rule, format, a...)
}

// apply delivers one entry. A panic of the FSM is a C22 violation (the node does
// not end in any state); under C23 the run is discarded.
func (r *run) apply(f *craft.ClusterFSM, op Op, who string) (resp any, ok bool) {
	pv := guarded(func() { resp = f.Apply(&hraft.Log{Index: op.Idx, Term: 1, Type: hraft.LogCommand, Data: op.data()}) })
	if pv != nil {
		r.stop = true
		if r.c22 {
			r.violate("C22.panic.apply."+op.kind(), "%s: Apply panicked on %s: %v", who, descOp(op), pv)
		} else {
			r.out.Discard = "apply_panic"
		}
		return nil, false
	}
	return resp, true
}

func (r *run) persist(s hraft.FSMSnapshot, who string) ([]byte, bool) {
	sink := &bufSink{}
	var err error
	pv := guarded(func() { err = s.Persist(sink); s.Release() })
	if pv != nil || err != nil || !sink.closed || sink.cancelled {
		r.stop = true
		if r.c22 {
			r.violate("C22.snapshot.persist_failed", "%s: Persist on a healthy sink: panic=%v err=%v closed=%v cancelled=%v", who, pv, err, sink.closed, sink.cancelled)
		} else {
			r.out.Discard = "persist_failed"
		}
		return nil, false
	}
	return append([]byte(nil), sink.Bytes()...), true
}

func (r *run) snapshot(f *craft.ClusterFSM, who string) (hraft.FSMSnapshot, bool) {
	var s hraft.FSMSnapshot
	var err error
	pv := guarded(func() { s, err = f.Snapshot() })
	if pv != nil || err != nil {
		r.stop = true
		if r.c22 {
			r.violate("C22.snapshot.snapshot_failed", "%s: Snapshot: panic=%v err=%v", who, pv, err)
		} else {
			r.out.Discard = "snapshot_failed"
		}
		return nil, false
	}
	return s, true
}

func (r *run) restore(f *craft.ClusterFSM, data []byte, who string) bool {
	var err error
	pv := guarded(func() { err = f.Restore(io.NopCloser(bytes.NewReader(data))) })
	if pv != nil || err != nil {
		r.stop = true
		if r.c22 {
			r.violate("C22.snapshot.restore_failed", "%s: Restore of a snapshot this FSM version persisted: panic=%v err=%v", who, pv, err)
		} else {
			r.out.Discard = "restore_failed"
		}
		return false
	}
	return true
}

func respString(resp any) string {
	if resp == nil {
		return "ok"
	}
	if e, ok := resp.(error); ok {
		return "error: " + e.Error()
	}
	return fmt.Sprintf("value: %v", resp)
}

// offShape explains which commands applied so far have a shape that no current
// proposer in arc builds (they can still be committed: any authenticated peer
// may forward arbitrary command bytes to the leader). Information for triage,
// never part of a rule id.
func offShape(op Op, pre *craft.VerifState) string {
	if op.Raw != "" || op.Bad != "" {
		return "malformed"
	}
	switch craft.CommandType(op.T) {
	case craft.CommandAddNode:
		var p craft.AddNodePayload
		if json.Unmarshal(op.P, &p) != nil {
			return "malformed"
		}
		if p.Node.WriterState != "" {
			return "add_node carrying writer_state"
		}
		if p.Node.ID == "" {
			return "add_node with empty id"
		}
	case craft.CommandUpdateNode:
		return "update_node (no proposer)"
	case craft.CommandDemoteWriter:
		return "demote_writer (no caller)"
	case craft.CommandPromoteWriter:
		var p craft.PromoteWriterPayload
		if json.Unmarshal(op.P, &p) != nil {
			return "malformed"
		}
		if _, ok := pre.Nodes[p.NodeID]; !ok {
			return "promote_writer of a node that is not registered"
		}
	}
	if _, ok := kindNames[craft.CommandType(op.T)]; !ok {
		return "unknown command type"
	}
	return ""
}

func execute(planAny any, cfg simrt.Config) *simkit.Outcome {
	p := planAny.(*Plan)
	out := &simkit.Outcome{Stats: map[string]int64{}}
	r := &run{p: p, out: out, c22: p.Prop == "C22", c23: p.Prop == "C23"}
	if !r.c22 && !r.c23 {
		fail("plan without property: %q", p.Prop)
	}
	for i := 1; i < len(p.Log); i++ {
		if p.Log[i].Idx <= p.Log[i-1].Idx {
			fail("log indexes not increasing at %d", i)
		}
	}
	var herr any
	res := simrt.Run(cfg, func() {
		defer func() {
			if x := recover(); x != nil {
				if he, ok := x.(harnessError); ok {
					herr = he
					return
				}
				panic(x)
			}
		}()
		r.reference()
		if r.stop {
			return
		}
		if r.c23 {
			r.latePersist()
			r.restoredSuffixRoles()
		}
		if r.c22 {
			r.suffixReplay()
			for i := range p.Reps {
				if r.stop {
					return
				}
				r.replica(i)
			}
		}
	})
	if herr != nil {
		fmt.Fprintln(os.Stderr, "HARNESS-ERROR", herr)
		os.Exit(2)
	}
	out.Absorb(res)
	if len(res.Panics) > 0 && len(out.Violations) == 0 {
		fmt.Fprintln(os.Stderr, "HARNESS-ERROR unexpected panic:", res.Panics[0])
		os.Exit(2)
	}
	out.Nontrivial = out.Discard == "" && len(p.Log) > 0
	return out
}

// reference applies the whole log to a fresh FSM and judges every prefix.
func (r *run) reference() {
	p := r.p
	f := craft.NewClusterFSM(nopLog)
	st := f.VerifState()
	prev := dumpPrimary(st)
	r.refP = append(r.refP, prev)
	var shapes []string
	note := func() string {
		if len(shapes) == 0 {
			return "all commands so far have shapes that current proposers build"
		}
		return "command shapes no current proposer builds: " + strings.Join(shapes, "; ")
	}
	if !r.prefixChecks(f, st, prev, 0, "initial state", note()) {
		return
	}
	for k, op := range p.Log {
		if s := offShape(op, st); s != "" {
			shapes = append(shapes, fmt.Sprintf("#%d %s", op.Idx, s))
			simrt.Count("fault.off_shape_command", 1)
		}
		if r.c22 {
			r.paginate(f) // fills the sorted-key cache so that a missed invalidation by this command shows up below
		}
		resp, ok := r.apply(f, op, "reference")
		if !ok {
			return
		}
		after := f.VerifState()
		cur := dumpPrimary(after)
		simrt.Event("ref %d %s %s h=%x", k+1, op.kind(), strings.SplitN(respString(resp), ":", 2)[0], cur.hash())
		what := fmt.Sprintf("after %s -> %s", descOp(op), respString(resp))
		if _, isErr := resp.(error); isErr {
			simrt.Count("probe.command_rejected", 1)
		} else {
			simrt.Count("probe.command_accepted", 1)
		}
		if r.c22 {
			r.checkBatch(op, resp, st, after, prev, cur, what)
		}
		if r.c23 {
			r.checkRoles(op.kind(), op, st, after, what+"; "+note())
		}
		r.refP = append(r.refP, cur)
		if !r.prefixChecks(f, after, cur, k+1, what, note()) {
			return
		}
		st, prev = after, cur
	}
}

// paginate walks GetFilesPaginated (public API, served from the sorted-key cache).
func (r *run) paginate(f *craft.ClusterFSM) []string {
	var got []string
	cursor := ""
	for i := 0; i < 64; i++ {
		page, next, err := f.GetFilesPaginated(cursor, 2)
		if err != nil {
			fail("GetFilesPaginated: %v", err)
		}
		for _, e := range page {
			got = append(got, e.Path)
		}
		if next == "" {
			return got
		}
		cursor = next
	}
	fail("GetFilesPaginated does not terminate")
	return nil
}

// prefixChecks: index agreement in the live state, snapshot fidelity at this
// prefix, index agreement and role invariants in the restored state.
func (r *run) prefixChecks(f *craft.ClusterFSM, st *craft.VerifState, cur primary, k int, what, note string) bool {
	if r.c22 {
		r.refI = append(r.refI, r.reportIndexes(st, nil, "", what))
		// the paginated listing (sorted-key cache) must list exactly the manifest
		var want []string
		for pth := range st.Files {
			want = append(want, pth)
		}
		sort.Strings(want)
		if got := r.paginate(f); strings.Join(got, "\n") != strings.Join(want, "\n") {
			r.violate("C22.index.keys_cache.paginated_listing_disagrees", "%s: GetFilesPaginated lists %q, the manifest holds %q", what, got, want)
		}
	}
	s, ok := r.snapshot(f, "reference")
	if !ok {
		return false
	}
	data, ok := r.persist(s, "reference")
	if !ok {
		return false
	}
	r.snap = append(r.snap, data)
	f2 := craft.NewClusterFSM(nopLog)
	if !r.restore(f2, data, fmt.Sprintf("fresh FSM restoring the snapshot taken after %d entries", k)) {
		return false
	}
	simrt.Count("fault.snapshot_restore_at_prefix", 1)
	r.out.Evals++
	st2 := f2.VerifState()
	got := dumpPrimary(st2)
	sec, detail := cur.diff(got)
	r.good = append(r.good, sec == "")
	if r.c22 {
		if sec != "" {
			r.violate("C22.snapshot_fidelity."+sec, "restoring the snapshot taken after %d entries (%s) does not reproduce the state it was taken from — live VERSUS restored: %s", k, what, detail)
		}
		if len(st2.NilMaps) > 0 {
			r.violate("C22.snapshot_fidelity.nil_map_after_restore", "after restoring the snapshot taken after %d entries these maps are nil: %v", k, st2.NilMaps)
		}
		r.reportIndexes(st2, r.refI[k], ".after_restore", fmt.Sprintf("state restored from the snapshot taken after %d entries (%s)", k, what))
	}
	if r.c23 {
		r.checkRoles("restore", Op{}, st, st2, fmt.Sprintf("restored from the snapshot taken %s; %s", what, note))
	}
	return true
}

// restoredSuffixRoles (C23): a node that restarted from a snapshot (or a
// follower that installed one) keeps applying the log. Every command applied
// on such a node is held to the same role rules as on the reference, with
// the cause tagged: an index that Restore rebuilt wrongly only shows when a
// later cascade walks it. Up to three prefixes per run (the plan's snapshot
// positions), so the cost stays linear in practice.
func (r *run) restoredSuffixRoles() {
	p := r.p
	n := len(p.Log)
	var ks []int
	for _, rep := range p.Reps {
		for _, e := range rep.Ev {
			if e.K == "snap" && e.At < n && e.At < len(r.snap) && len(ks) < 3 {
				ks = append(ks, e.At)
			}
		}
	}
	for _, k := range ks {
		if r.stop || !r.good[k] {
			continue
		}
		f := craft.NewClusterFSM(nopLog)
		if !r.restore(f, r.snap[k], "restored-suffix node") {
			return
		}
		st := f.VerifState()
		for j := k; j < n; j++ {
			op := p.Log[j]
			resp, ok := r.apply(f, op, fmt.Sprintf("node restored at prefix %d", k))
			if !ok {
				return
			}
			after := f.VerifState()
			r.out.Evals++
			r.checkRoles(op.kind()+".on_node_restored_from_snapshot", op, st, after,
				fmt.Sprintf("node restored from the snapshot taken after %d entries, after %s -> %s", k, descOp(op), respString(resp)))
			st = after
		}
		simrt.Count("fault.restore_then_apply_suffix", 1)
	}
}

// latePersist (C23): hashicorp/raft calls Snapshot() on the FSM goroutine and
// runs Persist() on another one while Apply continues. For every "snap" event:
// Snapshot() after At entries, Delay more entries applied, then Persist(); the
// persisted image must restore to a state whose role facts are no worse than
// those of the state the snapshot was taken from.
func (r *run) latePersist() {
	p := r.p
	for _, rep := range p.Reps {
		for _, e := range rep.Ev {
			if e.K != "snap" || e.Delay <= 0 || e.At >= len(p.Log) || r.stop {
				continue
			}
			f := craft.NewClusterFSM(nopLog)
			for j := 0; j < e.At; j++ {
				if _, ok := r.apply(f, p.Log[j], "late-persist node"); !ok {
					return
				}
			}
			s, ok := r.snapshot(f, "late-persist node")
			if !ok {
				return
			}
			pre := f.VerifState()
			to := min(len(p.Log), e.At+e.Delay)
			for j := e.At; j < to; j++ {
				if _, ok := r.apply(f, p.Log[j], "late-persist node"); !ok {
					return
				}
			}
			data, ok := r.persist(s, "late-persist node")
			if !ok {
				return
			}
			f2 := craft.NewClusterFSM(nopLog)
			if !r.restore(f2, data, "late-persist restore") {
				return
			}
			simrt.Count("fault.persist_after_later_applies", 1)
			r.out.Evals++
			r.checkRoles("restore_of_snapshot_persisted_after_later_applies", Op{}, pre, f2.VerifState(),
				fmt.Sprintf("snapshot taken after %d entries, persisted after %d more were applied, then restored", e.At, to-e.At))
		}
	}
}

// suffixReplay: for every prefix k, a node that starts from the snapshot taken
// after k entries and applies the rest of the log must end in the reference's
// final state.
func (r *run) suffixReplay() {
	p := r.p
	n := len(p.Log)
	final := r.refP[n]
	for k := 0; k < n; k++ {
		if !r.good[k] {
			continue // already reported as a fidelity violation at this prefix
		}
		f := craft.NewClusterFSM(nopLog)
		if !r.restore(f, r.snap[k], "suffix replay") {
			return
		}
		for j := k; j < n; j++ {
			if _, ok := r.apply(f, p.Log[j], fmt.Sprintf("node restored at prefix %d", k)); !ok {
				return
			}
		}
		r.out.Evals++
		st := f.VerifState()
		got := dumpPrimary(st)
		if sec, detail := final.diff(got); sec != "" {
			r.violate("C22.diverge.snapshot_then_suffix."+sec, "a node that restores the snapshot taken after %d entries and applies entries %d..%d ends in a different state than a node that applied the whole log — reference VERSUS restored node: %s", k, k+1, n, detail)
			return
		}
		r.reportIndexes(st, r.refI[n], ".on_restored_node", fmt.Sprintf("node restored at prefix %d, then applied the suffix", k))
	}
}

// replica runs one follower with its own lag, snapshots (persisted late),
// crash/restarts from its last persisted snapshot and snapshot installs.
func (r *run) replica(ri int) {
	p := r.p
	n := len(p.Log)
	who := fmt.Sprintf("replica%d", ri+1)
	f := craft.NewClusterFSM(nopLog)
	pos := 0
	hist := "log_replay"
	type pend struct {
		s         hraft.FSMSnapshot
		at, dueAt int
	}
	var pending *pend
	var lastData []byte
	lastAt := -1
	evs := append([]Ev(nil), p.Reps[ri].Ev...)
	sort.SliceStable(evs, func(a, b int) bool { return evs[a].At < evs[b].At })
	done := make([]bool, len(evs))
	compare := func(where string) bool {
		before := len(r.out.Violations)
		st := f.VerifState()
		got := dumpPrimary(st)
		simrt.Event("%s at %d %s h=%x", who, pos, where, got.hash())
		if sec, detail := r.refP[pos].diff(got); sec != "" {
			r.violate("C22.diverge."+hist+"."+sec, "%s (%s) differs from the reference at index position %d (%s) — reference VERSUS %s: %s", who, hist, pos, where, who, detail)
			return false
		}
		circ := ".on_restored_node"
		if hist == "log_replay" {
			circ = ".on_second_log_replay"
		}
		r.reportIndexes(st, r.refI[pos], circ, fmt.Sprintf("%s (%s) at position %d (%s)", who, hist, pos, where))
		return len(r.out.Violations) == before
	}
	for guard := 0; guard < 10*n+50; guard++ {
		if pending != nil && pos >= pending.dueAt {
			data, ok := r.persist(pending.s, who)
			if !ok {
				return
			}
			if pending.dueAt > pending.at {
				simrt.Count("fault.persist_after_later_applies", 1)
			}
			lastData, lastAt = data, pending.at
			pending = nil
		}
		fired := false
		for ei, e := range evs {
			if done[ei] || e.At != pos {
				continue
			}
			done[ei] = true
			fired = true
			switch e.K {
			case "snap":
				s, ok := r.snapshot(f, who)
				if !ok {
					return
				}
				pending = &pend{s: s, at: pos, dueAt: pos + e.Delay}
				if e.Delay == 0 {
					data, ok := r.persist(s, who)
					if !ok {
						return
					}
					lastData, lastAt, pending = data, pos, nil
				}
			case "crash":
				// process death: the in-memory FSM and an unfinished Persist are gone
				pending = nil
				f = craft.NewClusterFSM(nopLog)
				pos = 0
				if lastAt >= 0 && !r.good[lastAt] {
					return // this snapshot's infidelity is already reported; everything after it would only repeat that
				}
				if lastAt >= 0 {
					if !r.restore(f, lastData, who) {
						return
					}
					pos = lastAt
					hist = "crash_restored"
				}
				simrt.Count("fault.crash_restart", 1)
				if !compare("after restart") {
					return
				}
			case "install":
				to := e.To
				if to > n {
					to = n
				}
				if to < pos {
					continue
				}
				if !r.good[to] {
					continue // fidelity violation already reported for that snapshot
				}
				if !r.restore(f, r.snap[to], who) {
					return
				}
				pos = to
				pending = nil
				hist = "snapshot_installed"
				simrt.Count("fault.snapshot_install", 1)
				if !compare("after snapshot install over a non-empty state") {
					return
				}
			}
			break // positions may have changed; rescan
		}
		if fired {
			continue
		}
		if pos >= n {
			if pending != nil {
				pending.dueAt = pos
				continue
			}
			return
		}
		if _, ok := r.apply(f, p.Log[pos], who); !ok {
			return
		}
		pos++
		if !compare("after " + p.Log[pos-1].kind()) {
			return
		}
	}
	fail("replica loop did not terminate")
}
