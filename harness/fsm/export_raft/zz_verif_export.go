//go:build verif

package raft

// Read-only accessor for the C22/C23 harness (overlay-only file): a deep copy
// of every primary map and every lookup index of the ClusterFSM. Nothing here
// interprets the state; canonicalisation and judging happen in the harness.

type VerifState struct {
	Nodes             map[string]*NodeInfo
	PrimaryWriterID   string
	ActiveCompactorID string

	Files     map[string]*FileEntry
	FilesByDB map[string][]string
	KeysCache []string // nil = invalidated

	Tokens         map[int64]*TokenEntry
	TokensByPrefix map[string][]int64
	TokensByName   map[string]int64

	Orgs       map[int64]*OrganizationEntry
	OrgsByName map[string]int64

	Teams      map[int64]*TeamEntry
	TeamsByOrg map[int64]map[string]int64

	Roles       map[int64]*RoleEntry
	RolesByTeam map[int64][]int64

	MPerms       map[int64]*MeasurementPermissionEntry
	MPermsByRole map[int64][]int64

	Memberships        map[int64]*TokenMembershipEntry
	MembershipsByPair  map[int64]map[int64]int64
	MembershipsByToken map[int64][]int64
	MembershipsByTeam  map[int64][]int64

	// NilMaps lists primary maps or indexes that are nil (a later write would panic).
	NilMaps []string
}

func verifCopyMap[K comparable, V any](m map[K]*V) map[K]*V {
	out := make(map[K]*V, len(m))
	for k, v := range m {
		if v == nil {
			out[k] = nil
			continue
		}
		c := *v
		out[k] = &c
	}
	return out
}

func verifSet[K comparable, E comparable](m map[K]map[E]struct{}) map[K][]E {
	out := make(map[K][]E, len(m))
	for k, s := range m {
		l := make([]E, 0, len(s))
		for e := range s {
			l = append(l, e)
		}
		out[k] = l
	}
	return out
}

// VerifState returns the deep copy described above.
func (f *ClusterFSM) VerifState() *VerifState {
	f.mu.RLock()
	defer f.mu.RUnlock()
	s := &VerifState{
		Nodes:              verifCopyMap(f.nodes),
		PrimaryWriterID:    f.primaryWriterID,
		ActiveCompactorID:  f.activeCompactorID,
		Files:              verifCopyMap(f.files),
		FilesByDB:          verifSet(f.filesByDB),
		Tokens:             verifCopyMap(f.tokens),
		TokensByPrefix:     map[string][]int64{},
		TokensByName:       map[string]int64{},
		Orgs:               verifCopyMap(f.organizations),
		OrgsByName:         map[string]int64{},
		Teams:              verifCopyMap(f.teams),
		TeamsByOrg:         map[int64]map[string]int64{},
		Roles:              verifCopyMap(f.roles),
		RolesByTeam:        verifSet(f.rolesByTeam),
		MPerms:             verifCopyMap(f.measurementPermissions),
		MPermsByRole:       verifSet(f.measurementPermsByRole),
		Memberships:        verifCopyMap(f.tokenMemberships),
		MembershipsByPair:  map[int64]map[int64]int64{},
		MembershipsByToken: verifSet(f.tokenMembershipsByToken),
		MembershipsByTeam:  verifSet(f.tokenMembershipsByTeam),
	}
	if f.keysCache != nil {
		s.KeysCache = append([]string{}, f.keysCache...)
	}
	for k, v := range f.tokensByPrefix {
		s.TokensByPrefix[k] = append([]int64{}, v...)
	}
	for k, v := range f.tokensByName {
		s.TokensByName[k] = v
	}
	for k, v := range f.organizationsByName {
		s.OrgsByName[k] = v
	}
	for k, inner := range f.teamsByOrg {
		c := make(map[string]int64, len(inner))
		for n, id := range inner {
			c[n] = id
		}
		s.TeamsByOrg[k] = c
	}
	for k, inner := range f.tokenMembershipsByPair {
		c := make(map[int64]int64, len(inner))
		for n, id := range inner {
			c[n] = id
		}
		s.MembershipsByPair[k] = c
	}
	nilCheck := func(name string, isNil bool) {
		if isNil {
			s.NilMaps = append(s.NilMaps, name)
		}
	}
	nilCheck("nodes", f.nodes == nil)
	nilCheck("files", f.files == nil)
	nilCheck("filesByDB", f.filesByDB == nil)
	nilCheck("tokens", f.tokens == nil)
	nilCheck("tokensByPrefix", f.tokensByPrefix == nil)
	nilCheck("tokensByName", f.tokensByName == nil)
	nilCheck("organizations", f.organizations == nil)
	nilCheck("teams", f.teams == nil)
	nilCheck("roles", f.roles == nil)
	nilCheck("measurementPermissions", f.measurementPermissions == nil)
	nilCheck("tokenMemberships", f.tokenMemberships == nil)
	return s
}
