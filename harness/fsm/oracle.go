//go:build verif

package main

import (
	"encoding/json"
	"fmt"
	"sort"

	craft "github.com/basekick-labs/arc/internal/cluster/raft"
)

// ---------------------------------------------------------------------------
// C22: lookup indexes agree with the primary records
// ---------------------------------------------------------------------------

func sortedI64(l []int64) []int64 {
	o := append([]int64(nil), l...)
	sort.Slice(o, func(i, j int) bool { return o[i] < o[j] })
	return o
}

func countI64(l []int64, x int64) int {
	n := 0
	for _, v := range l {
		if v == x {
			n++
		}
	}
	return n
}

func hasStr(l []string, x string) bool {
	for _, v := range l {
		if v == x {
			return true
		}
	}
	return false
}

// indexFindings derives every lookup index from the primary records and
// compares it with what the FSM holds. "missing" = a primary record that the
// index does not lead to; "stale" = an index entry without a matching primary
// record. Empty inner containers are equivalent to absent ones.
//
// The findings are returned keyed by "<index>.<kind>"; the caller decides the
// circumstance suffix and suppresses findings that merely repeat, on a copy of
// the same state, what was already reported for the state it was copied from.
func indexFindings(st *craft.VerifState) map[string]string {
	out := map[string]string{}
	v := func(index, kind, format string, a ...any) {
		k := index + "." + kind
		if _, dup := out[k]; !dup {
			out[k] = fmt.Sprintf(format, a...)
		}
	}
	// files by database
	for _, pth := range sortedKeys(st.Files) {
		e := st.Files[pth]
		if e == nil {
			v("files", "nil_entry", "manifest holds a nil entry for %q", pth)
			continue
		}
		if !hasStr(st.FilesByDB[e.Database], pth) {
			v("files_by_db", "missing", "file %q has database %q but filesByDB[%q] = %q", pth, e.Database, e.Database, st.FilesByDB[e.Database])
		}
	}
	for _, db := range sortedKeys(st.FilesByDB) {
		for _, pth := range st.FilesByDB[db] {
			if e, ok := st.Files[pth]; !ok || e == nil || e.Database != db {
				v("files_by_db", "stale", "filesByDB[%q] lists %q but the manifest entry is %s", db, pth, js(st.Files[pth]))
			}
		}
	}
	if st.KeysCache != nil {
		want := sortedKeys(st.Files)
		if js(want) != js(st.KeysCache) && !(len(want) == 0 && len(st.KeysCache) == 0) {
			v("keys_cache", "stale", "sorted-key cache %q, manifest keys %q", st.KeysCache, want)
		}
	}
	// tokens by prefix / by name
	for _, id := range sortedKeys(st.Tokens) {
		t := st.Tokens[id]
		if t == nil {
			v("tokens", "nil_entry", "token map holds nil for id %d", id)
			continue
		}
		switch c := countI64(st.TokensByPrefix[t.TokenPrefix], id); {
		case c == 0:
			v("tokens_by_prefix", "missing", "token %d has prefix %q but tokensByPrefix[%q] = %v", id, t.TokenPrefix, t.TokenPrefix, st.TokensByPrefix[t.TokenPrefix])
		case c > 1:
			v("tokens_by_prefix", "duplicate", "token %d listed %d times under prefix %q", id, c, t.TokenPrefix)
		}
		if got, ok := st.TokensByName[t.Name]; !ok || got != id {
			v("tokens_by_name", "missing", "token %d has name %q but tokensByName[%q] = %d (present=%v)", id, t.Name, t.Name, got, ok)
		}
	}
	for _, pfx := range sortedKeys(st.TokensByPrefix) {
		for _, id := range st.TokensByPrefix[pfx] {
			if t, ok := st.Tokens[id]; !ok || t == nil || t.TokenPrefix != pfx {
				v("tokens_by_prefix", "stale", "tokensByPrefix[%q] lists %d but the token is %s", pfx, id, js(st.Tokens[id]))
			}
		}
	}
	for _, name := range sortedKeys(st.TokensByName) {
		id := st.TokensByName[name]
		if t, ok := st.Tokens[id]; !ok || t == nil || t.Name != name {
			v("tokens_by_name", "stale", "tokensByName[%q] = %d but the token is %s", name, id, js(st.Tokens[id]))
		}
	}
	// organizations by name
	for _, id := range sortedKeys(st.Orgs) {
		o := st.Orgs[id]
		if o == nil {
			v("organizations", "nil_entry", "nil organization %d", id)
			continue
		}
		if got, ok := st.OrgsByName[o.Name]; !ok || got != id {
			v("organizations_by_name", "missing", "organization %d has name %q but organizationsByName[%q] = %d (present=%v)", id, o.Name, o.Name, got, ok)
		}
	}
	for _, name := range sortedKeys(st.OrgsByName) {
		id := st.OrgsByName[name]
		if o, ok := st.Orgs[id]; !ok || o == nil || o.Name != name {
			v("organizations_by_name", "stale", "organizationsByName[%q] = %d but the organization is %s", name, id, js(st.Orgs[id]))
		}
	}
	// teams by organization and name
	for _, id := range sortedKeys(st.Teams) {
		t := st.Teams[id]
		if t == nil {
			v("teams", "nil_entry", "nil team %d", id)
			continue
		}
		if got, ok := st.TeamsByOrg[t.OrganizationID][t.Name]; !ok || got != id {
			v("teams_by_org", "missing", "team %d is (org %d, name %q) but teamsByOrg[%d][%q] = %d (present=%v)", id, t.OrganizationID, t.Name, t.OrganizationID, t.Name, got, ok)
		}
	}
	for _, org := range sortedKeys(st.TeamsByOrg) {
		for _, name := range sortedKeys(st.TeamsByOrg[org]) {
			id := st.TeamsByOrg[org][name]
			if t, ok := st.Teams[id]; !ok || t == nil || t.Name != name || t.OrganizationID != org {
				v("teams_by_org", "stale", "teamsByOrg[%d][%q] = %d but the team is %s", org, name, id, js(st.Teams[id]))
			}
		}
	}
	// set-valued traversal indexes
	setIndex := func(index string, idx map[int64][]int64, prim []int64, parentOf func(id int64) (int64, bool)) {
		for _, id := range prim {
			par, ok := parentOf(id)
			if !ok {
				continue
			}
			if countI64(idx[par], id) != 1 {
				v(index, "missing", "record %d belongs to parent %d but %s[%d] = %v", id, par, index, par, sortedI64(idx[par]))
			}
		}
		for _, par := range sortedKeys(idx) {
			for _, id := range sortedI64(idx[par]) {
				if p2, ok := parentOf(id); !ok || p2 != par {
					v(index, "stale", "%s[%d] lists %d but that record has parent %d (exists=%v)", index, par, id, p2, ok)
				}
			}
		}
	}
	setIndex("roles_by_team", st.RolesByTeam, sortedKeys(st.Roles), func(id int64) (int64, bool) {
		if e := st.Roles[id]; e != nil {
			return e.TeamID, true
		}
		return 0, false
	})
	setIndex("measurement_perms_by_role", st.MPermsByRole, sortedKeys(st.MPerms), func(id int64) (int64, bool) {
		if e := st.MPerms[id]; e != nil {
			return e.RoleID, true
		}
		return 0, false
	})
	setIndex("token_memberships_by_token", st.MembershipsByToken, sortedKeys(st.Memberships), func(id int64) (int64, bool) {
		if e := st.Memberships[id]; e != nil {
			return e.TokenID, true
		}
		return 0, false
	})
	setIndex("token_memberships_by_team", st.MembershipsByTeam, sortedKeys(st.Memberships), func(id int64) (int64, bool) {
		if e := st.Memberships[id]; e != nil {
			return e.TeamID, true
		}
		return 0, false
	})
	for _, id := range sortedKeys(st.Memberships) {
		m := st.Memberships[id]
		if m == nil {
			v("token_memberships", "nil_entry", "nil membership %d", id)
			continue
		}
		if got, ok := st.MembershipsByPair[m.TokenID][m.TeamID]; !ok || got != id {
			v("token_memberships_by_pair", "missing", "membership %d is (token %d, team %d) but byPair = %d (present=%v)", id, m.TokenID, m.TeamID, got, ok)
		}
	}
	for _, tok := range sortedKeys(st.MembershipsByPair) {
		for _, team := range sortedKeys(st.MembershipsByPair[tok]) {
			id := st.MembershipsByPair[tok][team]
			if m, ok := st.Memberships[id]; !ok || m == nil || m.TokenID != tok || m.TeamID != team {
				v("token_memberships_by_pair", "stale", "byPair[%d][%d] = %d but the membership is %s", tok, team, id, js(st.Memberships[id]))
			}
		}
	}
	return out
}

// reportIndexes reports the findings of st that are not in `known` (findings of
// the state this one was derived from, nil for none) under the circumstance circ.
func (r *run) reportIndexes(st *craft.VerifState, known map[string]string, circ, what string) map[string]string {
	fs := indexFindings(st)
	for _, k := range sortedKeys(fs) {
		if _, dup := known[k]; dup {
			continue
		}
		r.violate("C22.index."+k+circ, "%s: %s", what, fs[k])
	}
	return fs
}

func sortedKeys[K int64 | string, V any](m map[K]V) []K {
	ks := make([]K, 0, len(m))
	for k := range m {
		ks = append(ks, k)
	}
	sort.Slice(ks, func(i, j int) bool { return ks[i] < ks[j] })
	return ks
}

// ---------------------------------------------------------------------------
// C22: batched file operations are all-or-nothing
// ---------------------------------------------------------------------------

// checkBatch: a batch that is answered with an error must leave the state
// untouched; a batch that is answered with success must have applied every
// operation in order (reference model of the manifest: register/update put
// the entry with LSN = log index, delete removes the path).
func (r *run) checkBatch(op Op, resp any, pre, post *craft.VerifState, prePrim, postPrim primary, what string) {
	if op.Raw != "" || craft.CommandType(op.T) != craft.CommandBatchFileOps {
		return
	}
	if _, isErr := resp.(error); isErr {
		if sec, detail := prePrim.diff(postPrim); sec != "" {
			r.violate("C22.batch.rejected_batch_changed_state."+sec, "%s: the batch was refused but the state changed — before VERSUS after: %s", what, detail)
		}
		return
	}
	if resp != nil {
		fail("batch returned a non-error value %v", resp)
	}
	var bp craft.BatchFileOpsPayload
	if err := json.Unmarshal(op.payload(), &bp); err != nil {
		r.violate("C22.batch.undecodable_batch_accepted", "%s: batch payload does not decode (%v) but was answered with success", what, err)
		return
	}
	model := map[string]string{}
	for pth, e := range pre.Files {
		model[pth] = js(e)
	}
	for i, b := range bp.Ops {
		switch b.Type {
		case craft.CommandRegisterFile, craft.CommandUpdateFile:
			var fp craft.RegisterFilePayload // same shape as UpdateFilePayload
			if err := json.Unmarshal(b.Payload, &fp); err != nil {
				r.violate("C22.batch.accepted_with_undecodable_op", "%s: op[%d] does not decode (%v) but the batch was answered with success", what, i, err)
				return
			}
			fe := fp.File
			fe.LSN = op.Idx
			model[fe.Path] = js(&fe)
		case craft.CommandDeleteFile:
			var dp craft.DeleteFilePayload
			if err := json.Unmarshal(b.Payload, &dp); err != nil {
				r.violate("C22.batch.accepted_with_undecodable_op", "%s: op[%d] does not decode (%v) but the batch was answered with success", what, i, err)
				return
			}
			delete(model, dp.Path)
		default:
			r.violate("C22.batch.accepted_with_non_file_op", "%s: op[%d] has type %d, which is not a file operation, but the batch was answered with success", what, i, b.Type)
			return
		}
	}
	got := map[string]string{}
	for pth, e := range post.Files {
		got[pth] = js(e)
	}
	for _, pth := range sortedKeys(model) {
		if got[pth] != model[pth] {
			r.violate("C22.batch.accepted_batch_partially_applied", "%s: after the accepted batch %q is %s, applying all operations in order gives %s", what, pth, got[pth], model[pth])
			return
		}
	}
	for _, pth := range sortedKeys(got) {
		if _, ok := model[pth]; !ok {
			r.violate("C22.batch.accepted_batch_partially_applied", "%s: after the accepted batch %q is still in the manifest although the batch deletes it last", what, pth)
			return
		}
	}
	for i := range prePrim {
		if sectionNames[i] != "files" && prePrim[i] != postPrim[i] {
			r.violate("C22.batch.batch_changed_unrelated_state."+sectionNames[i], "%s: %s changed", what, sectionNames[i])
		}
	}
}

// ---------------------------------------------------------------------------
// C23: role assignments
// ---------------------------------------------------------------------------

type roleFacts struct {
	marked       []string // nodes with WriterState == "primary"
	namedMissing bool     // primaryWriterID names a node that is not registered
	namedNotMark bool     // primaryWriterID names a registered node that is not marked primary
	orphans      map[string]string
}

func facts(st *craft.VerifState) roleFacts {
	var f roleFacts
	f.orphans = map[string]string{}
	for _, id := range sortedKeys(st.Nodes) {
		if n := st.Nodes[id]; n != nil && n.WriterState == "primary" {
			f.marked = append(f.marked, id)
		}
	}
	if st.PrimaryWriterID != "" {
		n, ok := st.Nodes[st.PrimaryWriterID]
		if !ok || n == nil {
			f.namedMissing = true
		} else if n.WriterState != "primary" {
			f.namedNotMark = true
		}
	}
	for _, id := range sortedKeys(st.Teams) {
		if t := st.Teams[id]; t != nil {
			if _, ok := st.Orgs[t.OrganizationID]; !ok {
				f.orphans["team_without_organization"] = fmt.Sprintf("team %d refers to organization %d", id, t.OrganizationID)
			}
		}
	}
	for _, id := range sortedKeys(st.Roles) {
		if e := st.Roles[id]; e != nil {
			if _, ok := st.Teams[e.TeamID]; !ok {
				f.orphans["role_without_team"] = fmt.Sprintf("role %d refers to team %d", id, e.TeamID)
			}
		}
	}
	for _, id := range sortedKeys(st.MPerms) {
		if e := st.MPerms[id]; e != nil {
			if _, ok := st.Roles[e.RoleID]; !ok {
				f.orphans["measurement_permission_without_role"] = fmt.Sprintf("measurement permission %d refers to role %d", id, e.RoleID)
			}
		}
	}
	for _, id := range sortedKeys(st.Memberships) {
		if e := st.Memberships[id]; e != nil {
			if _, ok := st.Teams[e.TeamID]; !ok {
				f.orphans["membership_without_team"] = fmt.Sprintf("membership %d refers to team %d", id, e.TeamID)
			}
			if _, ok := st.Tokens[e.TokenID]; !ok {
				f.orphans["membership_without_token"] = fmt.Sprintf("membership %d refers to token %d", id, e.TokenID)
			}
		}
	}
	return f
}

// checkRoles judges one transition pre -> post caused by `cause` (a command kind
// or "restore"). Each invariant is reported at the transition that breaks it,
// so the rule id names the command responsible.
func (r *run) checkRoles(cause string, op Op, pre, post *craft.VerifState, what string) {
	a, b := facts(pre), facts(post)
	if len(b.marked) > 1 && len(a.marked) <= 1 {
		// circumstance: is the node that was named primary before still marked (it was not
		// demoted), or is the second marked node one that primaryWriterID never named?
		circ := ".node_never_named_primary_is_marked"
		if pre.PrimaryWriterID != "" && pre.PrimaryWriterID != post.PrimaryWriterID && hasStr(b.marked, pre.PrimaryWriterID) {
			circ = ".previous_primary_still_marked"
		}
		r.violate("C23.primary.multiple_nodes_marked_primary."+cause+circ, "%s: nodes %q are all marked primary writer (primaryWriterID before=%q, now=%q)", what, b.marked, pre.PrimaryWriterID, post.PrimaryWriterID)
	}
	if b.namedMissing && !a.namedMissing {
		r.violate("C23.primary.named_node_not_registered."+cause, "%s: primaryWriterID=%q but no such node is registered (nodes: %v)", what, post.PrimaryWriterID, sortedKeys(post.Nodes))
	}
	if b.namedNotMark && !a.namedNotMark {
		r.violate("C23.primary.named_node_not_marked_primary."+cause, "%s: primaryWriterID=%q but that node's writer_state is %q", what, post.PrimaryWriterID, post.Nodes[post.PrimaryWriterID].WriterState)
	}
	for _, k := range sortedKeys(b.orphans) {
		if _, before := a.orphans[k]; !before {
			r.violate("C23.rbac."+k+"."+cause, "%s: %s, which does not exist", what, b.orphans[k])
		}
	}
	// re-registration of an existing node must keep the recorded writer role
	if op.Raw == "" && op.Bad == "" && craft.CommandType(op.T) == craft.CommandAddNode && cause == "add_node" {
		var p craft.AddNodePayload
		if json.Unmarshal(op.P, &p) == nil {
			old, existed := pre.Nodes[p.Node.ID]
			now, still := post.Nodes[p.Node.ID]
			if existed && old != nil && still && now != nil && old.WriterState != now.WriterState {
				r.violate("C23.reregister.add_node_changes_recorded_writer_state", "%s: node %q was recorded with writer_state %q, after re-registration it is %q (primaryWriterID=%q)",
					what, p.Node.ID, old.WriterState, now.WriterState, post.PrimaryWriterID)
			}
		}
	}
}
