//go:build verif

package main

import (
	"encoding/json"
	"fmt"
	"strings"
	"time"

	craft "github.com/basekick-labs/arc/internal/cluster/raft"
	"github.com/basekick-labs/arc/internal/simrt"
)

// Op is one committed log entry as the FSM sees it. The plan *is* the log: the
// payloads are built with the raft package's own payload types and the
// envelope with craft.Command, exactly like raft.Node.Apply does.
type Op struct {
	Idx uint64          `json:"idx"`           // raft log index (strictly increasing, may have gaps)
	T   uint8           `json:"t"`             // craft.CommandType
	P   json.RawMessage `json:"p,omitempty"`   // payload (valid JSON)
	Bad string          `json:"bad,omitempty"` // payload bytes when they are not valid JSON
	Raw string          `json:"raw,omitempty"` // whole log.Data when the envelope itself is malformed
}

// Ev is one thing that happens to a replica when it has applied At entries.
type Ev struct {
	At    int    `json:"at"`
	K     string `json:"k"`               // snap | crash | install
	Delay int    `json:"delay,omitempty"` // snap: Persist runs after Delay further applies (raft persists concurrently with Apply)
	To    int    `json:"to,omitempty"`    // install: position of the leader snapshot that is installed (>= At)
}

type Rep struct {
	Ev []Ev `json:"ev"`
}

type Plan struct {
	Prop string `json:"prop"`
	Log  []Op   `json:"log"`
	Reps []Rep  `json:"reps"`
}

func (o Op) payload() []byte {
	if o.Bad != "" {
		return []byte(o.Bad)
	}
	return []byte(o.P)
}

func (o Op) data() []byte {
	if o.Raw != "" {
		return []byte(o.Raw)
	}
	b, err := json.Marshal(craft.Command{Type: craft.CommandType(o.T), Payload: o.payload()})
	if err != nil {
		panic(err)
	}
	return b
}

var kindNames = map[craft.CommandType]string{
	craft.CommandAddNode: "add_node", craft.CommandRemoveNode: "remove_node", craft.CommandUpdateNode: "update_node",
	craft.CommandUpdateNodeState: "update_node_state", craft.CommandPromoteWriter: "promote_writer", craft.CommandDemoteWriter: "demote_writer",
	craft.CommandRegisterFile: "register_file", craft.CommandDeleteFile: "delete_file", craft.CommandAssignCompactor: "assign_compactor",
	craft.CommandBatchFileOps: "batch_file_ops", craft.CommandUpdateFile: "update_file",
	craft.CommandCreateToken: "create_token", craft.CommandUpdateToken: "update_token", craft.CommandRevokeToken: "revoke_token",
	craft.CommandDeleteToken: "delete_token", craft.CommandRotateToken: "rotate_token",
	craft.CommandCreateOrganization: "create_organization", craft.CommandUpdateOrganization: "update_organization", craft.CommandDeleteOrganization: "delete_organization",
	craft.CommandCreateTeam: "create_team", craft.CommandUpdateTeam: "update_team", craft.CommandDeleteTeam: "delete_team",
	craft.CommandCreateRole: "create_role", craft.CommandUpdateRole: "update_role", craft.CommandDeleteRole: "delete_role",
	craft.CommandCreateMeasurementPermission: "create_measurement_permission", craft.CommandDeleteMeasurementPermission: "delete_measurement_permission",
	craft.CommandAddTokenToTeam: "add_token_to_team", craft.CommandRemoveTokenFromTeam: "remove_token_from_team",
}

func (o Op) kind() string {
	if o.Raw != "" {
		return "malformed_envelope"
	}
	if n, ok := kindNames[craft.CommandType(o.T)]; ok {
		return n
	}
	return "unknown_type"
}

// ---------------------------------------------------------------------------
// generator
// ---------------------------------------------------------------------------

type gen struct {
	r                                *simrt.Rand
	idx                              uint64
	n                                int // ops generated
	toks, orgs, teams, roles, mperms []int64
	log                              []Op
	// membership focus (swarm): this run is mostly about tokens joining and
	// leaving teams and teams/organisations being deleted under them
	memberFocus bool
	// tree focus: organisations > teams > roles > measurement permissions are
	// built up and then torn down by cascading deletes
	treeFocus bool
}

func mustJ(v any) json.RawMessage {
	b, err := json.Marshal(v)
	if err != nil {
		panic(err)
	}
	return b
}

func (g *gen) pick(ss ...string) string { return ss[g.r.Intn(len(ss))] }

func (g *gen) nextIdx() uint64 {
	if g.idx == 0 {
		g.idx = uint64(1 + g.r.Intn(5))
	} else if g.r.Chance(85) {
		g.idx++
	} else {
		g.idx += uint64(2 + g.r.Intn(3)) // raft-internal entries (no-ops, configuration) never reach the FSM
	}
	return g.idx
}

func (g *gen) emit(t craft.CommandType, payload any) uint64 {
	i := g.nextIdx()
	g.log = append(g.log, Op{Idx: i, T: uint8(t), P: mustJ(payload)})
	return i
}

// id picks a target id: mostly one that a previous create was assigned.
func (g *gen) id(own []int64, others ...[]int64) int64 {
	c := g.r.Intn(100)
	if c < 78 && len(own) > 0 {
		return own[g.r.Intn(len(own))]
	}
	if c < 88 {
		var all []int64
		for _, o := range others {
			all = append(all, o...)
		}
		if len(all) > 0 {
			return all[g.r.Intn(len(all))]
		}
	}
	return []int64{0, -1, 1, 2, 9999, int64(g.idx)}[g.r.Intn(6)]
}

var baseTime = time.Date(2026, 3, 1, 10, 0, 0, 0, time.UTC)

var nodeRoles = map[string]string{"n1": "writer", "n2": "writer", "n3": "reader", "n4": "compactor", "n9": "writer", "": "writer"}

func (g *gen) nodeInfo(id string) craft.NodeInfo {
	role := nodeRoles[id]
	if g.r.Chance(6) {
		role = g.pick("writer", "reader", "compactor", "bogus")
	}
	k := 0
	if len(id) == 2 {
		k = int(id[1] - '0')
	}
	return craft.NodeInfo{ID: id, Name: "node-" + id, Role: role, ClusterName: "c1", Address: fmt.Sprintf("10.0.0.%d:9100", k),
		APIAddress: fmt.Sprintf("10.0.0.%d:8000", k), State: "healthy", Version: g.pick("26.05.1", "26.06.1"), CoreCount: 2 + 2*g.r.Intn(3)}
}

func (g *gen) nodeID() string {
	c := g.r.Intn(100)
	switch {
	case c < 30:
		return "n1"
	case c < 60:
		return "n2"
	case c < 75:
		return "n3"
	case c < 88:
		return "n4"
	case c < 97:
		return "n9" // never registered by a join in this universe
	}
	return ""
}

func (g *gen) nodeOp() {
	switch c := g.r.Intn(100); {
	case c < 30: // join / re-join
		id := g.pick("n1", "n1", "n2", "n2", "n3", "n4")
		if g.r.Chance(3) {
			id = ""
		}
		ni := g.nodeInfo(id)
		if g.r.Chance(20) {
			ni.WriterState = g.pick("primary", "standby")
		}
		g.emit(craft.CommandAddNode, craft.AddNodePayload{Node: ni})
	case c < 40:
		g.emit(craft.CommandRemoveNode, craft.RemoveNodePayload{NodeID: g.nodeID()})
	case c < 48:
		ni := g.nodeInfo(g.pick("n1", "n2", "n3", "n4", "n9"))
		ni.WriterState = g.pick("", "", "primary", "standby")
		ni.State = g.pick("healthy", "unhealthy")
		g.emit(craft.CommandUpdateNode, craft.UpdateNodePayload{Node: ni})
	case c < 58:
		g.emit(craft.CommandUpdateNodeState, craft.UpdateNodeStatePayload{NodeID: g.nodeID(), NewState: g.pick("healthy", "unhealthy", "dead", "")})
	case c < 82:
		id := g.nodeID()
		if g.r.Chance(50) {
			id = g.pick("n1", "n2")
		}
		g.emit(craft.CommandPromoteWriter, craft.PromoteWriterPayload{NodeID: id, OldPrimaryID: g.pick("", "n1", "n2", "n9")})
	case c < 90:
		g.emit(craft.CommandDemoteWriter, craft.DemoteWriterPayload{NodeID: g.nodeID()})
	default:
		g.emit(craft.CommandAssignCompactor, craft.AssignCompactorPayload{NodeID: g.nodeID(), OldCompactorID: g.pick("", "n4", "n1")})
	}
}

var filePaths = []string{
	"db1/cpu/2026/03/01/10/a.parquet", "db1/cpu/2026/03/01/10/b.parquet", "db1/mem/2026/03/01/11/c.parquet",
	"db2/cpu/2026/03/01/10/d.parquet", "db2/cpu/2026/03/01/11/e.parquet", "db2/disk/2026/03/01/11/f.parquet",
}
var badPaths = []string{"", "/etc/passwd", "s3://bkt/db1/x.parquet", "db1/../../etc/x.parquet", "C:\\x\\y.parquet", "db1/a\x00b.parquet", "file:/etc/passwd", "db1\\..\\x"}

func (g *gen) fileEntry() craft.FileEntry {
	p := filePaths[g.r.Intn(len(filePaths))]
	if g.r.Chance(10) {
		p = badPaths[g.r.Intn(len(badPaths))]
	}
	parts := strings.SplitN(p, "/", 3)
	db, meas := "db1", "cpu"
	if len(parts) == 3 && parts[0] != "" {
		db, meas = parts[0], parts[1]
	}
	switch c := g.r.Intn(100); {
	case c < 8:
		db = g.pick("db1", "db2") // registered under a different database than before
	case c < 14:
		db = ""
	}
	k := g.r.Intn(1000)
	fe := craft.FileEntry{Path: p, SHA256: fmt.Sprintf("sha-%03d", k), SizeBytes: int64(100 + k), Database: db, Measurement: meas,
		PartitionTime: baseTime.Add(time.Duration(g.r.Intn(3)) * time.Hour), OriginNodeID: g.pick("n1", "n2", "n4"), Tier: g.pick("hot", "cold"),
		CreatedAt: baseTime.Add(time.Duration(k) * time.Second), LSN: uint64(g.r.Intn(3))}
	if g.r.Chance(8) {
		fe.CreatedAt = time.Time{}
	} else if g.r.Chance(10) {
		fe.CreatedAt = fe.CreatedAt.In(time.FixedZone("", 2*3600))
	}
	return fe
}

func (g *gen) delPath() string {
	if g.r.Chance(8) {
		return badPaths[g.r.Intn(len(badPaths))]
	}
	return filePaths[g.r.Intn(len(filePaths))]
}

func (g *gen) fileOp() {
	switch c := g.r.Intn(100); {
	case c < 35:
		g.emit(craft.CommandRegisterFile, craft.RegisterFilePayload{File: g.fileEntry()})
	case c < 50:
		g.emit(craft.CommandDeleteFile, craft.DeleteFilePayload{Path: g.delPath(), Reason: g.pick("retention", "compaction", "")})
	case c < 65:
		g.emit(craft.CommandUpdateFile, craft.UpdateFilePayload{File: g.fileEntry()})
	default:
		n := 1 + g.r.Intn(5)
		var ops []craft.BatchFileOp
		for i := 0; i < n; i++ {
			switch d := g.r.Intn(100); {
			case d < 45:
				ops = append(ops, craft.BatchFileOp{Type: craft.CommandRegisterFile, Payload: mustJ(craft.RegisterFilePayload{File: g.fileEntry()})})
			case d < 75:
				ops = append(ops, craft.BatchFileOp{Type: craft.CommandDeleteFile, Payload: mustJ(craft.DeleteFilePayload{Path: g.delPath(), Reason: "compaction"})})
			case d < 93:
				ops = append(ops, craft.BatchFileOp{Type: craft.CommandUpdateFile, Payload: mustJ(craft.UpdateFilePayload{File: g.fileEntry()})})
			case d < 96:
				ops = append(ops, craft.BatchFileOp{Type: craft.CommandAddNode, Payload: mustJ(craft.AddNodePayload{Node: g.nodeInfo("n3")})})
			default:
				ops = append(ops, craft.BatchFileOp{Type: craft.CommandRegisterFile, Payload: []byte(g.pick(`{"file":`, `[1]`, `"x"`))})
			}
		}
		g.emit(craft.CommandBatchFileOps, craft.BatchFileOpsPayload{Ops: ops})
	}
}

var long257 = strings.Repeat("L", 257)

func (g *gen) perms() string {
	if g.r.Chance(12) {
		return g.pick("root", "read,,write", "READ", "read;write")
	}
	return g.pick("", "read", "read,write", "read, write", "admin", "read,write,delete,admin")
}

func (g *gen) fields(all ...string) []string {
	var out []string
	for _, f := range all {
		if g.r.Chance(45) {
			out = append(out, f)
		}
	}
	if len(out) == 0 {
		out = append(out, all[g.r.Intn(len(all))])
	}
	if g.r.Chance(8) {
		out = append(out, out[0]) // duplicate entry
	}
	if g.r.Chance(4) {
		out = append(out, "bogus")
	}
	return out
}

func (g *gen) tokenOp() {
	c := g.r.Intn(100)
	if g.memberFocus && len(g.toks) < 3 {
		c = g.r.Intn(35) // create
	}
	if len(g.toks) == 0 && c >= 35 && g.r.Chance(70) {
		c = 0
	}
	switch {
	case c < 35:
		k := g.n
		te := craft.TokenEntry{Name: g.pick("t1", "t2", "t3"), Description: g.pick("", "ci token"), Permissions: g.perms(), TokenHash: fmt.Sprintf("hash-%d", k),
			TokenPrefix: g.pick("pa", "pa", "pb"), CreatedAtUnixNano: baseTime.UnixNano() + int64(k), Enabled: g.r.Chance(85)}
		switch d := g.r.Intn(100); {
		case d < 3:
			te.Name = ""
		case d < 6:
			te.Name = long257
		case d < 9:
			te.TokenHash = ""
		case d < 11:
			te.TokenHash = strings.Repeat("h", 513)
		case d < 14:
			te.TokenPrefix = ""
		case d < 17:
			te.CreatedAtUnixNano = 0
		case d < 20:
			te.ID = 7 // proposer-set ids are ignored by apply
			te.ExpiresAtUnixNano = baseTime.UnixNano() + int64(time.Hour)
		}
		i := g.emit(craft.CommandCreateToken, craft.CreateTokenPayload{Token: te})
		g.toks = append(g.toks, int64(i))
	case c < 60:
		p := craft.UpdateTokenPayload{ID: g.id(g.toks, g.orgs, g.teams), Name: g.pick("t1", "t2", "t3", "t4", "", long257), Description: g.pick("", "rotated by ops"),
			Permissions: g.perms(), ExpiresAtUnixNano: []int64{0, baseTime.UnixNano() + int64(48*time.Hour)}[g.r.Intn(2)],
			ChangedFields: g.fields("name", "description", "permissions", "expires_at")}
		g.emit(craft.CommandUpdateToken, p)
	case c < 70:
		g.emit(craft.CommandRevokeToken, craft.RevokeTokenPayload{ID: g.id(g.toks, g.orgs)})
	case c < 84:
		g.emit(craft.CommandDeleteToken, craft.DeleteTokenPayload{ID: g.id(g.toks, g.teams)})
	default:
		g.emit(craft.CommandRotateToken, craft.RotateTokenPayload{ID: g.id(g.toks, g.orgs), NewHash: g.pick("newhash-1", "newhash-2", "", strings.Repeat("h", 513)),
			NewPrefix: g.pick("pa", "pb", "pc", "pc", "")})
	}
}

func (g *gen) rbacOp() {
	c := g.r.Intn(13)
	if g.memberFocus {
		c = []int{0, 3, 3, 5, 5, 2, 11, 11, 11, 11, 11, 12, 12, 12, 6, g.r.Intn(13)}[g.r.Intn(16)]
	}
	if g.treeFocus {
		c = []int{0, 3, 3, 6, 6, 6, 9, 9, 9, 9, 9, 8, 8, 5, 2, 10, g.r.Intn(13)}[g.r.Intn(17)]
	}
	// build hierarchies in short logs: a child create without any known parent usually becomes a parent create
	need := func(l []int64, parentKind int) {
		if len(l) == 0 && g.r.Chance(75) {
			c = parentKind
		}
	}
	switch c {
	case 10:
		need(g.roles, 6)
	}
	switch c {
	case 6, 7, 8:
		need(g.teams, 3)
	case 11, 12:
		need(g.teams, 3)
	}
	switch c {
	case 3, 4, 5:
		need(g.orgs, 0)
	}
	ts := baseTime.UnixNano() + int64(g.n)
	if g.r.Chance(5) {
		ts = 0
	}
	switch c {
	case 0:
		i := g.emit(craft.CommandCreateOrganization, craft.CreateOrganizationPayload{Organization: craft.OrganizationEntry{
			Name: g.pick("o1", "o1", "o2", "o2", "", long257), Description: g.pick("", "org"), CreatedAtUnixNano: ts, Enabled: g.r.Bool()}})
		g.orgs = append(g.orgs, int64(i))
	case 1:
		g.emit(craft.CommandUpdateOrganization, craft.UpdateOrganizationPayload{ID: g.id(g.orgs, g.teams, g.toks), Name: g.pick("o1", "o2", "o3", ""),
			Description: g.pick("", "renamed", strings.Repeat("d", 1025)), Enabled: g.r.Bool(), UpdatedAtUnixNano: []int64{0, ts + 5}[g.r.Intn(2)],
			ChangedFields: g.fields("name", "description", "enabled")})
	case 2:
		g.emit(craft.CommandDeleteOrganization, craft.DeleteOrganizationPayload{ID: g.id(g.orgs, g.teams)})
	case 3:
		i := g.emit(craft.CommandCreateTeam, craft.CreateTeamPayload{Team: craft.TeamEntry{OrganizationID: g.id(g.orgs, g.teams, g.toks),
			Name: g.pick("ta", "ta", "tb", "tb", ""), Description: g.pick("", "team"), CreatedAtUnixNano: ts}})
		g.teams = append(g.teams, int64(i))
	case 4:
		g.emit(craft.CommandUpdateTeam, craft.UpdateTeamPayload{ID: g.id(g.teams, g.orgs), Name: g.pick("ta", "tb", "tc", ""), Description: g.pick("", "x"),
			Enabled: g.r.Bool(), UpdatedAtUnixNano: []int64{0, ts + 7}[g.r.Intn(2)], ChangedFields: g.fields("name", "description", "enabled")})
	case 5:
		g.emit(craft.CommandDeleteTeam, craft.DeleteTeamPayload{ID: g.id(g.teams, g.orgs, g.roles)})
	case 6:
		i := g.emit(craft.CommandCreateRole, craft.CreateRolePayload{Role: craft.RoleEntry{TeamID: g.id(g.teams, g.orgs, g.roles),
			DatabasePattern: g.pick("db1", "db*", "*", ""), Permissions: g.perms(), CreatedAtUnixNano: ts}})
		g.roles = append(g.roles, int64(i))
	case 7:
		g.emit(craft.CommandUpdateRole, craft.UpdateRolePayload{ID: g.id(g.roles, g.teams), DatabasePattern: g.pick("db2", "*", ""), Permissions: g.perms(),
			ChangedFields: g.fields("database_pattern", "permissions")})
	case 8:
		g.emit(craft.CommandDeleteRole, craft.DeleteRolePayload{ID: g.id(g.roles, g.teams, g.mperms)})
	case 9:
		i := g.emit(craft.CommandCreateMeasurementPermission, craft.CreateMeasurementPermissionPayload{MeasurementPermission: craft.MeasurementPermissionEntry{
			RoleID: g.id(g.roles, g.teams, g.mperms), MeasurementPattern: g.pick("cpu", "mem*", "*", ""), Permissions: g.perms(), CreatedAtUnixNano: ts}})
		g.mperms = append(g.mperms, int64(i))
	case 10:
		g.emit(craft.CommandDeleteMeasurementPermission, craft.DeleteMeasurementPermissionPayload{ID: g.id(g.mperms, g.roles)})
	case 11:
		g.emit(craft.CommandAddTokenToTeam, craft.AddTokenToTeamPayload{Membership: craft.TokenMembershipEntry{TokenID: g.id(g.toks, g.teams), TeamID: g.id(g.teams, g.toks, g.orgs), CreatedAtUnixNano: ts}})
	case 12:
		g.emit(craft.CommandRemoveTokenFromTeam, craft.RemoveTokenFromTeamPayload{TokenID: g.id(g.toks, g.teams), TeamID: g.id(g.teams, g.toks)})
	}
}

func (g *gen) garbageOp() {
	i := g.nextIdx()
	valid := []craft.CommandType{craft.CommandAddNode, craft.CommandRegisterFile, craft.CommandBatchFileOps, craft.CommandCreateToken, craft.CommandCreateTeam,
		craft.CommandDeleteOrganization, craft.CommandPromoteWriter, craft.CommandUpdateToken, craft.CommandAddTokenToTeam}
	switch g.r.Intn(6) {
	case 0:
		g.log = append(g.log, Op{Idx: i, T: uint8([]int{0, 30, 99, 200}[g.r.Intn(4)]), P: json.RawMessage(`{}`)})
	case 1:
		g.log = append(g.log, Op{Idx: i, Raw: g.pick(`{`, `null`, `[]`, `{"type":"x"}`, `{"type":1,"payload":"!!"}`, ``+"\x00")})
	case 2:
		g.log = append(g.log, Op{Idx: i, T: uint8(valid[g.r.Intn(len(valid))]), Bad: g.pick(`{"`, `nope`, `{"node":`, `{"ops":[{]}`)})
	case 3:
		g.log = append(g.log, Op{Idx: i, T: uint8(valid[g.r.Intn(len(valid))]), P: json.RawMessage(g.pick(`null`, `{}`, `[]`, `0`, `"s"`))})
	case 4:
		g.log = append(g.log, Op{Idx: i, T: uint8(valid[g.r.Intn(len(valid))]), P: json.RawMessage(g.pick(`{"node":null}`, `{"file":null}`, `{"ops":null}`, `{"ops":[null]}`, `{"token":null}`, `{"team":null}`, `{"id":null}`))})
	default:
		g.log = append(g.log, Op{Idx: i, T: uint8(valid[g.r.Intn(len(valid))]), P: json.RawMessage(g.pick(`{"node":{"id":7}}`, `{"file":{"path":7}}`, `{"id":"x"}`, `{"ops":[{"type":"x"}]}`))})
	}
}

func genPlan(prop string) func(r *simrt.Rand, tier string) any {
	return func(r *simrt.Rand, tier string) any {
		g := &gen{r: r}
		maxOps := 20
		if tier == "thorough" {
			maxOps = 30
		}
		n := 2 + r.Intn(maxOps-1)
		// per-run command mix (swarm): some runs concentrate on one family
		wNode, wFile, wTok, wRBAC, wBad := 15, 28, 22, 30, 5
		if prop == "C23" {
			wNode, wFile, wTok, wRBAC, wBad = 50, 3, 12, 33, 2
		}
		if r.Chance(30) {
			switch r.Intn(4) {
			case 0:
				wNode *= 4
			case 1:
				wFile *= 4
			case 2:
				wTok *= 3
			default:
				wRBAC *= 3
			}
			if r.Chance(50) {
				wBad = 0
			}
		}
		if r.Chance(15) {
			g.memberFocus = true
			wNode, wFile, wTok, wRBAC, wBad = 3, 2, 25, 68, 2
		} else if r.Chance(12) {
			g.treeFocus = true
			wNode, wFile, wTok, wRBAC, wBad = 3, 2, 5, 88, 2
		}
		tot := wNode + wFile + wTok + wRBAC + wBad
		for g.n = 0; g.n < n; g.n++ {
			if len(g.log) > 0 && r.Chance(5) { // duplicate of an earlier command at a new index
				d := g.log[r.Intn(len(g.log))]
				d.Idx = g.nextIdx()
				g.log = append(g.log, d)
				continue
			}
			c := r.Intn(tot)
			switch {
			case c < wNode:
				g.nodeOp()
			case c < wNode+wFile:
				g.fileOp()
			case c < wNode+wFile+wTok:
				g.tokenOp()
			case c < wNode+wFile+wTok+wRBAC:
				g.rbacOp()
			default:
				g.garbageOp()
			}
		}
		p := &Plan{Prop: prop, Log: g.log}
		nrep := 2
		L := len(p.Log)
		if prop == "C23" {
			// C23 judges every reachable state on the reference and every restored
			// state; lagging replicas add nothing, but the snapshot that raft
			// persists on another goroutine while Apply continues does: "snap"
			// events here mean Snapshot() at At, Persist() after Delay more entries.
			nrep = 0
			var rep Rep
			m := r.Intn(3)
			if g.treeFocus || g.memberFocus {
				m = 1 + r.Intn(2)
			}
			for j := 0; j < m && L > 0; j++ {
				at := r.Intn(L)
				if (g.treeFocus || g.memberFocus) && L >= 6 {
					at = L/3 + r.Intn(L/3+1) // build-up before, tear-down after
				}
				rep.Ev = append(rep.Ev, Ev{At: at, K: "snap", Delay: 1 + r.Intn(4)})
			}
			if len(rep.Ev) > 0 {
				p.Reps = append(p.Reps, rep)
			}
		}
		for i := 0; i < nrep; i++ {
			var rep Rep
			ne := r.Intn(5)
			at := 0
			for j := 0; j < ne; j++ {
				at += r.Intn(L/2 + 1)
				if at > L {
					break
				}
				switch c := r.Intn(100); {
				case c < 45:
					rep.Ev = append(rep.Ev, Ev{At: at, K: "snap", Delay: []int{0, 0, 1, 2, 5}[r.Intn(5)]})
				case c < 80:
					rep.Ev = append(rep.Ev, Ev{At: at, K: "crash"})
				default:
					rep.Ev = append(rep.Ev, Ev{At: at, K: "install", To: at + r.Intn(L-at+1)})
				}
			}
			p.Reps = append(p.Reps, rep)
		}
		return p
	}
}

// ---------------------------------------------------------------------------
// shrinking and description
// ---------------------------------------------------------------------------

func clonePlan(p *Plan) *Plan {
	q := &Plan{Prop: p.Prop, Log: append([]Op(nil), p.Log...)}
	for _, r := range p.Reps {
		q.Reps = append(q.Reps, Rep{Ev: append([]Ev(nil), r.Ev...)})
	}
	return q
}

// dropOps removes log[i:j] and moves replica events accordingly.
func dropOps(p *Plan, i, j int) *Plan {
	q := clonePlan(p)
	q.Log = append(append([]Op(nil), p.Log[:i]...), p.Log[j:]...)
	d := j - i
	fix := func(x int) int {
		switch {
		case x >= j:
			return x - d
		case x > i:
			return i
		}
		return x
	}
	for ri := range q.Reps {
		for ei := range q.Reps[ri].Ev {
			q.Reps[ri].Ev[ei].At = fix(q.Reps[ri].Ev[ei].At)
			q.Reps[ri].Ev[ei].To = fix(q.Reps[ri].Ev[ei].To)
		}
	}
	return q
}

func shrinkPlan(planAny any) []any {
	p := planAny.(*Plan)
	var out []any
	// replicas and their events first (most violations do not need them)
	if len(p.Reps) > 0 {
		q := clonePlan(p)
		q.Reps = nil
		out = append(out, q)
		for ri := range p.Reps {
			for ei := range p.Reps[ri].Ev {
				q := clonePlan(p)
				q.Reps[ri].Ev = append(append([]Ev(nil), p.Reps[ri].Ev[:ei]...), p.Reps[ri].Ev[ei+1:]...)
				out = append(out, q)
			}
		}
	}
	n := len(p.Log)
	for chunk := n / 2; chunk >= 2; chunk /= 2 {
		for i := 0; i+chunk <= n; i += chunk {
			out = append(out, dropOps(p, i, i+chunk))
		}
	}
	for i := n - 1; i >= 0; i-- {
		if n > 1 {
			out = append(out, dropOps(p, i, i+1))
		}
	}
	// batch sub-operations
	for i, op := range p.Log {
		if craft.CommandType(op.T) != craft.CommandBatchFileOps || op.Bad != "" || op.Raw != "" {
			continue
		}
		var bp craft.BatchFileOpsPayload
		if json.Unmarshal(op.P, &bp) != nil || len(bp.Ops) < 2 {
			continue
		}
		for k := range bp.Ops {
			q := clonePlan(p)
			nb := craft.BatchFileOpsPayload{Ops: append(append([]craft.BatchFileOp(nil), bp.Ops[:k]...), bp.Ops[k+1:]...)}
			q.Log[i].P = mustJ(nb)
			out = append(out, q)
		}
	}
	return out
}

func descOp(op Op) string {
	pl := string(op.payload())
	if op.Raw != "" {
		pl = op.Raw
	}
	if craft.CommandType(op.T) == craft.CommandBatchFileOps && op.Bad == "" && op.Raw == "" {
		var bp craft.BatchFileOpsPayload
		if json.Unmarshal(op.P, &bp) == nil {
			var s []string
			for _, b := range bp.Ops {
				s = append(s, fmt.Sprintf("%s%s", kindNames[b.Type], string(b.Payload)))
			}
			pl = "[" + strings.Join(s, "; ") + "]"
		}
	}
	if len(pl) > 300 {
		pl = pl[:300] + "…"
	}
	return fmt.Sprintf("#%d %s %s", op.Idx, op.kind(), pl)
}

func descPlan(planAny any) any {
	p := planAny.(*Plan)
	var ops []string
	for _, o := range p.Log {
		ops = append(ops, descOp(o))
	}
	var reps []string
	for i, r := range p.Reps {
		var ev []string
		for _, e := range r.Ev {
			switch e.K {
			case "snap":
				ev = append(ev, fmt.Sprintf("snapshot@%d(persist+%d)", e.At, e.Delay))
			case "crash":
				ev = append(ev, fmt.Sprintf("crash+restart@%d", e.At))
			default:
				ev = append(ev, fmt.Sprintf("install-snapshot@%d->%d", e.At, e.To))
			}
		}
		reps = append(reps, fmt.Sprintf("replica%d: %s", i+1, strings.Join(ev, ", ")))
	}
	return map[string]any{"log": ops, "replicas": reps,
		"always": "snapshot+persist+restore at every prefix, and restore-at-prefix followed by the log suffix for every prefix"}
}
