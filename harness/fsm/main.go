//go:build verif

// Area fsm: properties C22 (replay determinism, snapshot fidelity, batch
// atomicity, index agreement) and C23 (role assignments stay consistent) of
// the cluster state machine. The real ClusterFSM Apply / Snapshot / Persist /
// Restore are driven directly with raft.Log values built with the raft
// package's own command encoding; consensus is replaced by a single committed
// log (the plan).
package main

import (
	"github.com/rs/zerolog"

	"github.com/basekick-labs/arc/internal/verifsim/simkit"
)

func main() {
	zerolog.SetGlobalLevel(zerolog.Disabled)
	simkit.Main(
		&simkit.Check{ID: "C22", Gen: genPlan("C22"), New: func() any { return &Plan{} }, Run: execute, Shrink: shrinkPlan, Desc: descPlan},
		&simkit.Check{ID: "C23", Gen: genPlan("C23"), New: func() any { return &Plan{} }, Run: execute, Shrink: shrinkPlan, Desc: descPlan},
	)
}
