//go:build verif

package auth

import (
	"database/sql"
	"time"
)

// Accessors for the auth area harness (/verif/harness/auth). Nothing here
// changes behaviour of the code under test; the file only exists in the
// verification overlay.

// VerifSwapDB replaces the manager's *sql.DB handle. The harness re-opens the
// same SQLite file (same DSN, read from the handle arc opened) through a
// driver wrapper that makes waiting for a pooled connection visible to the
// simulator's scheduler. Returns the handle arc opened.
func VerifSwapDB(am *AuthManager, db *sql.DB) *sql.DB {
	old := am.db
	am.db = db
	return old
}

// VerifShadowAuth returns a throw-away AuthManager over the same database
// with an empty cache and no background goroutines: VerifyToken on it is a
// cache-free evaluation by the real code.
func VerifShadowAuth(am *AuthManager) *AuthManager {
	return &AuthManager{
		db:           am.db,
		dbPath:       am.dbPath,
		cacheTTL:     am.cacheTTL,
		maxCacheSize: 1 << 30,
		cache:        make(map[string]cacheEntry),
		logger:       am.logger,
	}
}

// VerifAuthConfig reports the running cache configuration.
func VerifAuthConfig(am *AuthManager) (ttl time.Duration, maxSize int) {
	return am.cacheTTL, am.maxCacheSize
}

// VerifAuthCacheLen is the number of cached token entries (probe only).
func VerifAuthCacheLen(am *AuthManager) int { return len(am.cache) }

// VerifAuthCacheStats returns hits, misses, evictions (probes only).
func VerifAuthCacheStats(am *AuthManager) (int64, int64, int64) {
	return am.cacheHits.Load(), am.cacheMisses.Load(), am.cacheEvictions.Load()
}

// VerifRBACCacheLens returns the sizes of permCache and tokenCache (probes only).
func VerifRBACCacheLens(rm *RBACManager) (int, int) { return len(rm.permCache), len(rm.tokenCache) }

// VerifRBACCacheStats returns hits and misses (probes only).
func VerifRBACCacheStats(rm *RBACManager) (int64, int64) {
	return rm.cacheHits.Load(), rm.cacheMisses.Load()
}

// VerifRBACConfig reports the running cache configuration.
func VerifRBACConfig(rm *RBACManager) (ttl time.Duration, maxSize int) {
	return rm.permCacheTTL, rm.maxCacheSize
}

// VerifShadowRBAC returns a throw-away RBACManager over the same database and
// licence with empty caches and no background goroutine: CheckPermission on it
// is a cache-free evaluation of the policy by the real code.
func VerifShadowRBAC(rm *RBACManager) *RBACManager {
	return &RBACManager{
		db:            rm.db,
		licenseClient: rm.licenseClient,
		logger:        rm.logger,
		tokenCache:    make(map[int64]*tokenRBACData),
		tokenCacheTTL: rm.tokenCacheTTL,
		permCache:     make(map[permissionCacheKey]*permissionCacheEntry),
		permCacheTTL:  rm.permCacheTTL,
		maxCacheSize:  1 << 30,
	}
}

// VerifRBACEntryTimes reports when the cached decision for the key and the
// cached per-token RBAC data were stored (zero time: not cached). Used only to
// classify a stale decision the oracle has already established: an entry older
// than the mutation survived it (missing invalidation), a younger one was
// stored from data read before the mutation (concurrent check).
func VerifRBACEntryTimes(rm *RBACManager, tokenID int64, database, measurement, permission string) (permStored, tokenLoaded time.Time) {
	if e, ok := rm.permCache[permissionCacheKey{tokenID: tokenID, database: database, measurement: measurement, permission: permission}]; ok && e != nil {
		permStored = e.expiresAt.Add(-rm.permCacheTTL)
	}
	if d, ok := rm.tokenCache[tokenID]; ok && d != nil {
		tokenLoaded = d.loadedAt
	}
	return
}

// VerifObserveSweeps registers fn to be told when the token-cache janitor
// (cleanupLoop -> cleanupExpiredCache) begins (begin=true) and ends (begin=false) a sweep of a manager's cache;
// nil unregisters. Observation only: the sweep that runs is arc's own
// cleanupExpiredCache, driven by arc's own ticker. The F-seam that simgen
// prepends to cleanupExpiredCache replaces the call, so the observer switches
// the seam off around its own call of the real function (one task runs at a
// time; a sweep of another manager that begins meanwhile goes unobserved,
// which only loses an observation).
func VerifObserveSweeps(fn func(am *AuthManager, begin bool)) {
	verifSweepObserver = fn
	if fn == nil {
		SimHook_cleanupExpiredCache = nil
		return
	}
	SimHook_cleanupExpiredCache = verifSweepSeam
}

var verifSweepObserver func(am *AuthManager, begin bool)

func verifSweepSeam(am *AuthManager) {
	if f := verifSweepObserver; f != nil {
		f(am, true)
	}
	SimHook_cleanupExpiredCache = nil
	defer func() {
		if f := verifSweepObserver; f != nil {
			SimHook_cleanupExpiredCache = verifSweepSeam
			f(am, false)
		}
	}()
	am.cleanupExpiredCache()
}

// VerifRBACCachedFor reports what the two RBAC caches hold for a token right
// now: the number of unexpired cached decisions and whether per-token RBAC data
// is cached (coverage probe only: tells how often a mutation meets the caches in
// a state where one holds the token and the other does not).
func VerifRBACCachedFor(rm *RBACManager, tokenID int64, now time.Time) (decisions int, tokenData bool) {
	for k, e := range rm.permCache {
		if k.tokenID == tokenID && e != nil && now.Before(e.expiresAt) {
			decisions++
		}
	}
	_, tokenData = rm.tokenCache[tokenID]
	return
}
