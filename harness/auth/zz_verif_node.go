//go:build verif

package main

import (
	"context"
	"database/sql"
	"encoding/json"
	"fmt"
	"io"
	"os"
	"path/filepath"
	"sync/atomic"
	"time"

	"github.com/gofiber/fiber/v2"
	hraft "github.com/hashicorp/raft"
	"github.com/rs/zerolog"
	"github.com/valyala/fasthttp"

	"github.com/basekick-labs/arc/internal/auth"
	clusterraft "github.com/basekick-labs/arc/internal/cluster/raft"
	"github.com/basekick-labs/arc/internal/license"
	"github.com/basekick-labs/arc/internal/simrt"
)

var scratchSeq atomic.Int64

func scratchDir() string {
	b := os.Getenv("VERIF_SCRATCH")
	if b == "" {
		b = "/dev/shm"
	}
	d := filepath.Join(b, fmt.Sprintf("verif-auth.%d.%d", os.Getpid(), scratchSeq.Add(1)))
	os.RemoveAll(d)
	if err := os.MkdirAll(d, 0o755); err != nil {
		harnessFatal("scratch dir: %v", err)
	}
	return d
}

func harnessFatal(format string, args ...any) {
	fmt.Fprintf(os.Stderr, "HARNESS-ERROR "+format+"\n", args...)
	os.Exit(2)
}

func nodeLogger(name string) zerolog.Logger {
	if os.Getenv("VERIF_LOG") != "" {
		return zerolog.New(os.Stderr).With().Str("node", name).Logger()
	}
	return zerolog.New(io.Discard).Level(zerolog.Disabled)
}

// NodeKnobs is the per-run configuration of an auth node.
type NodeKnobs struct {
	Cluster      bool `json:"cluster"`                  // cluster-apply mode (writes go through the proposer and the real ClusterFSM)
	Follower     bool `json:"follower"`                 // cluster mode only: a second node applies the log with lag
	Licensed     bool `json:"licensed"`                 // licence with the RBAC feature
	AuthTTLMs    int  `json:"auth_ttl_ms"`              // AuthManager cache TTL
	AuthCacheMax int  `json:"auth_cache_max"`           // AuthManager cache size
	RBACTTLMs    int  `json:"rbac_ttl_ms"`              // RBACManager cache TTL
	RBACCacheMax int  `json:"rbac_cache_max"`           // RBACManager cache size (per cache)
	HoldYieldPct int  `json:"hold_yield_pct,omitempty"` // simrt.Config.HoldYieldPct: preemption while holding a lock
	YieldOnDB    bool `json:"yield_on_db"`              // extra schedule point before every connection acquisition
}

// authNode is one simulated arc node: real AuthManager + RBACManager over a
// private SQLite file, the auth middleware mounted in a Fiber app, and (in
// cluster mode) a real ClusterFSM whose callbacks materialise into SQLite the
// way cmd/arc/main.go wires them.
type authNode struct {
	name    string
	dbPath  string
	k       NodeKnobs
	am      *auth.AuthManager
	rm      *auth.RBACManager
	db      *sql.DB
	gate    *connGate
	lic     *license.Client
	fsm     *clusterraft.ClusterFSM
	applied int // number of log entries applied by this node's FSM
	busy    bool
	handler fasthttp.RequestHandler
	log     zerolog.Logger
	// applyErrs counts materialise errors (main.go only logs them).
	applyErrs int64
}

// simLog is the committed Raft log (stub for consensus: every proposal commits
// immediately; each node applies entries in index order, one at a time, as
// hashicorp/raft's runFSM goroutine does).
type simLog struct {
	entries [][]byte
	resp    map[string]any // "<node>/<index>" -> FSM response
}

const logBase = 2 // first command gets Raft index 3 (indexes below are configuration entries in a real cluster)

func (l *simLog) append(data []byte) int {
	l.entries = append(l.entries, data)
	return len(l.entries)
}

// applyUpTo makes node n apply committed entries up to position upto
// (1-based count) and returns the FSM response of entry upto on that node.
func (l *simLog) applyUpTo(n *authNode, upto int) any {
	if upto > len(l.entries) {
		upto = len(l.entries)
	}
	for n.applied < upto {
		simrt.Block("fsm-apply-turn", func() bool { return !n.busy })
		if n.applied >= upto {
			break
		}
		n.busy = true
		i := n.applied
		idx := uint64(logBase + i + 1)
		r := n.fsm.Apply(&hraft.Log{Index: idx, Term: 1, Type: hraft.LogCommand, Data: l.entries[i]})
		n.applied = i + 1
		l.resp[fmt.Sprintf("%s/%d", n.name, i+1)] = r
		n.busy = false
	}
	return l.resp[fmt.Sprintf("%s/%d", n.name, upto)]
}

// stubProposer implements auth.RaftProposer on the leader node: commit to the
// simulated log, apply on the local node before returning.
type stubProposer struct {
	l *simLog
	n *authNode
}

func (p *stubProposer) IsLeader() bool { return true }

func (p *stubProposer) Propose(ctx context.Context, cmdType uint8, payload []byte, timeout time.Duration) error {
	data, err := json.Marshal(&clusterraft.Command{Type: clusterraft.CommandType(cmdType), Payload: payload})
	if err != nil {
		return err
	}
	simrt.Yield()
	pos := p.l.append(data)
	r := p.l.applyUpTo(p.n, pos)
	if e, ok := r.(error); ok && e != nil {
		// CoordinatorAuthProposer.wrapApplyError: FSM rejections come back wrapped in ErrApplyFailed, message preserved.
		return fmt.Errorf("%w: %w", auth.ErrApplyFailed, e)
	}
	return nil
}

func (n *authNode) noteApply(what string, err error) {
	if err != nil {
		n.applyErrs++
		simrt.Probe("materialise_error")
		n.log.Error().Err(err).Msg("Failed to materialise " + what + " into local SQLite")
	}
}

// wireFSM installs the FSM callbacks exactly as cmd/arc/main.go does (each
// closure calls the manager's Apply* method with the converted entry and logs
// a failure).
func (n *authNode) wireFSM() {
	am, rm, f := n.am, n.rm, n.fsm
	f.SetAuthCallbacks(
		func(e *clusterraft.TokenEntry) { n.noteApply("CreateToken", am.ApplyCreateToken(toAuthToken(e))) },
		func(e *clusterraft.TokenEntry) { n.noteApply("UpdateToken", am.ApplyUpdateToken(toAuthToken(e))) },
		func(id int64) { n.noteApply("RevokeToken", am.ApplyRevokeToken(id)) },
		func(id int64) { n.noteApply("DeleteToken", am.ApplyDeleteToken(id)) },
		func(id int64, h, p string, lsn uint64) { n.noteApply("RotateToken", am.ApplyRotateToken(id, h, p)) },
	)
	f.SetRBACCallbacks(
		func(e *clusterraft.OrganizationEntry) {
			n.noteApply("CreateOrganization", rm.ApplyCreateOrganization(toAuthOrg(e)))
		},
		func(e *clusterraft.OrganizationEntry) {
			n.noteApply("UpdateOrganization", rm.ApplyUpdateOrganization(toAuthOrg(e)))
		},
		func(id int64) { n.noteApply("DeleteOrganization", rm.ApplyDeleteOrganization(id)) },
		func(e *clusterraft.TeamEntry) { n.noteApply("CreateTeam", rm.ApplyCreateTeam(toAuthTeam(e))) },
		func(e *clusterraft.TeamEntry) { n.noteApply("UpdateTeam", rm.ApplyUpdateTeam(toAuthTeam(e))) },
		func(id int64) { n.noteApply("DeleteTeam", rm.ApplyDeleteTeam(id)) },
		func(e *clusterraft.RoleEntry) { n.noteApply("CreateRole", rm.ApplyCreateRole(toAuthRole(e))) },
		func(e *clusterraft.RoleEntry) { n.noteApply("UpdateRole", rm.ApplyUpdateRole(toAuthRole(e))) },
		func(id int64) { n.noteApply("DeleteRole", rm.ApplyDeleteRole(id)) },
		func(e *clusterraft.MeasurementPermissionEntry) {
			n.noteApply("CreateMeasurementPermission", rm.ApplyCreateMeasurementPermission(toAuthMP(e)))
		},
		func(id int64) { n.noteApply("DeleteMeasurementPermission", rm.ApplyDeleteMeasurementPermission(id)) },
		func(e *clusterraft.TokenMembershipEntry) {
			n.noteApply("AddTokenToTeam", rm.ApplyAddTokenToTeam(toAuthMembership(e)))
		},
		func(tokenID, teamID int64) {
			n.noteApply("RemoveTokenFromTeam", rm.ApplyRemoveTokenFromTeam(tokenID, teamID))
		},
	)
}

// Field-for-field copies of the FSM entry types into the auth package's mirror
// types, as internal/cluster/auth_proposer.go (ToAuth*Entry) does; restated
// here so that the area binary does not link the whole cluster package
// (DuckDB, storage back-ends).
func toAuthToken(e *clusterraft.TokenEntry) auth.ClusterTokenEntry {
	return auth.ClusterTokenEntry{ID: e.ID, Name: e.Name, Description: e.Description, Permissions: e.Permissions, TokenHash: e.TokenHash,
		TokenPrefix: e.TokenPrefix, CreatedAtUnixNano: e.CreatedAtUnixNano, ExpiresAtUnixNano: e.ExpiresAtUnixNano, Enabled: e.Enabled, LSN: e.LSN}
}
func toAuthOrg(e *clusterraft.OrganizationEntry) auth.ClusterOrganizationEntry {
	return auth.ClusterOrganizationEntry{ID: e.ID, Name: e.Name, Description: e.Description, CreatedAtUnixNano: e.CreatedAtUnixNano,
		UpdatedAtUnixNano: e.UpdatedAtUnixNano, Enabled: e.Enabled, LSN: e.LSN}
}
func toAuthTeam(e *clusterraft.TeamEntry) auth.ClusterTeamEntry {
	return auth.ClusterTeamEntry{ID: e.ID, OrganizationID: e.OrganizationID, Name: e.Name, Description: e.Description,
		CreatedAtUnixNano: e.CreatedAtUnixNano, UpdatedAtUnixNano: e.UpdatedAtUnixNano, Enabled: e.Enabled, LSN: e.LSN}
}
func toAuthRole(e *clusterraft.RoleEntry) auth.ClusterRoleEntry {
	return auth.ClusterRoleEntry{ID: e.ID, TeamID: e.TeamID, DatabasePattern: e.DatabasePattern, Permissions: e.Permissions,
		CreatedAtUnixNano: e.CreatedAtUnixNano, LSN: e.LSN}
}
func toAuthMP(e *clusterraft.MeasurementPermissionEntry) auth.ClusterMeasurementPermissionEntry {
	return auth.ClusterMeasurementPermissionEntry{ID: e.ID, RoleID: e.RoleID, MeasurementPattern: e.MeasurementPattern, Permissions: e.Permissions,
		CreatedAtUnixNano: e.CreatedAtUnixNano, LSN: e.LSN}
}
func toAuthMembership(e *clusterraft.TokenMembershipEntry) auth.ClusterTokenMembershipEntry {
	return auth.ClusterTokenMembershipEntry{ID: e.ID, TokenID: e.TokenID, TeamID: e.TeamID, CreatedAtUnixNano: e.CreatedAtUnixNano, LSN: e.LSN}
}

func dur(ms int) time.Duration { return time.Duration(ms) * time.Millisecond }

// boot constructs the managers over dbPath (creating the file on first boot).
// Must run inside simrt.Run. l is nil in direct-database mode.
func bootNode(name, dbPath string, k NodeKnobs, l *simLog, leader bool) *authNode {
	n := &authNode{name: name, dbPath: dbPath, k: k, log: nodeLogger(name)}
	am, err := auth.NewAuthManager(dbPath, dur(k.AuthTTLMs), k.AuthCacheMax, n.log)
	if err != nil {
		harnessFatal("NewAuthManager: %v", err)
	}
	// D-sql: make the connection pool scheduler-visible (see zz_verif_simsql.go).
	orig := auth.VerifSwapDB(am, nil)
	gdb, gate, err := gateDB(orig, k.YieldOnDB)
	if err != nil {
		harnessFatal("gateDB: %v", err)
	}
	auth.VerifSwapDB(am, gdb)
	n.am, n.db, n.gate = am, gdb, gate
	if k.Licensed {
		n.lic = license.VerifNewClient(&license.License{LicenseKey: "sim", Tier: license.TierEnterprise, Status: "active",
			Features: []string{license.FeatureRBAC, license.FeatureClustering}, ExpiresAt: time.Date(2099, 1, 1, 0, 0, 0, 0, time.UTC)})
	}
	n.rm = auth.NewRBACManager(&auth.RBACManagerConfig{DB: am.GetDB(), LicenseClient: n.lic, Logger: n.log,
		CacheTTL: dur(k.RBACTTLMs), MaxCacheSize: k.RBACCacheMax})
	if l != nil {
		n.fsm = clusterraft.NewClusterFSM(n.log)
		n.wireFSM() // callbacks BEFORE the proposer, as in main.go
		if leader {
			p := &stubProposer{l: l, n: n}
			n.am.SetRaftProposer(p)
			n.rm.SetRaftProposer(p)
		}
	}
	n.mountHTTP()
	return n
}

func (n *authNode) close() {
	n.rm.Close()
	if err := n.am.Close(); err != nil {
		harnessFatal("AuthManager.Close: %v", err)
	}
	if n.gate.inUse != 0 {
		harnessFatal("connection gate not balanced at close: inUse=%d", n.gate.inUse)
	}
}

// mountHTTP builds a Fiber app with the real auth middleware and the real
// resource-permission middleware in front of trivial handlers.
func (n *authNode) mountHTTP() {
	app := fiber.New(fiber.Config{DisableStartupMessage: true})
	cfg := auth.DefaultMiddlewareConfig()
	cfg.AuthManager = n.am
	app.Use(auth.NewMiddleware(cfg))
	ok := func(c *fiber.Ctx) error { return c.SendStatus(fiber.StatusOK) }
	app.Get("/whoami", ok)
	app.Get("/res/read", auth.RequireResourceRead(n.am, n.rm), ok)
	app.Get("/res/write", auth.RequireResourceWrite(n.am, n.rm), ok)
	app.Get("/res/delete", auth.RequireResourceDelete(n.am, n.rm), ok)
	n.handler = app.Handler()
}

// httpGet performs an in-process request (no socket, no goroutine).
func (n *authNode) httpGet(path, token, scheme, database, measurement string) int {
	var ctx fasthttp.RequestCtx
	ctx.Init(&fasthttp.Request{}, nil, nil)
	ctx.Request.Header.SetMethod("GET")
	ctx.Request.SetRequestURI(path)
	switch scheme {
	case "token":
		ctx.Request.Header.Set("Authorization", "Token "+token)
	case "plain":
		ctx.Request.Header.Set("Authorization", token)
	case "apikey":
		ctx.Request.Header.Set("x-api-key", token)
	default:
		ctx.Request.Header.Set("Authorization", "Bearer "+token)
	}
	if database != "" {
		ctx.Request.Header.Set("x-arc-database", database)
	}
	if measurement != "" {
		ctx.Request.Header.Set("x-arc-measurement", measurement)
	}
	n.handler(&ctx)
	return ctx.Response.StatusCode()
}

// tokenIDByName finds a token id through the public listing API.
func (n *authNode) tokenIDByName(name string) int64 {
	toks, err := n.am.ListTokens()
	if err != nil {
		harnessFatal("ListTokens: %v", err)
	}
	for _, t := range toks {
		if t.Name == name {
			return t.ID
		}
	}
	return 0
}
