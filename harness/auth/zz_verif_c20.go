//go:build verif

package main

// C20 — permission decisions always reflect the current RBAC state.
//
// A bounded history of token / organization / team / role / measurement-
// permission / membership mutations, interleaved with permission checks
// (single through CheckPermission, through the real Fiber middleware chain,
// and batched), runs against a real AuthManager + RBACManager over SQLite, in
// direct-database mode or in cluster-apply mode (real ClusterFSM, applies
// materialised through the Apply* methods; optional lagging follower).
//
// Oracle (property text): every check equals a CACHE-FREE evaluation over the
// same SQLite state at that moment. Verdict evaluator (1) is the real code on
// throw-away managers with empty caches (VerifShadowAuth / VerifShadowRBAC)
// over the same *sql.DB. Evaluator (2) is an independent in-memory evaluator
// over a plain-SQL snapshot of the tables; if (1) and (2) disagree the process
// exits 2 (MODEL-DISAGREEMENT), it is never a violation.
//
// Plan families. "general": the mixed history described above over two token
// slots. "churn" (a share of the plans): up to five active tokens in a few
// teams, a small pool of resources that every token is checked on, and a body
// made of checks, membership changes (each usually followed by a re-check of
// the keys that token was checked on before) and clock advances drawn as
// FRACTIONS OF THE CONFIGURED RBAC CACHE TTL, with only an occasional other
// mutation. It exists because the two RBAC caches (per-token data, decisions)
// lose entries independently of each other — capacity eviction when more tokens
// are active than the configured cache size, the expiry janitor when an entry
// of one cache outlives the entry of the other it was computed from — and the
// per-token invalidation of a membership change has to be right in every such
// state; the general family almost never leaves a cache alone long enough
// (most mutations clear everything) nor runs long enough in simulated time for
// a janitor pass to fall between two expiries. Same oracle, same rule ids.

import (
	"context"
	"database/sql"
	"fmt"
	"path/filepath"
	"sort"
	"strings"
	"time"

	"github.com/basekick-labs/arc/internal/auth"
	"github.com/basekick-labs/arc/internal/simrt"
	"github.com/basekick-labs/arc/internal/verifsim/simkit"
)

type CheckReq struct {
	Tok  int    `json:"tok"`
	Old  bool   `json:"old,omitempty"` // present a previous (rotated-away) value of the slot
	DB   string `json:"db"`
	Meas string `json:"meas"`
	Perm string `json:"perm"`
}

type Op struct {
	K       string     `json:"k"`
	A       int        `json:"a,omitempty"`
	B       int        `json:"b,omitempty"`
	S       string     `json:"s,omitempty"`
	S2      string     `json:"s2,omitempty"`
	N       int        `json:"n,omitempty"`
	Node    string     `json:"node,omitempty"` // checks: "" (leader) | follower
	Reqs    []CheckReq `json:"reqs,omitempty"`
	Mut     *Op        `json:"mut,omitempty"` // race: the mutation running concurrently with Reqs
	DelayUs []int      `json:"delay_us,omitempty"`
}

type C20Plan struct {
	Family string    `json:"family,omitempty"` // "" (general) | churn
	Knobs  NodeKnobs `json:"knobs"`
	Ops    []Op      `json:"ops"`
}

const (
	nTok, nOrg, nTeam, nRole, nMP = 2, 2, 2, 3, 3
	nTokMax                       = 5 // token slots (the general family uses the first nTok)
)

var (
	c20DBs       = []string{"db1", "db2", "dbx", "other", ""}
	c20Meas      = []string{"", "cpu", "mem", "c1"}
	c20Perms     = []string{"read", "write", "delete"}
	c20DBPats    = []string{"*", "db1", "db*", "db2"}
	c20MeasPats  = []string{"*", "cpu", "c*", "mem"}
	c20PermSets  = []string{"read", "write", "read,write", "read,write,delete", "delete", "admin"}
	c20TokPerms  = []string{"", "read", "write", "read,write", "read,write,delete", "admin", "default"}
	c20CheckVias = []string{"direct", "direct", "mw", "batch"}
)

func genReq(r *simrt.Rand, prev []CheckReq) CheckReq {
	if len(prev) > 0 && r.Chance(65) {
		return prev[r.Intn(len(prev))]
	}
	q := CheckReq{Tok: r.Intn(nTok), DB: c20DBs[r.Intn(len(c20DBs))], Meas: c20Meas[r.Intn(len(c20Meas))], Perm: c20Perms[r.Intn(len(c20Perms))]}
	if r.Chance(45) {
		q.Tok = 0
	}
	if r.Chance(40) {
		q.DB = "db1"
	}
	if r.Chance(5) {
		q.Old = true
	}
	return q
}

func genMutation(r *simrt.Rand) Op {
	switch w := r.Intn(100); {
	case w < 6:
		return Op{K: "tok_create", A: r.Intn(nTok), S: c20TokPerms[r.Intn(len(c20TokPerms))]}
	case w < 16:
		return Op{K: "tok_perms", A: r.Intn(nTok), S: c20TokPerms[r.Intn(len(c20TokPerms)-1)]}
	case w < 19:
		return Op{K: "tok_expire", A: r.Intn(nTok), N: r.Intn(2)}
	case w < 22:
		return Op{K: "tok_revoke", A: r.Intn(nTok)}
	case w < 25:
		return Op{K: "tok_delete", A: r.Intn(nTok)}
	case w < 29:
		return Op{K: "tok_rotate", A: r.Intn(nTok)}
	case w < 33:
		return Op{K: "org_create", A: r.Intn(nOrg)}
	case w < 38:
		return Op{K: "org_update", A: r.Intn(nOrg), N: r.Intn(3)}
	case w < 45:
		return Op{K: "org_delete", A: r.Intn(nOrg)}
	case w < 50:
		return Op{K: "team_create", A: r.Intn(nTeam), B: r.Intn(nOrg)}
	case w < 57:
		return Op{K: "team_update", A: r.Intn(nTeam), N: r.Intn(3)}
	case w < 62:
		return Op{K: "team_delete", A: r.Intn(nTeam)}
	case w < 68:
		return Op{K: "role_create", A: r.Intn(nRole), B: r.Intn(nTeam), S: c20DBPats[r.Intn(len(c20DBPats))], S2: c20PermSets[r.Intn(len(c20PermSets))]}
	case w < 75:
		o := Op{K: "role_update", A: r.Intn(nRole)}
		if r.Chance(60) {
			o.S = c20DBPats[r.Intn(len(c20DBPats))]
		}
		if o.S == "" || r.Chance(50) {
			o.S2 = c20PermSets[r.Intn(len(c20PermSets))]
		}
		return o
	case w < 80:
		return Op{K: "role_delete", A: r.Intn(nRole)}
	case w < 86:
		return Op{K: "mp_create", A: r.Intn(nMP), B: r.Intn(nRole), S: c20MeasPats[r.Intn(len(c20MeasPats))], S2: c20PermSets[r.Intn(len(c20PermSets))]}
	case w < 90:
		return Op{K: "mp_delete", A: r.Intn(nMP)}
	case w < 96:
		return Op{K: "member_add", A: r.Intn(nTok), B: r.Intn(nTeam)}
	default:
		return Op{K: "member_remove", A: r.Intn(nTok), B: r.Intn(nTeam)}
	}
}

func genC20(r *simrt.Rand, tier string) any {
	if r.Chance(35) {
		return genC20Churn(r, tier)
	}
	p := &C20Plan{}
	p.Knobs = NodeKnobs{
		Cluster:      r.Chance(45),
		Licensed:     !r.Chance(7),
		AuthTTLMs:    []int{5, 200, 30000, 300000}[r.Intn(4)],
		AuthCacheMax: []int{1, 2, 1000}[r.Intn(3)],
		RBACTTLMs:    []int{5, 200, 30000, 300000}[r.Intn(4)],
		RBACCacheMax: []int{1, 2, 3, 4, 100, 10000}[r.Intn(6)],
		YieldOnDB:    r.Chance(50),
	}
	p.Knobs.Follower = p.Knobs.Cluster && r.Chance(40)
	races := r.Chance(25)
	if tier == "thorough" {
		races = r.Chance(50)
	}
	// scaffold: a state in which RBAC grants something
	add := func(o Op) { p.Ops = append(p.Ops, o) }
	add(Op{K: "tok_create", A: 0, S: c20TokPerms[r.Intn(len(c20TokPerms))]})
	if r.Chance(70) {
		add(Op{K: "tok_create", A: 1, S: c20TokPerms[r.Intn(len(c20TokPerms))]})
	}
	if r.Chance(85) {
		add(Op{K: "org_create", A: 0})
		add(Op{K: "team_create", A: 0, B: 0})
		add(Op{K: "role_create", A: 0, B: 0, S: c20DBPats[r.Intn(len(c20DBPats))], S2: c20PermSets[r.Intn(len(c20PermSets))]})
		if r.Chance(40) {
			add(Op{K: "mp_create", A: 0, B: 0, S: c20MeasPats[r.Intn(len(c20MeasPats))], S2: c20PermSets[r.Intn(len(c20PermSets))]})
		}
		add(Op{K: "member_add", A: 0, B: 0})
		if r.Chance(40) {
			add(Op{K: "member_add", A: 1, B: 0})
		}
	}
	var prev []CheckReq
	n := 8 + r.Intn(26)
	for i := 0; i < n; i++ {
		switch w := r.Intn(100); {
		case w < 45:
			via := c20CheckVias[r.Intn(len(c20CheckVias))]
			o := Op{K: "check", S: via}
			k := 1
			if via == "batch" {
				k = 2 + r.Intn(3)
			}
			for j := 0; j < k; j++ {
				q := genReq(r, prev)
				o.Reqs = append(o.Reqs, q)
				prev = append(prev, q)
			}
			if p.Knobs.Follower && r.Chance(35) {
				o.Node = "follower"
			}
			add(o)
		case w < 50:
			add(Op{K: "advance", N: []int{1, 50, 1000, 40000, 400000}[r.Intn(5)]})
		case w < 55 && p.Knobs.Follower:
			add(Op{K: "follower_apply", N: 1 + r.Intn(6)})
		case w < 57 && !p.Knobs.Cluster:
			add(Op{K: "restart"})
		case w < 65 && races:
			// Raced mutations come from a small fixed set of kinds that grant or
			// revoke something for token 0 of the scaffold (one rule id per kind:
			// "concurrent-check-vs-<kind>"); every other kind is exercised sequentially.
			m := []Op{{K: "role_delete", A: 0}, {K: "role_delete", A: r.Intn(nRole)}, {K: "member_remove", A: 0, B: 0},
				{K: "role_create", A: r.Intn(nRole), B: 0, S: []string{"*", "db*"}[r.Intn(2)], S2: "read,write,delete"}}[r.Intn(4)]
			focus := r.Chance(60)
			o := Op{K: "race", Mut: &m}
			for j, k := 0, 1+r.Intn(3); j < k; j++ {
				q := genReq(r, prev)
				if focus {
					q = genReq(r, nil)
					q.Tok, q.Old = 0, false
				}
				o.Reqs = append(o.Reqs, q)
				o.DelayUs = append(o.DelayUs, []int{0, 0, r.Intn(30), r.Intn(300)}[r.Intn(4)])
			}
			prev = append(prev, o.Reqs...)
			add(o)
			if r.Chance(70) {
				// judged re-check of the raced keys once everything has returned
				add(Op{K: "check", S: "direct", Reqs: append([]CheckReq(nil), o.Reqs...)})
			}
		default:
			add(genMutation(r))
		}
	}
	// final sweep over keys used before: every one is judged once more
	seen := map[CheckReq]bool{}
	for i := len(prev) - 1; i >= 0 && len(seen) < 6; i-- {
		if !seen[prev[i]] {
			seen[prev[i]] = true
			add(Op{K: "check", S: c20CheckVias[r.Intn(len(c20CheckVias)-1)], Reqs: []CheckReq{prev[i]}})
		}
	}
	return p
}

// genC20Churn draws a plan of the "churn" family (see the file comment).
func genC20Churn(r *simrt.Rand, tier string) *C20Plan {
	p := &C20Plan{Family: "churn"}
	ttl := []int{200, 30000, 30000, 90000, 300000}[r.Intn(5)]
	p.Knobs = NodeKnobs{
		Cluster:      r.Chance(45),
		Licensed:     !r.Chance(3),
		AuthTTLMs:    []int{5, 200, 30000, 300000}[r.Intn(4)],
		AuthCacheMax: []int{1, 2, 1000}[r.Intn(3)],
		RBACTTLMs:    ttl,
		RBACCacheMax: []int{1, 2, 2, 3, 3, 4, 100, 10000}[r.Intn(8)],
		YieldOnDB:    r.Chance(30),
	}
	p.Knobs.Follower = p.Knobs.Cluster && r.Chance(25)
	add := func(o Op) { p.Ops = append(p.Ops, o) }
	k := 2 + r.Intn(nTokMax-1)
	teams := 1 + r.Intn(2)
	member := map[[2]int]bool{} // the generator's guess of the membership table (other mutations may falsify it: harmless)
	for t := 0; t < k; t++ {
		perms := ""
		if r.Chance(45) {
			perms = c20TokPerms[r.Intn(len(c20TokPerms))]
		}
		add(Op{K: "tok_create", A: t, S: perms})
	}
	add(Op{K: "org_create", A: 0})
	for tm := 0; tm < teams; tm++ {
		add(Op{K: "team_create", A: tm, B: 0})
		add(Op{K: "role_create", A: tm, B: tm, S: c20DBPats[r.Intn(len(c20DBPats))], S2: c20PermSets[r.Intn(len(c20PermSets))]})
	}
	if r.Chance(25) {
		add(Op{K: "mp_create", A: 0, B: 0, S: c20MeasPats[r.Intn(len(c20MeasPats))], S2: c20PermSets[r.Intn(len(c20PermSets))]})
	}
	for t := 0; t < k; t++ {
		for tm := 0; tm < teams; tm++ {
			if r.Chance([]int{75, 30}[tm]) {
				add(Op{K: "member_add", A: t, B: tm})
				member[[2]int{t, tm}] = true
			}
		}
	}
	// the resources every token is checked on
	var pool []CheckReq
	for i, n := 0, 2+r.Intn(3); i < n; i++ {
		q := CheckReq{DB: c20DBs[r.Intn(3)], Perm: c20Perms[r.Intn(len(c20Perms))]}
		if r.Chance(30) {
			q.Meas = c20Meas[r.Intn(len(c20Meas))]
		}
		if r.Chance(50) {
			q.Perm = "read"
		}
		pool = append(pool, q)
	}
	used := make([][]CheckReq, k) // per token: distinct keys checked so far, oldest first
	note := func(q CheckReq) {
		for _, u := range used[q.Tok] {
			if u == q {
				return
			}
		}
		used[q.Tok] = append(used[q.Tok], q)
	}
	var prev []CheckReq
	last := 0
	genCheck := func() {
		via := c20CheckVias[r.Intn(len(c20CheckVias))]
		o := Op{K: "check", S: via}
		n := 1
		if via == "batch" {
			n = 2 + r.Intn(3)
		}
		for j := 0; j < n; j++ {
			q := pool[r.Intn(len(pool))]
			q.Tok = r.Intn(k)
			if r.Chance(35) {
				q.Tok = last
			}
			last = q.Tok
			o.Reqs = append(o.Reqs, q)
			prev = append(prev, q)
			note(q)
		}
		if p.Knobs.Follower && r.Chance(30) {
			o.Node = "follower"
		}
		add(o)
	}
	for i, n := 0, 10+r.Intn(22); i < n; i++ {
		switch w := r.Intn(100); {
		case w < 50:
			genCheck()
		case w < 64:
			ms := ttl * []int{5, 20, 40, 60, 80, 95, 105, 150}[r.Intn(8)] / 100
			if ms < 1 {
				ms = 1
			}
			add(Op{K: "advance", N: ms})
		case w < 90:
			t, tm := r.Intn(k), r.Intn(teams)
			if r.Chance(20) {
				t = last
			}
			if r.Chance(30) {
				// give the token cache entries of different ages first: one key,
				// part of a TTL later another key, then most of a TTL again
				for j, pcts := 0, [2][]int{{20, 40, 60, 80}, {30, 50, 70, 90, 110}}; j < 2; j++ {
					q := pool[r.Intn(len(pool))]
					q.Tok = t
					add(Op{K: "check", S: c20CheckVias[r.Intn(len(c20CheckVias))], Reqs: []CheckReq{q}})
					prev = append(prev, q)
					note(q)
					add(Op{K: "advance", N: max(1, ttl*pcts[j][r.Intn(len(pcts[j]))]/100)})
				}
			}
			kind := "member_add"
			if member[[2]int{t, tm}] != r.Chance(15) {
				kind = "member_remove"
			}
			add(Op{K: kind, A: t, B: tm})
			member[[2]int{t, tm}] = kind == "member_add"
			if len(used[t]) > 0 && r.Chance(80) {
				// re-check what this token was checked on before the change
				o := Op{K: "check", S: c20CheckVias[r.Intn(len(c20CheckVias))]}
				u := used[t]
				if len(u) > 3 {
					u = u[len(u)-3:]
				}
				o.Reqs = append(o.Reqs, u...)
				if p.Knobs.Follower && r.Chance(30) {
					o.Node = "follower"
				}
				add(o)
			}
		case w < 94 && p.Knobs.Follower:
			add(Op{K: "follower_apply", N: 1 + r.Intn(6)})
		case w < 96:
			add(genMutation(r))
		default:
			genCheck()
		}
	}
	seen := map[CheckReq]bool{}
	for i := len(prev) - 1; i >= 0 && len(seen) < 6; i-- {
		if !seen[prev[i]] {
			seen[prev[i]] = true
			add(Op{K: "check", S: c20CheckVias[r.Intn(len(c20CheckVias)-1)], Reqs: []CheckReq{prev[i]}})
		}
	}
	return p
}

// ---------------------------------------------------------------------------
// evaluator (2): independent, over a plain-SQL snapshot

type snapTok struct {
	enabled bool
	perms   string
	expires sql.NullTime
}
type snapRole struct {
	id, team int64
	pat      string
	perms    []string
}
type snapMP struct {
	role  int64
	pat   string
	perms []string
}
type snapshot struct {
	opIdx   int
	kind    string
	toks    map[int64]snapTok
	teamsOn map[int64]bool
	members map[int64][]int64 // token -> teams
	roles   []snapRole
	mps     []snapMP
	cur     map[int64]string // token id -> current value at snapshot time (harness knowledge from Create/Rotate results)
	start   time.Time        // sim time at which the operation that produced this state was invoked
	raced   bool             // the operation ran concurrently with (unjudged) checks
}

func splitNonEmpty(s string) []string {
	if s == "" {
		return nil
	}
	return strings.Split(s, ",")
}

func takeSnapshot(db *sql.DB, opIdx int, kind string) *snapshot {
	s := &snapshot{opIdx: opIdx, kind: kind, toks: map[int64]snapTok{}, teamsOn: map[int64]bool{}, members: map[int64][]int64{}}
	q := func(query string, scan func(*sql.Rows) error) {
		rows, err := db.Query(query)
		if err != nil {
			harnessFatal("snapshot query %q: %v", query, err)
		}
		for rows.Next() {
			if err := scan(rows); err != nil {
				rows.Close()
				harnessFatal("snapshot scan %q: %v", query, err)
			}
		}
		if err := rows.Err(); err != nil {
			harnessFatal("snapshot rows %q: %v", query, err)
		}
		rows.Close()
	}
	q(`SELECT id, enabled, permissions, expires_at FROM api_tokens`, func(r *sql.Rows) error {
		var id int64
		var en bool
		var perms sql.NullString
		var t snapTok
		if err := r.Scan(&id, &en, &perms, &t.expires); err != nil {
			return err
		}
		t.enabled, t.perms = en, perms.String
		s.toks[id] = t
		return nil
	})
	q(`SELECT id, enabled FROM rbac_teams`, func(r *sql.Rows) error {
		var id int64
		var en bool
		if err := r.Scan(&id, &en); err != nil {
			return err
		}
		s.teamsOn[id] = en
		return nil
	})
	q(`SELECT token_id, team_id FROM rbac_token_memberships ORDER BY id`, func(r *sql.Rows) error {
		var tok, team int64
		if err := r.Scan(&tok, &team); err != nil {
			return err
		}
		s.members[tok] = append(s.members[tok], team)
		return nil
	})
	q(`SELECT id, team_id, database_pattern, permissions FROM rbac_roles ORDER BY id`, func(r *sql.Rows) error {
		var ro snapRole
		var perms string
		if err := r.Scan(&ro.id, &ro.team, &ro.pat, &perms); err != nil {
			return err
		}
		ro.perms = splitNonEmpty(perms)
		s.roles = append(s.roles, ro)
		return nil
	})
	q(`SELECT role_id, measurement_pattern, permissions FROM rbac_measurement_permissions ORDER BY id`, func(r *sql.Rows) error {
		var m snapMP
		var perms string
		if err := r.Scan(&m.role, &m.pat, &perms); err != nil {
			return err
		}
		m.perms = splitNonEmpty(perms)
		s.mps = append(s.mps, m)
		return nil
	})
	return s
}

// patMatch: "*" matches everything, a trailing "*" is a prefix pattern,
// anything else is literal (the only pattern shapes in the universe).
func patMatch(p, v string) bool {
	if p == "*" {
		return true
	}
	if strings.HasSuffix(p, "*") {
		return strings.HasPrefix(v, p[:len(p)-1])
	}
	return p == v
}

func grants(perms []string, want string) bool {
	for _, p := range perms {
		if p == "admin" || p == want {
			return true
		}
	}
	return false
}

// decide evaluates the policy text: a token authenticates if its row exists,
// is enabled and not expired and the presented value is its current value;
// with RBAC licensed and at least one team membership, an ENABLED team's role
// whose database pattern matches grants the permission — through its
// measurement permissions when a measurement is named and the role has any,
// else through its own permission list; otherwise (and when RBAC denies) the
// token's own permission list decides.
func (s *snapshot) decide(tokID int64, current bool, licensed bool, now time.Time, q CheckReq) string {
	t, ok := s.toks[tokID]
	if !ok || !current || !t.enabled || (t.expires.Valid && now.After(t.expires.Time)) {
		return "unauth"
	}
	own := grants(splitNonEmpty(t.perms), q.Perm)
	if !licensed {
		if own {
			return "allow"
		}
		return "deny"
	}
	teams := s.members[tokID]
	if len(teams) == 0 {
		if own {
			return "allow"
		}
		return "deny"
	}
	for _, tm := range teams {
		if !s.teamsOn[tm] {
			continue
		}
		for _, ro := range s.roles {
			if ro.team != tm || !patMatch(ro.pat, q.DB) {
				continue
			}
			if q.Meas != "" {
				has := false
				hit := false
				for _, m := range s.mps {
					if m.role != ro.id {
						continue
					}
					has = true
					if patMatch(m.pat, q.Meas) && grants(m.perms, q.Perm) {
						hit = true
					}
				}
				if hit {
					return "allow"
				}
				if has {
					continue
				}
			}
			if grants(ro.perms, q.Perm) {
				return "allow"
			}
		}
	}
	if own {
		return "allow"
	}
	return "deny"
}

// ---------------------------------------------------------------------------

type tokSlot struct {
	id     int64
	name   string
	value  string
	olds   []string
	issued bool
}

type c20run struct {
	p        *C20Plan
	out      *simkit.Outcome
	dir      string
	leader   *authNode
	follower *authNode
	log      *simLog
	toks     [nTokMax]tokSlot
	orgs     [nOrg]int64
	teams    [nTeam]int64
	roles    [nRole]int64
	mps      [nMP]int64
	nameSeq  int
	owner    map[string]int64 // token value -> token id it was issued for
	curVal   map[int64]string // token id -> current value on the leader
	folVal   map[int64]string // token id -> current value on the follower (per applied log position)
	valLog   []valEv
	hist     map[string][]*snapshot
	opIdx    int
	opStart  time.Time
	judged   int
	mutOK    int
	mutErr   int
	mism     int
}

type valEv struct {
	pos int // committed log length when the value became current on the leader
	id  int64
	val string
}

func (c *c20run) setCur(id int64, val string) {
	pos := 0
	if c.log != nil {
		pos = len(c.log.entries)
	}
	c.valLog = append(c.valLog, valEv{pos, id, val})
	c.curVal[id] = val
}

func (c *c20run) curOf(n *authNode) map[int64]string {
	if n == c.follower && n != nil {
		for _, e := range c.valLog {
			if e.pos <= n.applied {
				c.folVal[e.id] = e.val
			}
		}
		return c.folVal
	}
	return c.curVal
}

func (c *c20run) mode() string {
	if c.p.Knobs.Cluster {
		return "cluster"
	}
	return "direct"
}

func (c *c20run) snap(n *authNode, kind string) {
	s := takeSnapshot(n.db, c.opIdx, kind)
	s.start = c.opStart
	cur := c.curOf(n)
	s.cur = make(map[int64]string, len(cur))
	for k, v := range cur {
		s.cur[k] = v
	}
	c.hist[n.name] = append(c.hist[n.name], s)
}

func (c *c20run) name(prefix string, slot int) string {
	c.nameSeq++
	return fmt.Sprintf("%s%d_%d", prefix, slot, c.nameSeq)
}

func permsArg(s string) string {
	switch s {
	case "":
		return auth.PermissionsNone
	case "default":
		return ""
	}
	return s
}

// mutate executes one mutation through the managers' public methods on the
// leader. It returns whether the call reported success.
func (c *c20run) mutate(o Op) bool {
	ctx := context.Background()
	n := c.leader
	am, rm := n.am, n.rm
	var err error
	skip := false
	switch o.K {
	case "tok_create":
		name := c.name("tk", o.A)
		var v string
		v, err = am.CreateToken(ctx, name, "", permsArg(o.S), nil)
		if err == nil {
			id := n.tokenIDByName(name)
			if id == 0 {
				harnessFatal("C20: created token %s not listed", name)
			}
			c.toks[o.A] = tokSlot{id: id, name: name, value: v, issued: true}
			c.owner[v] = id
			c.setCur(id, v)
		}
	case "tok_perms":
		if t := c.toks[o.A]; t.issued {
			s := o.S
			err = am.UpdateToken(ctx, t.id, nil, nil, &s, nil)
		} else {
			skip = true
		}
	case "tok_expire":
		if t := c.toks[o.A]; t.issued {
			when := simrt.Now().Add(-24 * time.Hour)
			if o.N == 1 {
				when = simrt.Now().Add(24 * time.Hour)
			}
			err = am.UpdateToken(ctx, t.id, nil, nil, nil, &when)
		} else {
			skip = true
		}
	case "tok_revoke":
		if t := c.toks[o.A]; t.issued {
			err = am.RevokeToken(ctx, t.id)
		} else {
			skip = true
		}
	case "tok_delete":
		if t := c.toks[o.A]; t.issued {
			err = am.DeleteToken(ctx, t.id)
		} else {
			skip = true
		}
	case "tok_rotate":
		if t := c.toks[o.A]; t.issued {
			var v string
			v, err = am.RotateToken(ctx, t.id)
			if err == nil {
				// cluster mode: rotating an unknown id is an idempotent no-op in the FSM and still returns a value;
				// the value is current only if the row now carries it — decided by the snapshot's verdict evaluator, so
				// record ownership only when the token row exists.
				ts := &c.toks[o.A]
				ts.olds = append(ts.olds, ts.value)
				ts.value = v
				c.owner[v] = t.id
				if info, _ := am.GetTokenByID(t.id); info != nil {
					c.setCur(t.id, v)
				}
			}
		} else {
			skip = true
		}
	case "org_create":
		var org *auth.Organization
		org, err = rm.CreateOrganization(ctx, &auth.CreateOrganizationRequest{Name: c.name("org", o.A)})
		if err == nil {
			c.orgs[o.A] = org.ID
		}
	case "org_update":
		if id := c.orgs[o.A]; id != 0 {
			req := &auth.UpdateOrganizationRequest{}
			switch o.N {
			case 0:
				f := false
				req.Enabled = &f
			case 1:
				t := true
				req.Enabled = &t
			default:
				nm := c.name("orgr", o.A)
				req.Name = &nm
			}
			err = rm.UpdateOrganization(ctx, id, req)
		} else {
			skip = true
		}
	case "org_delete":
		if id := c.orgs[o.A]; id != 0 {
			err = rm.DeleteOrganization(ctx, id)
		} else {
			skip = true
		}
	case "team_create":
		if org := c.orgs[o.B]; org != 0 {
			var t *auth.Team
			t, err = rm.CreateTeam(ctx, org, &auth.CreateTeamRequest{Name: c.name("team", o.A)})
			if err == nil {
				c.teams[o.A] = t.ID
			}
		} else {
			skip = true
		}
	case "team_update":
		if id := c.teams[o.A]; id != 0 {
			req := &auth.UpdateTeamRequest{}
			switch o.N {
			case 0:
				f := false
				req.Enabled = &f
			case 1:
				t := true
				req.Enabled = &t
			default:
				nm := c.name("teamr", o.A)
				req.Name = &nm
			}
			err = rm.UpdateTeam(ctx, id, req)
		} else {
			skip = true
		}
	case "team_delete":
		if id := c.teams[o.A]; id != 0 {
			err = rm.DeleteTeam(ctx, id)
		} else {
			skip = true
		}
	case "role_create":
		if team := c.teams[o.B]; team != 0 {
			var ro *auth.Role
			ro, err = rm.CreateRole(ctx, team, &auth.CreateRoleRequest{DatabasePattern: o.S, Permissions: strings.Split(o.S2, ",")})
			if err == nil {
				c.roles[o.A] = ro.ID
			}
		} else {
			skip = true
		}
	case "role_update":
		if id := c.roles[o.A]; id != 0 {
			req := &auth.UpdateRoleRequest{}
			if o.S != "" {
				s := o.S
				req.DatabasePattern = &s
			}
			if o.S2 != "" {
				req.Permissions = strings.Split(o.S2, ",")
			}
			err = rm.UpdateRole(ctx, id, req)
		} else {
			skip = true
		}
	case "role_delete":
		if id := c.roles[o.A]; id != 0 {
			err = rm.DeleteRole(ctx, id)
		} else {
			skip = true
		}
	case "mp_create":
		if role := c.roles[o.B]; role != 0 {
			var m *auth.MeasurementPermission
			m, err = rm.CreateMeasurementPermission(ctx, role, &auth.CreateMeasurementPermissionRequest{MeasurementPattern: o.S, Permissions: strings.Split(o.S2, ",")})
			if err == nil {
				c.mps[o.A] = m.ID
			}
		} else {
			skip = true
		}
	case "mp_delete":
		if id := c.mps[o.A]; id != 0 {
			err = rm.DeleteMeasurementPermission(ctx, id)
		} else {
			skip = true
		}
	case "member_add":
		if t, team := c.toks[o.A], c.teams[o.B]; t.issued && team != 0 {
			c.probeCaches(t.id)
			_, err = rm.AddTokenToTeam(ctx, t.id, team)
		} else {
			skip = true
		}
	case "member_remove":
		if t, team := c.toks[o.A], c.teams[o.B]; t.issued && team != 0 {
			c.probeCaches(t.id)
			err = rm.RemoveTokenFromTeam(ctx, t.id, team)
		} else {
			skip = true
		}
	default:
		harnessFatal("C20: unknown mutation kind %q", o.K)
	}
	if skip {
		c.out.Stats["probe.op_skipped"]++
		return false
	}
	simrt.Event("op %d %s a=%d b=%d err=%v", c.opIdx, o.K, o.A, o.B, err != nil)
	if err != nil {
		c.mutErr++
		c.out.Stats["probe.mutation_rejected"]++
		return false
	}
	c.mutOK++
	return true
}

// probeCaches records in which cache state a membership change finds the
// token (coverage only).
func (c *c20run) probeCaches(tokenID int64) {
	dec, data := auth.VerifRBACCachedFor(c.leader.rm, tokenID, simrt.Now())
	switch {
	case dec > 0 && data:
		c.out.Stats["probe.member_change_meets.decisions_and_token_data"]++
	case dec > 0:
		c.out.Stats["probe.member_change_meets.decisions_without_token_data"]++
	case data:
		c.out.Stats["probe.member_change_meets.token_data_without_decisions"]++
	default:
		c.out.Stats["probe.member_change_meets.cold_caches"]++
	}
}

func (c *c20run) valueFor(q CheckReq) (string, bool) {
	t := c.toks[q.Tok]
	if !t.issued {
		return "", false
	}
	if q.Old {
		if len(t.olds) == 0 {
			return "", false
		}
		return t.olds[len(t.olds)-1], true
	}
	return t.value, true
}

// sutCheck runs the checks of o against node n and returns one decision per request.
func (c *c20run) sutCheck(n *authNode, via string, reqs []CheckReq, vals []string) []string {
	res := make([]string, len(reqs))
	switch via {
	case "mw":
		for i, q := range reqs {
			switch st := n.httpGet("/res/"+q.Perm, vals[i], "bearer", q.DB, q.Meas); st {
			case 200:
				res[i] = "allow"
			case 401:
				res[i] = "unauth"
			case 403:
				res[i] = "deny"
			default:
				harnessFatal("C20: /res/%s returned status %d", q.Perm, st)
			}
		}
	case "batch":
		infos := map[string]*auth.TokenInfo{}
		var breqs []*auth.PermissionCheckRequest
		for i, q := range reqs {
			info, seen := infos[vals[i]]
			if !seen {
				info = n.am.VerifyToken(vals[i])
				infos[vals[i]] = info
			}
			breqs = append(breqs, &auth.PermissionCheckRequest{TokenInfo: info, Database: q.DB, Measurement: q.Meas, Permission: q.Perm})
		}
		out := n.rm.CheckPermissionsBatch(breqs)
		if len(out) != len(breqs) {
			harnessFatal("C20: batch returned %d results for %d requests", len(out), len(breqs))
		}
		for i := range reqs {
			switch {
			case breqs[i].TokenInfo == nil:
				res[i] = "unauth"
				if out[i] == nil || out[i].Allowed {
					res[i] = "allow" // a request without token info must never be allowed
				}
			case out[i] != nil && out[i].Allowed:
				res[i] = "allow"
			default:
				res[i] = "deny"
			}
		}
	default:
		for i, q := range reqs {
			info := n.am.VerifyToken(vals[i])
			if info == nil {
				res[i] = "unauth"
				continue
			}
			if n.rm.CheckPermission(&auth.PermissionCheckRequest{TokenInfo: info, Database: q.DB, Measurement: q.Meas, Permission: q.Perm}).Allowed {
				res[i] = "allow"
			} else {
				res[i] = "deny"
			}
		}
	}
	return res
}

// oracle1 is the cache-free evaluation by the real code on throw-away managers.
func oracle1(n *authNode, q CheckReq, val string) string {
	info := auth.VerifShadowAuth(n.am).VerifyToken(val)
	if info == nil {
		return "unauth"
	}
	if auth.VerifShadowRBAC(n.rm).CheckPermission(&auth.PermissionCheckRequest{TokenInfo: info, Database: q.DB, Measurement: q.Meas, Permission: q.Perm}).Allowed {
		return "allow"
	}
	return "deny"
}

func (c *c20run) oracle2(n *authNode, s *snapshot, q CheckReq, val string, now time.Time) string {
	id, ok := c.owner[val]
	if !ok {
		return "unauth"
	}
	cur := s.cur
	if cur == nil {
		cur = c.curOf(n)
	}
	return s.decide(id, cur[id] == val, c.p.Knobs.Licensed, now, q)
}

// culprit finds the last operation after which the correct decision for this
// request changed on node n (fingerprint of the finding).
func (c *c20run) culprit(n *authNode, q CheckReq, val string, now time.Time) *snapshot {
	h := c.hist[n.name]
	// A value that is current now is followed through the history by token
	// identity (a rotation changes the value, not what the token may do).
	id, known := c.owner[val]
	byIdentity := known && c.curOf(n)[id] == val
	eval := func(s *snapshot) string {
		if byIdentity {
			return s.decide(id, true, c.p.Knobs.Licensed, now, q)
		}
		return c.oracle2(n, s, q, val, now)
	}
	last := eval(h[len(h)-1])
	for i := len(h) - 2; i >= 0; i-- {
		if eval(h[i]) != last {
			return h[i+1]
		}
	}
	return h[0]
}

func (c *c20run) check(o Op) {
	n := c.leader
	where := ""
	if o.Node == "follower" && c.follower != nil {
		n, where = c.follower, ".follower"
	}
	var reqs []CheckReq
	var vals []string
	for _, q := range o.Reqs {
		if v, ok := c.valueFor(q); ok {
			reqs, vals = append(reqs, q), append(vals, v)
		}
	}
	if len(reqs) == 0 {
		c.out.Stats["probe.op_skipped"]++
		return
	}
	h0, _ := auth.VerifRBACCacheStats(n.rm)
	t0 := simrt.Now()
	got := c.sutCheck(n, o.S, reqs, vals)
	h1, _ := auth.VerifRBACCacheStats(n.rm)
	if h1 > h0 {
		c.out.Stats["probe.check_served_from_perm_cache"] += h1 - h0
	}
	snap := takeSnapshot(n.db, c.opIdx, "check")
	for i, q := range reqs {
		want := oracle1(n, q, vals[i])
		want2 := c.oracle2(n, snap, q, vals[i], t0)
		if want != want2 {
			harnessFatal("MODEL-DISAGREEMENT C20 op %d node %s req %+v: cache-free real code says %s, independent evaluator says %s (plan knobs %+v)", c.opIdx, n.name, q, want, want2, c.p.Knobs)
		}
		c.judged++
		c.out.Stats["probe.decision_"+want]++
		simrt.Event("check %d node=%s via=%s tok=%d db=%s meas=%s perm=%s got=%s want=%s", c.opIdx, n.name, o.S, q.Tok, q.DB, q.Meas, q.Perm, got[i], want)
		if got[i] == want {
			continue
		}
		c.mism++
		cause := c.culprit(n, q, vals[i], t0)
		// Classify the stale state: did a cached entry survive the operation
		// (it was stored before the operation was invoked: nothing invalidated
		// it), or was it stored afterwards from data read before (a check that
		// ran concurrently with the operation)?
		permAt, tokAt := auth.VerifRBACEntryTimes(n.rm, c.owner[vals[i]], q.DB, q.Meas, q.Perm)
		class := "uncached"
		switch {
		case !permAt.IsZero() && permAt.Before(cause.start), permAt.IsZero() && !tokAt.IsZero() && tokAt.Before(cause.start),
			!permAt.IsZero() && !tokAt.IsZero() && tokAt.Before(cause.start):
			class = "survived"
		case !permAt.IsZero() || !tokAt.IsZero():
			class = "stored-after"
		}
		rule := fmt.Sprintf("C20.stale-%s.after-%s.%s%s", got[i], cause.kind, c.mode(), where)
		if class == "stored-after" && cause.raced {
			rule = fmt.Sprintf("C20.stale-%s.concurrent-check-vs-%s.%s%s", got[i], cause.kind, c.mode(), where)
		}
		c.out.Violate(rule,
			"op %d on %s (%s): token slot %d (id %d) %s on database %q measurement %q → decision %q, but a cache-free evaluation over the same SQLite state gives %q; the correct decision last changed at operation %d (%s, invoked at %s); cached decision stored at %s, cached token data loaded at %s → %s",
			c.opIdx, n.name, o.S, q.Tok, c.owner[vals[i]], q.Perm, q.DB, q.Meas, got[i], want, cause.opIdx, cause.kind, fmtT(cause.start), fmtT(permAt), fmtT(tokAt), class)
	}
}

func fmtT(t time.Time) string {
	if t.IsZero() {
		return "-"
	}
	return t.UTC().Format("15:04:05.000000000")
}

func (c *c20run) race(o Op) {
	var tasks []*simrt.Task
	ok := false
	tasks = append(tasks, simrt.Go("race-mutator", func() { ok = c.mutate(*o.Mut) }))
	for i := range o.Reqs {
		q := o.Reqs[i]
		d := 0
		if i < len(o.DelayUs) {
			d = o.DelayUs[i]
		}
		tasks = append(tasks, simrt.Go(fmt.Sprintf("race-checker%d", i), func() {
			if d > 0 {
				simrt.Sleep(time.Duration(d) * time.Microsecond)
			}
			if v, has := c.valueFor(q); has {
				c.sutCheck(c.leader, "direct", []CheckReq{q}, []string{v}) // not judged: overlaps the mutation
				c.out.Stats["probe.race_checks"]++
			}
		}))
	}
	for _, t := range tasks {
		simrt.Join(t)
	}
	if ok {
		c.snap(c.leader, o.Mut.K)
		h := c.hist[c.leader.name]
		h[len(h)-1].raced = true
	}
}

func runC20(planAny any, cfg simrt.Config) *simkit.Outcome {
	p := planAny.(*C20Plan)
	out := &simkit.Outcome{Stats: map[string]int64{}}
	dir := scratchDir()
	defer removeAll(dir)
	c := &c20run{p: p, out: out, dir: dir, owner: map[string]int64{}, curVal: map[int64]string{}, folVal: map[int64]string{}, hist: map[string][]*snapshot{}}
	res := simrt.Run(cfg, func() {
		if p.Knobs.Cluster {
			c.log = &simLog{resp: map[string]any{}}
		}
		c.leader = bootNode("leader", filepath.Join(dir, "leader", "auth.db"), p.Knobs, c.log, true)
		c.snap(c.leader, "start")
		if p.Knobs.Follower {
			c.follower = bootNode("follower", filepath.Join(dir, "follower", "auth.db"), p.Knobs, c.log, false)
			c.snap(c.follower, "start")
		}
		for i, o := range p.Ops {
			c.opIdx = i
			c.opStart = simrt.Now()
			switch o.K {
			case "check":
				c.check(o)
			case "advance":
				simrt.Sleep(dur(o.N))
			case "follower_apply":
				if c.follower != nil {
					before := c.follower.applied
					c.log.applyUpTo(c.follower, before+o.N)
					if c.follower.applied > before {
						c.snap(c.follower, "follower_apply")
					}
				}
			case "restart":
				if !p.Knobs.Cluster {
					c.leader.close()
					c.leader = bootNode("leader", c.leader.dbPath, p.Knobs, nil, true)
					out.Stats["probe.restarts"]++
				}
			case "race":
				c.race(o)
			default:
				if c.mutate(o) {
					c.snap(c.leader, o.K)
				}
			}
			if len(out.Violations) >= 3 {
				break
			}
		}
		out.Stats["probe.dbconn_waits"] += c.leader.gate.waits
		out.Stats["probe.materialise_errors"] += c.leader.applyErrs
		c.leader.close()
		if c.follower != nil {
			out.Stats["probe.materialise_errors"] += c.follower.applyErrs
			c.follower.close()
		}
	})
	out.Absorb(res)
	if len(res.Panics) > 0 {
		out.Violate("C20.panic", "%s", res.Panics[0])
		return out
	}
	out.Stats["probe.checks_judged"] += int64(c.judged)
	out.Stats["probe.mutations_applied"] += int64(c.mutOK)
	out.Nontrivial = c.judged > 0 && c.mutOK > 2
	return out
}

func shrinkC20(planAny any) []any {
	p := planAny.(*C20Plan)
	var out []any
	cp := func() *C20Plan {
		q := *p
		q.Ops = append([]Op(nil), p.Ops...)
		return &q
	}
	// drop chunks, then single operations (from the end: later ops rarely set up earlier ones)
	for size := len(p.Ops) / 2; size >= 2; size /= 2 {
		for start := 0; start+size <= len(p.Ops); start += size {
			q := cp()
			q.Ops = append(q.Ops[:start], q.Ops[start+size:]...)
			out = append(out, q)
		}
	}
	for i := len(p.Ops) - 1; i >= 0; i-- {
		q := cp()
		q.Ops = append(q.Ops[:i], q.Ops[i+1:]...)
		out = append(out, q)
	}
	for i, o := range p.Ops {
		if o.K == "race" {
			q := cp()
			q.Ops[i] = *o.Mut
			out = append(out, q)
			if len(o.Reqs) > 1 {
				for j := range o.Reqs {
					q := cp()
					no := o
					no.Reqs = append(append([]CheckReq(nil), o.Reqs[:j]...), o.Reqs[j+1:]...)
					no.DelayUs = nil
					q.Ops[i] = no
					out = append(out, q)
				}
			}
		}
		if o.K == "check" && len(o.Reqs) > 1 {
			for j := range o.Reqs {
				q := cp()
				no := o
				no.Reqs = append(append([]CheckReq(nil), o.Reqs[:j]...), o.Reqs[j+1:]...)
				q.Ops[i] = no
				out = append(out, q)
			}
		}
		if o.K == "check" && o.S != "direct" && len(o.Reqs) == 1 {
			q := cp()
			no := o
			no.S = "direct"
			q.Ops[i] = no
			out = append(out, q)
		}
	}
	if p.Knobs.Follower {
		q := cp()
		q.Knobs.Follower = false
		out = append(out, q)
	}
	if p.Knobs.YieldOnDB {
		q := cp()
		q.Knobs.YieldOnDB = false
		out = append(out, q)
	}
	if p.Knobs.RBACCacheMax < 100 {
		q := cp()
		q.Knobs.RBACCacheMax = 10000
		out = append(out, q)
	}
	if p.Knobs.RBACTTLMs != 300000 {
		q := cp()
		q.Knobs.RBACTTLMs = 300000
		out = append(out, q)
	}
	return out
}

func descC20(planAny any) any {
	p := planAny.(*C20Plan)
	kinds := map[string]int{}
	for _, o := range p.Ops {
		kinds[o.K]++
	}
	var ks []string
	for k, n := range kinds {
		ks = append(ks, fmt.Sprintf("%s×%d", k, n))
	}
	sort.Strings(ks)
	mode := "direct"
	if p.Knobs.Cluster {
		mode = "cluster-apply"
		if p.Knobs.Follower {
			mode += "+follower"
		}
	}
	fam := p.Family
	if fam == "" {
		fam = "general"
	}
	return map[string]any{"family": fam, "mode": mode, "licensed": p.Knobs.Licensed, "ops": len(p.Ops), "kinds": strings.Join(ks, " "),
		"rbac_cache_ttl_ms": p.Knobs.RBACTTLMs, "rbac_cache_max": p.Knobs.RBACCacheMax, "auth_cache_ttl_ms": p.Knobs.AuthTTLMs}
}
