//go:build verif

package main

// C21 — revoked, deleted or rotated token values stop authenticating
// immediately. One mutator task and 1–3 verifier tasks work on the same token
// on a real AuthManager (direct-database or cluster-apply mode); the scheduler
// interleaves them at every lock, select and database-connection step. Every
// call is stamped with a global event sequence number at invocation and at
// return; the oracle is the property text: no verification INVOKED AFTER the
// mutation RETURNED may succeed with the old value, an expired or never-issued
// value never authenticates.
//
// The AuthManager's own background tasks run too (simulated ticker): the cache
// janitor and the last_used_at writer. A share of the plans is "sweep-focused":
// the harness watches the janitor's sweeps (observation seam, arc's ticker and
// arc's sweep code), learns their period and phase from what it saw, lets cache
// entries of other tokens age past the configured TTL, re-authenticates the
// token under test shortly before the next sweep and places the concurrent
// phase (mutation + verifications) on that sweep. The oracle is the same.

import (
	"context"
	"fmt"
	"path/filepath"
	"time"

	"github.com/basekick-labs/arc/internal/auth"
	"github.com/basekick-labs/arc/internal/simrt"
	"github.com/basekick-labs/arc/internal/verifsim/simkit"
)

type VOp struct {
	DelayUs int    `json:"delay_us"` // sleep before the call
	Via     string `json:"via"`      // direct | bearer | token | plain | apikey
	Value   string `json:"value"`    // old | new | bogus
}

type Verifier struct {
	Node string `json:"node"` // leader | follower
	Ops  []VOp  `json:"ops"`
}

type C21Plan struct {
	Knobs      NodeKnobs  `json:"knobs"`
	Perms      string     `json:"perms"`
	ExpiryMs   int        `json:"expiry_ms"`  // >0: the token expires this long after creation (natural expiry)
	Bystanders int        `json:"bystanders"` // other tokens verified during warm-up (fill/evict the cache)
	Warm       []string   `json:"warm"`       // sequential verifications before the concurrent phase (via)
	Mut        string     `json:"mut"`        // revoke | delete | rotate | expire | none
	MutDelayUs int        `json:"mut_delay_us"`
	Verifiers  []Verifier `json:"verifiers"`
	Post       []VOp      `json:"post"`   // sequential verifications after all tasks joined
	LagUs      int        `json:"lag_us"` // follower apply lag
	Sweep      *SweepPlan `json:"sweep,omitempty"`
}

// SweepPlan places the concurrent phase on a sweep of the leader's token-cache
// janitor. Nothing about the janitor's period is assumed: it is measured.
type SweepPlan struct {
	Learn      int  `json:"learn"`        // sweeps observed before the targeted one (1: period = first sweep - boot, 2: period = distance of two sweeps)
	WarmPct    int  `json:"warm_pct"`     // the token under test is re-authenticated this share of the configured cache TTL before the predicted sweep
	LeadUs     int  `json:"lead_us"`      // the concurrent phase starts this long before the predicted sweep
	MutOnSweep bool `json:"mut_on_sweep"` // the mutator starts when the targeted sweep is seen to begin (else after mut_delay_us)
}

var vias = []string{"direct", "direct", "bearer", "token", "plain", "apikey"}

func genVOp(r *simrt.Rand, mut string, maxDelay int) VOp {
	o := VOp{Via: vias[r.Intn(len(vias))], Value: "old"}
	switch {
	case r.Chance(6):
		o.Value = "bogus"
	case mut == "rotate" && r.Chance(20):
		o.Value = "new"
	}
	switch r.Intn(4) {
	case 0:
	case 1:
		o.DelayUs = r.Intn(50)
	default:
		o.DelayUs = r.Intn(maxDelay + 1)
	}
	return o
}

func genC21(r *simrt.Rand, tier string) any {
	if r.Chance(30) {
		return genC21Sweep(r, tier)
	}
	p := &C21Plan{}
	p.Knobs = NodeKnobs{
		Cluster:      r.Chance(45),
		Licensed:     true,
		AuthTTLMs:    []int{1, 20, 500, 60000, 300000}[r.Intn(5)],
		AuthCacheMax: []int{1, 2, 3, 1000}[r.Intn(4)],
		RBACTTLMs:    30000, RBACCacheMax: 100,
		YieldOnDB: r.Chance(70),
	}
	if r.Chance(40) {
		p.Knobs.HoldYieldPct = []int{10, 30, 60}[r.Intn(3)]
	}
	p.Knobs.Follower = p.Knobs.Cluster && r.Chance(40)
	p.Perms = []string{"read", "read,write", "read,write,delete", "admin", ""}[r.Intn(5)]
	p.Mut = []string{"revoke", "revoke", "delete", "delete", "rotate", "rotate", "expire", "none"}[r.Intn(8)]
	maxDelay := []int{200, 2000, 20000}[r.Intn(3)]
	if r.Chance(25) {
		p.ExpiryMs = []int{1, 5, 30, 200}[r.Intn(4)]
		if maxDelay < p.ExpiryMs*1500 {
			maxDelay = p.ExpiryMs * 1500
		}
	}
	p.Bystanders = []int{0, 0, 1, 3}[r.Intn(4)]
	for i, n := 0, r.Intn(3); i < n; i++ {
		p.Warm = append(p.Warm, vias[r.Intn(len(vias))])
	}
	p.MutDelayUs = r.Intn(maxDelay + 1)
	nv := 1 + r.Intn(3)
	if tier == "thorough" && r.Chance(30) {
		nv++
	}
	for i := 0; i < nv; i++ {
		v := Verifier{Node: "leader"}
		if p.Knobs.Follower && r.Chance(40) {
			v.Node = "follower"
		}
		for j, n := 0, 1+r.Intn(4); j < n; j++ {
			v.Ops = append(v.Ops, genVOp(r, p.Mut, maxDelay))
		}
		p.Verifiers = append(p.Verifiers, v)
	}
	for i, n := 0, 1+r.Intn(3); i < n; i++ {
		o := genVOp(r, p.Mut, maxDelay)
		p.Post = append(p.Post, o)
	}
	p.LagUs = []int{0, 100, 5000, 100000}[r.Intn(4)]
	return p
}

// genC21Sweep draws a sweep-focused plan (see SweepPlan).
func genC21Sweep(r *simrt.Rand, tier string) *C21Plan {
	p := &C21Plan{}
	p.Knobs = NodeKnobs{
		Cluster:      r.Chance(40),
		Licensed:     true,
		AuthTTLMs:    []int{1, 20, 500, 500, 60000, 300000}[r.Intn(6)],
		AuthCacheMax: []int{1, 2, 3, 1000, 1000}[r.Intn(5)],
		RBACTTLMs:    30000, RBACCacheMax: 100,
		YieldOnDB: r.Chance(70),
	}
	if r.Chance(40) {
		p.Knobs.HoldYieldPct = []int{10, 30, 60}[r.Intn(3)]
	}
	p.Knobs.Follower = p.Knobs.Cluster && r.Chance(30)
	p.Perms = []string{"read", "read,write", "admin", ""}[r.Intn(4)]
	p.Mut = []string{"revoke", "revoke", "delete", "delete", "rotate", "rotate", "expire"}[r.Intn(7)]
	p.Bystanders = 1 + r.Intn(3)
	p.Sweep = &SweepPlan{Learn: 1 + r.Intn(2), WarmPct: []int{5, 25, 50, 90}[r.Intn(4)],
		LeadUs: []int{0, 0, 3, 30, 300, 3000}[r.Intn(6)], MutOnSweep: r.Chance(50)}
	maxDelay := []int{5, 50, 500}[r.Intn(3)]
	if !p.Sweep.MutOnSweep {
		p.MutDelayUs = r.Intn(maxDelay + 1)
	}
	for i, n := 0, r.Intn(3); i < n; i++ {
		v := Verifier{Node: "leader"}
		if p.Knobs.Follower && r.Chance(40) {
			v.Node = "follower"
		}
		for j, m := 0, 1+r.Intn(3); j < m; j++ {
			v.Ops = append(v.Ops, genVOp(r, p.Mut, maxDelay))
		}
		p.Verifiers = append(p.Verifiers, v)
	}
	for i, n := 0, 1+r.Intn(3); i < n; i++ {
		p.Post = append(p.Post, genVOp(r, p.Mut, maxDelay))
	}
	p.LagUs = []int{0, 100, 5000}[r.Intn(3)]
	return p
}

type vrec struct {
	node   string
	value  string
	via    string
	inv    int64 // event sequence number at invocation
	ret    int64
	invNs  int64 // wall clock (sim) at invocation
	ok     bool
	phase  string
	steps  int64
	holder string
}

type c21run struct {
	p        *C21Plan
	seq      int64
	leader   *authNode
	follower *authNode
	log      *simLog
	oldVal   string
	newVal   string
	tokenID  int64
	expires  time.Time
	recs     []vrec
	mutInv   int64
	mutRet   int64
	mutErr   error
	mutDone  bool
	mutPos   int   // log position of the mutation entry (cluster mode)
	folSeq   int64 // event number at which the follower finished applying the mutation entry
	stopFol  bool
	bystand  []string
	warmFail int
	sweeps   []sweepObs // janitor sweeps seen (both nodes)
	bootNs   int64      // sim time just before the leader was booted
	focused  bool       // sweep focus: the targeted sweep was predicted and the phase placed on it
	nextNs   int64      // sweep focus: predicted begin of the targeted sweep (sim ns)
	seenAt   int        // sweep focus: leader sweeps seen when the phase was placed
}

// sweepObs is one observed janitor sweep: event numbers at begin and end.
type sweepObs struct {
	node       string
	begin, end int64
	beginNs    int64
}

func (c *c21run) observeSweep(am *auth.AuthManager, begin bool) {
	node := ""
	switch {
	case c.leader != nil && am == c.leader.am:
		node = "leader"
	case c.follower != nil && am == c.follower.am:
		node = "follower"
	default:
		return // a manager that is still being constructed
	}
	if begin {
		c.sweeps = append(c.sweeps, sweepObs{node: node, begin: c.next(), beginNs: simrt.SimNow()})
		simrt.Event("sweep-begin node=%s", node)
		return
	}
	for i := len(c.sweeps) - 1; i >= 0; i-- {
		if c.sweeps[i].node == node && c.sweeps[i].end == 0 {
			c.sweeps[i].end = c.next()
			simrt.Event("sweep-end node=%s", node)
			return
		}
	}
}

func (c *c21run) leaderSweeps() (n int, lastNs, prevNs int64) {
	for _, s := range c.sweeps {
		if s.node == "leader" {
			n++
			prevNs, lastNs = lastNs, s.beginNs
		}
	}
	return
}

func (c *c21run) leaderSweepRunning() bool {
	for _, s := range c.sweeps {
		if s.node == "leader" && s.end == 0 {
			return true
		}
	}
	return false
}

// sweepOverlaps reports whether a sweep of that node's janitor was in progress
// at some point between event numbers from and to.
func (c *c21run) sweepOverlaps(node string, from, to int64) bool {
	for _, s := range c.sweeps {
		if s.node == node && s.begin < to && (s.end == 0 || s.end > from) {
			return true
		}
	}
	return false
}

func sleepUntil(ns int64) {
	if d := ns - simrt.SimNow(); d > 0 {
		simrt.Sleep(time.Duration(d))
	}
}

// awaitLeaderSweeps parks until n sweeps of the leader's janitor were seen or
// limit has passed (a tree whose janitor never runs must not hang the check).
func (c *c21run) awaitLeaderSweeps(n int, limit time.Duration) bool {
	if limit < time.Microsecond {
		limit = time.Microsecond
	}
	deadline := simrt.SimNow() + int64(limit)
	tm := simrt.NewTimer(limit)
	defer tm.Stop()
	simrt.Block("await-sweep", func() bool {
		k, _, _ := c.leaderSweeps()
		return k >= n || simrt.SimNow() >= deadline
	})
	k, _, _ := c.leaderSweeps()
	return k >= n
}

func (c *c21run) verifyBystander(i int) {
	if len(c.bystand) == 0 {
		return
	}
	if c.leader.am.VerifyToken(c.bystand[i%len(c.bystand)]) == nil {
		harnessFatal("C21: bystander token does not verify")
	}
}

// sweepFocus runs on the root task before the concurrent phase. It returns
// with the clock shortly before the predicted begin of the next leader sweep.
// Other tokens are authenticated at different stages, so that whatever the
// relation of TTL and sweep period is, one of their entries is older than the
// TTL when the targeted sweep runs; the token under test is re-authenticated
// less than one TTL before it.
func (c *c21run) sweepFocus() {
	sp := c.p.Sweep
	ttl, _ := auth.VerifAuthConfig(c.leader.am)
	limit := 4*ttl + time.Minute
	c.verifyBystander(0)
	for k := 1; k <= sp.Learn; k++ {
		if !c.awaitLeaderSweeps(k, limit) {
			simrt.Probe("sweep_focus_no_sweep_seen")
			return
		}
		// let the sweep finish, then age another token's entry from here
		simrt.Block("sweep-end", func() bool { return !c.leaderSweepRunning() })
		c.verifyBystander(k)
	}
	_, last, prev := c.leaderSweeps()
	period := last - prev
	if sp.Learn == 1 {
		period = last - c.bootNs
	}
	if period <= 0 {
		return
	}
	next := last + period
	warmAt := next - int64(ttl)*int64(sp.WarmPct)/100
	sleepUntil(warmAt)
	c.verify(c.leader, VOp{Via: "direct", Value: "old"}, "warm")
	if c.follower != nil {
		c.verify(c.follower, VOp{Via: "direct", Value: "old"}, "warm")
	}
	sleepUntil(next - int64(sp.LeadUs)*1000)
	c.focused, c.nextNs = true, next
	c.seenAt, _, _ = c.leaderSweeps()
	simrt.Probe("sweep_focus_placed")
}

func (c *c21run) next() int64 { c.seq++; return c.seq }

func (c *c21run) verify(n *authNode, o VOp, phase string) {
	var val string
	switch o.Value {
	case "old":
		val = c.oldVal
	case "new":
		if c.newVal == "" {
			return // rotation has not returned yet: the new value is not known to anybody
		}
		val = c.newVal
	default:
		val = "bogus-" + c.oldVal[:20] + "-never-issued-value-0123456789"
	}
	rec := vrec{node: n.name, value: o.Value, via: o.Via, phase: phase}
	rec.inv, rec.invNs, rec.steps = c.next(), simrt.Now().UnixNano(), simrt.Steps()
	simrt.Event("verify-inv node=%s value=%s via=%s seq=%d", n.name, o.Value, o.Via, rec.inv)
	if o.Via == "direct" {
		rec.ok = n.am.VerifyToken(val) != nil
	} else {
		st := n.httpGet("/whoami", val, o.Via, "", "")
		switch st {
		case 200:
			rec.ok = true
		case 401:
		default:
			harnessFatal("C21: /whoami returned status %d", st)
		}
	}
	rec.ret = c.next()
	simrt.Event("verify-ret node=%s value=%s ok=%v seq=%d", n.name, o.Value, rec.ok, rec.ret)
	c.recs = append(c.recs, rec)
}

func (c *c21run) mutate() {
	ctx := context.Background()
	am := c.leader.am
	c.mutInv = c.next()
	simrt.Event("mut-inv %s seq=%d", c.p.Mut, c.mutInv)
	var err error
	var nv string
	switch c.p.Mut {
	case "revoke":
		err = am.RevokeToken(ctx, c.tokenID)
	case "delete":
		err = am.DeleteToken(ctx, c.tokenID)
	case "rotate":
		nv, err = am.RotateToken(ctx, c.tokenID)
	case "expire":
		past := simrt.Now().Add(-time.Hour)
		err = am.UpdateToken(ctx, c.tokenID, nil, nil, nil, &past)
	}
	c.mutRet = c.next()
	c.mutErr, c.mutDone = err, true
	if err == nil && nv != "" {
		c.newVal = nv
	}
	if c.log != nil {
		c.mutPos = len(c.log.entries)
	}
	simrt.Event("mut-ret %s err=%v seq=%d", c.p.Mut, err != nil, c.mutRet)
}

func runC21(planAny any, cfg simrt.Config) *simkit.Outcome {
	p := planAny.(*C21Plan)
	out := &simkit.Outcome{Stats: map[string]int64{}}
	dir := scratchDir()
	defer removeAll(dir)
	c := &c21run{p: p}
	cfg.HoldYieldPct = p.Knobs.HoldYieldPct
	res := simrt.Run(cfg, func() {
		ctx := context.Background()
		if p.Knobs.Cluster {
			c.log = &simLog{resp: map[string]any{}}
		}
		auth.VerifObserveSweeps(c.observeSweep)
		c.bootNs = simrt.SimNow()
		c.leader = bootNode("leader", filepath.Join(dir, "leader", "auth.db"), p.Knobs, c.log, true)
		if p.Knobs.Follower {
			c.follower = bootNode("follower", filepath.Join(dir, "follower", "auth.db"), p.Knobs, c.log, false)
		}
		am := c.leader.am
		var exp *time.Time
		if p.ExpiryMs > 0 {
			t := simrt.Now().Add(dur(p.ExpiryMs))
			exp, c.expires = &t, t
		}
		perms := p.Perms
		if perms == "" {
			perms = auth.PermissionsNone
		}
		tok, err := am.CreateToken(ctx, "target", "token under test", perms, exp)
		if err != nil {
			harnessFatal("C21 CreateToken: %v", err)
		}
		c.oldVal = tok
		c.tokenID = c.leader.tokenIDByName("target")
		if c.tokenID == 0 {
			harnessFatal("C21: created token not listed")
		}
		for i := 0; i < p.Bystanders; i++ {
			b, err := am.CreateToken(ctx, fmt.Sprintf("by%d", i), "", "read", nil)
			if err != nil {
				harnessFatal("C21 CreateToken bystander: %v", err)
			}
			c.bystand = append(c.bystand, b)
		}
		if c.follower != nil {
			c.log.applyUpTo(c.follower, len(c.log.entries))
		}
		// warm-up: sequential, before the mutation is even invoked
		for i, via := range p.Warm {
			c.verify(c.leader, VOp{Via: via, Value: "old"}, "warm")
			if c.follower != nil && i == 0 {
				c.verify(c.follower, VOp{Via: via, Value: "old"}, "warm")
			}
			for _, b := range c.bystand {
				if am.VerifyToken(b) == nil {
					harnessFatal("C21: bystander token does not verify")
				}
			}
		}
		if p.Sweep != nil {
			c.sweepFocus()
		}
		// concurrent phase
		var tasks []*simrt.Task
		if p.Mut != "none" {
			tasks = append(tasks, simrt.Go("mutator", func() {
				if c.focused && p.Sweep.MutOnSweep {
					// start when the targeted sweep is seen to begin; the observation seam can miss a sweep
					// (see VerifObserveSweeps) and the prediction can be off, so do not wait long past it
					c.awaitLeaderSweeps(c.seenAt+1, time.Duration(c.nextNs-simrt.SimNow())+5*time.Millisecond)
				} else if p.MutDelayUs > 0 {
					simrt.Sleep(time.Duration(p.MutDelayUs) * time.Microsecond)
				}
				c.mutate()
			}))
		}
		for vi := range p.Verifiers {
			v := p.Verifiers[vi]
			n := c.leader
			if v.Node == "follower" && c.follower != nil {
				n = c.follower
			}
			tasks = append(tasks, simrt.Go(fmt.Sprintf("verifier%d", vi), func() {
				for _, o := range v.Ops {
					if o.DelayUs > 0 {
						simrt.Sleep(time.Duration(o.DelayUs) * time.Microsecond)
					}
					c.verify(n, o, "concurrent")
				}
			}))
		}
		var folTask *simrt.Task
		if c.follower != nil {
			folTask = simrt.Go("follower-apply", func() {
				for {
					if p.LagUs > 0 {
						simrt.Sleep(time.Duration(p.LagUs) * time.Microsecond)
					} else {
						simrt.Yield()
					}
					c.log.applyUpTo(c.follower, len(c.log.entries))
					if c.folSeq == 0 && c.mutDone && c.mutPos > 0 && c.follower.applied >= c.mutPos {
						c.folSeq = c.next()
						simrt.Event("follower-applied-mutation seq=%d", c.folSeq)
					}
					if c.stopFol && c.follower.applied >= len(c.log.entries) {
						return
					}
					if p.LagUs == 0 {
						simrt.Sleep(20 * time.Microsecond)
					}
				}
			})
		}
		for _, t := range tasks {
			simrt.Join(t)
		}
		if folTask != nil {
			c.stopFol = true
			simrt.Join(folTask)
			if c.folSeq == 0 && c.mutDone && c.mutPos > 0 && c.follower.applied >= c.mutPos {
				c.folSeq = c.next()
			}
		}
		// post phase: everything has returned
		for _, o := range p.Post {
			if o.DelayUs > 0 {
				simrt.Sleep(time.Duration(o.DelayUs) * time.Microsecond)
			}
			c.verify(c.leader, o, "post")
			if c.follower != nil {
				c.verify(c.follower, o, "post")
			}
		}
		out.Stats["probe.dbconn_waits"] += c.leader.gate.waits
		h, m, e := authCacheStats(c.leader)
		out.Stats["probe.auth_cache_hits"] += h
		out.Stats["probe.auth_cache_misses"] += m
		out.Stats["probe.auth_cache_evictions"] += e
		c.leader.close()
		if c.follower != nil {
			out.Stats["probe.materialise_errors"] += c.follower.applyErrs
			c.follower.close()
		}
		out.Stats["probe.materialise_errors"] += c.leader.applyErrs
	})
	auth.VerifObserveSweeps(nil)
	out.Absorb(res)
	if len(res.Panics) > 0 {
		out.Violate("C21.panic", "%s", res.Panics[0])
		return out
	}
	if res.Outcome != "ok" {
		return out // simkit reports dead-lock / step-limit as harness trouble
	}
	judgeC21(c, out)
	return out
}

func judgeC21(c *c21run, out *simkit.Outcome) {
	p := c.p
	mode := "direct"
	if p.Knobs.Cluster {
		mode = "cluster"
	}
	overlap, after := 0, 0
	for _, v := range c.recs {
		if v.value == "bogus" {
			if v.ok {
				out.Violate("C21.unissued-value-accepted", "a value that was never issued authenticated (via %s on %s)", v.via, v.node)
			}
			continue
		}
		if v.value == "new" {
			if v.ok {
				out.Stats["probe.new_value_accepted"]++
			} else {
				out.Stats["probe.new_value_rejected"]++
			}
			continue
		}
		// old value
		if !c.expires.IsZero() && v.invNs > c.expires.UnixNano() {
			out.Stats["probe.verify_after_expiry"]++
			if v.ok {
				out.Violate("C21.expired-token-accepted.natural-expiry."+mode,
					"token expired at %s; a verification invoked %s later (via %s on %s, phase %s) authenticated (cache TTL %dms)",
					c.expires.UTC().Format(time.RFC3339Nano), time.Duration(v.invNs-c.expires.UnixNano()), v.via, v.node, v.phase, p.Knobs.AuthTTLMs)
			}
		}
		if p.Mut == "none" || !c.mutDone {
			continue
		}
		ref := c.mutRet
		where := ""
		if v.node == "follower" {
			ref, where = c.folSeq, ".follower-apply"
			if ref == 0 {
				continue // the follower never applied the entry: nothing is promised yet
			}
		}
		if v.inv < ref && v.ret > c.mutInv {
			overlap++
		}
		if v.inv > ref {
			after++
			if c.mutErr != nil {
				continue // the mutation reported failure: no promise
			}
			out.Stats["probe.verify_after_mutation"]++
			// classification only: was that node's cache janitor sweeping while the mutation was applied there
			circ, from := "", c.mutInv
			if c.sweepOverlaps(v.node, from, ref) {
				circ = ".cache-sweep-concurrent"
				out.Stats["probe.verify_after_mutation_with_sweep"]++
			}
			if v.ok {
				out.Violate("C21.old-value-accepted-after-"+p.Mut+"-returned."+mode+where+circ,
					"%s of token %d returned at event %d; verification of the old value invoked at event %d (via %s on %s, phase %s) authenticated",
					p.Mut, c.tokenID, ref, v.inv, v.via, v.node, v.phase)
			}
		}
	}
	out.Stats["probe.verify_overlapping_mutation"] += int64(overlap)
	if c.mutDone && c.mutErr != nil {
		out.Stats["probe.mutation_error"]++
	}
	out.Stats["probe.janitor_sweeps_seen"] += int64(len(c.sweeps))
	if c.mutDone && c.sweepOverlaps("leader", c.mutInv, c.mutRet) {
		out.Stats["probe.mutation_overlapping_sweep"]++
	}
	out.Nontrivial = after > 0 && (overlap > 0 || out.Preempts > 0 || !c.expires.IsZero())
	if !c.expires.IsZero() && out.Stats["probe.verify_after_expiry"] > 0 {
		out.Nontrivial = true
	}
}

func shrinkC21(planAny any) []any {
	p := planAny.(*C21Plan)
	var out []any
	cp := func() *C21Plan {
		q := *p
		q.Warm = append([]string(nil), p.Warm...)
		q.Post = append([]VOp(nil), p.Post...)
		q.Verifiers = nil
		for _, v := range p.Verifiers {
			q.Verifiers = append(q.Verifiers, Verifier{Node: v.Node, Ops: append([]VOp(nil), v.Ops...)})
		}
		return &q
	}
	for i := range p.Verifiers {
		q := cp()
		q.Verifiers = append(q.Verifiers[:i], q.Verifiers[i+1:]...)
		out = append(out, q)
	}
	for i := range p.Verifiers {
		for j := range p.Verifiers[i].Ops {
			if len(p.Verifiers[i].Ops) > 1 {
				q := cp()
				q.Verifiers[i].Ops = append(q.Verifiers[i].Ops[:j], q.Verifiers[i].Ops[j+1:]...)
				out = append(out, q)
			}
		}
	}
	for i := range p.Post {
		q := cp()
		q.Post = append(q.Post[:i], q.Post[i+1:]...)
		out = append(out, q)
	}
	for i := range p.Warm {
		q := cp()
		q.Warm = append(q.Warm[:i], q.Warm[i+1:]...)
		out = append(out, q)
	}
	if p.Bystanders > 0 {
		q := cp()
		q.Bystanders = 0
		out = append(out, q)
	}
	if p.Knobs.Follower {
		q := cp()
		q.Knobs.Follower = false
		for i := range q.Verifiers {
			q.Verifiers[i].Node = "leader"
		}
		out = append(out, q)
	}
	if p.Knobs.HoldYieldPct > 0 {
		q := cp()
		q.Knobs.HoldYieldPct = 0
		out = append(out, q)
	}
	if p.Knobs.YieldOnDB {
		q := cp()
		q.Knobs.YieldOnDB = false
		out = append(out, q)
	}
	if p.Mut != "none" && p.ExpiryMs > 0 {
		q := cp()
		q.Mut = "none"
		out = append(out, q)
		q2 := cp()
		q2.ExpiryMs = 0
		out = append(out, q2)
	}
	zero := func(o *VOp) bool {
		ch := false
		if o.DelayUs != 0 {
			o.DelayUs, ch = 0, true
		}
		if o.Via != "direct" {
			o.Via, ch = "direct", true
		}
		return ch
	}
	for i := range p.Verifiers {
		for j := range p.Verifiers[i].Ops {
			q := cp()
			if zero(&q.Verifiers[i].Ops[j]) {
				out = append(out, q)
			}
		}
	}
	for i := range p.Post {
		q := cp()
		if zero(&q.Post[i]) {
			out = append(out, q)
		}
	}
	if p.MutDelayUs > 0 {
		q := cp()
		q.MutDelayUs = 0
		out = append(out, q)
	}
	if p.Sweep != nil {
		q := cp()
		q.Sweep = nil
		out = append(out, q)
		if p.Sweep.Learn > 1 {
			q := cp()
			sp := *p.Sweep
			sp.Learn = 1
			q.Sweep = &sp
			out = append(out, q)
		}
		if p.Sweep.LeadUs > 0 {
			q := cp()
			sp := *p.Sweep
			sp.LeadUs = 0
			q.Sweep = &sp
			out = append(out, q)
		}
	}
	return out
}

func descC21(planAny any) any {
	p := planAny.(*C21Plan)
	mode := "direct"
	if p.Knobs.Cluster {
		mode = "cluster-apply"
		if p.Knobs.Follower {
			mode += "+follower"
		}
	}
	nops := 0
	for _, v := range p.Verifiers {
		nops += len(v.Ops)
	}
	return map[string]any{"mode": mode, "mutation": p.Mut, "expiry_ms": p.ExpiryMs, "verifier_tasks": len(p.Verifiers), "concurrent_verifications": nops,
		"warm": len(p.Warm), "post": len(p.Post), "auth_cache_ttl_ms": p.Knobs.AuthTTLMs, "auth_cache_max": p.Knobs.AuthCacheMax, "yield_on_db": p.Knobs.YieldOnDB,
		"sweep_focused": p.Sweep != nil}
}
