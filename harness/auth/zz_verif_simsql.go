//go:build verif

package main

// Rule D-sql of DESIGN §2.2, realised in the harness: arc's auth database is
// opened with SetMaxOpenConns(1) and VerifyToken keeps its rows (and with them
// the only pooled connection) open across the cache insert. A second task that
// calls db.Exec then waits INSIDE database/sql, where the simulator cannot see
// it (the process would hang). Here the same SQLite file is re-opened (same
// DSN, read back from the handle arc created) through a driver wrapper:
//
//   - the physical pool is unlimited, so database/sql itself never blocks;
//   - a counting gate with the capacity arc configured (Stats().MaxOpenConnections
//     of arc's own handle) is acquired where database/sql takes a connection
//     (Connector.Connect for a new one, SessionResetter.ResetSession for a
//     pooled one) and released where database/sql returns it to the pool
//     (Validator.IsValid, called by putConn) or discards it (Close);
//   - waiting for the gate is simrt.Block: visible to the scheduler.
//
// The observable semantics are those of a pool of the configured size: a
// statement, an open *sql.Rows or a transaction occupies one slot from
// acquisition until release. A mutated tree that raises the pool size or
// closes rows earlier gets exactly that behaviour.

import (
	"context"
	"database/sql"
	"database/sql/driver"
	"fmt"
	"reflect"

	"github.com/basekick-labs/arc/internal/simrt"
)

type connGate struct {
	capacity int
	inUse    int
	yield    bool // extra schedule point before every connection acquisition
	waits    int64
	acquires int64
	maxInUse int
}

func (g *connGate) acquire() {
	g.acquires++
	if simrt.Active() && !simrt.Killed() {
		if g.yield {
			simrt.Yield()
		}
		if g.inUse >= g.capacity {
			g.waits++
			simrt.Probe("dbconn_wait")
		}
		simrt.Block("dbconn", func() bool { return g.inUse < g.capacity })
	}
	g.inUse++
	if g.inUse > g.maxInUse {
		g.maxInUse = g.inUse
	}
}

func (g *connGate) release() {
	g.inUse--
	if g.inUse < 0 {
		panic("HARNESS: connGate released more often than acquired")
	}
}

type gateConnector struct {
	dsn string
	drv driver.Driver
	g   *connGate
}

func (c *gateConnector) Connect(ctx context.Context) (driver.Conn, error) {
	c.g.acquire()
	conn, err := c.drv.Open(c.dsn)
	if err != nil {
		c.g.release()
		return nil, err
	}
	return &gateConn{inner: conn, g: c.g, held: true}, nil
}

func (c *gateConnector) Driver() driver.Driver { return c.drv }

type gateConn struct {
	inner driver.Conn
	g     *connGate
	held  bool
}

func (c *gateConn) Prepare(q string) (driver.Stmt, error) { return c.inner.Prepare(q) }
func (c *gateConn) Begin() (driver.Tx, error)             { return c.inner.Begin() } //nolint
func (c *gateConn) Close() error {
	if c.held {
		c.held = false
		c.g.release()
	}
	return c.inner.Close()
}
func (c *gateConn) PrepareContext(ctx context.Context, q string) (driver.Stmt, error) {
	return c.inner.(driver.ConnPrepareContext).PrepareContext(ctx, q)
}
func (c *gateConn) BeginTx(ctx context.Context, o driver.TxOptions) (driver.Tx, error) {
	return c.inner.(driver.ConnBeginTx).BeginTx(ctx, o)
}
func (c *gateConn) ExecContext(ctx context.Context, q string, a []driver.NamedValue) (driver.Result, error) {
	return c.inner.(driver.ExecerContext).ExecContext(ctx, q, a)
}
func (c *gateConn) QueryContext(ctx context.Context, q string, a []driver.NamedValue) (driver.Rows, error) {
	return c.inner.(driver.QueryerContext).QueryContext(ctx, q, a)
}
func (c *gateConn) Ping(ctx context.Context) error { return c.inner.(driver.Pinger).Ping(ctx) }

// ResetSession is called by database/sql when a pooled connection is handed
// out again: the acquisition point for a cached connection.
func (c *gateConn) ResetSession(ctx context.Context) error {
	if !c.held {
		c.g.acquire()
		c.held = true
	}
	return nil
}

// IsValid is called by database/sql (putConn) when a connection goes back to
// the pool: the release point.
func (c *gateConn) IsValid() bool {
	if c.held {
		c.held = false
		c.g.release()
	}
	return true
}

// dsnOf reads the data source name out of a *sql.DB created by sql.Open
// (unexported sql.dsnConnector.dsn; read-only reflection, no unsafe).
func dsnOf(db *sql.DB) (string, error) {
	v := reflect.ValueOf(db).Elem().FieldByName("connector")
	if !v.IsValid() || v.IsNil() {
		return "", fmt.Errorf("sql.DB has no connector field")
	}
	cv := v.Elem()
	if cv.Kind() == reflect.Ptr {
		cv = cv.Elem()
	}
	f := cv.FieldByName("dsn")
	if !f.IsValid() || f.Kind() != reflect.String {
		return "", fmt.Errorf("sql.DB connector %s has no dsn", cv.Type())
	}
	return f.String(), nil
}

// gateDB re-opens the database behind orig through the gate. orig is closed.
func gateDB(orig *sql.DB, yield bool) (*sql.DB, *connGate, error) {
	dsn, err := dsnOf(orig)
	if err != nil {
		return nil, nil, err
	}
	capN := orig.Stats().MaxOpenConnections
	if capN <= 0 {
		capN = 1 << 20 // unlimited pool configured by the code under test
	}
	drv := orig.Driver()
	if err := orig.Close(); err != nil {
		return nil, nil, err
	}
	g := &connGate{capacity: capN, yield: yield}
	db := sql.OpenDB(&gateConnector{dsn: dsn, drv: drv, g: g})
	db.SetMaxOpenConns(0)
	db.SetMaxIdleConns(16)
	return db, g, nil
}
