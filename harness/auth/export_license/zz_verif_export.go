//go:build verif

package license

// VerifNewClient returns a network-free client that already holds the given
// license (stub for the licence server; used to switch the RBAC feature on).
func VerifNewClient(l *License) *Client {
	return &Client{offline: true, license: l, stopCh: make(chan struct{})}
}
