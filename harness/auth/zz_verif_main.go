//go:build verif

// Area auth: properties C20 (permission decisions reflect the current RBAC
// state) and C21 (revoked/deleted/rotated token values stop authenticating
// immediately). See /verif/DESIGN.md §5.
package main

import (
	"os"

	"github.com/rs/zerolog"

	"github.com/basekick-labs/arc/internal/auth"
	"github.com/basekick-labs/arc/internal/verifsim/simkit"
)

func removeAll(dir string) { os.RemoveAll(dir) }

func authCacheStats(n *authNode) (int64, int64, int64) { return auth.VerifAuthCacheStats(n.am) }

func main() {
	zerolog.SetGlobalLevel(zerolog.Disabled)
	if os.Getenv("VERIF_LOG") != "" {
		zerolog.SetGlobalLevel(zerolog.DebugLevel)
	}
	simkit.Main(
		&simkit.Check{ID: "C20", Gen: genC20, New: func() any { return &C20Plan{} }, Run: runC20, Shrink: shrinkC20, Desc: descC20},
		&simkit.Check{ID: "C21", Gen: genC21, New: func() any { return &C21Plan{} }, Run: runC21, Shrink: shrinkC21, Desc: descC21},
	)
}
