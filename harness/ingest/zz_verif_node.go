//go:build verif

package main

import (
	"bytes"
	"context"
	"fmt"
	"io"
	"os"
	"path/filepath"
	"runtime/debug"
	"runtime/metrics"
	"sort"
	"strings"
	"time"

	"github.com/apache/arrow-go/v18/arrow"
	"github.com/apache/arrow-go/v18/arrow/array"
	"github.com/apache/arrow-go/v18/arrow/memory"
	"github.com/apache/arrow-go/v18/parquet/file"
	"github.com/apache/arrow-go/v18/parquet/pqarrow"
	"github.com/gofiber/fiber/v2"
	"github.com/gofiber/fiber/v2/middleware/recover"
	"github.com/rs/zerolog"
	"github.com/valyala/fasthttp"

	"github.com/basekick-labs/arc/internal/api"
	"github.com/basekick-labs/arc/internal/config"
	"github.com/basekick-labs/arc/internal/ingest"
	"github.com/basekick-labs/arc/internal/shutdown"
	"github.com/basekick-labs/arc/internal/simrt"
	"github.com/basekick-labs/arc/internal/storage"
	"github.com/basekick-labs/arc/internal/wal"
)

// Knobs are the per-run tuning values (randomised so correctness never
// depends on one configuration).
type Knobs struct {
	MaxBufferSize   int  `json:"max_buffer_size"`
	MaxBufferAgeMS  int  `json:"max_buffer_age_ms"`
	FlushWorkers    int  `json:"flush_workers"`
	ShardCount      int  `json:"shard_count"`
	FlushQueueSize  int  `json:"flush_queue_size"`
	WAL             bool `json:"wal"`
	WALBufferSize   int  `json:"wal_buffer_size"`
	WALMaxAgeS      int  `json:"wal_max_age_s"`
	WALRecoveryIntS int  `json:"wal_recovery_interval_s"`
	WALBatch        int  `json:"wal_recovery_batch"`
	FlushTimeoutS   int  `json:"flush_timeout_s"`
	StorageLatencyU int  `json:"storage_latency_us"` // simulated latency per storage write
	// CtxAwareStorage makes the backend honour context cancellation the way
	// the S3/Azure backends do (LocalBackend itself ignores ctx).
	CtxAwareStorage bool `json:"ctx_aware_storage"`
}

// faultBackend wraps the real LocalBackend: per-write seeded outcomes.
type faultBackend struct {
	storage.Backend
	n         *node
	writes    int
	failUntil int64 // sim ns: writes fail while SimNow() < failUntil
	failFrom  int64
	failIdx   map[int]bool // write indexes that fail
	flapPct   int          // flapping storage: each write fails with this probability (a function of its index and flapSalt)
	flapSalt  int64
	latencyUs int
	Written   []string
	ctxAware  bool
	Cancelled map[string]int // "db/meas" -> writes refused because ctx was already cancelled
	Failed    map[string]int // "db/meas" -> writes failed by injected outage
}

func dbMeasOf(path string) string {
	parts := strings.SplitN(path, "/", 3)
	if len(parts) < 2 {
		return path
	}
	return parts[0] + "/" + parts[1]
}

func (f *faultBackend) Write(ctx context.Context, path string, data []byte) error {
	idx := f.writes
	f.writes++
	if f.latencyUs > 0 {
		simrt.Sleep(time.Duration(f.latencyUs) * time.Microsecond)
	}
	now := simrt.SimNow()
	if f.failIdx[idx] || (now >= f.failFrom && now < f.failUntil) || (f.flapPct > 0 && int(mix64(int64(idx)+f.flapSalt, "flap")%100) < f.flapPct) {
		simrt.Count("fault.storage_write_err", 1)
		simrt.Event("STORAGE-FAIL write#%d %s", idx, path)
		f.Failed[dbMeasOf(path)]++
		return fmt.Errorf("simulated storage outage (write #%d)", idx)
	}
	if f.ctxAware {
		if err := ctx.Err(); err != nil {
			f.Cancelled[dbMeasOf(path)]++
			simrt.Count("probe.storage_write_ctx_cancelled", 1)
			simrt.Event("STORAGE-CTX-CANCELLED write#%d %s", idx, path)
			return err
		}
	}
	err := f.Backend.Write(ctx, path, data)
	if err == nil {
		f.Written = append(f.Written, path)
		simrt.Event("STORAGE-WRITE %s", path)
	}
	return err
}

type node struct {
	name    string
	sn      *simrt.Node
	root    string // scratch root of this node
	dataDir string
	walDir  string
	cfg     *config.Config
	knobs   Knobs
	local   *storage.LocalBackend
	fb      *faultBackend
	coord   *shutdown.Coordinator
	buf     *ingest.ArrowBuffer
	walw    *wal.Writer
	app     *fiber.App
	handler fasthttp.RequestHandler
	boots   int
	closed  bool
	// inShutdown: the harness is inside coord.Shutdown() (set by n.shutdown)
	inShutdown bool
	// heap bytes allocated by the process while the last post() was inside
	// the handler (one task runs at a time, so this is the request plus
	// whatever background tasks were scheduled meanwhile)
	lastAlloc uint64
}

var allocSample = []metrics.Sample{{Name: "/gc/heap/allocs:bytes"}}

func heapAllocated() uint64 {
	metrics.Read(allocSample)
	if allocSample[0].Value.Kind() != metrics.KindUint64 {
		return 0
	}
	return allocSample[0].Value.Uint64()
}

// allocBlowup is the amount of heap one request of at most a few MiB may not
// make the process allocate: three orders of magnitude above the largest body
// any harness sends, and enough to get a server in a 1-2 GiB container killed.
const allocBlowup = 1 << 30

var quietLogger = zerolog.New(io.Discard).Level(zerolog.Disabled)

func harnessLogger() zerolog.Logger {
	if os.Getenv("VERIF_LOG") != "" {
		return zerolog.New(os.Stderr).Level(zerolog.DebugLevel)
	}
	return quietLogger
}

func newNode(name, root string, k Knobs) *node {
	n := &node{name: name, root: root, knobs: k}
	n.sn = simrt.NodeOf(name)
	n.dataDir = filepath.Join(root, "data")
	n.walDir = filepath.Join(root, "wal")
	cfg := &config.Config{}
	cfg.Ingest = config.IngestConfig{
		MaxBufferSize: k.MaxBufferSize, MaxBufferAgeMS: k.MaxBufferAgeMS, Compression: "snappy",
		WriteStatistics: true, DataPageVersion: "2.0", FlushWorkers: k.FlushWorkers, FlushQueueSize: k.FlushQueueSize,
		ShardCount: k.ShardCount, FlushTimeoutSeconds: k.FlushTimeoutS, DefaultSortKeys: "time",
	}
	cfg.WAL = config.WALConfig{Enabled: k.WAL, Directory: n.walDir, SyncMode: "fdatasync", MaxSizeMB: 1,
		MaxAgeSeconds: k.WALMaxAgeS, RecoveryIntervalSeconds: k.WALRecoveryIntS, RecoveryBatchSize: k.WALBatch, BufferSize: k.WALBufferSize}
	n.cfg = cfg
	return n
}

// boot runs the real start-up code extracted from main() on this node. It
// must be called from a task of the node (see onNode).
func (n *node) boot() error {
	n.boots++
	local, err := storage.NewLocalBackend(n.dataDir, harnessLogger())
	if err != nil {
		return err
	}
	n.local = local
	fb := &faultBackend{Backend: local, n: n, failIdx: map[int]bool{}, latencyUs: n.knobs.StorageLatencyU,
		ctxAware: n.knobs.CtxAwareStorage, Cancelled: map[string]int{}, Failed: map[string]int{}}
	if n.fb != nil {
		fb.failFrom, fb.failUntil = n.fb.failFrom, n.fb.failUntil
		fb.flapPct, fb.flapSalt = n.fb.flapPct, n.fb.flapSalt+1000
	}
	n.fb = fb
	n.coord = shutdown.New(60*time.Second, harnessLogger())
	n.buf, n.walw = simBootIngest(n.cfg, n.fb, n.coord)
	app := fiber.New(fiber.Config{DisableStartupMessage: true, BodyLimit: 64 << 20})
	// same first middleware as api.NewServer: a panic inside a request handler
	// becomes a 500 answer, it does not take the process down. (A panic in a
	// background task is not covered by it and is what C04 watches for.)
	app.Use(recover.New(recover.Config{EnableStackTrace: false}))
	mp := api.NewMsgPackHandler(harnessLogger(), n.buf, 1<<20) // 1 MiB payload cap (same code path as the default, cheaper bombs)
	mp.RegisterRoutes(app)
	lp := api.NewLineProtocolHandler(n.buf, harnessLogger())
	lp.RegisterRoutes(app)
	n.app = app
	n.handler = app.Handler()
	return nil
}

// shutdown runs the graceful shutdown and tells the monitors about it.
func (n *node) shutdown() {
	n.inShutdown = true
	n.coord.Shutdown()
	n.inShutdown = false
}

// onNode runs f as a task of the node and waits for it; returns false when
// the node crashed while f was running.
func (n *node) onNode(what string, f func()) bool {
	done := false
	h := simrt.GoOn(what, n.sn, func() { f(); done = true })
	simrt.Join(h)
	return done
}

// post issues an in-process HTTP request (must run on a node task).
func (n *node) post(path string, headers map[string]string, body []byte) (int, string) {
	var ctx fasthttp.RequestCtx
	ctx.Init(&fasthttp.Request{}, nil, nil)
	ctx.Request.Header.SetMethod("POST")
	ctx.Request.SetRequestURI(path)
	for k, v := range headers {
		ctx.Request.Header.Set(k, v)
	}
	// exact-capacity private copy: nothing stale behind the body, no pooled buffer
	own := make([]byte, len(body))
	copy(own, body)
	ctx.Request.SetBodyRaw(own)
	a0 := heapAllocated()
	n.handler(&ctx)
	n.lastAlloc = heapAllocated() - a0
	if n.lastAlloc >= allocBlowup {
		// give the pages back at once: 14 workers each sitting on a
		// multi-GiB garbage span starve the machine
		debug.FreeOSMemory()
	}
	st, rb := ctx.Response.StatusCode(), string(ctx.Response.Body())
	// fasthttp reuses the request buffer for the next request on the
	// connection: nothing may alias the body after the handler returned.
	// Scribbling it makes any retained alias visible (cooperative fault point).
	for i := range own {
		own[i] = 0xAA
	}
	return st, rb
}

// ---------------------------------------------------------------------------
// read-back: every .parquet under dataDir decoded with arrow-go's pqarrow

type storedRow struct {
	File string
	Vals map[string]any // column -> value (nil = NULL); time as int64 µs
}

func readParquetFile(path string) ([]map[string]any, error) {
	b, err := os.ReadFile(path)
	if err != nil {
		return nil, err
	}
	rdr, err := file.NewParquetReader(bytes.NewReader(b))
	if err != nil {
		return nil, fmt.Errorf("open parquet: %w", err)
	}
	defer rdr.Close()
	fr, err := pqarrow.NewFileReader(rdr, pqarrow.ArrowReadProperties{}, memory.DefaultAllocator)
	if err != nil {
		return nil, err
	}
	tbl, err := fr.ReadTable(context.Background())
	if err != nil {
		return nil, err
	}
	defer tbl.Release()
	nrows := int(tbl.NumRows())
	rows := make([]map[string]any, nrows)
	for i := range rows {
		rows[i] = map[string]any{}
	}
	for ci := 0; ci < int(tbl.NumCols()); ci++ {
		col := tbl.Column(ci)
		name := col.Name()
		off := 0
		for _, chunk := range col.Data().Chunks() {
			for i := 0; i < chunk.Len(); i++ {
				rows[off+i][name] = cell(chunk, i)
			}
			off += chunk.Len()
		}
	}
	return rows, nil
}

func cell(a arrow.Array, i int) any {
	if a.IsNull(i) {
		return nil
	}
	switch x := a.(type) {
	case *array.Int64:
		return x.Value(i)
	case *array.Float64:
		return x.Value(i)
	case *array.String:
		return x.Value(i)
	case *array.LargeString:
		return x.Value(i)
	case *array.Binary:
		return string(x.Value(i))
	case *array.Boolean:
		return x.Value(i)
	case *array.Timestamp:
		u := x.DataType().(*arrow.TimestampType).Unit
		v := int64(x.Value(i))
		switch u {
		case arrow.Second:
			return v * 1_000_000
		case arrow.Millisecond:
			return v * 1000
		case arrow.Microsecond:
			return v
		default:
			return v / 1000
		}
	case *array.Dictionary:
		return cell(x.Dictionary(), x.GetValueIndex(i))
	default:
		return fmt.Sprintf("%v", a.ValueStr(i))
	}
}

// readAll returns every stored row under dataDir with its file (relative).
func (n *node) readAll() ([]storedRow, []string, error) {
	var out []storedRow
	var files []string
	err := filepath.WalkDir(n.dataDir, func(p string, d os.DirEntry, err error) error {
		if err != nil {
			if os.IsNotExist(err) {
				return nil
			}
			return err
		}
		if d.IsDir() || !strings.HasSuffix(p, ".parquet") {
			return nil
		}
		rel, _ := filepath.Rel(n.dataDir, p)
		files = append(files, rel)
		rows, err := readParquetFile(p)
		if err != nil {
			return fmt.Errorf("%s: %w", rel, err)
		}
		for _, r := range rows {
			out = append(out, storedRow{File: rel, Vals: r})
		}
		return nil
	})
	sort.Strings(files)
	return out, files, err
}

func hourDir(db, meas string, us int64) string {
	// floor division for pre-1970 timestamps
	const hourUS = int64(3600) * 1_000_000
	h := us / hourUS
	if us%hourUS < 0 {
		h--
	}
	t := time.Unix(h*3600, 0).UTC()
	return fmt.Sprintf("%s/%s/%04d/%02d/%02d/%02d", db, meas, t.Year(), int(t.Month()), t.Day(), t.Hour())
}

// walDeleteMonitor checks, at the instant start-up or periodic WAL recovery
// removes a file it has just replayed, that every row of every intact entry of
// that file is already in a complete Parquet file. (A removal by the purge
// paths — no preceding read of the file by the same task — is not judged here:
// purge-by-age and purge-on-shutdown assume the rows were flushed long ago,
// and what they lose is judged by the end-of-run oracle.)
type walDeleteMonitor struct {
	n        *node
	opened   map[int]map[string]bool // task id -> wal paths it opened for reading
	Early    int                     // recovery removed a file whose rows were not all stored
	EarlyMsg string
	Checked  int
	// ghostDir != "": every WAL file a purge pass (not recovery, not the
	// shutdown hook) is about to unlink gets a hard link there first, so that
	// the harness can still read the inode afterwards. A WAL writer that keeps
	// appending to a file after it was unlinked produces entries no replay can
	// ever see; appendedAfterUnlink() returns their row ids. Arc never looks at
	// ghostDir, and a hard link changes neither size nor mtime of the file.
	ghostDir string
	ghosts   []*ghostWAL
	// sim time of the last listing of the WAL directory by the node (every
	// maintenance tick starts with one): lets a workload place writes around
	// the next tick, whose period it reads from the running configuration
	lastGlobNS int64
}

type ghostWAL struct {
	name   string // base name of the purged file
	link   string
	before map[int64]bool // rids of intact entries at the instant of the unlink
	atNS   int64
}

// appendedAfterUnlink returns, per row id, the name of the purged WAL file
// its entry was appended to after the purge had already unlinked that file.
func (m *walDeleteMonitor) appendedAfterUnlink() map[int64]string {
	out := map[int64]string{}
	for _, g := range m.ghosts {
		after := map[int64]bool{}
		walFileRids(g.link, after)
		for id := range after {
			if !g.before[id] {
				out[id] = g.name
			}
		}
	}
	return out
}

func (n *node) watchWALDeletes() *walDeleteMonitor {
	m := &walDeleteMonitor{n: n, opened: map[int]map[string]bool{}}
	simrt.SetFSObserver(func(op *simrt.FSOp, err error) {
		t := simrt.CurTask()
		if t == nil {
			return
		}
		if op.Kind == "glob" {
			m.lastGlobNS = simrt.SimNow()
			// every purge pass and every recovery pass starts by listing the WAL
			// directory: what this task read in an earlier pass no longer counts
			delete(m.opened, t.ID())
			return
		}
		if err != nil && op.Kind == "remove" && len(m.ghosts) > 0 && m.ghosts[len(m.ghosts)-1].name == filepath.Base(op.Path) {
			// the unlink did not happen after all
			os.Remove(m.ghosts[len(m.ghosts)-1].link)
			m.ghosts = m.ghosts[:len(m.ghosts)-1]
			return
		}
		if err != nil || op.Kind != "open" || !strings.HasSuffix(op.Path, ".wal") {
			return
		}
		if m.opened[t.ID()] == nil {
			m.opened[t.ID()] = map[string]bool{}
		}
		m.opened[t.ID()][op.Path] = true
	})
	simrt.SetFSPreObserver(func(op *simrt.FSOp) {
		if op.Kind != "remove" || !strings.HasSuffix(op.Path, ".wal") {
			return
		}
		t := simrt.CurTask()
		if t == nil || !m.opened[t.ID()][op.Path] {
			// a purge, not a recovery delete
			if m.ghostDir != "" && !n.inShutdown {
				g := &ghostWAL{name: filepath.Base(op.Path), before: map[int64]bool{}, atNS: simrt.SimNow()}
				g.link = filepath.Join(m.ghostDir, fmt.Sprintf("%03d-%s", len(m.ghosts), g.name))
				if os.Link(op.Path, g.link) == nil {
					walFileRids(g.link, g.before)
					m.ghosts = append(m.ghosts, g)
				}
			}
			return
		}
		delete(m.opened[t.ID()], op.Path)
		rids := map[int64]bool{}
		walFileRids(op.Path, rids)
		if len(rids) == 0 {
			return
		}
		m.Checked++
		stored := n.parquetRids()
		missing := 0
		var first int64
		for id := range rids {
			if !stored[id] {
				if missing == 0 || id < first {
					first = id
				}
				missing++
			}
		}
		if missing > 0 {
			m.Early++
			if m.EarlyMsg == "" {
				m.EarlyMsg = fmt.Sprintf("recovery removed %s after replaying it although %d of its %d rows (first rid %d) are in no complete Parquet file yet", filepath.Base(op.Path), missing, len(rids), first)
			}
			simrt.Event("WAL-RECOVERY-DELETE-EARLY %s missing=%d", filepath.Base(op.Path), missing)
		}
	})
	return m
}
