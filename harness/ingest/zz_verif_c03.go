//go:build verif

package main

import (
	"context"
	"fmt"
	"os"
	"path/filepath"
	"sort"
	"strings"
	"sync/atomic"
	"time"

	"github.com/basekick-labs/arc/internal/simrt"
	"github.com/basekick-labs/arc/internal/verifsim/simkit"
)

var scratchSeq atomic.Int64

func scratchBase() string {
	b := os.Getenv("VERIF_SCRATCH")
	if b == "" {
		b = "/dev/shm"
	}
	return b
}

func mkScratch() string {
	d := filepath.Join(scratchBase(), fmt.Sprintf("verif-run.%d.%d", os.Getpid(), scratchSeq.Add(1)))
	os.RemoveAll(d)
	os.MkdirAll(d, 0o755)
	return d
}

// C03Plan: concurrent writers, then a final flush/shutdown; schedules and
// clock only (no storage errors, queue large enough never to overflow).
type C03Plan struct {
	Knobs   Knobs   `json:"knobs"`
	Writers [][]WOp `json:"writers"`
	Final   string  `json:"final"` // flushall+shutdown | shutdown | idle+shutdown
	IdleMS  int     `json:"idle_ms"`
}

func genKnobs(r *simrt.Rand) Knobs {
	return Knobs{
		MaxBufferSize:   []int{2, 3, 5, 8, 16, 64}[r.Intn(6)],
		MaxBufferAgeMS:  []int{1, 5, 50, 500, 5000}[r.Intn(5)],
		FlushWorkers:    1 + r.Intn(4),
		ShardCount:      []int{1, 2, 8}[r.Intn(3)],
		FlushQueueSize:  1000,
		WAL:             r.Chance(50),
		WALBufferSize:   1000,
		WALMaxAgeS:      3600,
		WALRecoveryIntS: 300,
		WALBatch:        []int{1, 3, 10000}[r.Intn(3)],
		FlushTimeoutS:   30,
		StorageLatencyU: []int{0, 0, 50, 2000}[r.Intn(4)],
		CtxAwareStorage: r.Chance(40),
	}
}

func genC03(r *simrt.Rand, tier string) any {
	p := &C03Plan{Knobs: genKnobs(r)}
	g := &genCtx{r: r, baseUS: time.Date(2026, 3, 1, 12, 30, 0, 0, time.UTC).UnixMicro()}
	nw := 1 + r.Intn(4)
	dbs := []string{"db1", "db2", "prod"}[:1+r.Intn(3)]
	meass := []string{"cpu", "mem", "cpu_total"}[:1+r.Intn(3)]
	budget := 6 + r.Intn(20)
	if tier == "thorough" {
		budget = 6 + r.Intn(50)
	}
	kinds := []string{"col", "mp", "mprow", "lp"}
	for w := 0; w < nw; w++ {
		var ops []WOp
		nops := 1 + r.Intn(budget/nw+1)
		for i := 0; i < nops; i++ {
			op := WOp{B: g.genBatch(kinds, dbs, meass, 8, true)}
			switch r.Intn(4) {
			case 0:
				op.SleepUs = int64(r.Intn(2000))
			case 1:
				op.SleepUs = int64(r.Intn(p.Knobs.MaxBufferAgeMS*1500 + 1))
			}
			ops = append(ops, op)
		}
		p.Writers = append(p.Writers, ops)
	}
	p.Final = []string{"flushall+shutdown", "shutdown", "idle+shutdown"}[r.Intn(3)]
	p.IdleMS = r.Intn(p.Knobs.MaxBufferAgeMS*3 + 2)
	return p
}

type ackRec struct {
	b     *Batch
	acked bool
	det   string
}

func runC03(planAny any, cfg simrt.Config) *simkit.Outcome {
	p := planAny.(*C03Plan)
	out := &simkit.Outcome{}
	root := mkScratch()
	defer os.RemoveAll(root)
	var acks []*ackRec
	var n *node
	res := simrt.Run(cfg, func() {
		simrt.SetPathRoot(root)
		n = newNode("n1", root, p.Knobs)
		if !n.onNode("boot", func() {
			if err := n.boot(); err != nil {
				panic(err)
			}
		}) {
			return
		}
		var hs []*simrt.Task
		for wi := range p.Writers {
			ops := p.Writers[wi]
			hs = append(hs, simrt.GoOn(fmt.Sprintf("writer%d", wi), n.sn, func() {
				for i := range ops {
					if ops[i].SleepUs > 0 {
						simrt.Sleep(time.Duration(ops[i].SleepUs) * time.Microsecond)
					}
					a := &ackRec{b: &ops[i].B}
					acks = append(acks, a)
					a.acked, a.det = n.send(&ops[i].B)
					simrt.Event("WRITE %s %s/%s n=%d acked=%v", a.b.Kind, a.b.DB, a.b.Meas, len(a.b.IDs), a.acked)
				}
			}))
		}
		for _, h := range hs {
			simrt.Join(h)
		}
		n.onNode("final", func() {
			switch p.Final {
			case "flushall+shutdown":
				n.buf.FlushAll(context.Background())
			case "idle+shutdown":
				simrt.Sleep(time.Duration(p.IdleMS) * time.Millisecond)
			}
			n.coord.Shutdown()
			n.closed = true
		})
	})
	out.Absorb(res)
	if len(res.Panics) > 0 {
		out.Violate("C03.panic", "task panicked: %s", firstLine(res.Panics[0]))
		return out
	}
	if res.Outcome != "ok" {
		return out
	}
	checkStored(out, "C03", n, acks, storeOpts{exactlyOnce: true})
	out.Nontrivial = res.Decisions > 0 && len(acks) > 1
	return out
}

func firstLine(s string) string {
	if i := strings.IndexByte(s, '\n'); i > 0 {
		return s[:i]
	}
	return s
}

type storeOpts struct {
	exactlyOnce bool // duplicates are violations
	allowLoss   func(a *ackRec) bool
}

// checkStored compares what the node's data directory holds (decoded by
// pqarrow) with the rows of acknowledged requests.
func checkStored(out *simkit.Outcome, prop string, n *node, acks []*ackRec, opt storeOpts) {
	stored, files, err := n.readAll()
	if err != nil {
		out.Violate(prop+".unreadable-file", "stored parquet not readable: %v", err)
		return
	}
	_ = files
	type exp struct {
		row   map[string]any
		b     *Batch
		acked bool
	}
	expected := map[int64]*exp{}
	for _, a := range acks {
		for i, id := range a.b.IDs {
			expected[id] = &exp{row: a.b.expectedRow(i), b: a.b, acked: a.acked}
		}
	}
	seen := map[int64]int{}
	byFile := map[string][]int64{}
	for _, sr := range stored {
		ridv, ok := sr.Vals["rid"].(int64)
		if !ok {
			out.Violate(prop+".fabricated-row", "row without rid in %s: %v", sr.File, sr.Vals)
			continue
		}
		e := expected[ridv]
		if e == nil {
			out.Violate(prop+".fabricated-row", "unknown rid %d in %s", ridv, sr.File)
			continue
		}
		seen[ridv]++
		tv, _ := sr.Vals["time"].(int64)
		byFile[sr.File] = append(byFile[sr.File], tv)
		wantDir := hourDir(e.b.DB, e.b.Meas, e.row["time"].(int64))
		if filepath.ToSlash(filepath.Dir(sr.File)) != wantDir {
			out.Violate(prop+".wrong-partition", "rid %d (time %d, %s/%s) stored in %s, want dir %s", ridv, e.row["time"], e.b.DB, e.b.Meas, sr.File, wantDir)
		}
		for k, want := range e.row {
			got, present := sr.Vals[k]
			if !present && want == nil {
				continue
			}
			if !sameVal(got, want) {
				out.Violate(prop+".value-mismatch", "rid %d column %q: stored %#v want %#v (file %s, kind %s)", ridv, k, got, want, sr.File, e.b.Kind)
			}
		}
		for k, got := range sr.Vals {
			if _, ok := e.row[k]; !ok && got != nil {
				out.Violate(prop+".phantom-value", "rid %d has value %#v in column %q it never wrote (file %s)", ridv, got, k, sr.File)
			}
		}
	}
	var lost, dup []int64
	for id, e := range expected {
		c := seen[id]
		if e.acked && c == 0 {
			if opt.allowLoss != nil {
				continue
			}
			lost = append(lost, id)
		}
		if c > 1 && opt.exactlyOnce {
			dup = append(dup, id)
		}
	}
	sort.Slice(lost, func(i, j int) bool { return lost[i] < lost[j] })
	sort.Slice(dup, func(i, j int) bool { return dup[i] < dup[j] })
	if len(lost) > 0 {
		// classify by what the storage seam observed for that db/measurement
		var other []int64
		nCancel := 0
		for _, id := range lost {
			e := expected[id]
			if n.fb != nil && n.fb.Cancelled[e.b.DB+"/"+e.b.Meas] > 0 {
				nCancel++
			} else {
				other = append(other, id)
			}
		}
		if nCancel > 0 {
			out.Violate(prop+".lost-row.inflight-flush-cancelled-by-close", "%d acknowledged rows not stored: their flush was in flight when Close() cancelled the buffer context and a context-honouring backend refused the write", nCancel)
		}
		if len(other) > 0 && n.buf != nil {
			if qd, _ := n.buf.GetStats()["flush_queue_depth"].(int64); qd > 0 && n.closed {
				out.Violate(prop+".lost-row.queued-flush-dropped-by-close", "%d acknowledged rows not stored: %d flush task(s) were still in the flush queue when Close() stopped the workers and were never written", len(other), qd)
				other = nil
			}
		}
		if len(other) > 0 {
			e := expected[other[0]]
			out.Violate(prop+".lost-row", "%d acknowledged rows not stored, first rid %d (%s %s/%s)", len(other), other[0], e.b.Kind, e.b.DB, e.b.Meas)
		}
	}
	if len(dup) > 0 {
		out.Violate(prop+".dup-row", "%d rows stored more than once, first rid %d (x%d)", len(dup), dup[0], seen[dup[0]])
	}
	// partial non-acked requests are reported as a statistic only
	for _, a := range acks {
		if a.acked {
			continue
		}
		c := 0
		for _, id := range a.b.IDs {
			if seen[id] > 0 {
				c++
			}
		}
		if c > 0 && c < len(a.b.IDs) {
			if out.Stats == nil {
				out.Stats = map[string]int64{}
			}
			out.Stats["note.partial_rejected_request"]++
		}
	}
	for f, ts := range byFile {
		if !sort.SliceIsSorted(ts, func(i, j int) bool { return ts[i] < ts[j] }) {
			out.Violate(prop+".unsorted-file", "file %s is not in non-decreasing time order", f)
		}
	}
}

func shrinkC03(planAny any) []any {
	p := planAny.(*C03Plan)
	var out []any
	cp := func() *C03Plan {
		q := *p
		q.Writers = make([][]WOp, len(p.Writers))
		for i := range p.Writers {
			q.Writers[i] = append([]WOp(nil), p.Writers[i]...)
		}
		return &q
	}
	// drop a writer
	for i := range p.Writers {
		if len(p.Writers) > 1 {
			q := cp()
			q.Writers = append(q.Writers[:i], q.Writers[i+1:]...)
			out = append(out, q)
		}
	}
	// drop an op
	for i := range p.Writers {
		for j := range p.Writers[i] {
			if len(p.Writers[i]) > 1 || len(p.Writers) > 1 {
				q := cp()
				q.Writers[i] = append(append([]WOp(nil), q.Writers[i][:j]...), q.Writers[i][j+1:]...)
				if len(q.Writers[i]) == 0 {
					q.Writers = append(q.Writers[:i], q.Writers[i+1:]...)
				}
				out = append(out, q)
			}
		}
	}
	// shrink rows of a batch
	for i := range p.Writers {
		for j := range p.Writers[i] {
			b := p.Writers[i][j].B
			if len(b.IDs) > 1 {
				q := cp()
				nb := b
				h := len(b.IDs) / 2
				nb.IDs, nb.Times = append([]int64(nil), b.IDs[:h]...), append([]int64(nil), b.Times[:h]...)
				q.Writers[i][j].B = nb
				out = append(out, q)
			}
			if len(b.Cols) > 0 {
				q := cp()
				nb := b
				nb.Cols = append([]ColSpec(nil), b.Cols[:len(b.Cols)-1]...)
				if !(nb.Kind == "lp" && (len(nb.Cols) == 0 || allTags(nb.Cols))) {
					q.Writers[i][j].B = nb
					out = append(out, q)
				}
			}
			if p.Writers[i][j].SleepUs > 0 {
				q := cp()
				q.Writers[i][j].SleepUs = 0
				out = append(out, q)
			}
		}
	}
	if p.Knobs.StorageLatencyU > 0 {
		q := cp()
		q.Knobs.StorageLatencyU = 0
		out = append(out, q)
	}
	if p.Knobs.WAL {
		q := cp()
		q.Knobs.WAL = false
		out = append(out, q)
	}
	if p.Knobs.CtxAwareStorage {
		q := cp()
		q.Knobs.CtxAwareStorage = false
		out = append(out, q)
	}
	return out
}

func descC03(planAny any) any {
	p := planAny.(*C03Plan)
	var ws []string
	for _, w := range p.Writers {
		var s []string
		for _, op := range w {
			s = append(s, fmt.Sprintf("%s:%s/%s×%d", op.B.Kind, op.B.DB, op.B.Meas, len(op.B.IDs)))
		}
		ws = append(ws, strings.Join(s, " "))
	}
	return map[string]any{"knobs": p.Knobs, "writers": ws, "final": p.Final}
}
