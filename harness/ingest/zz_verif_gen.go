//go:build verif

package main

import (
	"bytes"
	"context"
	"fmt"
	"math"
	"strings"

	"github.com/Basekick-Labs/msgpack/v6"

	"github.com/basekick-labs/arc/internal/simrt"
)

// ColSpec is one column of a batch; values are a function of (row id, spec)
// so the oracle can recompute them.
type ColSpec struct {
	Name    string `json:"n"`
	Type    string `json:"t"`  // i f s b
	NullPct int    `json:"np"` // 100 = all-null column
	Tag     bool   `json:"tag,omitempty"`
}

// Batch is one write request.
type Batch struct {
	Kind  string    `json:"kind"` // col | mp | mprow | lp
	DB    string    `json:"db"`
	Meas  string    `json:"meas"`
	Cols  []ColSpec `json:"cols"`
	IDs   []int64   `json:"ids"`
	Times []int64   `json:"times"` // µs
	Prec  string    `json:"prec,omitempty"`
}

type WOp struct {
	SleepUs int64 `json:"sleep_us"`
	// Lead > 0 (C07): issue the request Lead scheduling-step lengths before the
	// next periodic WAL maintenance tick instead of after a fixed sleep.
	Lead int   `json:"lead,omitempty"`
	B    Batch `json:"b"`
}

func mix64(a int64, s string) uint64 {
	h := uint64(a)*0x9e3779b97f4a7c15 + 0x1234567
	for i := 0; i < len(s); i++ {
		h ^= uint64(s[i])
		h *= 0x100000001b3
	}
	h ^= h >> 31
	return h
}

func isNull(id int64, c ColSpec) bool {
	if c.NullPct <= 0 {
		return false
	}
	if c.NullPct >= 100 {
		return true
	}
	return int(mix64(id, c.Name)%100) < c.NullPct
}

// valueOf is the value row id carries in column c (nil = NULL).
func valueOf(id int64, c ColSpec) any {
	if isNull(id, c) {
		return nil
	}
	switch c.Type {
	case "i":
		return id*3 + int64(len(c.Name))
	case "f":
		return float64(id) + 0.25
	case "s":
		return fmt.Sprintf("v%d_%s", id, c.Name)
	case "b":
		return id%2 == 0
	}
	return nil
}

// expectedRow is what must be stored for row i of batch b.
func (b *Batch) expectedRow(i int) map[string]any {
	m := map[string]any{"rid": b.IDs[i], "time": b.Times[i]}
	if b.Kind == "mprow" {
		m["host"] = fmt.Sprintf("h%d", b.IDs[i]%3)
	}
	for _, c := range b.Cols {
		m[c.Name] = valueOf(b.IDs[i], c)
	}
	return m
}

var colPool = []ColSpec{
	{Name: "f1", Type: "f"}, {Name: "i1", Type: "i"}, {Name: "s1", Type: "s"}, {Name: "b1", Type: "b"},
	{Name: "x", Type: "f"}, {Name: "y", Type: "s"},
}

type genCtx struct {
	r      *simrt.Rand
	nextID int64
	baseUS int64 // µs of "now" at sim start (approx; only for realism)
}

// genBatch draws one batch. kinds restricts the API used.
func (g *genCtx) genBatch(kinds []string, dbs, meass []string, maxRows int, old bool) Batch {
	r := g.r
	b := Batch{Kind: kinds[r.Intn(len(kinds))], DB: dbs[r.Intn(len(dbs))], Meas: meass[r.Intn(len(meass))]}
	n := 1 + r.Intn(maxRows)
	// columns: a random subset of the pool; "x" changes type between batches
	for _, c := range colPool {
		if !r.Chance(55) {
			continue
		}
		cs := c
		if c.Name == "x" {
			cs.Type = []string{"f", "i", "s"}[r.Intn(3)]
		}
		switch r.Intn(6) {
		case 0:
			cs.NullPct = 30
		case 1:
			cs.NullPct = 100
		}
		if b.Kind == "lp" {
			if cs.NullPct == 100 {
				cs.NullPct = 60 // LP cannot express an all-null field
			}
			if cs.Type == "s" && r.Chance(40) {
				cs.Tag = true
				cs.NullPct = 0
			}
		}
		if b.Kind == "mprow" && cs.NullPct == 100 {
			cs.NullPct = 50
		}
		b.Cols = append(b.Cols, cs)
	}
	// time layout
	mode := r.Intn(6)
	hourUS := int64(3600) * 1_000_000
	base := g.baseUS - int64(r.Intn(3))*hourUS
	if old && (b.Kind == "col" || b.Kind == "lp") && r.Chance(30) {
		// pre-1970 and near-epoch timestamps
		base = -int64(r.Intn(5000)) * hourUS
		if r.Chance(30) {
			base = int64(r.Intn(100)) * hourUS
		}
	}
	for i := 0; i < n; i++ {
		g.nextID++
		b.IDs = append(b.IDs, g.nextID)
		var t int64
		switch mode {
		case 0: // ascending within an hour
			t = base + int64(i)*1000
		case 1: // random within the hour (unsorted)
			t = base - base%hourUS + r.Int63n(hourUS)
			if base < 0 {
				t = base + r.Int63n(hourUS)
			}
		case 2: // spanning many hours
			t = base + (int64(r.Intn(7))-3)*hourUS + r.Int63n(hourUS)
		case 3: // exactly on hour boundaries
			t = (base/hourUS + int64(r.Intn(4))) * hourUS
		case 4: // boundary ±1µs
			t = (base/hourUS+int64(r.Intn(3)))*hourUS + int64(r.Intn(3)) - 1
		default:
			t = base + r.Int63n(1000)
		}
		b.Times = append(b.Times, t)
	}
	if b.Kind == "lp" {
		b.Prec = []string{"us", "ns", "ms", "s"}[r.Intn(4)]
		if b.Prec == "ns" && r.Chance(50) {
			b.Prec = "us"
		}
		// make the timestamps representable in the chosen precision
		for i, t := range b.Times {
			switch b.Prec {
			case "ms":
				b.Times[i] = floorDiv(t, 1000) * 1000
			case "s":
				b.Times[i] = floorDiv(t, 1_000_000) * 1_000_000
			}
		}
		if len(b.Cols) == 0 || allTags(b.Cols) {
			b.Cols = append(b.Cols, ColSpec{Name: "f1", Type: "f"})
		}
		// LP needs at least one non-null field per line: make the first field non-null
		for i := range b.Cols {
			if !b.Cols[i].Tag {
				b.Cols[i].NullPct = 0
				break
			}
		}
	}
	if b.Kind == "mp" || b.Kind == "mprow" {
		// msgpack paths auto-detect the unit from the magnitude; keep µs in the
		// unambiguous modern range
		for i, t := range b.Times {
			if t < 1e15 {
				b.Times[i] = g.baseUS + int64(i)
			}
		}
	}
	return b
}

func allTags(cs []ColSpec) bool {
	for _, c := range cs {
		if !c.Tag {
			return false
		}
	}
	return true
}

func floorDiv(a, b int64) int64 {
	q := a / b
	if a%b != 0 && (a < 0) != (b < 0) {
		q--
	}
	return q
}

// ---- request construction ----

func (b *Batch) columns() map[string][]interface{} {
	cols := map[string][]interface{}{}
	n := len(b.IDs)
	tc := make([]interface{}, n)
	rc := make([]interface{}, n)
	for i := 0; i < n; i++ {
		tc[i] = b.Times[i]
		rc[i] = b.IDs[i]
	}
	cols["time"] = tc
	cols["rid"] = rc
	for _, c := range b.Cols {
		col := make([]interface{}, n)
		for i := 0; i < n; i++ {
			col[i] = valueOf(b.IDs[i], c)
		}
		cols[c.Name] = col
	}
	return cols
}

func (b *Batch) msgpackBody() []byte {
	if b.Kind == "mprow" {
		var items []interface{}
		for i := range b.IDs {
			fields := map[string]interface{}{"rid": b.IDs[i]}
			for _, c := range b.Cols {
				if v := valueOf(b.IDs[i], c); v != nil {
					fields[c.Name] = v
				}
			}
			items = append(items, map[string]interface{}{"m": b.Meas, "t": b.Times[i], "h": fmt.Sprintf("h%d", b.IDs[i]%3), "fields": fields})
		}
		return mpMarshal(map[string]interface{}{"batch": items})
	}
	cols := map[string]interface{}{}
	for k, v := range b.columns() {
		cols[k] = v
	}
	return mpMarshal(map[string]interface{}{"m": b.Meas, "columns": cols})
}

// mpMarshal encodes with sorted map keys: the byte layout of a request must
// be a function of the plan (Go map iteration order is not).
func mpMarshal(v interface{}) []byte {
	var buf bytes.Buffer
	enc := msgpack.NewEncoder(&buf)
	enc.SetSortMapKeys(true)
	if err := enc.Encode(v); err != nil {
		panic(err)
	}
	return buf.Bytes()
}

func lpEscape(s string) string {
	return strings.NewReplacer(",", `\,`, " ", `\ `, "=", `\=`).Replace(s)
}

func (b *Batch) lpBody() []byte {
	var sb strings.Builder
	for i, id := range b.IDs {
		sb.WriteString(lpEscape(b.Meas))
		for _, c := range b.Cols {
			if c.Tag {
				sb.WriteString("," + c.Name + "=" + lpEscape(valueOf(id, c).(string)))
			}
		}
		sb.WriteString(" ")
		sb.WriteString(fmt.Sprintf("rid=%di", id))
		for _, c := range b.Cols {
			if c.Tag {
				continue
			}
			v := valueOf(id, c)
			if v == nil {
				continue
			}
			switch x := v.(type) {
			case int64:
				sb.WriteString(fmt.Sprintf(",%s=%di", c.Name, x))
			case float64:
				sb.WriteString(fmt.Sprintf(",%s=%v", c.Name, x))
			case string:
				sb.WriteString(fmt.Sprintf(",%s=%q", c.Name, x))
			case bool:
				sb.WriteString(fmt.Sprintf(",%s=%v", c.Name, x))
			}
		}
		t := b.Times[i]
		switch b.Prec {
		case "ns":
			sb.WriteString(fmt.Sprintf(" %d\n", t*1000))
		case "ms":
			sb.WriteString(fmt.Sprintf(" %d\n", t/1000))
		case "s":
			sb.WriteString(fmt.Sprintf(" %d\n", t/1_000_000))
		default:
			sb.WriteString(fmt.Sprintf(" %d\n", t))
		}
	}
	return []byte(sb.String())
}

// send issues the batch against the node (must run on a node task). It
// returns whether the write was acknowledged and a description otherwise.
func (n *node) send(b *Batch) (acked bool, detail string) {
	switch b.Kind {
	case "col":
		err := n.buf.WriteColumnarDirect(context.Background(), b.DB, b.Meas, b.columns())
		if err != nil {
			return false, err.Error()
		}
		return true, ""
	case "mp", "mprow":
		st, body := n.post("/api/v1/write/msgpack", map[string]string{"x-arc-database": b.DB, "Content-Type": "application/msgpack"}, b.msgpackBody())
		return st >= 200 && st < 300, fmt.Sprintf("%d %s", st, body)
	case "lp":
		st, body := n.post("/api/v1/write/line-protocol?precision="+b.Prec, map[string]string{"x-arc-database": b.DB}, b.lpBody())
		return st >= 200 && st < 300, fmt.Sprintf("%d %s", st, body)
	}
	return false, "unknown kind"
}

func sameVal(a, b any) bool {
	if a == nil || b == nil {
		return a == nil && b == nil
	}
	switch x := a.(type) {
	case float64:
		y, ok := b.(float64)
		return ok && (x == y || (math.IsNaN(x) && math.IsNaN(y)))
	}
	return a == b
}
