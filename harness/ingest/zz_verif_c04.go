//go:build verif

package main

import (
	"bytes"
	"compress/gzip"
	"fmt"
	"os"
	"path/filepath"
	"sort"
	"strings"
	"syscall"
	"time"

	"github.com/klauspost/compress/zstd"

	"github.com/basekick-labs/arc/internal/simrt"
	"github.com/basekick-labs/arc/internal/verifsim/simkit"
)

// C04: sequences of valid, unusual and malformed request bodies; the flush
// schedule decides which batches meet in one merge, and a panic in a
// background flush task (after the 204) is observed by the scheduler.
type Mut struct {
	Kind string `json:"kind"` // none trunc flip inflate gzip zstd gzip-trunc gzip-bomb empty garbage
	A    int    `json:"a"`
	B    int    `json:"b"`
}

type C04Req struct {
	B       Batch  `json:"b"`
	Mut     Mut    `json:"mut"`
	SleepUs int64  `json:"sleep_us"`
	Weird   string `json:"weird,omitempty"` // unusual column name added to the batch
}

type C04Plan struct {
	Knobs Knobs    `json:"knobs"`
	Reqs  []C04Req `json:"reqs"`
}

var weirdNames = []string{"", "_hidden", "__", "time_", "Time", "measurement", "a b", "a,b", "a=b", "ünï", "select", "rid_"}

func genC04(r *simrt.Rand, tier string) any {
	p := &C04Plan{Knobs: genKnobs(r)}
	p.Knobs.WAL = r.Chance(30)
	p.Knobs.CtxAwareStorage = false
	g := &genCtx{r: r, baseUS: time.Date(2026, 3, 1, 12, 30, 0, 0, time.UTC).UnixMicro()}
	n := 2 + r.Intn(11)
	meass := []string{"cpu", "mem"}[:1+r.Intn(2)]
	fav := weirdNames[r.Intn(len(weirdNames))]
	for q := 0; q < n; q++ {
		b := g.genBatch([]string{"mp", "mprow", "lp"}, []string{"db1"}, meass, 5, false)
		// spaced row ids: a one- or two-byte corruption cannot turn one request's id into another's
		for i := range b.IDs {
			// 14 decimal digits, pairwise different in several digit positions and
			// several bytes: neither a one-character change/truncation of the
			// decimal text (line protocol) nor a one-byte change of the binary
			// integer (msgpack) can turn one request's id into another's.
			b.IDs[i] = 10_000_000_000_000 + int64(q+1)*1_001_001_001*7 + int64(i)*1_000_003
		}
		rq := C04Req{B: b}
		if r.Chance(35) {
			rq.Weird = weirdNames[r.Intn(len(weirdNames))]
			if r.Chance(50) {
				// the same unusual name again, usually with another type: the
				// "type changes of a column between requests" half of the property
				rq.Weird = fav
			}
			typ := []string{"i", "f", "s", "b"}[r.Intn(4)]
			if b.Kind == "lp" && (rq.Weird == "" || strings.ContainsAny(rq.Weird, " ,=")) {
				// LP would need escaping; the escaped forms are C01's business
				rq.Weird = "_hidden"
			}
			rq.B.Cols = append(rq.B.Cols, ColSpec{Name: rq.Weird, Type: typ})
		}
		// A body whose generic MessagePack parse reaches a bin32 header
		// declaring 1-4 GiB makes the server really allocate (and, on reused
		// address space, really clear) that much: seconds of page faults per
		// request, minutes when several workers do it at once. The class is
		// kept in the search but thinned to one in eight of its natural
		// frequency so that it does not eat the budget of everything else.
		for try := 0; ; try++ {
			switch r.Intn(13) {
			case 12:
				// structure-aware: one column array of a columnar payload is
				// shorter or longer than the others (valid MessagePack, invalid batch)
				rq.Mut = Mut{Kind: "none"}
				if rq.B.Kind == "mp" {
					rq.Mut = Mut{Kind: "ragged", A: r.Intn(1000), B: r.Intn(1000)}
				}
			case 0:
				rq.Mut = Mut{Kind: "trunc", A: r.Intn(1000)}
			case 1:
				rq.Mut = Mut{Kind: "flip", A: r.Intn(100000), B: 1 + r.Intn(255)}
			case 2:
				rq.Mut = Mut{Kind: "inflate", A: r.Intn(100000)}
			case 3:
				rq.Mut = Mut{Kind: "gzip"}
			case 4:
				rq.Mut = Mut{Kind: "zstd"}
			case 5:
				rq.Mut = Mut{Kind: "gzip-trunc", A: r.Intn(1000)}
			case 6:
				rq.Mut = Mut{Kind: "gzip-bomb"}
			case 7:
				rq.Mut = Mut{Kind: "garbage", A: r.Intn(1 << 30), B: 1 + r.Intn(200)}
			case 8:
				rq.Mut = Mut{Kind: "empty"}
			default:
				rq.Mut = Mut{Kind: "none"}
			}
			switch rq.Mut.Kind {
			case "trunc", "flip", "inflate", "garbage":
			default:
				try = 16 // cannot introduce a bin32 header
			}
			if rq.B.Kind == "lp" || try >= 16 || r.Chance(12) {
				break
			}
			if body, _ := rq.body(); !msgpackReachesHugeBin32(body) {
				break
			}
		}
		if rq.B.Kind == "mp" && rq.Weird != "" && rq.Mut.Kind == "none" && r.Chance(20) {
			// unusual name and unusual shape together
			rq.Mut = Mut{Kind: "ragged", A: 2 * r.Intn(500), B: r.Intn(1000)}
		}
		if r.Chance(30) {
			rq.SleepUs = int64(r.Intn(p.Knobs.MaxBufferAgeMS*1500 + 1))
		}
		p.Reqs = append(p.Reqs, rq)
	}
	return p
}

func (rq *C04Req) body() ([]byte, bool) {
	var body []byte
	if rq.B.Kind == "lp" {
		body = rq.B.lpBody()
	} else {
		body = rq.B.msgpackBody()
	}
	m := rq.Mut
	switch m.Kind {
	case "none", "":
		return body, true
	case "ragged":
		if rq.B.Kind != "mp" || len(rq.B.IDs) == 0 {
			return body, true
		}
		cols := map[string]interface{}{}
		var names []string
		for k, v := range rq.B.columns() {
			cols[k] = v
			names = append(names, k)
		}
		sort.Strings(names)
		target := names[m.A%len(names)]
		if _, ok := cols[rq.Weird]; ok && m.A%2 == 0 {
			target = rq.Weird // preferably the unusual column
		}
		col := cols[target].([]interface{})
		if m.B%3 == 0 {
			col = append(append([]interface{}(nil), col...), col[:1+(m.B/3)%len(col)]...)
		} else {
			col = col[:len(col)-1-(m.B/3)%len(col)]
		}
		cols[target] = col
		return mpMarshal(map[string]interface{}{"m": rq.B.Meas, "columns": cols}), false
	case "trunc":
		if len(body) == 0 {
			return body, false
		}
		return body[:m.A%len(body)], false
	case "flip":
		c := append([]byte(nil), body...)
		if len(c) > 0 {
			c[m.A%len(c)] ^= byte(m.B)
		}
		return c, false
	case "inflate":
		// turn some array/map/str header byte into a 32-bit length header with a huge count
		c := append([]byte(nil), body...)
		if len(c) > 6 {
			i := m.A % (len(c) - 5)
			c[i] = 0xdd // array32
			c[i+1], c[i+2], c[i+3], c[i+4] = 0x7f, 0xff, 0xff, 0xff
		}
		return c, false
	case "gzip", "gzip-trunc":
		var buf bytes.Buffer
		zw := gzip.NewWriter(&buf)
		zw.Write(body)
		zw.Close()
		out := buf.Bytes()
		if m.Kind == "gzip-trunc" && len(out) > 4 {
			return out[:4+m.A%(len(out)-4)], false
		}
		return out, true
	case "zstd":
		enc, _ := zstd.NewWriter(nil)
		out := enc.EncodeAll(body, nil)
		enc.Close()
		return out, true
	case "gzip-bomb":
		var buf bytes.Buffer
		zw := gzip.NewWriter(&buf)
		zw.Write(make([]byte, 3<<20)) // decompresses beyond the 1 MiB payload cap of the harness node
		zw.Close()
		return buf.Bytes(), false
	case "garbage":
		return simrt.NewRand(uint64(m.A)).Bytes(m.B), false
	case "empty":
		return nil, false
	}
	return body, true
}

func runC04(planAny any, cfg simrt.Config) *simkit.Outcome {
	p := planAny.(*C04Plan)
	out := &simkit.Outcome{}
	root := mkScratch()
	defer os.RemoveAll(root)
	type rec struct {
		rq     *C04Req
		status int
		valid  bool
		got    bool
		alloc  uint64
		resp   string
	}
	var recs []*rec
	var n *node
	res := simrt.Run(cfg, func() {
		simrt.SetPathRoot(root)
		n = newNode("n1", root, p.Knobs)
		n.onNode("boot", func() {
			if err := n.boot(); err != nil {
				panic(err)
			}
		})
		n.onNode("client", func() {
			for i := range p.Reqs {
				rq := &p.Reqs[i]
				if rq.SleepUs > 0 {
					simrt.Sleep(time.Duration(rq.SleepUs) * time.Microsecond)
				}
				body, valid := rq.body()
				rc := &rec{rq: rq, valid: valid}
				recs = append(recs, rc)
				path := "/api/v1/write/msgpack"
				if rq.B.Kind == "lp" {
					path = "/api/v1/write/line-protocol?precision=" + rq.B.Prec
				}
				var release func()
				if rq.B.Kind != "lp" && msgpackReachesHugeBin32(body) {
					// the server is about to allocate (and, on reused address
					// space, clear) gigabytes for real: one such request at a
					// time on this machine, and tell the watchdog
					release = blowupGate()
				}
				st, rb := n.post(path, map[string]string{"x-arc-database": rq.B.DB}, body)
				if release != nil {
					release()
				}
				rc.status, rc.got, rc.alloc = st, true, n.lastAlloc
				rc.resp = rb
				if len(rb) > 160 {
					rb = rb[:160]
				}
				simrt.Event("REQ %d %s mut=%s weird=%q -> %d %s", i, rq.B.Kind, rq.Mut.Kind, rq.Weird, st, rb)
			}
		})
		n.onNode("final", func() { n.coord.Shutdown() })
	})
	out.Absorb(res)
	for _, pn := range res.Panics {
		where := "request handler"
		if strings.Contains(pn, "(final)") {
			where = "shutdown flush"
		}
		if strings.Contains(pn, "flushWorker") || strings.Contains(pn, "periodicFlush") || strings.Contains(pn, "flushRecordsAsync") || strings.Contains(pn, "flushAgedBuffers") {
			where = "background flush task"
		}
		out.Violate("C04.panic."+strings.ReplaceAll(where, " ", "-"), "panic in %s: %s", where, firstLine(pn))
	}
	if len(res.Panics) > 0 || res.Outcome != "ok" {
		return out
	}
	for i, rc := range recs {
		if !rc.got || rc.status == 0 {
			out.Violate("C04.no-response", "request %d got no HTTP response", i)
		}
		unusual := false
		for _, c := range rc.rq.B.Cols {
			for _, w := range weirdNames {
				if c.Name == w {
					unusual = true // may be rejected, with whatever status
				}
			}
		}
		if rc.valid && !unusual && rc.status >= 500 {
			// no storage or disk fault is ever injected in C04 runs: a 5xx for a
			// well-formed request is a handler panic caught by the recover
			// middleware (or an internal error) caused by the requests before it
			out.Violate("C04.valid-request-answered-5xx", "request %d (%s, mut=%s, weird=%q) is well-formed but was answered %d %.160s", i, rc.rq.B.Kind, rc.rq.Mut.Kind, rc.rq.Weird, rc.status, rc.resp)
		}
		if rc.alloc >= allocBlowup {
			body, _ := rc.rq.body()
			// fingerprint by the input feature that explains it, not by how
			// the generator arrived at the bytes
			why := "no-huge-declared-length-in-body"
			if rc.rq.B.Kind != "lp" && msgpackReachesHugeBin32(body) {
				why = "msgpack-bin32-declares-over-1GiB"
			}
			out.Violate("C04.request-allocates-gigabytes."+why,
				"request %d (%s, mut=%s, %d body bytes %x…) made the process allocate more than 1 GiB of heap before it was answered %d: a process with less memory than that dies with 'fatal error: runtime: out of memory' instead of answering",
				i, rc.rq.B.Kind, rc.rq.Mut.Kind, len(body), body[:min(len(body), 24)], rc.status)
		}
	}
	stored, _, err := n.readAll()
	if err != nil {
		out.Violate("C04.unreadable-file", "stored parquet not readable: %v", err)
		return out
	}
	seen := map[int64]int{}
	for _, sr := range stored {
		if id, ok := sr.Vals["rid"].(int64); ok {
			seen[id]++
		}
	}
	nMut := 0
	for i, rc := range recs {
		ok2xx := rc.status >= 200 && rc.status < 300
		if !rc.valid {
			nMut++
		}
		cnt := 0
		for _, id := range rc.rq.B.IDs {
			if seen[id] > 0 {
				cnt++
			}
		}
		if !ok2xx && cnt > 0 {
			out.Violate("C04.rejected-request-stored-rows", "request %d (%s, mut=%s, weird=%q) was answered %d but %d of its rows are stored", i, rc.rq.B.Kind, rc.rq.Mut.Kind, rc.rq.Weird, rc.status, cnt)
		}
		if ok2xx && rc.valid && cnt != len(rc.rq.B.IDs) {
			out.Violate("C04.accepted-request-rows-missing", "request %d (%s, weird=%q, mut=%s) was answered %d but only %d of %d rows are stored", i, rc.rq.B.Kind, rc.rq.Weird, rc.rq.Mut.Kind, rc.status, cnt, len(rc.rq.B.IDs))
		}
	}
	// accepted valid requests: values must be right too (reuse the C03 oracle on that subset)
	var acks []*ackRec
	for _, rc := range recs {
		if rc.valid && rc.rq.Mut.Kind != "gzip-bomb" {
			acks = append(acks, &ackRec{b: &rc.rq.B, acked: rc.status >= 200 && rc.status < 300})
		}
	}
	tmp := &simkit.Outcome{}
	weirdOf := map[int64]string{}
	for _, rc := range recs {
		for _, id := range rc.rq.B.IDs {
			weirdOf[id] = rc.rq.Weird
		}
	}
	checkStoredSubset(tmp, "C04", n, acks, weirdOf)
	for _, v := range tmp.Violations {
		out.Violate(v.Rule, "%s", v.Msg)
	}
	out.Stats["probe.mutated_requests"] += int64(nMut)
	out.Nontrivial = nMut > 0 || len(recs) > 2
	return out
}

// checkStoredSubset applies the value/partition oracle only to rows whose rid
// belongs to the given requests (other rows may come from mutated bodies).
func checkStoredSubset(out *simkit.Outcome, prop string, n *node, acks []*ackRec, weirdOf map[int64]string) {
	stored, _, err := n.readAll()
	if err != nil {
		return
	}
	exp := map[int64]map[string]any{}
	bOf := map[int64]*Batch{}
	for _, a := range acks {
		if !a.acked {
			continue
		}
		for i, id := range a.b.IDs {
			exp[id] = a.b.expectedRow(i)
			bOf[id] = a.b
		}
	}
	for _, sr := range stored {
		id, ok := sr.Vals["rid"].(int64)
		if !ok {
			continue
		}
		e := exp[id]
		if e == nil {
			continue
		}
		for k, want := range e {
			got, present := sr.Vals[k]
			if !present && want == nil {
				continue
			}
			if !sameVal(got, want) {
				if w, isWeird := weirdOf[id]; isWeird && w == k && want != nil && got == nil {
					cls := "other"
					switch {
					case k == "":
						cls = "empty-name"
					case k[0] == '_':
						cls = "underscore-prefixed"
					}
					out.Violate(prop+".accepted-but-unusual-column-not-stored."+cls, "request answered 2xx but column %q (%s) of rid %d is not stored (kind %s): neither stored correctly nor rejected", k, cls, id, bOf[id].Kind)
					continue
				}
				out.Violate(prop+".value-mismatch", "rid %d column %q: stored %#v want %#v (kind %s)", id, k, got, want, bOf[id].Kind)
			}
		}
	}
}

func shrinkC04(planAny any) []any {
	p := planAny.(*C04Plan)
	var out []any
	cp := func() *C04Plan { q := *p; q.Reqs = append([]C04Req(nil), p.Reqs...); return &q }
	for i := range p.Reqs {
		if len(p.Reqs) > 1 {
			q := cp()
			q.Reqs = append(q.Reqs[:i], q.Reqs[i+1:]...)
			out = append(out, q)
		}
	}
	for i := range p.Reqs {
		if p.Reqs[i].Mut.Kind != "none" && p.Reqs[i].Mut.Kind != "" {
			q := cp()
			q.Reqs[i].Mut = Mut{Kind: "none"}
			out = append(out, q)
		}
		if p.Reqs[i].SleepUs > 0 {
			q := cp()
			q.Reqs[i].SleepUs = 0
			out = append(out, q)
		}
		if len(p.Reqs[i].B.IDs) > 1 {
			q := cp()
			b := p.Reqs[i].B
			b.IDs, b.Times = append([]int64(nil), b.IDs[:1]...), append([]int64(nil), b.Times[:1]...)
			q.Reqs[i].B = b
			out = append(out, q)
		}
	}
	return out
}

func descC04(planAny any) any {
	p := planAny.(*C04Plan)
	var s []string
	for _, rq := range p.Reqs {
		s = append(s, fmt.Sprintf("%s×%d mut=%s weird=%q", rq.B.Kind, len(rq.B.IDs), rq.Mut.Kind, rq.Weird))
	}
	return map[string]any{"reqs": s, "buffer_size": p.Knobs.MaxBufferSize, "buffer_age_ms": p.Knobs.MaxBufferAgeMS, "workers": p.Knobs.FlushWorkers}
}

// msgpackReachesHugeBin32 walks body the way a generic MessagePack decoder
// does (one top-level value, depth first) and reports whether it arrives at a
// bin32 header declaring at least 1 GiB before anything else stops the parse.
func msgpackReachesHugeBin32(body []byte) bool {
	pos, budget, huge := 0, 4*len(body)+16, false
	var value func(depth int) bool // false: parse stops (error or huge found)
	need := func(n int) bool { return n >= 0 && pos+n <= len(body) }
	u := func(n int) int {
		v := 0
		for i := 0; i < n; i++ {
			v = v<<8 | int(body[pos+i])
		}
		pos += n
		return v
	}
	seq := func(n, depth int) bool {
		for i := 0; i < n; i++ {
			if !value(depth + 1) {
				return false
			}
		}
		return true
	}
	value = func(depth int) bool {
		budget--
		if budget < 0 || depth > 64 || !need(1) {
			return false
		}
		c := body[pos]
		pos++
		switch {
		case c <= 0x7f, c >= 0xe0, c == 0xc0, c == 0xc2, c == 0xc3:
			return true
		case c >= 0x80 && c <= 0x8f:
			return seq(2*int(c&0x0f), depth)
		case c >= 0x90 && c <= 0x9f:
			return seq(int(c&0x0f), depth)
		case c >= 0xa0 && c <= 0xbf:
			n := int(c & 0x1f)
			if !need(n) {
				return false
			}
			pos += n
			return true
		}
		switch c {
		case 0xc4, 0xc5, 0xc6, 0xd9, 0xda, 0xdb:
			w := map[byte]int{0xc4: 1, 0xc5: 2, 0xc6: 4, 0xd9: 1, 0xda: 2, 0xdb: 4}[c]
			if !need(w) {
				return false
			}
			n := u(w)
			if c == 0xc6 && n >= 1<<30 {
				huge = true
				return false
			}
			if !need(n) {
				return false
			}
			pos += n
			return true
		case 0xca, 0xd2, 0xce:
			return skip(&pos, 4, len(body))
		case 0xcb, 0xd3, 0xcf:
			return skip(&pos, 8, len(body))
		case 0xcc, 0xd0:
			return skip(&pos, 1, len(body))
		case 0xcd, 0xd1:
			return skip(&pos, 2, len(body))
		case 0xdc, 0xde:
			if !need(2) {
				return false
			}
			n := u(2)
			if c == 0xde {
				n *= 2
			}
			return seq(n, depth)
		case 0xdd, 0xdf:
			if !need(4) {
				return false
			}
			n := u(4)
			if c == 0xdf {
				n *= 2
			}
			return seq(n, depth)
		}
		return false // ext family, 0xc1: the decoder gives up
	}
	value(0)
	return huge
}

func skip(pos *int, n, l int) bool {
	if *pos+n > l {
		return false
	}
	*pos += n
	return true
}

// blowupGate serialises, across all worker processes of the machine, the
// requests that make the server allocate gigabytes (an advisory lock on a file
// next to the scratch directories), and extends the watchdog's allowance for
// the step: 14 workers each page-faulting 4 GiB at once stalled this VM for
// minutes of real time.
func blowupGate() func() {
	done := simrt.WatchdogGrace(30 * time.Minute)
	f, err := os.OpenFile(filepath.Join(os.TempDir(), "verif-c04-blowup.lock"), os.O_CREATE|os.O_RDWR, 0o600)
	if err != nil {
		return done
	}
	if err := syscall.Flock(int(f.Fd()), syscall.LOCK_EX); err != nil {
		f.Close()
		return done
	}
	return func() {
		syscall.Flock(int(f.Fd()), syscall.LOCK_UN)
		f.Close()
		done()
	}
}
