//go:build verif

package main

import (
	"context"
	"fmt"
	"os"
	"path/filepath"
	"sort"
	"strings"
	"time"

	"github.com/basekick-labs/arc/internal/simrt"
	"github.com/basekick-labs/arc/internal/verifsim/simkit"
)

type Outage struct {
	FromMS int `json:"from_ms"`
	ToMS   int `json:"to_ms"`
}

// C07Plan: back-pressure (small queue, slow storage), storage outages,
// graceful shutdown mid-stream, restart; then faults stop and the system is
// given a bounded simulated time to converge.
type C07Plan struct {
	Knobs        Knobs    `json:"knobs"`
	Writers      [][]WOp  `json:"writers"`
	Outages      []Outage `json:"outages"`
	FailWrites   []int    `json:"fail_writes"`
	ShutdownAtMS int      `json:"shutdown_at_ms"` // 0 = no mid-stream shutdown
	FinalRestart bool     `json:"final_restart"`
	// Trickle: small writes issued after the faults stopped (they make the
	// WAL writer rotate when MaxAge is short, as continued traffic would).
	Trickle []WOp `json:"trickle"`
	// Flapping storage during the fault phase: every storage write fails with
	// probability FlapPct (decided by write index and FlapSalt).
	FlapPct  int   `json:"flap_pct,omitempty"`
	FlapSalt int64 `json:"flap_salt,omitempty"`
}

func genC07(r *simrt.Rand, tier string) any {
	p := &C07Plan{Knobs: genKnobs(r)}
	k := &p.Knobs
	k.WAL = r.Chance(70)
	k.FlushQueueSize = 1 + r.Intn(4)
	k.FlushWorkers = 1 + r.Intn(2)
	k.MaxBufferSize = []int{2, 4, 8}[r.Intn(3)]
	k.MaxBufferAgeMS = []int{5, 50, 500}[r.Intn(3)]
	k.StorageLatencyU = []int{0, 500, 5000, 50000}[r.Intn(4)]
	k.WALRecoveryIntS = 1 + r.Intn(5)
	k.WALBufferSize = []int{2, 8, 1000}[r.Intn(3)]
	k.CtxAwareStorage = false
	g := &genCtx{r: r, baseUS: time.Date(2026, 3, 1, 12, 30, 0, 0, time.UTC).UnixMicro()}
	dbs := []string{"db1", "db2"}[:1+r.Intn(2)]
	meass := []string{"cpu", "mem"}[:1+r.Intn(2)]
	nw := 1 + r.Intn(3)
	slow := r.Chance(35)
	// steady: a long-lived node under continuous light traffic (a client that
	// reports every few seconds), a WAL that rotates on almost every write and
	// maintenance ticks every 1-3 s, so that purge, flush-failure replay,
	// rotation and writes overlap again and again within one run. Most requests
	// are placed a few scheduling steps around a maintenance tick.
	steady := r.Chance(45)
	if steady {
		k.WAL = true
		k.WALRecoveryIntS = 1 + r.Intn(3)
		k.MaxBufferAgeMS = []int{50, 500}[r.Intn(2)]
		k.StorageLatencyU = []int{0, 500, 5000}[r.Intn(3)]
		k.FlushQueueSize = 2 + r.Intn(6)
		nw = 1 + r.Intn(2)
		slow = false
	}
	for w := 0; w < nw; w++ {
		var ops []WOp
		n := 2 + r.Intn(10)
		if steady {
			n = 6 + r.Intn(10)
		}
		for i := 0; i < n; i++ {
			op := WOp{B: g.genBatch([]string{"col", "mp", "lp"}, dbs, meass, 6, false)}
			if steady {
				op.B = g.genBatch([]string{"col", "mp", "lp"}, dbs, meass, 3, false)
				if r.Chance(75) {
					// a request needs some 10-30 scheduling steps from wake-up to its
					// WAL entry being written: mostly leads of that order, some wider
					op.Lead = 1 + r.Intn(14)
					if r.Chance(15) {
						op.Lead = 1 + r.Intn(40)
					}
				} else {
					op.SleepUs = int64(r.Intn(400000))
				}
				ops = append(ops, op)
				continue
			}
			if r.Chance(40) {
				op.SleepUs = int64(r.Intn(30000))
			}
			if slow && r.Chance(60) {
				// long-lived workload: seconds between requests, so the WAL rotates and
				// periodic maintenance/recovery runs while writes and outages are going on
				op.SleepUs = int64(200000 + r.Intn(4000000))
			}
			ops = append(ops, op)
		}
		p.Writers = append(p.Writers, ops)
	}
	switch r.Intn(4) {
	case 0: // no storage fault: pure back-pressure
	case 1:
		from := r.Intn(100)
		p.Outages = []Outage{{FromMS: from, ToMS: from + 1 + r.Intn(2000)}}
	case 2:
		for i := 0; i < 1+r.Intn(3); i++ {
			p.FailWrites = append(p.FailWrites, r.Intn(12))
		}
	case 3:
		from := r.Intn(50)
		p.Outages = []Outage{{FromMS: from, ToMS: from + 1 + r.Intn(40000)}}
	}
	if r.Chance(50) {
		p.ShutdownAtMS = 1 + r.Intn(300)
	}
	p.FinalRestart = r.Chance(50)
	k.WALMaxAgeS = []int{1, 2, 3600}[r.Intn(3)]
	if steady {
		k.WALMaxAgeS = 1 + r.Intn(5)/4
		p.Outages, p.FailWrites, p.ShutdownAtMS = nil, nil, 0
		f := r.Intn(10)
		if f < 7 { // flapping storage
			p.FlapPct = []int{15, 30, 50}[r.Intn(3)]
			p.FlapSalt = int64(r.Intn(1 << 20))
		}
		if f >= 5 { // an outage of seconds somewhere in the life of the node
			from := r.Intn(6000)
			p.Outages = []Outage{{FromMS: from, ToMS: from + 500 + r.Intn(12000)}}
		}
		if r.Chance(20) {
			p.ShutdownAtMS = 1 + r.Intn(10000)
		}
	}
	if !steady && r.Chance(15) {
		// transient single-write failures on top of whatever else happens
		p.FlapPct = []int{10, 30}[r.Intn(2)]
		p.FlapSalt = int64(r.Intn(1 << 20))
	}
	if r.Chance(70) {
		for i := 0; i < 2+r.Intn(4); i++ {
			p.Trickle = append(p.Trickle, WOp{B: g.genBatch([]string{"col", "mp"}, dbs, meass, 2, false)})
		}
	}
	return p
}

func runC07(planAny any, cfg simrt.Config) *simkit.Outcome {
	p := planAny.(*C07Plan)
	out := &simkit.Outcome{}
	root := mkScratch()
	defer os.RemoveAll(root)
	var acks []*ackRec
	var n *node
	var queueFullSeen, walDropped, flushErrors int64
	var walMon *walDeleteMonitor
	res := simrt.Run(cfg, func() {
		simrt.SetPathRoot(root)
		n = newNode("n1", root, p.Knobs)
		walMon = n.watchWALDeletes()
		walMon.ghostDir = filepath.Join(root, "ghost")
		os.MkdirAll(walMon.ghostDir, 0o755)
		outageEnd := int64(0)
		applyFaults := func() {
			n.fb.failFrom, n.fb.failUntil = 0, 0
			n.fb.flapPct, n.fb.flapSalt = p.FlapPct, p.FlapSalt+int64(n.boots)*7919
			if len(p.Outages) > 0 {
				// one window at a time is enough: use the hull of the listed windows
				n.fb.failFrom = int64(p.Outages[0].FromMS) * 1e6
				n.fb.failUntil = int64(p.Outages[0].ToMS) * 1e6
				if n.fb.failUntil > outageEnd {
					outageEnd = n.fb.failUntil
				}
			}
			if n.boots == 1 {
				for _, i := range p.FailWrites {
					n.fb.failIdx[i] = true
				}
			}
		}
		collect := func() {
			if n.buf != nil {
				st := n.buf.GetStats()
				if v, ok := st["total_wal_dropped"].(int64); ok {
					walDropped += v
				}
				if v, ok := st["total_errors"].(int64); ok {
					queueFullSeen += v
				}
			}
			if n.fb != nil {
				for _, c := range n.fb.Failed {
					flushErrors += int64(c)
				}
			}
		}
		if !n.onNode("boot", func() {
			if err := n.boot(); err != nil {
				panic(err)
			}
			applyFaults()
		}) {
			return
		}
		bootDone := simrt.SimNow()
		stop := false
		pos := make([]int, len(p.Writers))
		runWriters := func() {
			var hs []*simrt.Task
			for wi := range p.Writers {
				wi := wi
				hs = append(hs, simrt.GoOn(fmt.Sprintf("writer%d", wi), n.sn, func() {
					ops := p.Writers[wi]
					for pos[wi] < len(ops) && !stop {
						i := pos[wi]
						if ops[i].SleepUs > 0 {
							simrt.Sleep(time.Duration(ops[i].SleepUs) * time.Microsecond)
							if stop {
								return
							}
						}
						if ops[i].Lead > 0 && p.Knobs.WAL {
							// wake up Lead step lengths before the next maintenance tick: ticks
							// are periodic (interval from the running configuration), the last
							// one was seen listing the WAL directory at lastGlobNS
							interval := int64(n.cfg.WAL.RecoveryIntervalSeconds) * int64(time.Second)
							lead := int64(ops[i].Lead-1) * (cfg.StepMaxNs/2 + 1)
							base, now := walMon.lastGlobNS, simrt.SimNow()
							if base == 0 {
								base = bootDone
							}
							d := (base - lead - now) % interval
							if d <= 0 {
								d += interval
							}
							simrt.Sleep(time.Duration(d))
							if stop {
								return
							}
						}
						pos[wi]++
						a := &ackRec{b: &ops[i].B}
						acks = append(acks, a)
						a.acked, a.det = n.send(&ops[i].B)
						simrt.Event("WRITE %s %s/%s n=%d acked=%v", a.b.Kind, a.b.DB, a.b.Meas, len(a.b.IDs), a.acked)
					}
				}))
			}
			if p.ShutdownAtMS > 0 && n.boots == 1 {
				simrt.Sleep(time.Duration(p.ShutdownAtMS) * time.Millisecond)
				stop = true
			}
			for _, h := range hs {
				simrt.Join(h)
			}
		}
		runWriters()
		if stop {
			// graceful shutdown mid-stream, then restart and finish the workload
			n.onNode("shutdown", func() { n.shutdown() })
			collect()
			simrt.Event("RESTART")
			stop = false
			walMon.lastGlobNS = 0 // the new process has its own maintenance ticker
			n.onNode("boot2", func() {
				if err := n.boot(); err != nil {
					panic(err)
				}
				applyFaults()
			})
			bootDone = simrt.SimNow()
			runWriters()
		}
		// ---- faults stop here ----
		now := simrt.SimNow()
		if outageEnd > now {
			simrt.Sleep(time.Duration(outageEnd - now))
		}
		n.fb.failFrom, n.fb.failUntil = 0, 0
		n.fb.failIdx = map[int]bool{}
		n.fb.flapPct = 0
		simrt.Event("FAULTS-STOP")
		safeAge := time.Duration(p.Knobs.MaxBufferAgeMS) * time.Millisecond * 3
		if safeAge < 30*time.Second {
			safeAge = 30 * time.Second
		}
		budget := 3 * (time.Duration(p.Knobs.WALRecoveryIntS)*time.Second + safeAge + time.Duration(p.Knobs.MaxBufferAgeMS)*time.Millisecond + 5*time.Second)
		if len(p.Trickle) > 0 {
			n.onNode("trickle", func() {
				for i := range p.Trickle {
					simrt.Sleep(budget / time.Duration(2*len(p.Trickle)))
					a := &ackRec{b: &p.Trickle[i].B}
					acks = append(acks, a)
					a.acked, a.det = n.send(&p.Trickle[i].B)
				}
			})
		}
		simrt.Sleep(budget)
		n.onNode("final", func() {
			n.buf.FlushAll(context.Background())
			n.shutdown()
		})
		collect()
		if p.FinalRestart {
			simrt.Event("FINAL-RESTART")
			n.onNode("boot3", func() {
				if err := n.boot(); err != nil {
					panic(err)
				}
				n.buf.FlushAll(context.Background())
				n.shutdown()
			})
		}
	})
	out.Absorb(res)
	if len(res.Panics) > 0 {
		out.Violate("C07.panic", "task panicked: %s", firstLine(res.Panics[0]))
		return out
	}
	if res.Outcome != "ok" {
		return out
	}
	out.Stats["probe.queue_full_or_errors"] += queueFullSeen
	out.Stats["probe.wal_dropped"] += walDropped
	out.Stats["probe.storage_failures"] += flushErrors
	if walMon != nil {
		out.Stats["probe.recovery_deletes_checked"] += int64(walMon.Checked)
		if walMon.Early > 0 {
			out.Stats["note.runs_recovery_delete_early"]++
			out.Violate("C07.wal-file-removed-by-recovery-before-its-rows-were-stored", "%s", walMon.EarlyMsg)
		}
	}
	if walMon != nil && p.Knobs.WAL {
		// acknowledged rows that are missing at the end AND whose WAL entry went
		// into a file the periodic maintenance purge had already unlinked (the
		// writer kept appending to the dead inode): no retry and no replay could
		// ever bring them back. A loss with its own cause gets its own rule id.
		ghost := walMon.appendedAfterUnlink()
		out.Stats["probe.wal_rows_appended_to_purged_file"] += int64(len(ghost))
		if len(ghost) > 0 {
			out.Stats["probe.runs_with_wal_rows_appended_to_purged_file"]++
			stored := n.parquetRids()
			var lost []int64
			for _, a := range acks {
				if !a.acked {
					continue
				}
				for _, id := range a.b.IDs {
					if _, g := ghost[id]; g && !stored[id] {
						lost = append(lost, id)
					}
				}
			}
			sort.Slice(lost, func(i, j int) bool { return lost[i] < lost[j] })
			if len(lost) > 0 {
				out.Stats["note.runs_lost_rows_appended_to_purged_file"]++
				out.Violate("C07.lost-row.wal-on.entry-appended-to-active-wal-file-unlinked-by-maintenance-purge",
					"%d acknowledged rows are not stored after storage recovered and their WAL entries are in no WAL file: the periodic purge unlinked %s while the writer was still appending to it (first rid %d); %d rows in all were appended to purged files in this run",
					len(lost), ghost[lost[0]], lost[0], len(ghost))
			}
		}
	}
	tmp := &simkit.Outcome{}
	checkStored(tmp, "C07", n, acks, storeOpts{exactlyOnce: true})
	// refine fingerprints with the circumstances of the run
	ctxTag := func() string {
		var t []string
		if p.Knobs.WAL {
			t = append(t, "wal-on")
		} else {
			t = append(t, "wal-off")
		}
		if flushErrors > 0 {
			t = append(t, "storage-failed")
		}
		if queueFullSeen > 0 && flushErrors == 0 {
			t = append(t, "queue-full")
		}
		if queueFullSeen == 0 && flushErrors == 0 && walDropped == 0 {
			t = append(t, "no-fault-no-backpressure")
		}
		if p.ShutdownAtMS > 0 {
			t = append(t, "shutdown-midstream")
		}
		if p.Knobs.WAL {
			if p.Knobs.WALMaxAgeS < 10 && len(p.Trickle) > 0 {
				t = append(t, "wal-rotates")
			} else {
				t = append(t, "wal-never-rotates")
			}
		}
		return strings.Join(t, ".")
	}
	for _, v := range tmp.Violations {
		rule := v.Rule
		if strings.HasPrefix(rule, "C07.lost-row") || strings.HasPrefix(rule, "C07.dup-row") {
			rule = rule + "." + ctxTag()
		}
		out.Violate(rule, "%s", v.Msg)
	}
	out.Nontrivial = flushErrors > 0 || queueFullSeen > 0 || walDropped > 0 || p.ShutdownAtMS > 0
	return out
}

func shrinkC07(planAny any) []any {
	p := planAny.(*C07Plan)
	var out []any
	cp := func() *C07Plan {
		q := *p
		q.Writers = make([][]WOp, len(p.Writers))
		for i := range p.Writers {
			q.Writers[i] = append([]WOp(nil), p.Writers[i]...)
		}
		q.Outages = append([]Outage(nil), p.Outages...)
		q.FailWrites = append([]int(nil), p.FailWrites...)
		q.Trickle = append([]WOp(nil), p.Trickle...)
		return &q
	}
	for i := range p.Writers {
		if len(p.Writers) > 1 {
			q := cp()
			q.Writers = append(q.Writers[:i], q.Writers[i+1:]...)
			out = append(out, q)
		}
	}
	for i := range p.Writers {
		for j := range p.Writers[i] {
			if len(p.Writers[i]) > 1 {
				q := cp()
				q.Writers[i] = append(append([]WOp(nil), q.Writers[i][:j]...), q.Writers[i][j+1:]...)
				out = append(out, q)
			}
		}
	}
	if p.FinalRestart {
		q := cp()
		q.FinalRestart = false
		out = append(out, q)
	}
	for i := range p.FailWrites {
		q := cp()
		q.FailWrites = append(q.FailWrites[:i], q.FailWrites[i+1:]...)
		out = append(out, q)
	}
	if p.FlapPct > 0 {
		q := cp()
		q.FlapPct = 0
		out = append(out, q)
	}
	if len(p.Outages) > 0 && p.FlapPct > 0 {
		q := cp()
		q.Outages = nil
		out = append(out, q)
	}
	if len(p.Trickle) > 0 {
		q := cp()
		q.Trickle = nil
		out = append(out, q)
	}
	for i := range p.Writers {
		for j := range p.Writers[i] {
			b := p.Writers[i][j].B
			if len(b.Cols) > 0 {
				q := cp()
				nb := b
				nb.Cols = nil
				if nb.Kind == "lp" {
					nb.Cols = []ColSpec{{Name: "f1", Type: "f"}}
				}
				if len(nb.Cols) != len(b.Cols) {
					q.Writers[i][j].B = nb
					out = append(out, q)
				}
			}
			if p.Writers[i][j].SleepUs > 0 {
				q := cp()
				q.Writers[i][j].SleepUs = 0
				out = append(out, q)
			}
		}
	}
	return out
}

func descC07(planAny any) any {
	p := planAny.(*C07Plan)
	var ws []string
	for _, w := range p.Writers {
		var s []string
		for _, op := range w {
			s = append(s, fmt.Sprintf("%s:%s/%s×%d", op.B.Kind, op.B.DB, op.B.Meas, len(op.B.IDs)))
		}
		ws = append(ws, strings.Join(s, " "))
	}
	return map[string]any{"knobs": p.Knobs, "writers": ws, "outages": p.Outages, "fail_writes": p.FailWrites, "flap_pct": p.FlapPct, "shutdown_at_ms": p.ShutdownAtMS, "final_restart": p.FinalRestart}
}
