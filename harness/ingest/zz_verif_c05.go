//go:build verif

package main

import (
	"context"
	"encoding/binary"
	"fmt"
	"hash/crc32"
	"os"
	"path/filepath"
	"sort"
	"strings"
	"time"

	"github.com/Basekick-Labs/msgpack/v6"

	"github.com/basekick-labs/arc/internal/simrt"
	"github.com/basekick-labs/arc/internal/verifsim/simkit"
)

// CrashSpec says where a process crash lands.
type CrashSpec struct {
	Mode string `json:"mode"` // none | step | fsop | fsop-torn | end
	// PerMille positions the crash inside the measured length of the phase
	// (steps or fs ops of the twin execution); K is an absolute count for
	// crashes after a restart.
	PerMille int `json:"per_mille,omitempty"`
	K        int `json:"k,omitempty"`
}

type C05Plan struct {
	Knobs  Knobs     `json:"knobs"`
	Ops    []WOp     `json:"ops"`
	Crash1 CrashSpec `json:"crash1"`
	Crash2 CrashSpec `json:"crash2"` // during / just after recovery
	Crash3 CrashSpec `json:"crash3"` // during the second recovery
}

var specialCols = []string{"database", "measurement", "m", "_database", "_measurement"}

func genC05(r *simrt.Rand, tier string) any {
	p := &C05Plan{Knobs: genKnobs(r)}
	p.Knobs.WAL = true
	p.Knobs.CtxAwareStorage = false
	p.Knobs.MaxBufferSize = []int{2, 5, 16, 1000}[r.Intn(4)]
	p.Knobs.MaxBufferAgeMS = []int{5, 50, 5000, 60000}[r.Intn(4)]
	g := &genCtx{r: r, baseUS: time.Date(2026, 3, 1, 12, 30, 0, 0, time.UTC).UnixMicro()}
	dbs := []string{"db1", "db2", "default"}[:1+r.Intn(3)]
	meass := []string{"cpu", "mem"}[:1+r.Intn(2)]
	n := 1 + r.Intn(8)
	if tier == "thorough" {
		n = 1 + r.Intn(16)
	}
	for i := 0; i < n; i++ {
		b := g.genBatch([]string{"col", "mp", "mprow", "lp"}, dbs, meass, 6, true)
		if r.Chance(35) {
			// columns / tags / fields with names the WAL replay treats specially
			name := specialCols[r.Intn(len(specialCols))]
			cs := ColSpec{Name: name, Type: "s"}
			if b.Kind == "lp" && r.Chance(50) {
				cs.Tag = true
			}
			b.Cols = append(b.Cols, cs)
		}
		op := WOp{B: b}
		if r.Chance(30) {
			op.SleepUs = int64(r.Intn(20000))
		}
		p.Ops = append(p.Ops, op)
	}
	modes := []string{"step", "step", "step", "fsop", "fsop-torn", "end"}
	p.Crash1 = CrashSpec{Mode: modes[r.Intn(len(modes))], PerMille: r.Intn(1001)}
	switch r.Intn(4) {
	case 0:
		p.Crash2 = CrashSpec{Mode: "none"}
	case 1:
		p.Crash2 = CrashSpec{Mode: "step", K: 1 + r.Intn(400)}
	case 2:
		p.Crash2 = CrashSpec{Mode: "fsop", K: r.Intn(40)}
	case 3:
		p.Crash2 = CrashSpec{Mode: "end"} // right after recovery returned, before any flush
	}
	p.Crash3 = CrashSpec{Mode: "none"}
	if p.Crash2.Mode != "none" && r.Chance(25) {
		p.Crash3 = CrashSpec{Mode: "step", K: 1 + r.Intn(300)}
	}
	return p
}

// durableRids parses the WAL directory with an independent reader (format:
// 7-byte file header, then entries [len u32][ts u64][crc32 u32][payload]) and
// returns the row ids of every entry that is completely in a file and whose
// checksum matches.
func durableWALRids(walDir string) map[int64]bool {
	out, _ := durableWALRids2(walDir)
	return out
}

// durableWALRids2 also counts entries that are completely framed in a file
// but fail their checksum: with a healthy disk that means the writer
// persisted something else than what it acknowledged.
func durableWALRids2(walDir string) (map[int64]bool, int) {
	corrupt := 0
	out := map[int64]bool{}
	files, _ := filepath.Glob(filepath.Join(walDir, "*.wal"))
	sort.Strings(files)
	for _, f := range files {
		corrupt += walFileRids(f, out)
	}
	return out, corrupt
}

// walFileRids adds the row ids of every intact entry of one WAL file to out
// and returns the number of completely framed entries with a bad checksum.
func walFileRids(f string, out map[int64]bool) int {
	corrupt := 0
	{
		b, err := os.ReadFile(f)
		if err != nil || len(b) < 7 || string(b[:4]) != "ARCW" {
			return 0
		}
		off := 7
		for off+16 <= len(b) {
			n := int(binary.BigEndian.Uint32(b[off : off+4]))
			crc := binary.BigEndian.Uint32(b[off+12 : off+16])
			if n <= 0 || off+16+n > len(b) {
				break
			}
			payload := b[off+16 : off+16+n]
			off += 16 + n
			if crc32.ChecksumIEEE(payload) != crc {
				corrupt++
				continue
			}
			collectRids(payload, out)
		}
	}
	return corrupt
}

func collectRids(payload []byte, out map[int64]bool) {
	if len(payload) > 3 && payload[0] == 0x01 {
		dl := int(binary.BigEndian.Uint16(payload[1:3]))
		if 3+dl <= len(payload) {
			payload = payload[3+dl:]
		}
	}
	var v interface{}
	if err := msgpack.Unmarshal(payload, &v); err != nil {
		return
	}
	walkRids(v, out)
}

func asInt(v interface{}) (int64, bool) {
	switch x := v.(type) {
	case int64:
		return x, true
	case int:
		return int64(x), true
	case int8:
		return int64(x), true
	case int16:
		return int64(x), true
	case int32:
		return int64(x), true
	case uint8:
		return int64(x), true
	case uint16:
		return int64(x), true
	case uint32:
		return int64(x), true
	case uint64:
		return int64(x), true
	}
	return 0, false
}

func walkRids(v interface{}, out map[int64]bool) {
	switch x := v.(type) {
	case []interface{}:
		for _, e := range x {
			walkRids(e, out)
		}
	case map[string]interface{}:
		if cols, ok := x["columns"].(map[string]interface{}); ok {
			if rc, ok := cols["rid"].([]interface{}); ok {
				for _, e := range rc {
					if id, ok := asInt(e); ok {
						out[id] = true
					}
				}
			}
			return
		}
		if batch, ok := x["batch"]; ok {
			walkRids(batch, out)
			return
		}
		if f, ok := x["fields"].(map[string]interface{}); ok {
			if id, ok := asInt(f["rid"]); ok {
				out[id] = true
			}
			return
		}
		if id, ok := asInt(x["rid"]); ok {
			out[id] = true
		}
	}
}

// parquetRids returns the rids present in complete parquet files now.
func (n *node) parquetRids() map[int64]bool {
	out := map[int64]bool{}
	rows, _, err := n.readAll()
	if err != nil {
		return out
	}
	for _, r := range rows {
		if id, ok := r.Vals["rid"].(int64); ok {
			out[id] = true
		}
	}
	return out
}

type c05exec struct {
	stored        []storedRow
	opsSteps      int64 // node steps consumed by boot+ops (twin measurement)
	opsFS         int64
	expect        map[int64]bool // rids durable at the first crash
	acks          []*ackRec
	res           simrt.Result
	readErr       error
	crashes       int
	lostAt2       []int64 // rids durable at crash1 but in neither WAL nor parquet at a later crash
	corruptAtRest int     // completely framed WAL entries with a bad checksum at the first crash
	walMon        *walDeleteMonitor
}

func armCrash(n *node, cs CrashSpec, baseSteps, baseFS int64, lenSteps, lenFS int64) {
	n.sn.CrashAtStep = 0
	simrt.SetFSInjector(nil)
	switch cs.Mode {
	case "step":
		k := int64(cs.K)
		if cs.PerMille > 0 || cs.K == 0 {
			k = lenSteps * int64(cs.PerMille) / 1000
		}
		if k < 1 {
			k = 1
		}
		n.sn.CrashAtStep = baseSteps + k
	case "fsop", "fsop-torn":
		k := int64(cs.K)
		if cs.PerMille > 0 {
			k = lenFS * int64(cs.PerMille) / 1000
		}
		target := baseFS + k
		torn := cs.Mode == "fsop-torn"
		simrt.SetFSInjector(func(op *simrt.FSOp) simrt.FSAction {
			if op.Node != n.sn || op.Index < target || !op.Mut {
				return simrt.FSAction{}
			}
			simrt.SetFSInjector(nil)
			if torn && op.Kind == "write" && op.N > 1 {
				simrt.Count("fault.torn_write", 1)
				return simrt.FSAction{Crash: 3, Short: 1 + int(uint64(op.Index*7919)%uint64(op.N-1))}
			}
			if op.Index%2 == 0 {
				return simrt.FSAction{Crash: 1}
			}
			return simrt.FSAction{Crash: 2}
		})
	}
}

// execC05 runs the plan; crash=false gives the twin (reference) execution.
func execC05(p *C05Plan, cfg simrt.Config, root string, crash bool, twin *c05exec) *c05exec {
	ex := &c05exec{}
	var n *node
	ex.res = simrt.Run(cfg, func() {
		simrt.SetPathRoot(root)
		n = newNode("n1", root, p.Knobs)
		if crash {
			ex.walMon = n.watchWALDeletes()
		}
		if crash && p.Crash1.Mode != "end" && p.Crash1.Mode != "none" {
			armCrash(n, p.Crash1, 0, 0, twin.opsSteps, twin.opsFS)
		}
		alive := n.onNode("boot+ops", func() {
			if err := n.boot(); err != nil {
				panic(err)
			}
			for i := range p.Ops {
				if p.Ops[i].SleepUs > 0 {
					simrt.Sleep(time.Duration(p.Ops[i].SleepUs) * time.Microsecond)
				}
				a := &ackRec{b: &p.Ops[i].B}
				ex.acks = append(ex.acks, a)
				a.acked, a.det = n.send(&p.Ops[i].B)
				simrt.Event("WRITE %s %s/%s n=%d acked=%v", a.b.Kind, a.b.DB, a.b.Meas, len(a.b.IDs), a.acked)
			}
		})
		ex.opsSteps, ex.opsFS = n.sn.Steps(), n.sn.FSOps()
		if !crash {
			n.onNode("final", func() {
				n.buf.FlushAll(context.Background())
				n.coord.Shutdown()
			})
			return
		}
		if alive && !n.sn.Dead {
			// the armed crash did not land inside the ops phase (or mode=end):
			// die now, with whatever the async WAL writer managed to persist.
			n.sn.CrashAtStep = 0
			simrt.SetFSInjector(nil)
			simrt.Crash(n.sn)
		}
		ex.crashes++
		ex.expect, ex.corruptAtRest = durableWALRids2(n.walDir)
		for id := range n.parquetRids() {
			ex.expect[id] = true
		}
		simrt.Event("SNAPSHOT durable=%d", len(ex.expect))
		// restart(s)
		for attempt, cs := range []CrashSpec{p.Crash2, p.Crash3, {Mode: "none"}} {
			simrt.Revive(n.sn)
			simrt.SetFSInjector(nil)
			n.sn.CrashAtStep = 0
			baseS, baseF := n.sn.Steps(), n.sn.FSOps()
			if cs.Mode == "step" || cs.Mode == "fsop" {
				armCrash(n, cs, baseS, baseF, 0, 0)
			}
			ok := n.onNode(fmt.Sprintf("restart%d", attempt), func() {
				if err := n.boot(); err != nil {
					panic(err)
				}
				if cs.Mode == "end" {
					return
				}
				if cs.Mode == "none" {
					n.buf.FlushAll(context.Background())
					n.coord.Shutdown()
					return
				}
				// armed crash: keep the node busy for a while so the crash can land
				// "just after recovery" too
				simrt.Sleep(50 * time.Millisecond)
			})
			if cs.Mode == "none" {
				if !ok {
					simrt.Event("UNEXPECTED-DEATH in final restart")
				}
				break
			}
			if !n.sn.Dead {
				n.sn.CrashAtStep = 0
				simrt.SetFSInjector(nil)
				simrt.Crash(n.sn)
			}
			ex.crashes++
			// what survived this crash?
			now := durableWALRids(n.walDir)
			for id := range n.parquetRids() {
				now[id] = true
			}
			for id := range ex.expect {
				if !now[id] {
					ex.lostAt2 = append(ex.lostAt2, id)
				}
			}
			simrt.Event("SNAPSHOT%d durable=%d", attempt+2, len(now))
		}
	})
	if n != nil {
		ex.stored, _, ex.readErr = n.readAll()
	}
	return ex
}

func runC05(planAny any, cfg simrt.Config) *simkit.Outcome {
	p := planAny.(*C05Plan)
	out := &simkit.Outcome{}
	rootT := mkScratch()
	defer os.RemoveAll(rootT)
	twin := execC05(p, cfg, rootT, false, nil)
	if twin.res.Outcome != "ok" || len(twin.res.Panics) > 0 || twin.readErr != nil {
		out.Absorb(twin.res)
		if len(twin.res.Panics) > 0 {
			out.Violate("C05.twin-panic", "reference execution panicked: %s", firstLine(twin.res.Panics[0]))
		} else if twin.readErr != nil {
			out.Violate("C05.twin-unreadable", "%v", twin.readErr)
		}
		return out
	}
	root := mkScratch()
	defer os.RemoveAll(root)
	ex := execC05(p, cfg, root, true, twin)
	out.Absorb(ex.res)
	out.Stats["twin_steps"] += twin.res.Steps
	if len(ex.res.Panics) > 0 {
		out.Violate("C05.panic", "task panicked: %s", firstLine(ex.res.Panics[0]))
		return out
	}
	if ex.res.Outcome != "ok" {
		return out
	}
	if ex.readErr != nil {
		out.Violate("C05.unreadable-file", "stored parquet not readable after recovery: %v", ex.readErr)
		return out
	}
	if ex.corruptAtRest > 0 {
		out.Violate("C05.acked-entry-corrupt-in-wal", "%d WAL entries are completely framed in the file at the crash instant but fail their checksum (no disk fault was injected into their bytes): the writer persisted something else than the acknowledged payload, so the rows cannot be recovered", ex.corruptAtRest)
	}
	if ex.walMon != nil && ex.walMon.Early > 0 {
		out.Violate("C05.wal-file-removed-by-recovery-before-its-rows-were-stored", "%s", ex.walMon.EarlyMsg)
	}
	if ex.walMon != nil {
		out.Stats["probe.recovery_deletes_checked"] += int64(ex.walMon.Checked)
	}
	// twin rows by rid
	type trow struct {
		dir  string
		vals map[string]any
	}
	T := map[int64]trow{}
	for _, sr := range twin.stored {
		if id, ok := sr.Vals["rid"].(int64); ok {
			T[id] = trow{dir: filepath.ToSlash(filepath.Dir(sr.File)), vals: sr.Vals}
		}
	}
	S := map[int64][]storedRow{}
	for _, sr := range ex.stored {
		id, ok := sr.Vals["rid"].(int64)
		if !ok {
			out.Violate("C05.fabricated-row", "row without rid after recovery in %s", sr.File)
			continue
		}
		S[id] = append(S[id], sr)
	}
	batchOf := map[int64]*Batch{}
	for i := range p.Ops {
		for _, id := range p.Ops[i].B.IDs {
			batchOf[id] = &p.Ops[i].B
		}
	}
	var lost []int64
	for id := range ex.expect {
		if _, inTwin := T[id]; !inTwin {
			continue // request was not accepted in the reference execution either
		}
		if len(S[id]) == 0 {
			lost = append(lost, id)
		}
	}
	sort.Slice(lost, func(i, j int) bool { return lost[i] < lost[j] })
	if len(lost) > 0 {
		lostLater := map[int64]bool{}
		for _, id := range ex.lostAt2 {
			lostLater[id] = true
		}
		nLater := 0
		for _, id := range lost {
			if lostLater[id] {
				nLater++
			}
		}
		b := batchOf[lost[0]]
		if nLater == len(lost) {
			out.Violate("C05.lost-row.crash-after-recovery-replay", "%d rows that were durable (WAL or parquet) at the first crash were in neither after a crash during/just after start-up recovery and are missing at the end; first rid %d (%s %s/%s)", len(lost), lost[0], b.Kind, b.DB, b.Meas)
		} else {
			out.Violate("C05.lost-row", "%d rows whose WAL entry was complete at the crash are missing after recovery; first rid %d (%s %s/%s)", len(lost), lost[0], b.Kind, b.DB, b.Meas)
		}
	}
	for id, rows := range S {
		t, ok := T[id]
		if !ok {
			if batchOf[id] == nil {
				out.Violate("C05.fabricated-row", "unknown rid %d after recovery", id)
			}
			continue
		}
		for _, sr := range rows {
			dir := filepath.ToSlash(filepath.Dir(sr.File))
			tp, sp := strings.SplitN(t.dir, "/", 3), strings.SplitN(dir, "/", 3)
			b := batchOf[id]
			if tp[0] != sp[0] {
				out.Violate("C05.wrong-database"+specialSuffix(b, "database", "_database"), "rid %d stored under database %q after recovery, %q without the crash (kind %s, columns %s)", id, sp[0], tp[0], b.Kind, colNames(b))
				continue
			}
			if len(tp) > 1 && len(sp) > 1 && tp[1] != sp[1] {
				out.Violate("C05.wrong-measurement"+specialSuffix(b, "measurement", "_measurement", "m"), "rid %d stored under measurement %q after recovery, %q without the crash (kind %s, columns %s)", id, sp[1], tp[1], b.Kind, colNames(b))
				continue
			}
			if !sameVal(sr.Vals["time"], t.vals["time"]) {
				cls := ".other"
				if tv, ok := t.vals["time"].(int64); ok && tv < 1e13 {
					cls = ".us-before-1970-04-27"
				}
				out.Violate("C05.time-changed."+walPath(b)+cls, "rid %d time %v after recovery, %v without the crash (kind %s)", id, sr.Vals["time"], t.vals["time"], b.Kind)
				continue
			}
			for k, want := range t.vals {
				got, present := sr.Vals[k]
				if !present && want == nil {
					continue
				}
				if !present {
					out.Violate("C05.column-dropped."+walPath(b)+"."+colClass(k), "rid %d column %q (=%#v) missing after recovery (kind %s)", id, k, want, b.Kind)
				} else if !sameVal(got, want) {
					out.Violate("C05.value-changed."+walPath(b)+"."+colClass(k), "rid %d column %q = %#v after recovery, %#v without the crash (kind %s)", id, k, got, want, b.Kind)
				}
			}
			for k, got := range sr.Vals {
				if _, ok := t.vals[k]; !ok && got != nil {
					out.Violate("C05.column-added."+walPath(b)+"."+colClass(k), "rid %d has extra column %q = %#v after recovery (kind %s)", id, k, got, b.Kind)
				}
			}
		}
	}
	out.Stats["probe.crashes"] += int64(ex.crashes)
	out.Stats["probe.durable_rows_expected"] += int64(len(ex.expect))
	out.Nontrivial = len(ex.expect) > 0
	return out
}

func shrinkC05(planAny any) []any {
	p := planAny.(*C05Plan)
	var out []any
	cp := func() *C05Plan { q := *p; q.Ops = append([]WOp(nil), p.Ops...); return &q }
	for i := range p.Ops {
		if len(p.Ops) > 1 {
			q := cp()
			q.Ops = append(q.Ops[:i], q.Ops[i+1:]...)
			out = append(out, q)
		}
	}
	if p.Crash3.Mode != "none" {
		q := cp()
		q.Crash3 = CrashSpec{Mode: "none"}
		out = append(out, q)
	}
	if p.Crash2.Mode != "none" {
		q := cp()
		q.Crash2 = CrashSpec{Mode: "none"}
		q.Crash3 = CrashSpec{Mode: "none"}
		out = append(out, q)
	}
	if p.Crash1.Mode != "end" {
		q := cp()
		q.Crash1 = CrashSpec{Mode: "end"}
		out = append(out, q)
	}
	for i := range p.Ops {
		b := p.Ops[i].B
		if len(b.IDs) > 1 {
			q := cp()
			nb := b
			nb.IDs, nb.Times = append([]int64(nil), b.IDs[:1]...), append([]int64(nil), b.Times[:1]...)
			q.Ops[i].B = nb
			out = append(out, q)
		}
		if len(b.Cols) > 0 {
			for j := range b.Cols {
				q := cp()
				nb := b
				nb.Cols = append(append([]ColSpec(nil), b.Cols[:j]...), b.Cols[j+1:]...)
				if nb.Kind == "lp" && (len(nb.Cols) == 0 || allTags(nb.Cols)) {
					continue
				}
				q.Ops[i].B = nb
				out = append(out, q)
			}
		}
		if p.Ops[i].SleepUs > 0 {
			q := cp()
			q.Ops[i].SleepUs = 0
			out = append(out, q)
		}
	}
	return out
}

func descC05(planAny any) any {
	p := planAny.(*C05Plan)
	var s []string
	for _, op := range p.Ops {
		var cols []string
		for _, c := range op.B.Cols {
			cols = append(cols, c.Name+":"+c.Type)
		}
		s = append(s, fmt.Sprintf("%s:%s/%s×%d[%s]", op.B.Kind, op.B.DB, op.B.Meas, len(op.B.IDs), strings.Join(cols, ",")))
	}
	return map[string]any{"ops": s, "crash1": p.Crash1, "crash2": p.Crash2, "crash3": p.Crash3, "buffer_size": p.Knobs.MaxBufferSize, "buffer_age_ms": p.Knobs.MaxBufferAgeMS}
}

// walPath names the WAL representation a request kind uses: msgpack columnar
// requests are logged as raw client bytes, everything else as flattened rows.
func walPath(b *Batch) string {
	if b.Kind == "mp" {
		return "raw-wal"
	}
	return "row-wal"
}

func colClass(name string) string {
	for _, s := range specialCols {
		if s == name {
			return "col-named-" + name
		}
	}
	return "ordinary-column"
}

func specialSuffix(b *Batch, names ...string) string {
	for _, c := range b.Cols {
		for _, n := range names {
			if c.Name == n {
				return ".request-has-column-named-" + n
			}
		}
	}
	return ""
}

func colNames(b *Batch) string {
	var s []string
	for _, c := range b.Cols {
		s = append(s, c.Name)
	}
	return strings.Join(s, ",")
}
