//go:build verif

package main

import (
	"os"

	"github.com/rs/zerolog"

	"github.com/basekick-labs/arc/internal/verifsim/simkit"
)

func main() {
	zerolog.SetGlobalLevel(zerolog.Disabled)
	if os.Getenv("VERIF_LOG") != "" {
		zerolog.SetGlobalLevel(zerolog.DebugLevel)
	}
	simkit.Main(
		&simkit.Check{ID: "C03", Gen: genC03, New: func() any { return &C03Plan{} }, Run: runC03, Shrink: shrinkC03, Desc: descC03},
	)
}
