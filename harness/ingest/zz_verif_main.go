//go:build verif

package main

import (
	"os"

	"github.com/rs/zerolog"

	"github.com/basekick-labs/arc/internal/verifsim/simkit"
)

func main() {
	zerolog.SetGlobalLevel(zerolog.Disabled)
	if os.Getenv("VERIF_LOG") != "" {
		zerolog.SetGlobalLevel(zerolog.DebugLevel)
	}
	simkit.Main(
		&simkit.Check{ID: "C03", Gen: genC03, New: func() any { return &C03Plan{} }, Run: runC03, Shrink: shrinkC03, Desc: descC03},
		&simkit.Check{ID: "C04", Gen: genC04, New: func() any { return &C04Plan{} }, Run: runC04, Shrink: shrinkC04, Desc: descC04},
		&simkit.Check{ID: "C05", Gen: genC05, New: func() any { return &C05Plan{} }, Run: runC05, Shrink: shrinkC05, Desc: descC05},
		&simkit.Check{ID: "C07", Gen: genC07, New: func() any { return &C07Plan{} }, Run: runC07, Shrink: shrinkC07, Desc: descC07},
	)
}
