//go:build verif

// Package simkit is the search/replay/minimise driver shared by all area
// harness binaries. It is injected as internal/verifsim/simkit.
package simkit

import (
	"encoding/json"
	"flag"
	"fmt"
	"os"
	"runtime/debug"
	"sort"
	"strings"
	"time"

	"github.com/basekick-labs/arc/internal/simrt"
)

// Violation is one oracle failure.
type Violation struct {
	Rule string `json:"rule"` // fingerprint: stable, specific oracle rule id
	Msg  string `json:"msg"`
}

// Outcome is what one simulated run produced.
type Outcome struct {
	Violations []Violation      `json:"violations,omitempty"`
	Stats      map[string]int64 `json:"stats,omitempty"`
	Nontrivial bool             `json:"nontrivial"`
	Discard    string           `json:"discard,omitempty"`
	Hash       uint64           `json:"hash"`
	Steps      int64            `json:"steps"`
	SimNs      int64            `json:"sim_ns"`
	Decisions  int64            `json:"decisions"`
	Preempts   int64            `json:"preempts"`
	Sim        string           `json:"sim_outcome"`
	Tail       []string         `json:"tail,omitempty"`
	Panics     []string         `json:"panics,omitempty"`
	Evals      int64            `json:"evals,omitempty"` // fault positions etc. evaluated inside this run
}

func (o *Outcome) Violate(rule, format string, args ...any) {
	for _, v := range o.Violations {
		if v.Rule == rule {
			return
		}
	}
	o.Violations = append(o.Violations, Violation{Rule: rule, Msg: fmt.Sprintf(format, args...)})
}

// Absorb copies the simulator result into the outcome.
func (o *Outcome) Absorb(r simrt.Result) {
	o.Hash, o.Steps, o.SimNs, o.Decisions, o.Preempts, o.Sim = r.TraceHash, r.Steps, r.SimNs, r.Decisions, r.Preempts, r.Outcome
	if o.Stats == nil {
		o.Stats = map[string]int64{}
	}
	for k, v := range r.Stats {
		o.Stats[k] += v
	}
	o.Panics = r.Panics
	o.Tail = r.Tail
}

// Check is one property check of an area binary.
type Check struct {
	ID  string
	Gen func(r *simrt.Rand, tier string) any // returns a pointer to a JSON-serialisable plan
	New func() any                           // new empty plan for decoding
	Run func(plan any, cfg simrt.Config) *Outcome
	// Shrink returns simpler candidate plans (each a fresh copy).
	Shrink func(plan any) []any
	// Desc is a short description of a plan for evidence samples.
	Desc func(plan any) any
}

// Replay is the on-disk replay file.
type Replay struct {
	Property  string          `json:"property"`
	Seed      uint64          `json:"seed"`
	Config    simrt.Config    `json:"config"`
	Plan      json.RawMessage `json:"plan"`
	Violation Violation       `json:"violation"`
	Hash      uint64          `json:"trace_hash"`
	Steps     int64           `json:"steps"`
	Tail      []string        `json:"event_tail,omitempty"`
	Minimised bool            `json:"minimised"`
	ShrinkLog []string        `json:"shrink_log,omitempty"`
}

// Summary is what a worker prints at the end (one JSON object on stdout's last line).
type Summary struct {
	Property     string            `json:"property"`
	Worker       int               `json:"worker"`
	BaseSeed     uint64            `json:"base_seed"`
	Runs         int64             `json:"runs"`
	Evals        int64             `json:"evals"`
	Discarded    int64             `json:"discarded"`
	Nontrivial   int64             `json:"nontrivial"`
	Hashes       []uint64          `json:"hashes"` // distinct trace hashes of non-trivial runs (capped)
	HashOverflow bool              `json:"hash_overflow"`
	Stats        map[string]int64  `json:"stats"`
	SimNs        int64             `json:"sim_ns"`
	Steps        int64             `json:"steps"`
	Policies     map[string]int64  `json:"policies"`
	Samples      []any             `json:"samples"`
	Replays      []string          `json:"replays"`
	Rules        map[string]string `json:"rules"` // rule -> replay path
	DetChecked   int64             `json:"det_checked"`
	DetMismatch  int64             `json:"det_mismatch"`
	SimOutcomes  map[string]int64  `json:"sim_outcomes"`
	WallS        float64           `json:"wall_s"`
	HarnessErr   string            `json:"harness_error,omitempty"`
}

// ConfigFor derives the simulator configuration (policy swarm) of a run.
func ConfigFor(seed uint64) simrt.Config {
	cfg := simrt.DefaultConfig(seed)
	r := simrt.Derive(seed, "cfg")
	switch r.Intn(10) {
	case 0, 1, 2:
		cfg.Policy = simrt.PolicyUniform
	case 3, 4:
		cfg.Policy = simrt.PolicySticky
		cfg.StickyPct = 50
	case 5, 6:
		cfg.Policy = simrt.PolicySticky
		cfg.StickyPct = 90
	case 7:
		cfg.Policy = simrt.PolicySticky
		cfg.StickyPct = 99
	case 8:
		cfg.Policy = simrt.PolicyPCT
		cfg.PCTDepth = 1 + r.Intn(3)
		cfg.PCTSteps = 200 << r.Intn(5)
	case 9:
		cfg.Policy = simrt.PolicyFIFO
	}
	cfg.StepMaxNs = []int64{1_000, 20_000, 200_000, 2_000_000}[r.Intn(4)]
	// epoch: 2026-01-01 plus up to 300 days, so hour/day/month boundaries vary
	cfg.EpochNs += int64(r.Intn(300*24)) * int64(time.Hour)
	cfg.EpochNs += r.Int63n(int64(time.Hour))
	return cfg
}

func policyName(c simrt.Config) string {
	if c.Policy == simrt.PolicySticky {
		return fmt.Sprintf("sticky%d", c.StickyPct)
	}
	return c.Policy.String()
}

func mustJSON(v any) []byte {
	b, err := json.Marshal(v)
	if err != nil {
		panic(err)
	}
	return b
}

func clone(c *Check, plan any) any {
	p := c.New()
	if err := json.Unmarshal(mustJSON(plan), p); err != nil {
		panic(err)
	}
	return p
}

func hasRule(o *Outcome, rule string) bool {
	for _, v := range o.Violations {
		if v.Rule == rule {
			return true
		}
	}
	return false
}

// minimise shrinks plan and schedule while the same rule keeps firing.
func minimise(c *Check, plan any, cfg simrt.Config, rule string, budget time.Duration) (any, simrt.Config, *Outcome, []string) {
	deadline := time.Now().Add(budget)
	var log []string
	best := plan
	bestCfg := cfg
	bestOut := c.Run(clone(c, best), bestCfg)
	if !hasRule(bestOut, rule) {
		return plan, cfg, nil, []string{"initial re-run did not reproduce"}
	}
	try := func(p any, cf simrt.Config, what string) bool {
		if time.Now().After(deadline) {
			return false
		}
		o := c.Run(clone(c, p), cf)
		if hasRule(o, rule) {
			best, bestCfg, bestOut = p, cf, o
			log = append(log, what)
			return true
		}
		return false
	}
	// 1. simpler schedules first
	for _, pol := range []simrt.Policy{simrt.PolicyFIFO} {
		if bestCfg.Policy != pol {
			cf := bestCfg
			cf.Policy = pol
			try(best, cf, "schedule->"+pol.String())
		}
	}
	if bestCfg.Policy == simrt.PolicySticky && bestCfg.StickyPct < 99 {
		cf := bestCfg
		cf.StickyPct = 99
		try(best, cf, "schedule->sticky99")
	}
	// 2. plan shrinking to a fixpoint
	if c.Shrink != nil {
		for progress := true; progress && time.Now().Before(deadline); {
			progress = false
			for i, cand := range c.Shrink(clone(c, best)) {
				if try(cand, bestCfg, fmt.Sprintf("plan-shrink#%d", i)) {
					progress = true
					break
				}
				if time.Now().After(deadline) {
					break
				}
			}
		}
	}
	return best, bestCfg, bestOut, log
}

// Main is the entry point of every area binary.
func Main(checks ...*Check) {
	prop := flag.String("prop", "", "property id")
	seed := flag.Uint64("seed", 1, "base seed")
	runs := flag.Int64("runs", 0, "max runs (0 = until budget)")
	budget := flag.Duration("budget", 20*time.Second, "wall-clock budget for the search")
	worker := flag.Int("worker", 0, "worker index")
	tier := flag.String("tier", "quick", "quick|thorough")
	replay := flag.String("replay", "", "replay file to re-execute")
	replayDir := flag.String("replaydir", "/verif/replays", "where to write replay files")
	detPct := flag.Int("detpct", 2, "percent of runs re-executed to check determinism")
	shrinkBudget := flag.Duration("shrink", 30*time.Second, "minimisation budget per violation")
	traceOnly := flag.Bool("traceonly", false, "print seed and trace hash per run (determinism self-test)")
	maxViol := flag.Int("maxviol", 3, "stop after this many distinct violating rules")
	knownFlag := flag.String("known", "", "comma-separated rule ids listed as known findings (recorded once, never stop the search)")
	oneSeed := flag.Uint64("oneseed", 0, "debug: generate and run this run-seed twice, print both event tails")
	flag.Parse()
	debug.SetGCPercent(200)

	var c *Check
	for _, x := range checks {
		if x.ID == *prop {
			c = x
		}
	}
	if c == nil {
		fmt.Fprintf(os.Stderr, "HARNESS-ERROR unknown property %q\n", *prop)
		os.Exit(2)
	}

	if *replay != "" {
		os.Exit(doReplay(c, *replay))
	}
	if *oneSeed != 0 {
		plan := c.Gen(simrt.Derive(*oneSeed, "plan"), *tier)
		cfg := ConfigFor(*oneSeed)
		p2 := clone(c, plan)
		fmt.Printf("PLAN %s\n", mustJSON(plan))
		o1 := c.Run(plan, cfg)
		o2 := c.Run(p2, cfg)
		fmt.Printf("RUN1 hash=%x steps=%d viol=%v\n%s\n", o1.Hash, o1.Steps, o1.Violations, strings.Join(o1.Tail, "\n"))
		fmt.Printf("RUN2 hash=%x steps=%d viol=%v\n%s\n", o2.Hash, o2.Steps, o2.Violations, strings.Join(o2.Tail, "\n"))
		for _, p := range append(o1.Panics, o2.Panics...) {
			fmt.Println("PANIC", p)
		}
		os.Exit(0)
	}

	knownRules := map[string]bool{}
	for _, k := range strings.Split(*knownFlag, ",") {
		if k != "" {
			knownRules[k] = true
		}
	}
	newRules := 0
	start := time.Now()
	sum := &Summary{Property: c.ID, Worker: *worker, BaseSeed: *seed, Stats: map[string]int64{}, Policies: map[string]int64{},
		Rules: map[string]string{}, SimOutcomes: map[string]int64{}}
	hashes := map[uint64]bool{}
	const hashCap = 200000
	for i := int64(0); ; i++ {
		if *runs > 0 && i >= *runs {
			break
		}
		if *runs == 0 && time.Since(start) > *budget {
			break
		}
		rs := simrt.SeedFor(*seed, uint64(*worker)<<40|uint64(i))
		plan := c.Gen(simrt.Derive(rs, "plan"), *tier)
		cfg := ConfigFor(rs)
		planCopy := clone(c, plan)
		simrt.WatchdogNote = fmt.Sprintf("property=%s runseed=%d (re-run with -oneseed %d -tier %s)", c.ID, rs, rs, *tier)
		out := c.Run(plan, cfg)
		sum.Runs++
		if *traceOnly {
			fmt.Printf("TRACE %d %016x %d\n", rs, out.Hash, out.Steps)
		}
		sum.SimOutcomes[out.Sim]++
		if out.Sim != "ok" && out.Discard == "" && len(out.Violations) == 0 {
			// dead-lock or step-limit that the oracle did not classify: harness trouble
			sum.HarnessErr = fmt.Sprintf("seed %d: simulator outcome %q\n%s", rs, out.Sim, strings.Join(out.Tail, "\n"))
			writeReplay(c, *replayDir, rs, cfg, planCopy, Violation{Rule: "harness." + out.Sim, Msg: out.Sim}, out, false, nil)
			break
		}
		if out.Discard != "" {
			sum.Discarded++
			sum.Stats["discard."+out.Discard]++
			continue
		}
		sum.Evals += 1 + out.Evals
		sum.SimNs += out.SimNs
		sum.Steps += out.Steps
		sum.Policies[policyName(cfg)]++
		for k, v := range out.Stats {
			sum.Stats[k] += v
		}
		if out.Nontrivial {
			sum.Nontrivial++
			if len(hashes) < hashCap {
				hashes[out.Hash] = true
			} else {
				sum.HashOverflow = true
			}
		}
		if len(sum.Samples) < 3 && out.Nontrivial {
			var d any = planCopy
			if c.Desc != nil {
				d = c.Desc(planCopy)
			}
			sum.Samples = append(sum.Samples, map[string]any{"seed": rs, "policy": policyName(cfg), "plan": d, "steps": out.Steps, "outcome": "held"})
		}
		if *detPct > 0 && int(rs%100) < *detPct {
			out2 := c.Run(clone(c, planCopy), cfg)
			sum.DetChecked++
			if out2.Hash != out.Hash || out2.Steps != out.Steps {
				// A third execution arbitrates: uninstrumented components read the
				// real clock (SQLite CURRENT_TIMESTAMP, DuckDB), so a one-off
				// difference can come from a real-second boundary. Systematic
				// nondeterminism (all three differ, or repeated mismatches) is fatal.
				out3 := c.Run(clone(c, planCopy), cfg)
				sum.DetMismatch++
				sum.Stats["note.determinism_recheck_transient_mismatch"]++
				allDiffer := out3.Hash != out.Hash && out3.Hash != out2.Hash
				if allDiffer || sum.DetMismatch > 2 {
					sum.HarnessErr = fmt.Sprintf("nondeterminism: seed %d hash %x/%x/%x steps %d/%d/%d (mismatches so far %d)\nFIRST:\n%s\nSECOND:\n%s\nPANICS: %v %v", rs, out.Hash, out2.Hash, out3.Hash, out.Steps, out2.Steps, out3.Steps, sum.DetMismatch,
						strings.Join(out.Tail, "\n"), strings.Join(out2.Tail, "\n"), out.Panics, out2.Panics)
					break
				}
			}
		}
		for _, v := range out.Violations {
			if _, seen := sum.Rules[v.Rule]; seen {
				continue
			}
			sb := *shrinkBudget
			if knownRules[v.Rule] {
				sb = 2 * time.Second
			} else {
				newRules++
			}
			mp, mcfg, mout, log := minimise(c, planCopy, cfg, v.Rule, sb)
			minimised := mout != nil
			if mout == nil {
				mp, mcfg, mout = planCopy, cfg, out
			}
			mv := v
			for _, x := range mout.Violations {
				if x.Rule == v.Rule {
					mv = x
				}
			}
			path := writeReplay(c, *replayDir, rs, mcfg, mp, mv, mout, minimised, log)
			sum.Rules[v.Rule] = path
			sum.Replays = append(sum.Replays, path)
		}
		if newRules >= *maxViol {
			break
		}
	}
	for h := range hashes {
		sum.Hashes = append(sum.Hashes, h)
	}
	sort.Slice(sum.Hashes, func(i, j int) bool { return sum.Hashes[i] < sum.Hashes[j] })
	sum.WallS = time.Since(start).Seconds()
	fmt.Printf("SUMMARY %s\n", mustJSON(sum))
	if sum.HarnessErr != "" {
		fmt.Fprintf(os.Stderr, "HARNESS-ERROR %s\n", sum.HarnessErr)
		os.Exit(2)
	}
	if len(sum.Rules) > 0 {
		os.Exit(1)
	}
}

func writeReplay(c *Check, dir string, seed uint64, cfg simrt.Config, plan any, v Violation, out *Outcome, minimised bool, log []string) string {
	os.MkdirAll(dir, 0o755)
	rp := Replay{Property: c.ID, Seed: seed, Config: cfg, Plan: mustJSON(plan), Violation: v, Hash: out.Hash, Steps: out.Steps,
		Tail: out.Tail, Minimised: minimised, ShrinkLog: log}
	if len(rp.Tail) > 120 {
		rp.Tail = rp.Tail[len(rp.Tail)-120:]
	}
	name := fmt.Sprintf("%s/%s-%d-%08x.json", dir, c.ID, seed, uint32(hashRule(v.Rule)))
	b, _ := json.MarshalIndent(rp, "", " ")
	os.WriteFile(name, b, 0o644)
	return name
}

// doReplay re-executes a replay file: exit 1 when the same rule fires with
// the same trace hash, 0 when the property holds now, 2 on divergence.
func doReplay(c *Check, path string) int {
	b, err := os.ReadFile(path)
	if err != nil {
		fmt.Fprintln(os.Stderr, "HARNESS-ERROR", err)
		return 2
	}
	var rp Replay
	if err := json.Unmarshal(b, &rp); err != nil {
		fmt.Fprintln(os.Stderr, "HARNESS-ERROR", err)
		return 2
	}
	plan := c.New()
	if err := json.Unmarshal(rp.Plan, plan); err != nil {
		fmt.Fprintln(os.Stderr, "HARNESS-ERROR", err)
		return 2
	}
	out := c.Run(plan, rp.Config)
	fmt.Printf("REPLAY property=%s seed=%d hash=%016x recorded=%016x steps=%d/%d\n", c.ID, rp.Seed, out.Hash, rp.Hash, out.Steps, rp.Steps)
	for _, v := range out.Violations {
		fmt.Printf("REPLAY-VIOLATION rule=%s %s\n", v.Rule, v.Msg)
	}
	if os.Getenv("VERIF_REPLAY_VERBOSE") != "" {
		for _, l := range out.Tail {
			fmt.Println("  ", l)
		}
		for _, p := range out.Panics {
			fmt.Println("PANIC", p)
		}
	}
	if hasRule(out, rp.Violation.Rule) {
		if out.Hash != rp.Hash {
			fmt.Println("REPLAY-NOTE same violation, different trace hash (code under test changed or nondeterminism)")
		}
		return 1
	}
	if out.Hash != rp.Hash {
		fmt.Println("REPLAY-DIVERGED")
	}
	return 0
}

func hashRule(s string) uint64 {
	h := uint64(0xcbf29ce484222325)
	for i := 0; i < len(s); i++ {
		h ^= uint64(s[i])
		h *= 0x100000001b3
	}
	return h
}
