//go:build verif

package license

// VerifLicensedClient returns a client that holds an active licence with the
// given features, without contacting a licence server (harness use only).
func VerifLicensedClient(features ...string) *Client {
	return &Client{
		offline: true,
		license: &License{LicenseKey: "verif", Tier: "enterprise", Features: features, Status: "active"},
		stopCh:  make(chan struct{}),
	}
}
