//go:build verif

package api

import (
	"github.com/rs/zerolog"

	"github.com/basekick-labs/arc/internal/database"
	"github.com/basekick-labs/arc/internal/governance"
	"github.com/basekick-labs/arc/internal/license"
)

// VerifGovernanceQueryHandler builds a QueryHandler that has no database
// behind it: only the part of executeQuery up to request validation (routing
// decision, governance enforcement, body parsing, SQL validation) may be
// reached. The harness sends requests that fail validation right after the
// governance block.
func VerifGovernanceQueryHandler(m *governance.Manager, lc *license.Client, logger zerolog.Logger) *QueryHandler {
	h := &QueryHandler{
		logger:     logger,
		queryCache: database.NewQueryCache(database.QueryCacheTTL, database.DefaultQueryCacheMaxSize),
	}
	h.SetGovernance(m, lc)
	return h
}
