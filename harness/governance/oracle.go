//go:build verif

package main

import (
	"fmt"
	"os"
	"sort"
	"strings"
	"time"

	"github.com/basekick-labs/arc/internal/governance"
	"github.com/basekick-labs/arc/internal/verifsim/simkit"
)

// The oracle is written from the property text only:
//
//  (1) for every token, the number of queries admitted in any window of the
//      rate-limit length (one minute for rate_limit_per_minute, one hour for
//      rate_limit_per_hour) never exceeds the limit;
//  (2) hourly / daily quotas are never exceeded within a clock hour / UTC day;
//  (3) a query rejected by the rate limit consumes no quota;
//  (4) limit changes apply to the next request.
//
// Every request is known to the oracle as an interval [s,e] of simulated time
// (taken around the in-process HTTP call); the decision instant lies somewhere
// inside. A violation is reported only when it holds for every possible
// position of the decision instants:
//
//   - (1)+(4) "sequential form": an admitted request t whose limit L is
//     unambiguous (no policy change overlaps t) together with the admitted
//     requests that completed before t started and started less than one
//     window before t ended are more than L;
//   - (1) "set form" (covers concurrent requests): a set of admitted requests
//     whose intervals all lie inside a span shorter than the window, during
//     which the limit was constant, is larger than the limit;
//   - (2) the same two forms with "same clock hour / UTC day (both ends of the
//     interval)" instead of "inside the window".
//
// Spans during which the dimension was unlimited (0) are not judged: arc does
// not count while a dimension is unlimited and the property text does not say
// whether queries admitted while unlimited count against a limit set later.
//
// Restarts: the limits a token is held to are the persisted policy (what the
// operator configured through the API) or the configured defaults, before and
// after a restart alike. arc keeps the counters in memory only, and the
// property text does not say whether they must survive a restart, so admits
// are only ever counted together when they were decided by the same process
// incarnation (this can only make the oracle weaker than the text).
//
// Internal state (slot length, the limit a limiter object holds) is read
// through an accessor only to NAME a violation more specifically.

type dimension struct {
	name string // used in rule ids
	rate bool
	w    int64 // window length (rate) or bucket length (quota), ns
	get  func(Limits) int
	rej  string // request kind of a rejection by this dimension
	peek func(governance.VerifInternals) (limit int, has bool, slotNs int64)
}

var dims = []dimension{
	{name: "per-minute", rate: true, w: int64(time.Minute), get: func(l Limits) int { return l.RPM }, rej: "rl-min",
		peek: func(v governance.VerifInternals) (int, bool, int64) { return v.MinLimit, v.HasMin, v.MinSlotNs }},
	{name: "per-hour", rate: true, w: int64(time.Hour), get: func(l Limits) int { return l.RPH }, rej: "rl-hour",
		peek: func(v governance.VerifInternals) (int, bool, int64) { return v.HourLimit, v.HasHour, v.HourSlotNs }},
	{name: "hour", w: int64(time.Hour), get: func(l Limits) int { return l.QH }, rej: "q-hour",
		peek: func(v governance.VerifInternals) (int, bool, int64) { return v.QHour, v.HasQuota, 0 }},
	{name: "day", w: 24 * int64(time.Hour), get: func(l Limits) int { return l.QD }, rej: "q-day",
		peek: func(v governance.VerifInternals) (int, bool, int64) { return v.QDay, v.HasQuota, 0 }},
}

func floorDiv(a, b int64) int64 {
	q := a / b
	if a%b < 0 {
		q--
	}
	return q
}

// history of the effective limits of one token
type history struct {
	initial Limits
	ops     []opRec // sorted by start, non-overlapping by construction of the plans
}

// at returns the limits in force during [a,b] when no policy operation
// overlaps the interval.
func (h *history) at(a, b int64) (Limits, bool) {
	cur := h.initial
	for _, o := range h.ops {
		if o.e <= a {
			cur = o.after
			continue
		}
		if o.s < b && o.e > a {
			return cur, false
		}
	}
	return cur, true
}

// constIn reports whether no policy operation overlaps [a,b].
func (h *history) constIn(a, b int64) bool {
	_, ok := h.at(a, b)
	return ok
}

// values returns every value the dimension may have had during [a,b].
func (h *history) values(d *dimension, a, b int64) []int {
	cur := h.initial
	var vs []int
	started := false
	for _, o := range h.ops {
		if o.e <= a {
			cur = o.after
			continue
		}
		if !started {
			vs = append(vs, d.get(cur))
			started = true
		}
		if o.s < b {
			vs = append(vs, d.get(o.after))
			cur = o.after
		}
	}
	if !started {
		vs = append(vs, d.get(cur))
	}
	return vs
}

func (h *history) finiteIn(d *dimension, a, b int64) bool {
	for _, v := range h.values(d, a, b) {
		if v <= 0 {
			return false
		}
	}
	return true
}

func (h *history) deleteIn(a, b int64) bool {
	for _, o := range h.ops {
		if o.kind == "delete" && o.s < b && o.e > a {
			return true
		}
	}
	return false
}

// raisedBefore reports whether an operation that completed before x raised
// (or removed) the limit of dimension d.
func (h *history) raisedBefore(d *dimension, x int64) bool {
	cur := h.initial
	for _, o := range h.ops {
		if o.e > x {
			break
		}
		before, after := d.get(cur), d.get(o.after)
		if before > 0 && (after == 0 || after > before) {
			return true
		}
		cur = o.after
	}
	return false
}

// lastChangeRaced reports whether the last policy operation that completed
// before x overlapped in time with a request of the same token.
func (h *history) lastChangeRaced(x int64, reqs []*reqRec) bool {
	var last *opRec
	for i := range h.ops {
		if h.ops[i].e <= x {
			last = &h.ops[i]
		}
	}
	if last == nil {
		return false
	}
	for _, r := range reqs {
		if r.s < last.e && r.e > last.s {
			return true
		}
	}
	return false
}

type judgeCtx struct {
	w   *world
	out *simkit.Outcome
}

func (j *judgeCtx) wallStepBefore(x int64) bool {
	for _, t := range j.w.wallStep {
		if t <= x {
			return true
		}
	}
	return false
}

func (j *judgeCtx) wallStepIn(a, b int64) bool {
	for _, t := range j.w.wallStep {
		if t >= a && t <= b {
			return true
		}
	}
	return false
}

// key returns the clock hour / UTC day a request certainly falls in.
func (j *judgeCtx) key(d *dimension, r *reqRec) (int64, bool) {
	if j.wallStepIn(r.s, r.e) {
		return 0, false
	}
	k1, k2 := floorDiv(r.ws, d.w), floorDiv(r.we, d.w)
	return k1, k1 == k2
}

func sec(ns int64) string { return fmt.Sprintf("%.6fs", float64(ns)/1e9) }

func judge(w *world, out *simkit.Outcome) {
	j := &judgeCtx{w: w, out: out}
	st := out.Stats
	tokSet := map[int64]bool{}
	for _, r := range w.reqs {
		tokSet[r.token] = true
	}
	var toks []int64
	for t := range tokSet {
		toks = append(toks, t)
	}
	sort.Slice(toks, func(a, b int) bool { return toks[a] < toks[b] })
	judged, rejections := int64(0), int64(0)
	for _, tok := range toks {
		h := &history{initial: w.p.Defaults}
		for _, o := range w.ops {
			if o.token == tok {
				h.ops = append(h.ops, o)
			}
		}
		sort.SliceStable(h.ops, func(a, b int) bool { return h.ops[a].s < h.ops[b].s })
		for i := 1; i < len(h.ops); i++ {
			if h.ops[i].s < h.ops[i-1].e {
				// plans never contain two concurrent policy operations on one token
				fmt.Fprintf(os.Stderr, "HARNESS-ERROR C28: overlapping policy operations on token %d\n", tok)
				os.Exit(2)
			}
		}
		var reqs, admits []*reqRec
		for i := range w.reqs {
			if w.reqs[i].token == tok {
				reqs = append(reqs, &w.reqs[i])
				if w.reqs[i].kind == "admit" {
					admits = append(admits, &w.reqs[i])
				} else {
					rejections++
				}
			}
		}
		for di := range dims {
			judged += j.judgeAdmits(tok, &dims[di], h, admits, reqs)
			j.judgeRejects(tok, &dims[di], h, reqs)
		}
	}
	j.judgeProbes()
	for _, r := range w.reqs {
		if r.epoch > 0 && r.kind == "admit" {
			st["probe.admits-after-restart"]++
		}
	}
	st["probe.judged-admits"] += judged
	out.Nontrivial = judged > 0 && (rejections > 0 || out.Preempts > 0)
}

// judgeAdmits checks clauses (1), (2) and the lowering direction of (4).
func (j *judgeCtx) judgeAdmits(tok int64, d *dimension, h *history, admits, reqs []*reqRec) int64 {
	judged := int64(0)
	for _, t := range admits {
		lim, ok := h.at(t.s, t.e)
		if !ok {
			j.out.Stats["probe.admit-concurrent-with-policy-change"]++
			continue
		}
		L := d.get(lim)
		if L <= 0 {
			continue
		}
		var tkey int64
		if !d.rate {
			k, def := j.key(d, t)
			if !def {
				j.out.Stats["probe.admit-straddles-"+d.name+"-boundary"]++
				continue
			}
			tkey = k
		}
		count := func(win int64) (seq, all int, minSeq, minAll int64) {
			seq, all, minSeq, minAll = 1, 1, t.s, t.s
			for _, o := range admits {
				if o == t || o.epoch != t.epoch {
					continue
				}
				if d.rate {
					if !(o.s > t.e-win) {
						continue
					}
				} else {
					k, def := j.key(d, o)
					if !def || k != tkey {
						continue
					}
				}
				if o.e <= t.s {
					seq++
					if o.s < minSeq {
						minSeq = o.s
					}
				}
				if o.e <= t.e {
					all++
					if o.s < minAll {
						minAll = o.s
					}
				}
			}
			return
		}
		judged++
		seq, all, minSeq, minAll := count(d.w)
		var cnt int
		var from int64
		form := ""
		switch {
		case seq > L && h.finiteIn(d, minSeq, t.e):
			cnt, from, form = seq, minSeq, "sequential"
		case all > L && h.constIn(minAll, t.e):
			cnt, from, form = all, minAll, "set"
		case seq > L || all > L:
			j.out.Stats["probe.skipped.unlimited-or-changing-limit-in-span"]++
			continue
		default:
			continue
		}
		suffix := ""
		intLimit, has, slot := d.peek(t.peek)
		// does the slot granularity of the limiter explain the excess by itself?
		// (the admits inside the narrower window W-slot respect the limit)
		slotExplains := false
		if d.rate && slot > 0 && slot < d.w {
			s2, a2, _, _ := count(d.w - slot)
			c2 := s2
			if form == "set" {
				c2 = a2
			}
			slotExplains = c2 <= L
		}
		switch {
		case j.wallStepIn(from, t.e):
			// a wall-clock step inside the span explains the excess by itself
			// (checked first: a policy delete in the same span is incidental)
			suffix = "after-wall-clock-step"
		case slotExplains:
			// checked before the policy-delete explanation: a delete in a span
			// that only exceeds the limit across a slot expiry is incidental
			suffix = "window-straddles-slot-expiry"
		case j.deleteExplains(d, h, admits, t, tkey, from, form, L):
			// the admits after the last policy delete alone respect the limit
			suffix = "after-policy-delete"
		case has && intLimit != L && h.lastChangeRaced(t.s, reqs):
			// the limiter object holds another limit than the policy, and the
			// policy change that set the limit ran concurrently with a request
			suffix = "stale-limit-after-update-concurrent-with-request"
		case t.epoch > 0 && h.constIn(j.w.restarts[t.epoch-1], t.e):
			// the limits in force were never touched by this incarnation of the
			// process: it holds the token to what it loaded at start-up
			suffix = "limits-loaded-at-restart"
		default:
			if !h.constIn(from, t.e) {
				suffix = "after-limit-change"
			} else {
				suffix = "constant-limit"
			}
		}
		var rule, what string
		if d.rate {
			rule = "C28.rate." + d.name + "-window-exceeded." + suffix
			what = fmt.Sprintf("token %d: %d queries admitted within %s (< %s window) while rate_limit %s = %d", tok, cnt, sec(t.e-from), time.Duration(d.w), d.name, L)
		} else {
			rule = "C28.quota." + d.name + "-exceeded." + suffix
			what = fmt.Sprintf("token %d: %d queries admitted inside one clock %s (bucket %d, UTC) while max_queries_per_%s = %d", tok, cnt, d.name, tkey, d.name, L)
		}
		j.out.Violate(rule, "%s; %s form; last admit at t=[%s,%s], first counted admit starts at t=%s; limiter holds limit=%d (exists=%v)",
			what, form, sec(t.s), sec(t.e), sec(from), intLimit, has)
	}
	return judged
}

// deleteExplains reports whether a policy delete lies inside the span and the
// admitted requests that started after it completed are within the limit
// (i.e. the excess disappears when counting restarts at the delete).
func (j *judgeCtx) deleteExplains(d *dimension, h *history, admits []*reqRec, t *reqRec, tkey int64, from int64, form string, L int) bool {
	last := int64(-1)
	for _, o := range h.ops {
		if o.kind == "delete" && o.s < t.e && o.e > from && o.e > last {
			last = o.e
		}
	}
	if last < 0 || t.s < last {
		return false
	}
	cnt := 1
	for _, o := range admits {
		if o == t || o.s < last || o.epoch != t.epoch {
			continue
		}
		if d.rate {
			if !(o.s > t.e-d.w) {
				continue
			}
		} else if k, def := j.key(d, o); !def || k != tkey {
			continue
		}
		if (form == "sequential" && o.e <= t.s) || (form == "set" && o.e <= t.e) {
			cnt++
		}
	}
	return cnt <= L
}

// judgeRejects checks the raising direction of clause (4) and, indirectly,
// clause (3): a rejection by a dimension must be explainable by queries that
// may have consumed that dimension.
func (j *judgeCtx) judgeRejects(tok int64, d *dimension, h *history, reqs []*reqRec) {
	for _, t := range reqs {
		if t.kind != d.rej || j.wallStepBefore(t.e) {
			continue
		}
		lim, ok := h.at(t.s, t.e)
		if !ok {
			continue
		}
		L := d.get(lim)
		// upper bound of the requests that may have consumed this dimension
		// before t's decision and may still count
		c, rl := 0, 0
		if L > 0 {
			for _, o := range reqs {
				if o == t || o.s >= t.e {
					continue
				}
				inScope := false
				if d.rate {
					inScope = o.e > t.s-d.w
				} else {
					inScope = floorDiv(o.we, d.w) >= floorDiv(t.ws, d.w) && floorDiv(o.ws, d.w) <= floorDiv(t.we, d.w)
				}
				if !inScope {
					continue
				}
				switch d.name {
				case "per-minute":
					if o.kind != "rl-min" {
						c++
					}
				case "per-hour":
					if o.kind != "rl-min" && o.kind != "rl-hour" {
						c++
					}
				default:
					if o.kind == "admit" {
						c++
					}
					if o.kind == "rl-min" || o.kind == "rl-hour" {
						rl++
					}
				}
			}
			if c >= L {
				continue
			}
		}
		intLimit, has, _ := d.peek(t.peek)
		switch {
		case h.raisedBefore(d, t.s):
			rule := "C28.limit-change.raise-not-applied." + d.name
			if has && intLimit != L && h.lastChangeRaced(t.s, reqs) {
				rule += ".stale-limit-after-update-concurrent-with-request"
			}
			j.out.Violate(rule,
				"token %d: request at t=[%s,%s] rejected by the %s limit although the limit in force since the last completed policy change is %d and at most %d earlier requests can count against it; limiter holds limit=%d (exists=%v)",
				tok, sec(t.s), sec(t.e), d.name, L, c, intLimit, has)
		case !d.rate && L > 0 && c+rl >= L:
			j.out.Violate("C28.ratelimited-consumed-quota.inferred-from-"+d.name+"-quota-reject",
				"token %d: request at t=[%s,%s] rejected by the %s quota (%d) although at most %d queries were admitted in that clock %s; %d rate-limited requests account for the difference",
				tok, sec(t.s), sec(t.e), d.name, L, c, d.name, rl)
		default:
			j.out.Stats["probe.unexplained-reject."+d.name]++
		}
	}
}

// judgeProbes checks clause (3) directly on the usage endpoint: between two
// usage readings of a sequential burst the counters may advance by at most the
// number of requests that were not rejected by a rate limit.
func (j *judgeCtx) judgeProbes() {
	for _, p := range j.w.probes {
		for _, d := range []*dimension{&dims[2], &dims[3]} {
			if floorDiv(p.before.ws, d.w) != floorDiv(p.after.we, d.w) || j.wallStepIn(p.before.s, p.after.e) {
				continue
			}
			b, a := p.before.hour, p.after.hour
			if d.name == "day" {
				b, a = p.before.day, p.after.day
			}
			j.out.Stats["probe.usage-probe-judged"]++
			if p.rateLim > 0 {
				j.out.Stats["probe.usage-probe-with-rate-limited"]++
			}
			if a-b > p.n-p.rateLim {
				var kinds []string
				for _, r := range j.w.reqs[p.firstReqIdx : p.firstReqIdx+p.n] {
					kinds = append(kinds, r.kind)
				}
				j.out.Violate("C28.ratelimited-consumed-quota.usage-counter-advanced."+d.name,
					"token %d: queries_this_%s went from %d to %d across %d sequential requests of which %d were rejected by a rate limit (%s)",
					p.token, d.name, b, a, p.n, p.rateLim, strings.Join(kinds, ","))
			}
		}
	}
}
