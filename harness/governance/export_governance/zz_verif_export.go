//go:build verif

package governance

// VerifInternals is a lock-free snapshot of the in-memory enforcement state of
// one token. It is used by the harness only to NAME violations (stale limit,
// slot length), never to decide whether something is a violation.
type VerifInternals struct {
	HasMin, HasHour, HasQuota bool
	MinLimit, HourLimit       int
	MinSlotNs, MinWindowNs    int64
	HourSlotNs, HourWindowNs  int64
	QHour, QDay               int
}

// VerifPeek reads the state without taking locks: the simulator runs one task
// at a time, and taking the (instrumented) locks would add scheduling points.
func VerifPeek(m *Manager, token int64) VerifInternals {
	var v VerifInternals
	if l, ok := m.minuteLimiters[token]; ok {
		v.HasMin, v.MinLimit, v.MinSlotNs, v.MinWindowNs = true, l.limit, int64(l.slotDuration), int64(l.windowSize)
	}
	if l, ok := m.hourLimiters[token]; ok {
		v.HasHour, v.HourLimit, v.HourSlotNs, v.HourWindowNs = true, l.limit, int64(l.slotDuration), int64(l.windowSize)
	}
	if q, ok := m.quotaTrackers[token]; ok {
		v.HasQuota, v.QHour, v.QDay = true, q.maxPerHour, q.maxPerDay
	}
	return v
}
