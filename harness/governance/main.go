//go:build verif

// Area governance: property C28 (query rate limits and quotas are never
// exceeded; a rate-limited query consumes no quota; limit changes apply to the
// next request).
//
// Real code under test: governance.Manager with its slidingWindowCounter and
// quotaTracker (instrumented: clock, locks, goroutines), the governance block
// of api.QueryHandler.executeQuery (CheckRateLimit then CheckQuota) reached
// through the real Fiber route POST /api/v1/query, and the policy/usage
// endpoints of api.GovernanceHandler. Requests are in-process HTTP calls whose
// body fails SQL validation right after the governance block, so no database
// is needed: status 429 = rejected by governance, status 400 = admitted.
//
// Simulated: the clock (arrival times aligned to second/minute/hour/UTC-day
// boundaries, wall-clock steps), the goroutine schedule (concurrent requests
// and policy updates as tasks), the licence (installed object) and the auth
// middleware (a stub that puts the token id of a request header into the
// request locals, as auth.RequireRead would), and process restarts: a
// "restart" step ends the serving process (graceful Stop or process death)
// and builds a new Manager + routes on the same SQLite database, so the
// per-token policies the operator configured are the ones that were
// persisted. In-memory counters do not survive a restart; the oracle
// therefore never counts admits across a restart (weaker than the text).
package main

import (
	"database/sql"
	"encoding/json"
	"fmt"
	"io"
	"os"
	"strconv"
	"strings"
	"time"

	"github.com/gofiber/fiber/v2"
	_ "github.com/mattn/go-sqlite3"
	"github.com/rs/zerolog"
	"github.com/valyala/fasthttp"

	"github.com/basekick-labs/arc/internal/api"
	"github.com/basekick-labs/arc/internal/auth"
	"github.com/basekick-labs/arc/internal/config"
	"github.com/basekick-labs/arc/internal/governance"
	"github.com/basekick-labs/arc/internal/license"
	"github.com/basekick-labs/arc/internal/simrt"
	"github.com/basekick-labs/arc/internal/verifsim/simkit"
)

// ---------------------------------------------------------------------------
// plan

// Limits are the four enforced dimensions of a policy (0 = unlimited).
type Limits struct {
	RPM int `json:"rpm"` // rate_limit_per_minute
	RPH int `json:"rph"` // rate_limit_per_hour
	QH  int `json:"qh"`  // max_queries_per_hour
	QD  int `json:"qd"`  // max_queries_per_day
}

// Action is one thing a concurrent task does.
type Action struct {
	Kind  string  `json:"kind"` // req | update | usage | sleep
	Token int64   `json:"token,omitempty"`
	N     int     `json:"n,omitempty"`
	GapNs int64   `json:"gap_ns,omitempty"`
	Lim   *Limits `json:"lim,omitempty"`
	DNs   int64   `json:"d_ns,omitempty"`
}

// Step is one step of the driver; steps run one after the other, a "conc"
// step runs its tasks concurrently and waits for all of them.
type Step struct {
	Kind  string     `json:"kind"` // req | conc | update | create | delete | usage | align | advance | wallstep | restart
	Token int64      `json:"token,omitempty"`
	N     int        `json:"n,omitempty"`
	GapNs int64      `json:"gap_ns,omitempty"`
	Probe bool       `json:"probe,omitempty"` // req: read the usage endpoint before and after
	Lim   *Limits    `json:"lim,omitempty"`
	Tasks [][]Action `json:"tasks,omitempty"`
	Unit  string     `json:"unit,omitempty"`   // align: sec | min | hour | day
	OffNs int64      `json:"off_ns,omitempty"` // align: offset from the boundary (negative = before)
	DNs   int64      `json:"d_ns,omitempty"`   // advance / wallstep
	Crash bool       `json:"crash,omitempty"`  // restart: process death instead of a graceful Stop
}

type C28Plan struct {
	Defaults Limits  `json:"defaults"`
	Tokens   []int64 `json:"tokens"`
	Start    bool    `json:"start"` // run Manager.Start (cleanup goroutine)
	Steps    []Step  `json:"steps"`
}

var unitNs = map[string]int64{"sec": int64(time.Second), "min": int64(time.Minute), "hour": int64(time.Hour), "day": 24 * int64(time.Hour)}

func pick(r *simrt.Rand, xs []int) int { return xs[r.Intn(len(xs))] }

func genLimits(r *simrt.Rand, mask int) Limits {
	var l Limits
	if mask&1 != 0 {
		l.RPM = pick(r, []int{1, 2, 3, 5, 8})
	}
	if mask&2 != 0 {
		l.RPH = pick(r, []int{2, 4, 6, 10, 15})
	}
	if mask&4 != 0 {
		l.QH = pick(r, []int{1, 3, 5, 8, 12})
	}
	if mask&8 != 0 {
		l.QD = pick(r, []int{2, 5, 9, 14, 20})
	}
	return l
}

func jitter(r *simrt.Rand, d time.Duration, j time.Duration) int64 {
	return int64(d) - int64(j) + r.Int63n(2*int64(j)+1)
}

func genAdvance(r *simrt.Rand) int64 {
	switch r.Intn(10) {
	case 0, 1:
		return 1 + r.Int63n(int64(2*time.Second))
	case 2, 3, 4:
		return jitter(r, []time.Duration{58 * time.Second, 59 * time.Second, 59500 * time.Millisecond, 60 * time.Second, 61 * time.Second, 2 * time.Minute}[r.Intn(6)], 600*time.Millisecond)
	case 5, 6, 7:
		return jitter(r, []time.Duration{58 * time.Minute, 59 * time.Minute, 59*time.Minute + 30*time.Second, 60 * time.Minute, 61 * time.Minute}[r.Intn(5)], 40*time.Second)
	case 8:
		return jitter(r, []time.Duration{23 * time.Hour, 24 * time.Hour, 25 * time.Hour}[r.Intn(3)], 10*time.Minute)
	default:
		return 1 + r.Int63n(int64(10*time.Minute))
	}
}

func genC28(r *simrt.Rand, tier string) any {
	p := &C28Plan{Start: r.Chance(70)}
	// swarm: which dimensions are in play in this run
	mask := 1 + r.Intn(15)
	if r.Chance(30) {
		p.Defaults = genLimits(r, mask&(1+r.Intn(15)))
	}
	all := []int64{1, 2, 7}
	p.Tokens = all[:1+r.Intn(3)]
	if r.Chance(50) {
		p.Tokens = all[:1]
	}
	wallSteps := r.Chance(25)
	deletes := r.Chance(25)
	restarts := r.Chance(35)
	if restarts && r.Chance(60) {
		// restarts matter most when several tokens have persisted policies
		p.Tokens = all[:2+r.Intn(2)]
	}
	exists := map[int64]bool{}
	tok := func() int64 { return p.Tokens[r.Intn(len(p.Tokens))] }
	lim := func() *Limits {
		l := genLimits(r, mask)
		if r.Chance(10) {
			l = genLimits(r, mask&(1+r.Intn(15)))
		}
		return &l
	}
	// initial policies
	for _, t := range p.Tokens {
		if r.Chance(75) || restarts || (p.Defaults == Limits{}) {
			p.Steps = append(p.Steps, Step{Kind: "create", Token: t, Lim: lim()})
			exists[t] = true
		}
	}
	genConc := func() Step {
		st := Step{Kind: "conc"}
		nt := 2 + r.Intn(3)
		updated := map[int64]bool{}
		for i := 0; i < nt; i++ {
			var acts []Action
			na := 1 + r.Intn(3)
			for j := 0; j < na; j++ {
				switch k := r.Intn(10); {
				case k < 6:
					acts = append(acts, Action{Kind: "req", Token: tok(), N: 1 + r.Intn(4), GapNs: int64(pick(r, []int{0, 0, 1000, 1_000_000, 300_000_000}))})
				case k < 8:
					t := tok()
					if exists[t] && !updated[t] {
						updated[t] = true
						acts = append(acts, Action{Kind: "update", Token: t, Lim: lim()})
					} else {
						acts = append(acts, Action{Kind: "req", Token: t, N: 1 + r.Intn(3)})
					}
				case k < 9:
					acts = append(acts, Action{Kind: "usage", Token: tok()})
				default:
					acts = append(acts, Action{Kind: "sleep", DNs: 1 + r.Int63n(int64(3*time.Millisecond))})
				}
			}
			st.Tasks = append(st.Tasks, acts)
		}
		return st
	}
	if r.Chance(20) {
		p.Steps = append(p.Steps, genConc())
	}
	nsteps := 5 + r.Intn(12)
	if tier == "thorough" {
		nsteps = 5 + r.Intn(20)
	}
	reqBudget := 70
	for i := 0; i < nsteps; i++ {
		if restarts && r.Chance(15) {
			// a restart, then (usually) every token in turn sends a burst
			// against the limits that were loaded from the store
			p.Steps = append(p.Steps, Step{Kind: "restart", Crash: r.Chance(40)})
			if r.Chance(70) {
				for _, ti := range r.Perm(len(p.Tokens)) {
					n := 2 + r.Intn(10)
					if n > reqBudget {
						n = 1
					}
					reqBudget -= n
					p.Steps = append(p.Steps, Step{Kind: "req", Token: p.Tokens[ti], N: n, Probe: r.Chance(15),
						GapNs: int64(pick(r, []int{0, 0, 0, 1_000_000, 100_000_000}))})
				}
			}
			continue
		}
		switch k := r.Intn(100); {
		case k < 36:
			n := 1 + r.Intn(12)
			if n > reqBudget {
				n = 1
			}
			reqBudget -= n
			p.Steps = append(p.Steps, Step{Kind: "req", Token: tok(), N: n, Probe: r.Chance(25),
				GapNs: int64(pick(r, []int{0, 0, 0, 1_000_000, 100_000_000, 1_000_000_000, 7_000_000_000}))})
		case k < 50:
			p.Steps = append(p.Steps, genConc())
		case k < 60:
			t := tok()
			if exists[t] {
				p.Steps = append(p.Steps, Step{Kind: "update", Token: t, Lim: lim()})
			} else {
				p.Steps = append(p.Steps, Step{Kind: "create", Token: t, Lim: lim()})
				exists[t] = true
			}
		case k < 64:
			p.Steps = append(p.Steps, Step{Kind: "usage", Token: tok()})
		case k < 78:
			u := []string{"sec", "sec", "sec", "sec", "min", "min", "min", "hour", "hour", "hour", "day"}[r.Intn(11)]
			off := []int64{-500_000_000, -100_000_000, -3_000_000, -100_000, 0, 100_000, 3_000_000, 200_000_000}[r.Intn(8)]
			p.Steps = append(p.Steps, Step{Kind: "align", Unit: u, OffNs: off})
		case k < 93:
			p.Steps = append(p.Steps, Step{Kind: "advance", DNs: genAdvance(r)})
		case k < 97:
			if wallSteps {
				d := genAdvance(r)
				if r.Chance(50) {
					d = -d
				}
				p.Steps = append(p.Steps, Step{Kind: "wallstep", DNs: d})
			} else {
				p.Steps = append(p.Steps, Step{Kind: "advance", DNs: genAdvance(r)})
			}
		default:
			t := tok()
			if deletes && exists[t] {
				p.Steps = append(p.Steps, Step{Kind: "delete", Token: t})
				exists[t] = false
			} else {
				p.Steps = append(p.Steps, Step{Kind: "req", Token: t, N: 1 + r.Intn(4)})
			}
		}
	}
	return p
}

// ---------------------------------------------------------------------------
// execution

type reqRec struct {
	token  int64
	s, e   int64 // simulated monotonic ns around the call
	ws, we int64 // wall clock (unix ns) of the node around the call
	kind   string
	conc   bool
	epoch  int // process incarnation (number of restarts before the request)
	peek   governance.VerifInternals
}

type opRec struct {
	token int64
	s, e  int64
	kind  string // create | update | delete
	after Limits // effective limits once the op has completed
	conc  bool
}

type usageRec struct {
	token     int64
	s, e      int64
	ws, we    int64
	hour, day int
}

type probeRec struct {
	token       int64
	before      usageRec
	after       usageRec
	n, rateLim  int
	firstReqIdx int
}

type world struct {
	p        *C28Plan
	node     *simrt.Node
	mgr      *governance.Manager
	handler  fasthttp.RequestHandler
	exists   map[int64]bool
	reqs     []reqRec
	ops      []opRec
	usages   []usageRec
	probes   []probeRec
	wallStep []int64 // mono times of wall-clock steps
	restarts []int64 // mono times at which a restart completed
	epoch    int
	db       *sql.DB
	fail     string
}

var quiet = zerolog.New(io.Discard).Level(zerolog.Disabled)

func (w *world) harnessFail(format string, args ...any) {
	if w.fail == "" {
		w.fail = fmt.Sprintf(format, args...)
	}
}

func (w *world) call(method, path string, token int64, body string) (int, []byte) {
	var ctx fasthttp.RequestCtx
	ctx.Init(&fasthttp.Request{}, nil, nil)
	ctx.Request.Header.SetMethod(method)
	ctx.Request.SetRequestURI(path)
	if token != 0 {
		ctx.Request.Header.Set("X-Verif-Token", strconv.FormatInt(token, 10))
	}
	if body != "" {
		ctx.Request.Header.SetContentType("application/json")
		ctx.Request.SetBodyRaw([]byte(body))
	}
	w.handler(&ctx)
	return ctx.Response.StatusCode(), append([]byte(nil), ctx.Response.Body()...)
}

func classify(status int, body []byte) string {
	if status == fiber.StatusBadRequest {
		return "admit"
	}
	if status != fiber.StatusTooManyRequests {
		return ""
	}
	var r struct {
		Error string `json:"error"`
	}
	_ = json.Unmarshal(body, &r)
	switch {
	case strings.Contains(r.Error, "Rate limit exceeded") && strings.Contains(r.Error, "per minute"):
		return "rl-min"
	case strings.Contains(r.Error, "Rate limit exceeded") && strings.Contains(r.Error, "per hour"):
		return "rl-hour"
	case strings.Contains(r.Error, "Hourly"):
		return "q-hour"
	case strings.Contains(r.Error, "Daily"):
		return "q-day"
	}
	return "rej-other"
}

// query issues one query request for token (must run on a task of w.node).
func (w *world) query(token int64, conc bool) string {
	rec := reqRec{token: token, conc: conc, epoch: w.epoch, s: simrt.SimNow(), ws: simrt.Now().UnixNano()}
	st, body := w.call("POST", "/api/v1/query", token, `{"sql":""}`)
	rec.e, rec.we = simrt.SimNow(), simrt.Now().UnixNano()
	rec.kind = classify(st, body)
	if rec.kind == "" {
		w.harnessFail("query request answered %d %s", st, body)
		rec.kind = "rej-other"
	}
	rec.peek = governance.VerifPeek(w.mgr, token)
	w.reqs = append(w.reqs, rec)
	simrt.Event("REQ tok=%d %s", token, rec.kind)
	simrt.Count("probe.req."+rec.kind, 1)
	return rec.kind
}

func policyJSON(token int64, l Limits) string {
	return fmt.Sprintf(`{"token_id":%d,"rate_limit_per_minute":%d,"rate_limit_per_hour":%d,"max_queries_per_hour":%d,"max_queries_per_day":%d}`,
		token, l.RPM, l.RPH, l.QH, l.QD)
}

// policyOp performs create/update/delete through the real admin endpoints.
// Ops that make no sense in the current state (update without a policy, ...)
// are skipped so that shrunk plans stay valid.
func (w *world) policyOp(kind string, token int64, l *Limits, conc bool) {
	var st int
	var body []byte
	op := opRec{token: token, kind: kind, conc: conc, s: simrt.SimNow()}
	switch kind {
	case "create":
		if w.exists[token] || l == nil {
			return
		}
		st, body = w.call("POST", "/api/v1/governance/policies", 0, policyJSON(token, *l))
		if st != fiber.StatusCreated {
			w.harnessFail("create policy answered %d %s", st, body)
		}
		w.exists[token] = true
		op.after = *l
	case "update":
		if !w.exists[token] || l == nil {
			return
		}
		st, body = w.call("PUT", "/api/v1/governance/policies/"+strconv.FormatInt(token, 10), 0, policyJSON(token, *l))
		if st != fiber.StatusOK {
			w.harnessFail("update policy answered %d %s", st, body)
		}
		op.after = *l
	case "delete":
		if !w.exists[token] {
			return
		}
		st, body = w.call("DELETE", "/api/v1/governance/policies/"+strconv.FormatInt(token, 10), 0, "")
		if st != fiber.StatusOK {
			w.harnessFail("delete policy answered %d %s", st, body)
		}
		w.exists[token] = false
		op.after = w.p.Defaults
	}
	op.e = simrt.SimNow()
	w.ops = append(w.ops, op)
	simrt.Event("POLICY %s tok=%d %+v", kind, token, op.after)
	simrt.Count("probe.policy."+kind, 1)
}

func (w *world) usage(token int64) usageRec {
	u := usageRec{token: token, s: simrt.SimNow(), ws: simrt.Now().UnixNano()}
	st, body := w.call("GET", "/api/v1/governance/usage/"+strconv.FormatInt(token, 10), 0, "")
	u.e, u.we = simrt.SimNow(), simrt.Now().UnixNano()
	var r struct {
		Usage struct {
			H int `json:"queries_this_hour"`
			D int `json:"queries_this_day"`
		} `json:"usage"`
	}
	if st != fiber.StatusOK || json.Unmarshal(body, &r) != nil {
		w.harnessFail("usage answered %d %s", st, body)
	}
	u.hour, u.day = r.Usage.H, r.Usage.D
	w.usages = append(w.usages, u)
	simrt.Event("USAGE tok=%d h=%d d=%d", token, u.hour, u.day)
	return u
}

func (w *world) onNode(name string, f func()) {
	simrt.Join(simrt.GoOn(name, w.node, f))
}

func (w *world) wallNow() int64 {
	// root runs on the harness node (offset 0); the requests run on w.node
	return simrt.Now().UnixNano() + w.node.WallOffset
}

func (w *world) runActions(acts []Action) {
	for _, a := range acts {
		switch a.Kind {
		case "req":
			for i := 0; i < a.N; i++ {
				if i > 0 && a.GapNs > 0 {
					simrt.Sleep(time.Duration(a.GapNs))
				}
				w.query(a.Token, true)
			}
		case "update":
			w.policyOp("update", a.Token, a.Lim, true)
		case "usage":
			w.usage(a.Token)
		case "sleep":
			simrt.Sleep(time.Duration(a.DNs))
		}
	}
}

func (w *world) runStep(i int, st Step) {
	switch st.Kind {
	case "req":
		w.onNode("req", func() {
			var pr probeRec
			if st.Probe {
				pr = probeRec{token: st.Token, before: w.usage(st.Token), firstReqIdx: len(w.reqs)}
			}
			for k := 0; k < st.N; k++ {
				if k > 0 && st.GapNs > 0 {
					simrt.Sleep(time.Duration(st.GapNs))
				}
				kind := w.query(st.Token, false)
				pr.n++
				if kind == "rl-min" || kind == "rl-hour" {
					pr.rateLim++
				}
			}
			if st.Probe {
				pr.after = w.usage(st.Token)
				w.probes = append(w.probes, pr)
			}
		})
	case "conc":
		var hs []*simrt.Task
		for ti := range st.Tasks {
			acts := st.Tasks[ti]
			hs = append(hs, simrt.GoOn(fmt.Sprintf("c%d", ti), w.node, func() { w.runActions(acts) }))
		}
		for _, h := range hs {
			simrt.Join(h)
		}
	case "create", "update", "delete":
		w.onNode(st.Kind, func() { w.policyOp(st.Kind, st.Token, st.Lim, false) })
	case "usage":
		w.onNode("usage", func() { w.usage(st.Token) })
	case "align":
		u := unitNs[st.Unit]
		if u == 0 {
			return
		}
		now := w.wallNow()
		target := (now/u+1)*u + st.OffNs
		for target <= now {
			target += u
		}
		simrt.AdvanceClock(time.Duration(target - now))
		simrt.Count("probe.align."+st.Unit, 1)
	case "advance":
		if st.DNs > 0 {
			simrt.AdvanceClock(time.Duration(st.DNs))
		}
	case "wallstep":
		simrt.StepWall(w.node, time.Duration(st.DNs))
		w.wallStep = append(w.wallStep, simrt.SimNow())
	case "restart":
		// the serving process ends (gracefully or by process death) and a new
		// one starts on the same database; no request is in flight here
		if st.Crash {
			simrt.Crash(w.node)
			simrt.Revive(w.node)
		} else if w.p.Start {
			w.onNode("stop", func() { _ = w.mgr.Stop() })
		}
		w.mgr, w.handler = nil, nil
		w.epoch++
		w.onNode("boot", w.boot)
		w.restarts = append(w.restarts, simrt.SimNow())
		simrt.Event("RESTART crash=%v", st.Crash)
		simrt.Count("probe.restart", 1)
	}
}

// boot builds the serving process: a Manager on the (persistent) database
// and the real routes in front of it.
func (w *world) boot() {
	p := w.p
	gc := &config.GovernanceConfig{Enabled: true, DefaultRateLimitPerMin: p.Defaults.RPM, DefaultRateLimitPerHour: p.Defaults.RPH,
		DefaultMaxQueriesPerHour: p.Defaults.QH, DefaultMaxQueriesPerDay: p.Defaults.QD}
	m, err := governance.NewManager(&governance.ManagerConfig{DB: w.db, Config: gc, Logger: quiet})
	if err != nil {
		w.harnessFail("NewManager: %v", err)
		return
	}
	w.mgr = m
	if p.Start {
		m.Start()
	}
	lc := license.VerifLicensedClient(license.FeatureQueryGovernance)
	app := fiber.New(fiber.Config{DisableStartupMessage: true})
	// stand-in for the auth middleware: identifies the caller
	app.Use(func(c *fiber.Ctx) error {
		if v := c.Get("X-Verif-Token"); v != "" {
			id, _ := strconv.ParseInt(v, 10, 64)
			c.Locals("token_info", &auth.TokenInfo{ID: id, Name: "t" + v, Enabled: true})
		}
		return c.Next()
	})
	api.VerifGovernanceQueryHandler(m, lc, quiet).RegisterRoutes(app)
	api.NewGovernanceHandler(m, nil, lc, quiet).RegisterRoutes(app)
	w.handler = app.Handler()
}

func runC28(planAny any, cfg simrt.Config) *simkit.Outcome {
	p := planAny.(*C28Plan)
	out := &simkit.Outcome{}
	db, err := sql.Open("sqlite3", ":memory:")
	if err != nil {
		fmt.Fprintln(os.Stderr, "HARNESS-ERROR sqlite:", err)
		os.Exit(2)
	}
	db.SetMaxOpenConns(1)
	db.SetMaxIdleConns(1)
	defer db.Close()
	w := &world{p: p, db: db, exists: map[int64]bool{}}
	res := simrt.Run(cfg, func() {
		w.node = simrt.NodeOf("n1")
		w.onNode("boot", w.boot)
		if w.mgr == nil {
			return
		}
		for i, st := range p.Steps {
			w.runStep(i, st)
			if w.fail != "" || w.mgr == nil {
				return
			}
		}
		if p.Start {
			w.onNode("stop", func() { _ = w.mgr.Stop() })
		}
	})
	out.Absorb(res)
	if w.fail != "" {
		fmt.Fprintf(os.Stderr, "HARNESS-ERROR C28: %s\nplan: %s\n", w.fail, mustJSON(p))
		os.Exit(2)
	}
	for _, pn := range res.Panics {
		if strings.Contains(pn, "internal/governance") || strings.Contains(pn, "internal/api") {
			out.Violate("C28.panic.in-governance-path", "%s", pn)
		} else {
			fmt.Fprintf(os.Stderr, "HARNESS-ERROR C28: unexpected panic %s\n", pn)
			os.Exit(2)
		}
	}
	if res.Outcome != "ok" {
		return out
	}
	judge(w, out)
	return out
}

func mustJSON(v any) string {
	b, _ := json.Marshal(v)
	return string(b)
}

// ---------------------------------------------------------------------------
// shrinking, description

func cloneSteps(s []Step) []Step {
	b, _ := json.Marshal(s)
	var o []Step
	_ = json.Unmarshal(b, &o)
	return o
}

func shrinkC28(planAny any) []any {
	p := planAny.(*C28Plan)
	var out []any
	with := func(f func(q *C28Plan)) {
		q := *p
		q.Steps = cloneSteps(p.Steps)
		q.Tokens = append([]int64(nil), p.Tokens...)
		f(&q)
		out = append(out, &q)
	}
	// drop chunks of steps, then single steps
	for sz := len(p.Steps) / 2; sz >= 1; sz /= 2 {
		for at := 0; at+sz <= len(p.Steps); at += sz {
			a, s := at, sz
			with(func(q *C28Plan) { q.Steps = append(q.Steps[:a], q.Steps[a+s:]...) })
		}
	}
	if p.Start {
		with(func(q *C28Plan) { q.Start = false })
	}
	if (p.Defaults != Limits{}) {
		with(func(q *C28Plan) { q.Defaults = Limits{} })
	}
	for i, st := range p.Steps {
		i := i
		switch st.Kind {
		case "req":
			if st.N > 1 {
				with(func(q *C28Plan) { q.Steps[i].N = st.N / 2 })
				with(func(q *C28Plan) { q.Steps[i].N = st.N - 1 })
			}
			if st.Probe {
				with(func(q *C28Plan) { q.Steps[i].Probe = false })
			}
			if st.GapNs > 0 {
				with(func(q *C28Plan) { q.Steps[i].GapNs = 0 })
			}
		case "conc":
			for ti := range st.Tasks {
				ti := ti
				if len(st.Tasks) > 1 {
					with(func(q *C28Plan) { q.Steps[i].Tasks = append(q.Steps[i].Tasks[:ti], q.Steps[i].Tasks[ti+1:]...) })
				}
				for ai := range st.Tasks[ti] {
					ai := ai
					if len(st.Tasks[ti]) > 1 {
						with(func(q *C28Plan) {
							q.Steps[i].Tasks[ti] = append(q.Steps[i].Tasks[ti][:ai], q.Steps[i].Tasks[ti][ai+1:]...)
						})
					}
					if a := st.Tasks[ti][ai]; a.Kind == "req" && a.N > 1 {
						with(func(q *C28Plan) { q.Steps[i].Tasks[ti][ai].N = 1 })
					}
				}
			}
		case "restart":
			if st.Crash {
				with(func(q *C28Plan) { q.Steps[i].Crash = false })
			}
		case "create", "update":
			if st.Lim != nil {
				l := *st.Lim
				for d := 0; d < 4; d++ {
					d := d
					z := l
					switch d {
					case 0:
						z.RPM = 0
					case 1:
						z.RPH = 0
					case 2:
						z.QH = 0
					case 3:
						z.QD = 0
					}
					if z != l {
						with(func(q *C28Plan) { q.Steps[i].Lim = &z })
					}
				}
			}
		}
	}
	return out
}

func descC28(planAny any) any {
	p := planAny.(*C28Plan)
	var s []string
	for _, st := range p.Steps {
		switch st.Kind {
		case "req":
			s = append(s, fmt.Sprintf("req(tok=%d,n=%d,gap=%s,probe=%v)", st.Token, st.N, time.Duration(st.GapNs), st.Probe))
		case "conc":
			var ts []string
			for _, t := range st.Tasks {
				var as []string
				for _, a := range t {
					switch a.Kind {
					case "req":
						as = append(as, fmt.Sprintf("req(tok=%d,n=%d)", a.Token, a.N))
					case "update":
						as = append(as, fmt.Sprintf("update(tok=%d,%+v)", a.Token, *a.Lim))
					default:
						as = append(as, a.Kind)
					}
				}
				ts = append(ts, strings.Join(as, ";"))
			}
			s = append(s, "conc["+strings.Join(ts, " || ")+"]")
		case "create", "update":
			s = append(s, fmt.Sprintf("%s(tok=%d,%+v)", st.Kind, st.Token, *st.Lim))
		case "delete", "usage":
			s = append(s, fmt.Sprintf("%s(tok=%d)", st.Kind, st.Token))
		case "align":
			s = append(s, fmt.Sprintf("align(next %s boundary %+dns)", st.Unit, st.OffNs))
		case "advance":
			s = append(s, fmt.Sprintf("advance(%s)", time.Duration(st.DNs)))
		case "wallstep":
			s = append(s, fmt.Sprintf("wallstep(%s)", time.Duration(st.DNs)))
		case "restart":
			s = append(s, fmt.Sprintf("restart(crash=%v)", st.Crash))
		}
	}
	return map[string]any{"defaults": p.Defaults, "tokens": p.Tokens, "cleanup_goroutine": p.Start, "steps": s}
}

func main() {
	zerolog.SetGlobalLevel(zerolog.Disabled)
	simkit.Main(&simkit.Check{ID: "C28", Gen: genC28, New: func() any { return &C28Plan{} }, Run: runC28, Shrink: shrinkC28, Desc: descC28})
}
