//go:build verif

package simrt

import "github.com/google/uuid"

// UUIDNew replaces uuid.New() with a PRNG-derived version-4 UUID.
func UUIDNew() uuid.UUID {
	var b [16]byte
	RandRead(b[:])
	b[6] = (b[6] & 0x0f) | 0x40
	b[8] = (b[8] & 0x3f) | 0x80
	return uuid.UUID(b)
}
