package simrt

import (
	"container/heap"
	"context"
	"time"
)

type timerHeap []*timerEv

func (h timerHeap) Len() int { return len(h) }
func (h timerHeap) Less(i, j int) bool {
	if h[i].at != h[j].at {
		return h[i].at < h[j].at
	}
	return h[i].seq < h[j].seq
}
func (h timerHeap) Swap(i, j int) { h[i], h[j] = h[j], h[i]; h[i].idx = i; h[j].idx = j }
func (h *timerHeap) Push(x any)   { e := x.(*timerEv); e.idx = len(*h); *h = append(*h, e) }
func (h *timerHeap) Pop() any {
	o := *h
	n := len(o)
	e := o[n-1]
	*h = o[:n-1]
	e.idx = -1
	return e
}

func (s *Sim) addTimer(at int64, fire func()) *timerEv {
	s.tseq++
	e := &timerEv{at: at, seq: s.tseq, fire: fire}
	heap.Push(&s.timers, e)
	return e
}

func (s *Sim) delTimer(e *timerEv) bool {
	if e == nil || e.dead || e.idx < 0 {
		return false
	}
	e.dead = true
	heap.Remove(&s.timers, e.idx)
	return true
}

// fireDue fires every timer whose time has come.
func (s *Sim) fireDue() {
	for len(s.timers) > 0 && s.timers[0].at <= s.now {
		e := heap.Pop(&s.timers).(*timerEv)
		if e.dead {
			continue
		}
		e.dead = true
		e.fire()
	}
}

// advance jumps the clock to the earliest pending timer and fires it.
// Returns false when there is none (dead-lock or quiescence).
func (s *Sim) advance() bool {
	for len(s.timers) > 0 {
		e := heap.Pop(&s.timers).(*timerEv)
		if e.dead {
			continue
		}
		if e.at > s.now {
			if s.cfg.MaxSimTime > 0 && e.at > s.cfg.MaxSimTime {
				heap.Push(&s.timers, e)
				return false
			}
			s.now = e.at
		}
		e.dead = true
		s.mix(0x71, uint64(e.at))
		e.fire()
		s.fireDue()
		return true
	}
	return false
}

// SimNow returns simulated monotonic nanoseconds since the start of the run.
func SimNow() int64 {
	if cur == nil {
		return 0
	}
	return cur.now
}

// Now replaces time.Now: epoch + sim time + the current node's wall offset.
// The result carries no monotonic reading.
func Now() time.Time {
	s := cur
	if s == nil {
		return time.Now()
	}
	off := int64(0)
	if s.cur != nil && s.cur.node != nil {
		off = s.cur.node.WallOffset
	}
	return time.Unix(0, s.cfg.EpochNs+s.now+off)
}

func Since(t time.Time) time.Duration { return Now().Sub(t) }
func Until(t time.Time) time.Duration { return t.Sub(Now()) }

// AdvanceClock moves simulated time forward by d without running anything
// (a workload step such as "jump to just before the hour boundary"). Timers
// that become due fire at the next scheduling step.
func AdvanceClock(d time.Duration) {
	s := must()
	if d > 0 {
		s.now += int64(d)
		s.event("CLOCK +%d", int64(d))
	}
}

// StepWall changes node n's wall clock offset by d (may be negative): a
// clock step as NTP or an operator would cause. Monotonic timers are not
// affected.
func StepWall(n *Node, d time.Duration) {
	n.WallOffset += int64(d)
	Count("fault.clock_step", 1)
	Event("WALLSTEP node=%s %d", n.Name, int64(d))
}

// Sleep replaces time.Sleep.
func Sleep(d time.Duration) {
	s := cur
	if s == nil {
		time.Sleep(d)
		return
	}
	if d <= 0 {
		Yield()
		return
	}
	fired := false
	s.addTimer(s.now+int64(d), func() { fired = true })
	Block("sleep", func() bool { return fired })
}

// Timer replaces time.Timer.
type Timer struct {
	C  <-chan time.Time
	c  chan time.Time
	ev *timerEv
	f  func()
	s  *Sim
	rt *time.Timer
}

func NewTimer(d time.Duration) *Timer {
	s := cur
	if s == nil {
		rt := time.NewTimer(d)
		return &Timer{C: rt.C, rt: rt}
	}
	c := make(chan time.Time, 1)
	t := &Timer{C: c, c: c, s: s}
	t.arm(d)
	return t
}

func (t *Timer) arm(d time.Duration) {
	s := t.s
	if d < 0 {
		d = 0
	}
	t.ev = s.addTimer(s.now+int64(d), func() {
		if t.f != nil {
			f := t.f
			GoOn("afterfunc", t.node(), f)
			return
		}
		select {
		case t.c <- time.Unix(0, s.cfg.EpochNs+s.now):
		default:
		}
	})
}

func (t *Timer) node() *Node {
	if t.s.cur != nil {
		return t.s.cur.node
	}
	return t.s.NodeByName("harness")
}

func (t *Timer) Stop() bool {
	if t.rt != nil {
		return t.rt.Stop()
	}
	if t.s != cur {
		return false
	}
	return t.s.delTimer(t.ev)
}

func (t *Timer) Reset(d time.Duration) bool {
	if t.rt != nil {
		return t.rt.Reset(d)
	}
	if t.s != cur {
		return false
	}
	active := t.s.delTimer(t.ev)
	// Go 1.23+ semantics: Reset drains a stale value.
	if t.c != nil {
		select {
		case <-t.c:
		default:
		}
	}
	t.arm(d)
	return active
}

// AfterFunc replaces time.AfterFunc; f runs as a new task of the node that
// armed the timer.
func AfterFunc(d time.Duration, f func()) *Timer {
	s := cur
	if s == nil {
		return &Timer{rt: time.AfterFunc(d, f)}
	}
	t := &Timer{s: s}
	n := s.cur.node
	if d < 0 {
		d = 0
	}
	t.f = f
	t.ev = s.addTimer(s.now+int64(d), func() {
		if n.Dead {
			return
		}
		GoOn("afterfunc", n, f)
	})
	return t
}

func After(d time.Duration) <-chan time.Time { return NewTimer(d).C }

// Ticker replaces time.Ticker.
type Ticker struct {
	C  <-chan time.Time
	c  chan time.Time
	ev *timerEv
	d  time.Duration
	s  *Sim
	rt *time.Ticker
}

func NewTicker(d time.Duration) *Ticker {
	if d <= 0 {
		panic("non-positive interval for NewTicker")
	}
	s := cur
	if s == nil {
		rt := time.NewTicker(d)
		return &Ticker{C: rt.C, rt: rt}
	}
	c := make(chan time.Time, 1)
	t := &Ticker{C: c, c: c, d: d, s: s}
	t.arm()
	return t
}

func (t *Ticker) arm() {
	s := t.s
	t.ev = s.addTimer(s.now+int64(t.d), func() {
		select {
		case t.c <- time.Unix(0, s.cfg.EpochNs+s.now):
		default:
		}
		t.arm()
	})
}

func (t *Ticker) Stop() {
	if t.rt != nil {
		t.rt.Stop()
		return
	}
	if t.s != cur {
		return
	}
	t.s.delTimer(t.ev)
}

func (t *Ticker) Reset(d time.Duration) {
	if t.rt != nil {
		t.rt.Reset(d)
		return
	}
	if t.s != cur {
		return
	}
	t.s.delTimer(t.ev)
	t.d = d
	t.arm()
}

func Tick(d time.Duration) <-chan time.Time { return NewTicker(d).C }

// ---------------------------------------------------------------------------
// contexts with simulated deadlines

type deadlineCtx struct {
	context.Context // a WithCancelCause child of the parent
	deadline        time.Time
}

func (c *deadlineCtx) Deadline() (time.Time, bool) { return c.deadline, true }

func (c *deadlineCtx) Err() error {
	err := c.Context.Err()
	if err != nil && context.Cause(c.Context) == context.DeadlineExceeded {
		return context.DeadlineExceeded
	}
	return err
}

func WithDeadline(parent context.Context, d time.Time) (context.Context, context.CancelFunc) {
	return WithDeadlineCause(parent, d, nil)
}

func WithDeadlineCause(parent context.Context, d time.Time, cause error) (context.Context, context.CancelFunc) {
	s := cur
	if s == nil {
		return context.WithDeadlineCause(parent, d, cause)
	}
	if pd, ok := parent.Deadline(); ok && pd.Before(d) {
		d = pd
	}
	inner, cancel := context.WithCancelCause(parent)
	c := &deadlineCtx{Context: inner, deadline: d}
	dur := Until(d)
	if dur <= 0 {
		cancel(context.DeadlineExceeded)
		return c, func() {}
	}
	ev := s.addTimer(s.now+int64(dur), func() { cancel(context.DeadlineExceeded) })
	return c, func() {
		if cur == s {
			s.delTimer(ev)
		}
		cancel(context.Canceled)
	}
}

func WithTimeout(parent context.Context, d time.Duration) (context.Context, context.CancelFunc) {
	return WithDeadline(parent, Now().Add(d))
}

func WithTimeoutCause(parent context.Context, d time.Duration, cause error) (context.Context, context.CancelFunc) {
	return WithDeadlineCause(parent, Now().Add(d), cause)
}
