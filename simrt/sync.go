package simrt

import "sync"

// Mutex replaces sync.Mutex in instrumented code. Inside a simulation only
// one task runs at a time, so the lock state is a plain field; Lock is a
// scheduling point and parks the task while the lock is held. A lock whose
// holder died in a crash (or belongs to an earlier simulation) is free.
type Mutex struct {
	real  sync.Mutex // used outside simulations only
	owner *Task
	gen   uint64
	held  bool
}

func (m *Mutex) isHeld(s *Sim) bool {
	if !m.held {
		return false
	}
	if m.gen != s.gen {
		return false
	}
	if m.owner != nil && (m.owner.killed || m.owner.state == stDone) {
		return false
	}
	return true
}

func (m *Mutex) Lock() {
	s := cur
	if s == nil {
		m.real.Lock()
		return
	}
	if s.cur.killed {
		return
	}
	s.yield()
	Block("mutex", func() bool { return !m.isHeld(s) })
	m.held, m.owner, m.gen = true, s.cur, s.gen
	s.holdYield()
}

func (m *Mutex) TryLock() bool {
	s := cur
	if s == nil {
		return m.real.TryLock()
	}
	if s.cur.killed {
		return true
	}
	s.yield()
	if m.isHeld(s) {
		return false
	}
	m.held, m.owner, m.gen = true, s.cur, s.gen
	return true
}

func (m *Mutex) Unlock() {
	s := cur
	if s == nil {
		m.real.Unlock()
		return
	}
	if s.cur.killed {
		if m.owner == s.cur {
			m.held = false
		}
		return
	}
	if !m.isHeld(s) {
		panic("sync: unlock of unlocked mutex")
	}
	m.held = false
	m.owner = nil
	// releasing a lock is a scheduling point too: the window right after an
	// Unlock (before the next statement of the releasing task) must be reachable
	s.yield()
}

// RWMutex replaces sync.RWMutex. Writer preference as in the runtime: a
// waiting writer blocks new readers.
type RWMutex struct {
	real     sync.RWMutex
	gen      uint64
	writer   *Task
	wheld    bool
	readers  []*Task
	wwaiting int
}

func (m *RWMutex) clean(s *Sim) {
	if m.gen != s.gen {
		m.gen = s.gen
		m.wheld, m.writer, m.readers, m.wwaiting = false, nil, nil, 0
		return
	}
	if m.wheld && m.writer != nil && (m.writer.killed || m.writer.state == stDone) {
		m.wheld, m.writer = false, nil
	}
	if len(m.readers) > 0 {
		k := 0
		for _, r := range m.readers {
			if !(r.killed || r.state == stDone) {
				m.readers[k] = r
				k++
			}
		}
		m.readers = m.readers[:k]
	}
}

func (m *RWMutex) Lock() {
	s := cur
	if s == nil {
		m.real.Lock()
		return
	}
	if s.cur.killed {
		return
	}
	s.yield()
	m.clean(s)
	me := s.cur
	m.wwaiting++
	Block("rwmutex-w", func() bool {
		m.clean(s)
		return !m.wheld && len(m.readers) == 0
	})
	if me.killed {
		return
	}
	m.wwaiting--
	m.wheld, m.writer = true, me
	s.holdYield()
}

func (m *RWMutex) TryLock() bool {
	s := cur
	if s == nil {
		return m.real.TryLock()
	}
	if s.cur.killed {
		return true
	}
	s.yield()
	m.clean(s)
	if m.wheld || len(m.readers) > 0 {
		return false
	}
	m.wheld, m.writer = true, s.cur
	return true
}

func (m *RWMutex) Unlock() {
	s := cur
	if s == nil {
		m.real.Unlock()
		return
	}
	if s.cur.killed {
		if m.writer == s.cur {
			m.wheld, m.writer = false, nil
		}
		return
	}
	m.clean(s)
	if !m.wheld {
		panic("sync: Unlock of unlocked RWMutex")
	}
	m.wheld, m.writer = false, nil
	s.yield()
}

func (m *RWMutex) RLock() {
	s := cur
	if s == nil {
		m.real.RLock()
		return
	}
	if s.cur.killed {
		return
	}
	s.yield()
	me := s.cur
	Block("rwmutex-r", func() bool {
		m.clean(s)
		return !m.wheld && m.wwaiting == 0
	})
	if me.killed {
		return
	}
	m.readers = append(m.readers, me)
	s.holdYield()
}

func (m *RWMutex) TryRLock() bool {
	s := cur
	if s == nil {
		return m.real.TryRLock()
	}
	if s.cur.killed {
		return true
	}
	s.yield()
	m.clean(s)
	if m.wheld || m.wwaiting > 0 {
		return false
	}
	m.readers = append(m.readers, s.cur)
	return true
}

func (m *RWMutex) RUnlock() {
	s := cur
	if s == nil {
		m.real.RUnlock()
		return
	}
	me := s.cur
	if !me.killed {
		m.clean(s)
	}
	for i := len(m.readers) - 1; i >= 0; i-- {
		if m.readers[i] == me {
			m.readers = append(m.readers[:i], m.readers[i+1:]...)
			if !me.killed {
				s.yield()
			}
			return
		}
	}
	if me.killed {
		return
	}
	// RUnlock by a different task than RLock is legal in Go; release any one.
	if len(m.readers) > 0 {
		m.readers = m.readers[:len(m.readers)-1]
		return
	}
	panic("sync: RUnlock of unlocked RWMutex")
}

type rlocker RWMutex

func (r *rlocker) Lock()   { (*RWMutex)(r).RLock() }
func (r *rlocker) Unlock() { (*RWMutex)(r).RUnlock() }

func (m *RWMutex) RLocker() sync.Locker { return (*rlocker)(m) }

// WaitGroup replaces sync.WaitGroup.
type WaitGroup struct {
	real sync.WaitGroup
	n    int
	gen  uint64
}

func (w *WaitGroup) fix(s *Sim) {
	if w.gen != s.gen {
		w.gen, w.n = s.gen, 0
	}
}

func (w *WaitGroup) Add(d int) {
	s := cur
	if s == nil {
		w.real.Add(d)
		return
	}
	w.fix(s)
	w.n += d
	if w.n < 0 {
		if s.cur.killed {
			w.n = 0
			return
		}
		panic("sync: negative WaitGroup counter")
	}
}

func (w *WaitGroup) Done() { w.Add(-1) }

func (w *WaitGroup) Wait() {
	s := cur
	if s == nil {
		w.real.Wait()
		return
	}
	w.fix(s)
	if s.cur.killed {
		return
	}
	s.yield()
	Block("waitgroup", func() bool { return w.n == 0 })
}

// Go mirrors sync.WaitGroup.Go (Go 1.25+).
func (w *WaitGroup) Go(f func()) {
	w.Add(1)
	Go("wg.Go", func() {
		defer w.Done()
		f()
	})
}

// Once replaces sync.Once: a second caller parks (instead of blocking in the
// runtime) while the first is inside f.
type Once struct {
	real sync.Once
	done bool
	in   *Task
	gen  uint64
}

func (o *Once) Do(f func()) {
	s := cur
	if s == nil {
		o.real.Do(f)
		return
	}
	if o.done {
		return
	}
	if o.in != nil && o.gen == s.gen && !o.in.killed && o.in.state != stDone {
		if o.in == s.cur {
			panic("simrt: recursive Once.Do")
		}
		Block("once", func() bool { return o.done || o.in == nil || o.in.killed || o.in.state == stDone })
		if o.done {
			return
		}
	}
	o.in, o.gen = s.cur, s.gen
	defer func() { o.done = true; o.in = nil }()
	f()
}

// Cond replaces sync.Cond.
type Cond struct {
	L       sync.Locker
	waiters []*condWaiter
}

type condWaiter struct{ woken bool }

func NewCond(l sync.Locker) *Cond { return &Cond{L: l} }

func (c *Cond) Wait() {
	w := &condWaiter{}
	c.waiters = append(c.waiters, w)
	c.L.Unlock()
	Block("cond", func() bool { return w.woken })
	c.L.Lock()
}

func (c *Cond) Signal() {
	if len(c.waiters) > 0 {
		c.waiters[0].woken = true
		c.waiters = c.waiters[1:]
	}
}

func (c *Cond) Broadcast() {
	for _, w := range c.waiters {
		w.woken = true
	}
	c.waiters = nil
}

// Pool stands in for sync.Pool (simgen rule "pool"). The real pool's hit or
// miss depends on which P the calling goroutine runs on and on when the
// garbage collector last ran, neither of which the simulator decides; a
// defect that lives in a pooled object (a poisoned entry, state surviving
// Reset) would then show up or not by chance and would not replay. This one
// is a LIFO whose contents are dropped at the start of every run (as after a
// GC) and whose Get misses with a seeded probability although an object is
// available (another P's private slot, a GC in between). Put(nil) is ignored
// and a typed nil pointer is stored, exactly like sync.Pool.
type Pool struct {
	New func() any

	mu    sync.Mutex
	items []any
	gen   uint64
}

func (p *Pool) sync() *Sim {
	s := cur
	g := uint64(0)
	if s != nil {
		g = s.gen
	}
	if p.gen != g {
		p.items, p.gen = nil, g
	}
	return s
}

func (p *Pool) Get() any {
	p.mu.Lock()
	s := p.sync()
	var x any
	if n := len(p.items); n > 0 {
		miss := false
		if s != nil && s.cur != nil {
			miss = s.Stream("pool").Chance(10)
		}
		if !miss {
			x = p.items[n-1]
			p.items[n-1] = nil
			p.items = p.items[:n-1]
		}
	}
	p.mu.Unlock()
	if x == nil && p.New != nil {
		x = p.New()
	}
	return x
}

func (p *Pool) Put(x any) {
	if x == nil {
		return
	}
	p.mu.Lock()
	p.sync()
	if len(p.items) < 64 {
		p.items = append(p.items, x)
	}
	p.mu.Unlock()
}
