package simrt

import "reflect"

// Channel operations of instrumented code. Each blocking operation becomes a
// non-blocking real operation inside Block, so the Go runtime never parks a
// task and every operation is a scheduling point.

// Recv replaces `<-ch`.
func Recv[T any](ch <-chan T) T {
	v, _ := Recv2(ch)
	return v
}

// Recv2 replaces `v, ok := <-ch`.
func Recv2[T any](ch <-chan T) (T, bool) {
	if cur == nil {
		v, ok := <-ch
		return v, ok
	}
	var v T
	var ok bool
	if ch == nil {
		Block("recv-nil", func() bool { return false })
		return v, false
	}
	cur.yield()
	s := cur
	Block("recv", func() bool {
		if len(s.pending) > 0 && cap(ch) == 0 {
			if p := s.takePending(chanKey(ch)); p != nil {
				v, ok = p.val.(T), true
				return true
			}
		}
		select {
		case v, ok = <-ch:
			return true
		default:
			return false
		}
	})
	return v, ok
}

// Send replaces `ch <- v`. Unbuffered channels need a receiver parked in the
// simulator: a rendezvous is emulated by letting Send succeed only when a
// simulated receiver is parked on the same channel (see rendezvous).
func Send[T any](ch chan<- T, v T) {
	if cur == nil {
		ch <- v
		return
	}
	if ch == nil {
		Block("send-nil", func() bool { return false })
		return
	}
	cur.yield()
	if cur.cur.killed {
		select {
		case ch <- v:
		default:
		}
		return
	}
	if cap(ch) == 0 {
		sendUnbuffered(ch, v)
		return
	}
	Block("send", func() bool {
		select {
		case ch <- v:
			return true
		default:
			return false
		}
	})
}

// Unbuffered sends: pollers use non-blocking operations, which never match
// each other on a zero-capacity channel, so a rendezvous table keyed by the
// channel's identity pairs a parked sender with the next receiver.
type pendSend struct {
	val  any
	done bool
	gone bool
}

func chanKey(ch any) uintptr { return reflect.ValueOf(ch).Pointer() }

func (s *Sim) offer(key uintptr, v any) *pendSend {
	if s.pending == nil {
		s.pending = map[uintptr][]*pendSend{}
	}
	p := &pendSend{val: v}
	s.pending[key] = append(s.pending[key], p)
	return p
}

func (s *Sim) takePending(key uintptr) *pendSend {
	q := s.pending[key]
	for len(q) > 0 {
		p := q[0]
		q = q[1:]
		if len(q) == 0 {
			delete(s.pending, key)
		} else {
			s.pending[key] = q
		}
		if !p.gone {
			p.done = true
			return p
		}
	}
	return nil
}

func (s *Sim) withdraw(key uintptr, p *pendSend) {
	p.gone = true
	q := s.pending[key]
	for i, x := range q {
		if x == p {
			q = append(q[:i], q[i+1:]...)
			break
		}
	}
	if len(q) == 0 {
		delete(s.pending, key)
	} else {
		s.pending[key] = q
	}
}

func sendUnbuffered[T any](ch chan<- T, v T) {
	s := cur
	key := chanKey(ch)
	p := s.offer(key, v)
	closed := false
	Block("send-unbuf", func() bool {
		if p.done {
			return true
		}
		if isClosed(ch) {
			closed = true
			return true
		}
		return false
	})
	if closed {
		s.withdraw(key, p)
		panic("send on closed channel")
	}
}

// isClosed probes a send-only unbuffered channel for closure without
// sending: a non-blocking send on a closed channel panics.
func isClosed[T any](ch chan<- T) (closed bool) {
	// A zero-capacity channel with no real receiver never accepts a
	// non-blocking send, so the only observable effect is the panic.
	defer func() {
		if recover() != nil {
			closed = true
		}
	}()
	var z T
	select {
	case ch <- z:
		// A real (uninstrumented) receiver took a zero value: cannot be
		// undone; instrumented code never mixes the two on one channel.
		panic("simrt: unbuffered channel has an uninstrumented receiver")
	default:
	}
	return false
}

// Close replaces close(ch) (kept as a function so it is a scheduling point).
func Close[T any](ch chan<- T) {
	if cur != nil {
		cur.yield()
	}
	close(ch)
}

// Case is one arm of a rewritten select statement.
type Case struct {
	try    func() bool
	key    any // channel identity for Val
	val    any
	ok     bool
	nil    bool
	cancel func()
}

// R builds a receive arm.
func R[T any](ch <-chan T) *Case {
	c := &Case{}
	if ch == nil {
		c.nil = true
		return c
	}
	c.try = func() bool {
		if s := cur; s != nil && len(s.pending) > 0 && cap(ch) == 0 {
			if p := s.takePending(chanKey(ch)); p != nil {
				c.val, c.ok = p.val, true
				return true
			}
		}
		select {
		case v, ok := <-ch:
			c.val, c.ok = v, ok
			return true
		default:
			return false
		}
	}
	return c
}

// S builds a send arm.
func S[T any](ch chan<- T, v T) *Case {
	c := &Case{}
	if ch == nil {
		c.nil = true
		return c
	}
	if cur != nil && cap(ch) == 0 {
		var p *pendSend
		key := chanKey(ch)
		c.try = func() bool {
			if p == nil {
				p = cur.offer(key, v)
			}
			return p.done
		}
		c.cancel = func() {
			if p != nil && !p.done {
				cur.withdraw(key, p)
			}
		}
		return c
	}
	c.try = func() bool {
		select {
		case ch <- v:
			return true
		default:
			return false
		}
	}
	return c
}

// Sel is the outcome of Select.
type Sel struct {
	I int // index of the chosen arm, -1 for default
	c *Case
}

// Ok reports the `ok` of a chosen receive arm.
func (s Sel) Ok() bool { return s.c != nil && s.c.ok }

// Val returns the value received by the chosen arm; ch only drives type
// inference.
func Val[T any](s Sel, ch <-chan T) T {
	if s.c == nil || s.c.val == nil {
		var z T
		return z
	}
	return s.c.val.(T)
}

// Select replaces a select statement. Among the arms that can proceed the
// run's PRNG chooses (the Go runtime's choice is unseedable).
func Select(hasDefault bool, cases ...*Case) Sel {
	s := cur
	if s == nil {
		// Outside a simulation: poll in order with real sleeps.
		for {
			for i, c := range cases {
				if !c.nil && c.try() {
					return Sel{I: i, c: c}
				}
			}
			if hasDefault {
				return Sel{I: -1}
			}
			Block("select-real", func() bool { return true })
		}
	}
	s.yield()
	res := Sel{I: -1}
	tryAll := func() bool {
		n := len(cases)
		if n == 0 {
			return false
		}
		start := 0
		if n > 1 {
			start = s.Stream("select").Intn(n)
		}
		for k := 0; k < n; k++ {
			i := (start + k) % n
			c := cases[i]
			if c.nil {
				continue
			}
			if c.try() {
				res = Sel{I: i, c: c}
				return true
			}
		}
		return false
	}
	defer func() {
		for _, c := range cases {
			if c.cancel != nil && c != res.c {
				c.cancel()
			}
		}
	}()
	if s.cur.killed {
		tryAll()
		return res
	}
	if hasDefault {
		tryAll()
		return res
	}
	Block("select", tryAll)
	return res
}

// SendTo fixes the element type from the channel alone, so the value is
// converted by ordinary assignability (untyped constants, interface values).
func SendTo[T any](ch chan<- T) func(T) {
	return func(v T) { Send(ch, v) }
}

// SOf is S with the element type fixed by the channel (see SendTo).
func SOf[T any](ch chan<- T) func(T) *Case {
	return func(v T) *Case { return S(ch, v) }
}

// RangeChan replaces `range ch`.
func RangeChan[T any](ch <-chan T) func(yield func(T) bool) {
	return func(yield func(T) bool) {
		for {
			v, ok := Recv2(ch)
			if !ok {
				return
			}
			if !yield(v) {
				return
			}
		}
	}
}
