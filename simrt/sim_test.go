package simrt

import (
	"context"
	"fmt"
	"testing"
	"time"
)

func scenario(seed uint64, pol Policy) Result {
	cfg := DefaultConfig(seed)
	cfg.Policy = pol
	cfg.StickyPct = 80
	cfg.PCTDepth = 2
	return Run(cfg, func() {
		var mu Mutex
		var wg WaitGroup
		ch := make(chan int, 2)
		done := make(chan struct{})
		total := 0
		for i := 0; i < 4; i++ {
			wg.Add(1)
			i := i
			Go("prod", func() {
				defer wg.Done()
				for j := 0; j < 5; j++ {
					mu.Lock()
					total++
					mu.Unlock()
					Send(ch, i*10+j)
					Sleep(time.Duration(j) * time.Millisecond)
				}
			})
		}
		got := 0
		Go("cons", func() {
			tk := NewTicker(3 * time.Millisecond)
			defer tk.Stop()
			for {
				s := Select(false, R(ch), R(tk.C), R(done))
				switch s.I {
				case 0:
					v := Val(s, ch)
					Event("got %d", v)
					got++
				case 1:
					Event("tick")
				case 2:
					return
				}
			}
		})
		wg.Wait()
		for got < 20 {
			Sleep(time.Millisecond)
		}
		close(done)
		ctx, cancel := WithTimeout(context.Background(), 50*time.Millisecond)
		defer cancel()
		Recv(ctx.Done())
		if ctx.Err() != context.DeadlineExceeded {
			panic("ctx err")
		}
		Event("total %d", total)
	})
}

func TestDeterminism(t *testing.T) {
	for _, pol := range []Policy{PolicyUniform, PolicySticky, PolicyPCT, PolicyFIFO} {
		seen := map[uint64]bool{}
		for seed := uint64(1); seed <= 30; seed++ {
			a := scenario(seed, pol)
			b := scenario(seed, pol)
			if a.Outcome != "ok" || len(a.Panics) > 0 {
				t.Fatalf("pol %v seed %d: %v %v\n%v", pol, seed, a.Outcome, a.Panics, a.Tail)
			}
			if a.TraceHash != b.TraceHash || a.Steps != b.Steps {
				t.Fatalf("pol %v seed %d nondeterministic", pol, seed)
			}
			seen[a.TraceHash] = true
		}
		t.Logf("policy %v: %d distinct traces of 30", pol, len(seen))
	}
}

func TestUnbuffered(t *testing.T) {
	r := Run(DefaultConfig(7), func() {
		ch := make(chan int)
		Go("s", func() {
			for i := 0; i < 3; i++ {
				Send(ch, i)
			}
			Close(ch)
		})
		sum := 0
		for {
			v, ok := Recv2(ch)
			if !ok {
				break
			}
			sum += v
		}
		if sum != 3 {
			panic(fmt.Sprint("sum ", sum))
		}
	})
	if r.Outcome != "ok" || len(r.Panics) > 0 {
		t.Fatal(r.Outcome, r.Panics)
	}
}

func TestCrashAndDeadlock(t *testing.T) {
	r := Run(DefaultConfig(3), func() {
		n := NodeOf("n1")
		var mu Mutex
		released := false
		h := GoOn("victim", n, func() {
			mu.Lock()
			defer func() { released = true }()
			Sleep(time.Hour)
			mu.Unlock()
		})
		Sleep(time.Second)
		Crash(n)
		if !h.Done() || !released {
			panic("victim not unwound")
		}
		mu.Lock() // holder died: must be free
		mu.Unlock()
	})
	if r.Outcome != "ok" || len(r.Panics) > 0 {
		t.Fatal(r.Outcome, r.Panics)
	}
	r = Run(DefaultConfig(3), func() {
		ch := make(chan int)
		Go("x", func() { Recv(ch) })
		Recv(ch)
	})
	if r.Outcome != "deadlock" {
		t.Fatal("want deadlock, got", r.Outcome)
	}
	// a panic in a background task is recorded, the run goes on
	r = Run(DefaultConfig(3), func() {
		h := Go("p", func() { panic("boom") })
		Join(h)
	})
	if r.Outcome != "ok" || len(r.Panics) != 1 {
		t.Fatal(r.Outcome, r.Panics)
	}
}
