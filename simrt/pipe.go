package simrt

import (
	"context"
	"io"
)

// Pipe replaces io.Pipe: a synchronous in-memory pipe whose blocking is
// visible to the scheduler.
type pipe struct {
	buf    []byte
	wdone  bool  // a Write is waiting for buf to drain
	rerr   error // set by CloseRead
	werr   error // set by CloseWrite
	closed bool
}

type PipeReader struct{ p *pipe }
type PipeWriter struct{ p *pipe }

func Pipe() (*PipeReader, *PipeWriter) {
	p := &pipe{}
	return &PipeReader{p}, &PipeWriter{p}
}

func (r *PipeReader) Read(b []byte) (int, error) {
	p := r.p
	if len(b) == 0 {
		return 0, nil
	}
	Yield()
	Block("pipe-read", func() bool { return len(p.buf) > 0 || p.werr != nil || p.rerr != nil })
	if p.rerr != nil {
		return 0, io.ErrClosedPipe
	}
	if len(p.buf) > 0 {
		n := copy(b, p.buf)
		p.buf = p.buf[n:]
		return n, nil
	}
	if p.werr != nil {
		return 0, p.werr
	}
	return 0, io.EOF // zombie
}

func (r *PipeReader) Close() error { return r.CloseWithError(nil) }
func (r *PipeReader) CloseWithError(err error) error {
	if err == nil {
		err = io.ErrClosedPipe
	}
	if r.p.rerr == nil {
		r.p.rerr = err
	}
	return nil
}

func (w *PipeWriter) Write(b []byte) (int, error) {
	p := w.p
	if p.werr != nil {
		return 0, io.ErrClosedPipe
	}
	if p.rerr != nil {
		return 0, p.rerr
	}
	Yield()
	// one writer at a time
	Block("pipe-write-slot", func() bool { return len(p.buf) == 0 || p.rerr != nil })
	if p.rerr != nil {
		return 0, p.rerr
	}
	total := len(b)
	p.buf = append(p.buf[:0:0], b...)
	Block("pipe-write", func() bool { return len(p.buf) == 0 || p.rerr != nil })
	if len(p.buf) > 0 {
		n := total - len(p.buf)
		p.buf = nil
		if p.rerr != nil {
			return n, p.rerr
		}
		return n, io.ErrClosedPipe
	}
	return total, nil
}

func (w *PipeWriter) Close() error { return w.CloseWithError(nil) }
func (w *PipeWriter) CloseWithError(err error) error {
	if err == nil {
		err = io.EOF
	}
	if w.p.werr == nil {
		w.p.werr = err
	}
	return nil
}

// Weighted replaces golang.org/x/sync/semaphore.Weighted.
type Weighted struct {
	size, cur int64
}

func NewWeighted(n int64) *Weighted { return &Weighted{size: n} }

func (w *Weighted) Acquire(ctx context.Context, n int64) error {
	Yield()
	var err error
	Block("sem", func() bool {
		if ctx.Err() != nil {
			err = ctx.Err()
			return true
		}
		if w.cur+n <= w.size {
			w.cur += n
			return true
		}
		return false
	})
	return err
}

func (w *Weighted) TryAcquire(n int64) bool {
	if w.cur+n <= w.size {
		w.cur += n
		return true
	}
	return false
}

func (w *Weighted) Release(n int64) {
	w.cur -= n
	if w.cur < 0 {
		panic("semaphore: released more than held")
	}
}
