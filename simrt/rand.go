package simrt

import (
	"encoding/hex"
	"math"
)

// Rand is a small deterministic PRNG (SplitMix64 seeding a xorshift64*).
type Rand struct{ s uint64 }

func splitmix(x *uint64) uint64 {
	*x += 0x9e3779b97f4a7c15
	z := *x
	z = (z ^ (z >> 30)) * 0xbf58476d1ce4e5b9
	z = (z ^ (z >> 27)) * 0x94d049bb133111eb
	return z ^ (z >> 31)
}

// NewRand returns a generator for seed.
func NewRand(seed uint64) *Rand {
	x := seed
	s := splitmix(&x)
	if s == 0 {
		s = 0x9e3779b97f4a7c15
	}
	return &Rand{s: s}
}

// Derive returns an independent generator labelled by name.
func Derive(seed uint64, label string) *Rand {
	return NewRand(seed ^ (hashStr(label) * 0x9e3779b97f4a7c15))
}

// SeedFor derives the seed of run i from a base seed.
func SeedFor(base uint64, i uint64) uint64 {
	x := base ^ (i+1)*0xd6e8feb86659fd93
	return splitmix(&x)
}

func (r *Rand) Uint64() uint64 {
	x := r.s
	x ^= x >> 12
	x ^= x << 25
	x ^= x >> 27
	r.s = x
	return x * 0x2545f4914f6cdd1d
}

func (r *Rand) Uint64n(n uint64) uint64 {
	if n == 0 {
		return 0
	}
	return r.Uint64() % n
}

// Intn returns a value in [0,n). n<=0 yields 0.
func (r *Rand) Intn(n int) int {
	if n <= 0 {
		return 0
	}
	return int(r.Uint64() % uint64(n))
}

// Range returns a value in [lo,hi].
func (r *Rand) Range(lo, hi int) int {
	if hi <= lo {
		return lo
	}
	return lo + r.Intn(hi-lo+1)
}

func (r *Rand) Int63n(n int64) int64 {
	if n <= 0 {
		return 0
	}
	return int64(r.Uint64() % uint64(n))
}

func (r *Rand) Float64() float64 { return float64(r.Uint64()>>11) / float64(1<<53) }

// Chance is true with probability pct/100.
func (r *Rand) Chance(pct int) bool { return r.Intn(100) < pct }

func (r *Rand) Bool() bool { return r.Uint64()&1 == 1 }

func (r *Rand) Bytes(n int) []byte {
	b := make([]byte, n)
	for i := range b {
		b[i] = byte(r.Uint64())
	}
	return b
}

// Perm returns a permutation of [0,n).
func (r *Rand) Perm(n int) []int {
	p := make([]int, n)
	for i := range p {
		p[i] = i
	}
	for i := n - 1; i > 0; i-- {
		j := r.Intn(i + 1)
		p[i], p[j] = p[j], p[i]
	}
	return p
}

// NormFloat is a rough normal variate (for jitter only).
func (r *Rand) NormFloat() float64 {
	u1, u2 := r.Float64(), r.Float64()
	if u1 < 1e-12 {
		u1 = 1e-12
	}
	return math.Sqrt(-2*math.Log(u1)) * math.Cos(2*math.Pi*u2)
}

// Stream returns the run's named PRNG stream; streams are independent so a
// new draw in one does not shift another.
func (s *Sim) Stream(label string) *Rand {
	r := s.streams[label]
	if r == nil {
		r = Derive(s.cfg.Seed, label)
		s.streams[label] = r
	}
	return r
}

// Stream is Sim.Stream on the active simulation.
func Stream(label string) *Rand { return must().Stream(label) }

// RandRead replaces crypto/rand.Read in instrumented code.
func RandRead(b []byte) (int, error) {
	if cur == nil {
		panic("simrt: RandRead outside simulation")
	}
	r := cur.Stream("rand")
	for i := range b {
		b[i] = byte(r.Uint64())
	}
	return len(b), nil
}

type randReader struct{}

func (randReader) Read(b []byte) (int, error) { return RandRead(b) }

// RandReader replaces crypto/rand.Reader.
var RandReader randReader

// UUIDString replaces uuid.New().String() / uuid.NewString().
func UUIDString() string {
	var b [16]byte
	RandRead(b[:])
	b[6] = (b[6] & 0x0f) | 0x40
	b[8] = (b[8] & 0x3f) | 0x80
	h := hex.EncodeToString(b[:])
	return h[0:8] + "-" + h[8:12] + "-" + h[12:16] + "-" + h[16:20] + "-" + h[20:32]
}
