package simrt

import (
	"errors"
	"io"
	"io/fs"
	"os"
	"path/filepath"
	"sort"
	"strings"
	"syscall"
	"time"
)

// FSOp describes one file-system operation of instrumented code.
type FSOp struct {
	Kind  string // open create createtemp write read rename remove removeall mkdir stat readfile writefile readdir glob walk sync close truncate chmod seek
	Path  string
	Path2 string // rename target
	N     int    // bytes for write
	Node  *Node
	Index int64 // per-node operation index (0-based)
	Mut   bool  // mutates the disk
}

// FSAction is an injector's decision for one operation.
type FSAction struct {
	Err   error // fail the operation with this error (before any effect unless Short>0)
	Short int   // for write: apply only the first Short bytes, then fail with Err (or io.ErrShortWrite)
	Crash int   // 0 no, 1 crash before the op, 2 crash after the op, 3 torn: write Short bytes then crash
}

// FSInjector decides the fate of each operation. nil means no faults.
type FSInjector func(op *FSOp) FSAction

type fsState struct {
	s        *Sim
	inject   FSInjector
	observe  func(op *FSOp, err error)
	pre      func(op *FSOp)
	Touched  []string
	recordTo bool
	root     string
}

// SetPathRoot declares the scratch root of this run; trace hashes and events
// use paths relative to it so they do not depend on the process id.
func SetPathRoot(root string) { must().fs.root = root }

func (f *fsState) rel(p string) string {
	if f.root != "" && strings.HasPrefix(p, f.root) {
		return p[len(f.root):]
	}
	return p
}

func newFSState(s *Sim) *fsState { return &fsState{s: s} }

// SetFSInjector installs the fault injector for this run.
func SetFSInjector(f FSInjector) { must().fs.inject = f }

// SetFSObserver installs a callback run after every operation (oracle hooks
// such as "at every point the final path is absent or complete").
func SetFSObserver(f func(op *FSOp, err error)) { must().fs.observe = f }

// SetFSPreObserver installs a callback run before every operation takes
// effect (and before fault injection), e.g. to look at a file that is about
// to be removed.
func SetFSPreObserver(f func(op *FSOp)) { must().fs.pre = f }

// RecordTouched makes the FS layer remember every absolute path it was
// asked to touch (C08 confinement oracle).
func RecordTouched(on bool) { must().fs.recordTo = on }

// TouchedPaths returns the paths recorded since RecordTouched(true).
func TouchedPaths() []string { return must().fs.Touched }

// ErrCrashed is returned by file operations of a dead node (zombie tasks).
var ErrCrashed = errors.New("simrt: node crashed")

// Errno helpers for injectors.
var (
	EIO    error = syscall.EIO
	ENOSPC error = syscall.ENOSPC
	EACCES error = syscall.EACCES
)

func pathErr(op, path string, err error) error {
	if err == nil {
		return nil
	}
	var pe *os.PathError
	if errors.As(err, &pe) {
		return err
	}
	return &os.PathError{Op: op, Path: path, Err: err}
}

// begin runs the common prologue: fencing, scheduling point, fault decision.
// It returns the action and whether the operation may proceed.
func fsBegin(kind, path, path2 string, n int, mut bool) (op *FSOp, act FSAction, proceed bool) {
	s := cur
	if s == nil {
		return nil, FSAction{}, true
	}
	t := s.cur
	if t.killed || (t.node != nil && t.node.Dead) {
		return nil, FSAction{Err: ErrCrashed}, false
	}
	s.yield()
	node := t.node
	op = &FSOp{Kind: kind, Path: path, Path2: path2, N: n, Node: node, Mut: mut}
	if node != nil {
		op.Index = node.fsOps
		node.fsOps++
	}
	if s.fs.recordTo {
		if abs, err := filepath.Abs(path); err == nil {
			s.fs.Touched = append(s.fs.Touched, abs)
		}
		if path2 != "" {
			if abs, err := filepath.Abs(path2); err == nil {
				s.fs.Touched = append(s.fs.Touched, abs)
			}
		}
	}
	if s.fs.pre != nil {
		s.fs.pre(op)
	}
	if s.fs.inject != nil {
		act = s.fs.inject(op)
	}
	if act.Crash == 1 {
		s.event("FS crash-before %s %s", kind, filepath.Base(path))
		Crash(node)
		return op, FSAction{Err: ErrCrashed}, false
	}
	if act.Err != nil && act.Short <= 0 && act.Crash == 0 {
		Count("fault.fs_err."+kind, 1)
		s.event("FS err %s %s: %v", kind, filepath.Base(path), act.Err)
		if s.fs.observe != nil {
			s.fs.observe(op, act.Err)
		}
		return op, act, false
	}
	return op, act, true
}

func fsEnd(op *FSOp, act FSAction, err error) {
	s := cur
	if s == nil || op == nil {
		return
	}
	if op.Mut {
		s.mix(0xf5, hashStr(op.Kind+"|"+s.fs.rel(op.Path)+"|"+s.fs.rel(op.Path2)))
	}
	if s.fs.observe != nil {
		s.fs.observe(op, err)
	}
	if act.Crash == 2 || act.Crash == 3 {
		s.event("FS crash-after %s %s", op.Kind, filepath.Base(op.Path))
		Crash(op.Node)
	}
}

func stamp(path string) {
	if cur != nil {
		t := Now()
		os.Chtimes(path, t, t)
	}
}

// File replaces os.File in instrumented code.
type File struct {
	f     *os.File
	node  *Node
	epoch int
	path  string
}

func wrapFile(f *os.File, path string) *File {
	if f == nil {
		return nil
	}
	w := &File{f: f, path: path}
	if cur != nil && cur.cur != nil {
		w.node = cur.cur.node
		if w.node != nil {
			w.epoch = w.node.Epoch
		}
	}
	return w
}

func (f *File) fenced() bool {
	if cur == nil || f.node == nil {
		return false
	}
	return f.node.Epoch != f.epoch || f.node.Dead || cur.cur.killed
}

// Real exposes the underlying *os.File (for code outside the seam, e.g. Fd).
func (f *File) Real() *os.File { return f.f }
func (f *File) Name() string   { return f.f.Name() }
func (f *File) Fd() uintptr    { return f.f.Fd() }

func (f *File) Write(b []byte) (int, error) {
	if f.fenced() {
		return 0, ErrCrashed
	}
	op, act, ok := fsBegin("write", f.path, "", len(b), true)
	if !ok {
		return 0, pathErr("write", f.path, act.Err)
	}
	if act.Short > 0 || act.Crash == 3 {
		n := act.Short
		if n >= len(b) {
			n = len(b) - 1
		}
		if n < 0 {
			n = 0
		}
		wn, _ := f.f.Write(b[:n])
		stamp(f.path)
		Count("fault.fs_short_write", 1)
		err := act.Err
		if err == nil {
			err = io.ErrShortWrite
		}
		fsEnd(op, act, err)
		return wn, pathErr("write", f.path, err)
	}
	n, err := f.f.Write(b)
	stamp(f.path)
	fsEnd(op, act, err)
	return n, err
}

func (f *File) WriteString(s string) (int, error) { return f.Write([]byte(s)) }

func (f *File) WriteAt(b []byte, off int64) (int, error) {
	if f.fenced() {
		return 0, ErrCrashed
	}
	op, act, ok := fsBegin("write", f.path, "", len(b), true)
	if !ok {
		return 0, pathErr("write", f.path, act.Err)
	}
	n, err := f.f.WriteAt(b, off)
	stamp(f.path)
	fsEnd(op, act, err)
	return n, err
}

func (f *File) Read(b []byte) (int, error) {
	if f.fenced() {
		return 0, ErrCrashed
	}
	op, act, ok := fsBegin("read", f.path, "", len(b), false)
	if !ok {
		return 0, pathErr("read", f.path, act.Err)
	}
	n, err := f.f.Read(b)
	fsEnd(op, act, err)
	return n, err
}

func (f *File) ReadAt(b []byte, off int64) (int, error) {
	if f.fenced() {
		return 0, ErrCrashed
	}
	return f.f.ReadAt(b, off)
}

func (f *File) Seek(off int64, whence int) (int64, error) {
	if f.fenced() {
		return 0, ErrCrashed
	}
	return f.f.Seek(off, whence)
}

func (f *File) Close() error {
	if f.fenced() {
		f.f.Close() // release the descriptor; nothing is written by close
		return ErrCrashed
	}
	op, act, ok := fsBegin("close", f.path, "", 0, true)
	if !ok {
		f.f.Close()
		return pathErr("close", f.path, act.Err)
	}
	err := f.f.Close()
	fsEnd(op, act, err)
	return err
}

func (f *File) Sync() error {
	if f.fenced() {
		return ErrCrashed
	}
	op, act, ok := fsBegin("sync", f.path, "", 0, true)
	if !ok {
		return pathErr("sync", f.path, act.Err)
	}
	fsEnd(op, act, nil) // process-death model: page cache survives, fsync is a no-op
	return nil
}

func (f *File) Stat() (os.FileInfo, error) {
	if f.fenced() {
		return nil, ErrCrashed
	}
	return f.f.Stat()
}

func (f *File) Truncate(size int64) error {
	if f.fenced() {
		return ErrCrashed
	}
	op, act, ok := fsBegin("truncate", f.path, "", 0, true)
	if !ok {
		return pathErr("truncate", f.path, act.Err)
	}
	err := f.f.Truncate(size)
	fsEnd(op, act, err)
	return err
}

func (f *File) Chmod(m os.FileMode) error {
	if f.fenced() {
		return ErrCrashed
	}
	return f.f.Chmod(m)
}

func (f *File) ReadDir(n int) ([]os.DirEntry, error) {
	if f.fenced() {
		return nil, ErrCrashed
	}
	ents, err := f.f.ReadDir(n)
	sort.Slice(ents, func(i, j int) bool { return ents[i].Name() < ents[j].Name() })
	return ents, err
}

// ---- package-level replacements for os.* and filepath.* ----

func OpenFile(name string, flag int, perm os.FileMode) (*File, error) {
	mut := flag&(os.O_CREATE|os.O_TRUNC|os.O_WRONLY|os.O_RDWR|os.O_APPEND) != 0
	kind := "open"
	if flag&os.O_CREATE != 0 {
		kind = "create"
	}
	op, act, ok := fsBegin(kind, name, "", 0, mut)
	if !ok {
		return nil, pathErr("open", name, act.Err)
	}
	_, statErr := os.Lstat(name)
	f, err := os.OpenFile(name, flag, perm)
	if err == nil && mut && (statErr != nil || flag&os.O_TRUNC != 0) {
		stamp(name)
	}
	fsEnd(op, act, err)
	if err != nil {
		return nil, err
	}
	return wrapFile(f, name), nil
}

func Open(name string) (*File, error) { return OpenFile(name, os.O_RDONLY, 0) }
func Create(name string) (*File, error) {
	return OpenFile(name, os.O_RDWR|os.O_CREATE|os.O_TRUNC, 0666)
}

// CreateTemp replaces os.CreateTemp with a PRNG-derived name.
func CreateTemp(dir, pattern string) (*File, error) {
	if cur == nil {
		f, err := os.CreateTemp(dir, pattern)
		return wrapFile(f, ""), err
	}
	if dir == "" {
		dir = os.TempDir()
	}
	prefix, suffix := pattern, ""
	for i := len(pattern) - 1; i >= 0; i-- {
		if pattern[i] == '*' {
			prefix, suffix = pattern[:i], pattern[i+1:]
			break
		}
	}
	r := cur.Stream("tmpname")
	for try := 0; try < 10000; try++ {
		name := filepath.Join(dir, prefix+uitoa(r.Uint64()%1000000000)+suffix)
		f, err := OpenFile(name, os.O_RDWR|os.O_CREATE|os.O_EXCL, 0600)
		if os.IsExist(err) {
			continue
		}
		return f, err
	}
	return nil, &os.PathError{Op: "createtemp", Path: dir, Err: os.ErrExist}
}

func uitoa(v uint64) string {
	var b [20]byte
	i := len(b)
	for {
		i--
		b[i] = byte('0' + v%10)
		v /= 10
		if v == 0 {
			break
		}
	}
	return string(b[i:])
}

func Rename(oldpath, newpath string) error {
	op, act, ok := fsBegin("rename", oldpath, newpath, 0, true)
	if !ok {
		return &os.LinkError{Op: "rename", Old: oldpath, New: newpath, Err: act.Err}
	}
	err := os.Rename(oldpath, newpath)
	fsEnd(op, act, err)
	return err
}

func Remove(name string) error {
	op, act, ok := fsBegin("remove", name, "", 0, true)
	if !ok {
		return pathErr("remove", name, act.Err)
	}
	err := os.Remove(name)
	fsEnd(op, act, err)
	return err
}

func RemoveAll(name string) error {
	op, act, ok := fsBegin("removeall", name, "", 0, true)
	if !ok {
		return pathErr("removeall", name, act.Err)
	}
	err := os.RemoveAll(name)
	fsEnd(op, act, err)
	return err
}

func MkdirAll(path string, perm os.FileMode) error {
	op, act, ok := fsBegin("mkdir", path, "", 0, true)
	if !ok {
		return pathErr("mkdir", path, act.Err)
	}
	err := os.MkdirAll(path, perm)
	fsEnd(op, act, err)
	return err
}

func Mkdir(path string, perm os.FileMode) error {
	op, act, ok := fsBegin("mkdir", path, "", 0, true)
	if !ok {
		return pathErr("mkdir", path, act.Err)
	}
	err := os.Mkdir(path, perm)
	fsEnd(op, act, err)
	return err
}

func Stat(name string) (os.FileInfo, error) {
	op, act, ok := fsBegin("stat", name, "", 0, false)
	if !ok {
		return nil, pathErr("stat", name, act.Err)
	}
	fi, err := os.Stat(name)
	fsEnd(op, act, err)
	return fi, err
}

func Lstat(name string) (os.FileInfo, error) {
	op, act, ok := fsBegin("stat", name, "", 0, false)
	if !ok {
		return nil, pathErr("lstat", name, act.Err)
	}
	fi, err := os.Lstat(name)
	fsEnd(op, act, err)
	return fi, err
}

func ReadFile(name string) ([]byte, error) {
	op, act, ok := fsBegin("readfile", name, "", 0, false)
	if !ok {
		return nil, pathErr("read", name, act.Err)
	}
	b, err := os.ReadFile(name)
	fsEnd(op, act, err)
	return b, err
}

func WriteFile(name string, data []byte, perm os.FileMode) error {
	f, err := OpenFile(name, os.O_WRONLY|os.O_CREATE|os.O_TRUNC, perm)
	if err != nil {
		return err
	}
	_, err = f.Write(data)
	if err1 := f.Close(); err1 != nil && err == nil {
		err = err1
	}
	return err
}

func ReadDir(name string) ([]os.DirEntry, error) {
	op, act, ok := fsBegin("readdir", name, "", 0, false)
	if !ok {
		return nil, pathErr("readdir", name, act.Err)
	}
	ents, err := os.ReadDir(name) // sorted by name already
	fsEnd(op, act, err)
	return ents, err
}

func Chmod(name string, m os.FileMode) error {
	op, act, ok := fsBegin("chmod", name, "", 0, true)
	if !ok {
		return pathErr("chmod", name, act.Err)
	}
	err := os.Chmod(name, m)
	fsEnd(op, act, err)
	return err
}

func Chtimes(name string, a, m time.Time) error { return os.Chtimes(name, a, m) }

func Truncate(name string, size int64) error {
	op, act, ok := fsBegin("truncate", name, "", 0, true)
	if !ok {
		return pathErr("truncate", name, act.Err)
	}
	err := os.Truncate(name, size)
	fsEnd(op, act, err)
	return err
}

func Glob(pattern string) ([]string, error) {
	op, act, ok := fsBegin("glob", pattern, "", 0, false)
	if !ok {
		return nil, act.Err
	}
	m, err := filepath.Glob(pattern)
	sort.Strings(m)
	fsEnd(op, act, err)
	return m, err
}

func WalkDir(root string, fn fs.WalkDirFunc) error {
	op, act, ok := fsBegin("walk", root, "", 0, false)
	if !ok {
		return fn(root, nil, pathErr("walk", root, act.Err))
	}
	err := filepath.WalkDir(root, fn) // lexical order: deterministic
	fsEnd(op, act, err)
	return err
}

func Walk(root string, fn filepath.WalkFunc) error {
	op, act, ok := fsBegin("walk", root, "", 0, false)
	if !ok {
		return fn(root, nil, pathErr("walk", root, act.Err))
	}
	err := filepath.Walk(root, fn)
	fsEnd(op, act, err)
	return err
}
