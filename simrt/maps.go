package simrt

import (
	"cmp"
	"fmt"
	"sort"
)

// MapKeys returns the keys of m in a deterministic order: sorted, then (in a
// simulation) permuted by the run's "map" stream, so that iteration order is
// an explored, replayable choice instead of a runtime accident.
func MapKeys[M ~map[K]V, K comparable, V any](m M) []K {
	keys := make([]K, 0, len(m))
	for k := range m {
		keys = append(keys, k)
	}
	sortKeys(keys)
	if s := cur; s != nil && len(keys) > 1 && !s.cur.killed {
		r := s.Stream("map")
		for i := len(keys) - 1; i > 0; i-- {
			j := r.Intn(i + 1)
			keys[i], keys[j] = keys[j], keys[i]
		}
	}
	return keys
}

func sortKeys[K comparable](keys []K) {
	if len(keys) < 2 {
		return
	}
	switch ks := any(keys).(type) {
	case []string:
		sort.Strings(ks)
	case []int:
		sort.Ints(ks)
	case []int64:
		sort.Slice(ks, func(i, j int) bool { return ks[i] < ks[j] })
	case []uint64:
		sort.Slice(ks, func(i, j int) bool { return ks[i] < ks[j] })
	case []int32:
		sort.Slice(ks, func(i, j int) bool { return ks[i] < ks[j] })
	case []uint32:
		sort.Slice(ks, func(i, j int) bool { return ks[i] < ks[j] })
	default:
		strs := make([]string, len(keys))
		for i, k := range keys {
			strs[i] = fmt.Sprintf("%T|%#v", k, k)
		}
		idx := make([]int, len(keys))
		for i := range idx {
			idx[i] = i
		}
		sort.SliceStable(idx, func(a, b int) bool { return cmp.Less(strs[idx[a]], strs[idx[b]]) })
		out := make([]K, len(keys))
		for i, j := range idx {
			out[i] = keys[j]
		}
		copy(keys, out)
	}
}

// RangeMap replaces `range m` for maps: keys in deterministic seeded order;
// entries deleted during iteration are skipped, as the spec allows.
func RangeMap[M ~map[K]V, K comparable, V any](m M) func(yield func(K, V) bool) {
	return func(yield func(K, V) bool) {
		for _, k := range MapKeys(m) {
			v, ok := m[k]
			if !ok {
				continue
			}
			if !yield(k, v) {
				return
			}
		}
	}
}
