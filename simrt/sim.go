// Package simrt is the deterministic simulation runtime that instrumented arc
// code is rewritten against (see /verif/DESIGN.md §2). Real goroutines, but
// exactly one runs at a time; every scheduling choice, clock reading, fault
// and random value is derived from one seed.
//
// The package must only import the standard library: it is injected into
// arc's module through a build overlay as internal/simrt.
package simrt

import (
	"fmt"
	"os"
	"runtime"
	"sort"
	"strings"
	"sync/atomic"
	"time"
)

// Policy selects how the scheduler chooses the next task.
type Policy int

const (
	PolicyUniform Policy = iota // uniform among ready tasks at every yield
	PolicySticky                // keep running the current task with probability StickyPct/100
	PolicyPCT                   // random priorities with D priority change points
	PolicyFIFO                  // no preemption; lowest id first (minimisation target)
)

func (p Policy) String() string {
	switch p {
	case PolicyUniform:
		return "uniform"
	case PolicySticky:
		return "sticky"
	case PolicyPCT:
		return "pct"
	case PolicyFIFO:
		return "fifo"
	}
	return "?"
}

// Config is the per-run simulator configuration. It is part of every replay
// file; together with the code it determines the run completely.
type Config struct {
	Seed       uint64 `json:"seed"`
	Policy     Policy `json:"policy"`
	StickyPct  int    `json:"sticky_pct,omitempty"`
	PCTDepth   int    `json:"pct_depth,omitempty"`
	PCTSteps   int    `json:"pct_steps,omitempty"` // estimate of run length for change points
	StepMaxNs  int64  `json:"step_max_ns"`         // sim time added per scheduling step: 1..StepMaxNs
	MaxSteps   int64  `json:"max_steps"`           // abort (outcome "step-limit") after this many steps
	EpochNs    int64  `json:"epoch_ns"`            // wall clock at sim time 0
	MaxSimTime int64  `json:"max_sim_ns,omitempty"`
	// HoldYieldPct > 0: after a task acquired a Mutex / RWMutex (write or read
	// side) it yields with this probability while holding the lock — the
	// preemption inside a critical section that TryLock-based and
	// lock-ordering-dependent code is sensitive to. 0 (default): locks are
	// scheduling points only before the acquisition, schedules are unchanged.
	HoldYieldPct int `json:"hold_yield_pct,omitempty"`
}

// DefaultConfig returns the configuration used when a harness does not care.
func DefaultConfig(seed uint64) Config {
	return Config{
		Seed: seed, Policy: PolicyUniform, StepMaxNs: 20_000, MaxSteps: 5_000_000,
		EpochNs: time.Date(2026, 1, 1, 0, 0, 0, 0, time.UTC).UnixNano(),
	}
}

const fairLimit = 64

type taskState int

const (
	stRunnable taskState = iota
	stRunning
	stBlocked
	stDone
)

// Node groups tasks, files and connections that die together in a crash.
type Node struct {
	Name       string
	Epoch      int
	Dead       bool
	WallOffset int64 // ns added to the wall clock for this node (clock skew)
	fsOps      int64
	steps      int64
	stalledTil int64
	// CrashAtStep, when >0, crashes the node at the scheduling point where
	// its step counter reaches this value (every yield is a crash point).
	CrashAtStep int64
}

// Steps returns how many scheduling points tasks of this node have passed.
func (n *Node) Steps() int64 { return n.steps }

// FSOps returns how many file-system operations tasks of this node issued.
func (n *Node) FSOps() int64 { return n.fsOps }

func (n *Node) stepHook() {
	n.steps++
	if n.CrashAtStep > 0 && n.steps >= n.CrashAtStep && !n.Dead {
		n.CrashAtStep = 0
		Event("CRASH-AT-STEP node=%s step=%d", n.Name, n.steps)
		Crash(n)
	}
}

// Task is one simulated goroutine.
type Task struct {
	id     int
	name   string
	node   *Node
	wake   chan struct{}
	state  taskState
	try    func() bool
	why    string
	killed bool
	killer *Task
	prio   int64
	polled uint64
	joinCh []*Task
	sim    *Sim
	// PanicVal is set when the task function panicked.
	PanicVal   any
	PanicStack string
}

func (t *Task) ID() int      { return t.id }
func (t *Task) Name() string { return t.name }
func (t *Task) Done() bool   { return t.state == stDone }
func (t *Task) Node() *Node  { return t.node }

type timerEv struct {
	at   int64
	seq  uint64
	fire func()
	dead bool
	idx  int
}

// Sim is one simulated execution.
type Sim struct {
	cfg       Config
	tasks     []*Task // live tasks, sorted by id
	nextID    int
	cur       *Task
	now       int64
	timers    timerHeap
	tseq      uint64
	steps     int64
	gen       uint64
	streams   map[string]*Rand
	sched     *Rand
	trace     uint64 // running hash of decisions and events
	nEvents   int64
	events    []string // bounded ring of recent events for diagnostics
	keepEv    int
	preempt   int64
	pctChg    map[int64]bool
	root      *Task
	nodes     map[string]*Node
	Panics    []*Task
	outcome   string
	finish    chan struct{}
	fs        *fsState
	stats     map[string]int64
	aborted   bool
	lastPick  *Task
	consec    int
	rr        int
	pending   map[uintptr][]*pendSend
	abortSelf *Task
	// Decisions counts how often the scheduler had >1 candidates.
	Decisions int64
	lastBeat  atomic.Int64
}

var (
	cur     *Sim // the active simulation, nil outside Run
	simGen  uint64
	running atomic.Bool
)

// Active reports whether a simulation is running.
func Active() bool { return cur != nil }

// Cur returns the active simulation (nil outside Run).
func Cur() *Sim { return cur }

// Result summarises a finished run.
type Result struct {
	Outcome   string // "ok", "deadlock", "step-limit", "aborted:<why>"
	Steps     int64
	Decisions int64
	Preempts  int64
	SimNs     int64
	TraceHash uint64
	Events    int64
	Panics    []string
	Stats     map[string]int64
	Tail      []string
}

// Run executes root as task 0 under a fresh simulator and returns when root
// returned (all other tasks are then killed), or when the run dead-locked or
// hit its step limit. Only one Run may be active per process at a time.
func Run(cfg Config, root func()) Result {
	if !running.CompareAndSwap(false, true) {
		panic("simrt: nested or concurrent Run")
	}
	defer running.Store(false)
	if cfg.StepMaxNs <= 0 {
		cfg.StepMaxNs = 20_000
	}
	if cfg.MaxSteps <= 0 {
		cfg.MaxSteps = 5_000_000
	}
	simGen++
	s := &Sim{cfg: cfg, gen: simGen, streams: map[string]*Rand{}, nodes: map[string]*Node{},
		finish: make(chan struct{}), keepEv: 400, stats: map[string]int64{}}
	s.sched = s.Stream("sched")
	s.fs = newFSState(s)
	if cfg.Policy == PolicyPCT {
		s.pctChg = map[int64]bool{}
		n := cfg.PCTSteps
		if n <= 0 {
			n = 2000
		}
		r := s.Stream("pct")
		for i := 0; i < cfg.PCTDepth; i++ {
			s.pctChg[int64(r.Intn(n))+1] = true
		}
	}
	cur = s
	startWatchdog(s)
	harnessNode := s.NodeByName("harness")
	t := s.newTask("root", harnessNode)
	s.root = t
	t.state = stRunning
	s.cur = t
	go func() {
		defer s.taskExit(t)
		root()
	}()
	<-s.finish
	cur = nil
	res := Result{Outcome: s.outcome, Steps: s.steps, Decisions: s.Decisions, Preempts: s.preempt,
		SimNs: s.now, TraceHash: s.trace, Events: s.nEvents, Stats: s.stats, Tail: s.events}
	for _, p := range s.Panics {
		res.Panics = append(res.Panics, fmt.Sprintf("task %d(%s): %v\n%s", p.id, p.name, p.PanicVal, p.PanicStack))
	}
	return res
}

// NodeByName returns (creating on first use) the node with that name.
func (s *Sim) NodeByName(name string) *Node {
	n := s.nodes[name]
	if n == nil {
		n = &Node{Name: name}
		s.nodes[name] = n
	}
	return n
}

// NodeOf is NodeByName on the active simulation.
func NodeOf(name string) *Node { return must().NodeByName(name) }

func must() *Sim {
	if cur == nil {
		panic("simrt: no active simulation (call inside simrt.Run)")
	}
	return cur
}

func (s *Sim) newTask(name string, node *Node) *Task {
	t := &Task{id: s.nextID, name: name, node: node, wake: make(chan struct{}, 1), sim: s}
	s.nextID++
	if s.cfg.Policy == PolicyPCT {
		t.prio = int64(s.sched.Intn(1 << 30))
	}
	s.tasks = append(s.tasks, t)
	return t
}

// Spawn registers a child task of the current task; the caller must start a
// goroutine that calls TaskStart(h) first and TaskEnd(h) (deferred) last.
// Outside a simulation it returns nil and TaskStart/TaskEnd are no-ops.
func Spawn(site string) *Task {
	s := cur
	if s == nil {
		return nil
	}
	c := s.cur
	if c.killed {
		// A zombie unwinding its defers must not create new work.
		return &Task{killed: true, sim: s, wake: make(chan struct{}, 1), state: stDone}
	}
	t := s.newTask(site, c.node)
	s.mix(0x5b, uint64(t.id))
	return t
}

// SpawnOn is Spawn with an explicit node (used by harness drivers).
func SpawnOn(site string, n *Node) *Task {
	s := must()
	t := s.newTask(site, n)
	s.mix(0x5b, uint64(t.id))
	return t
}

// Go runs f as a new task of the current task's node.
func Go(site string, f func()) *Task {
	h := Spawn(site)
	if h == nil {
		go f()
		return nil
	}
	go func() {
		if !TaskStart(h) {
			return
		}
		defer TaskEnd(h)
		f()
	}()
	return h
}

// GoOn runs f as a new task on node n.
func GoOn(site string, n *Node, f func()) *Task {
	h := SpawnOn(site, n)
	go func() {
		if !TaskStart(h) {
			return
		}
		defer TaskEnd(h)
		f()
	}()
	return h
}

// TaskStart parks the new goroutine until the scheduler first selects it.
// It returns false when the task was killed before it ever ran.
func TaskStart(h *Task) bool {
	if h == nil {
		return true
	}
	if h.state == stDone { // spawned by a zombie
		return false
	}
	<-h.wake
	if h.killed {
		h.sim.taskExit(h)
		return false
	}
	return true
}

// TaskEnd must be deferred right after TaskStart.
func TaskEnd(h *Task) {
	if h == nil {
		return
	}
	s := h.sim
	if r := recover(); r != nil {
		h.PanicVal = r
		h.PanicStack = trimStack(string(stackBuf()))
		s.Panics = append(s.Panics, h)
		s.event("PANIC task=%d(%s) %v", h.id, h.name, r)
	}
	s.taskExit(h)
}

func stackBuf() []byte {
	b := make([]byte, 16<<10)
	return b[:runtime.Stack(b, false)]
}

func trimStack(st string) string {
	lines := strings.Split(st, "\n")
	if len(lines) > 40 {
		lines = lines[:40]
	}
	return strings.Join(lines, "\n")
}

// taskExit removes t and passes the baton on. Runs on t's goroutine as its
// last action.
func (s *Sim) taskExit(t *Task) {
	if t == s.root {
		if r := recover(); r != nil {
			t.PanicVal = r
			t.PanicStack = trimStack(string(stackBuf()))
			s.Panics = append(s.Panics, t)
		}
	}
	t.state = stDone
	s.removeTask(t)
	if t.killer != nil {
		k := t.killer
		t.killer = nil
		s.cur = k
		k.wake <- struct{}{}
		return
	}
	if s.aborted {
		// abort in progress: the aborting task closes the run when its own
		// unwinding has finished, so no arc code outlives Run.
		if t == s.abortSelf {
			close(s.finish)
		}
		return
	}
	if t == s.root {
		if s.outcome == "" {
			s.outcome = "ok"
		}
		s.killAll()
		close(s.finish)
		return
	}
	next := s.pick(nil)
	if next == nil {
		s.deadlock()
		return
	}
	s.cur = next
	next.state = stRunning
	next.wake <- struct{}{}
}

func (s *Sim) removeTask(t *Task) {
	for i, x := range s.tasks {
		if x == t {
			s.tasks = append(s.tasks[:i], s.tasks[i+1:]...)
			return
		}
	}
}

// killAll unwinds every remaining task (zombie mode) on the caller's
// goroutine, one at a time.
func (s *Sim) killAll() {
	self := s.cur
	for len(s.tasks) > 0 {
		t := s.tasks[0]
		if t == self {
			s.removeTask(t)
			continue
		}
		s.killOne(self, t)
	}
}

// killOne unwinds t while the caller (running task or finishing root) waits.
func (s *Sim) killOne(self *Task, t *Task) {
	if t.state == stDone {
		s.removeTask(t)
		return
	}
	t.killed = true
	if self == nil || self.state == stDone {
		// no live task to return to: use a temporary baton holder
		self = &Task{id: -1, name: "reaper", wake: make(chan struct{}, 1), sim: s}
	}
	t.killer = self
	s.cur = t
	t.wake <- struct{}{}
	<-self.wake
	s.cur = self
}

func (s *Sim) deadlock() {
	// Every task is blocked and no timer is pending.
	var b strings.Builder
	for _, t := range s.tasks {
		fmt.Fprintf(&b, "[%d %s: %s] ", t.id, t.name, t.why)
	}
	s.event("DEADLOCK %s", b.String())
	s.abortRun("deadlock")
}

// abortRun ends the simulation from whatever goroutine is running.
func (s *Sim) abortRun(why string) {
	if s.aborted {
		return
	}
	s.aborted = true
	if s.outcome == "" {
		s.outcome = why
	}
	self := s.cur
	// Kill everything except the caller, then the caller exits.
	for {
		var victim *Task
		for _, t := range s.tasks {
			if t != self && t.state != stDone {
				victim = t
				break
			}
		}
		if victim == nil {
			break
		}
		s.killOne(self, victim)
	}
	if self != nil && self.state != stDone && self.id >= 0 {
		self.killed = true
		s.abortSelf = self
		runtime.Goexit() // deferred TaskEnd/taskExit closes s.finish
	}
	close(s.finish)
}

// Abort stops the run with the given outcome (harness use).
func Abort(why string) { must().abortRun("aborted:" + why) }

// ---------------------------------------------------------------------------
// scheduling

func (s *Sim) mix(tag byte, v uint64) {
	h := s.trace
	h ^= uint64(tag)
	h *= 0x100000001b3
	h ^= v
	h *= 0x100000001b3
	h ^= h >> 29
	s.trace = h
}

func hashStr(str string) uint64 {
	h := uint64(0xcbf29ce484222325)
	for i := 0; i < len(str); i++ {
		h ^= uint64(str[i])
		h *= 0x100000001b3
	}
	return h
}

func (s *Sim) event(format string, args ...any) {
	msg := fmt.Sprintf(format, args...)
	s.nEvents++
	s.mix(0xe1, hashStr(msg))
	if s.keepEv > 0 {
		line := fmt.Sprintf("t=%d step=%d %s", s.now, s.steps, msg)
		if len(s.events) >= s.keepEv {
			copy(s.events, s.events[1:])
			s.events[len(s.events)-1] = line
		} else {
			s.events = append(s.events, line)
		}
	}
}

// Event records a harness- or probe-level event in the run's trace. It never
// draws from a PRNG and never reads a real clock.
func Event(format string, args ...any) {
	if s := cur; s != nil {
		s.event(format, args...)
	}
}

// Stat adds n to a named per-run counter (fault kinds fired, probes reached).
func Count(name string, n int64) {
	if s := cur; s != nil {
		s.stats[name] += n
	}
}

// Probe counts that a rare branch was reached.
func Probe(name string) { Count("probe."+name, 1) }

// pick chooses the next task to run. exclude (may be nil) is a task that
// must not be chosen unless nothing else can run. It may advance the clock.
// Returns nil on dead-lock.
func (s *Sim) pick(self *Task) *Task {
	s.steps++
	s.lastBeat.Store(s.steps)
	if s.steps > s.cfg.MaxSteps {
		s.event("STEP-LIMIT\n%s", DumpTasks())
		s.outcome = "step-limit"
		return nil
	}
	s.now += 1 + int64(s.sched.Uint64n(uint64(s.cfg.StepMaxNs)))
	if s.pctChg != nil && s.pctChg[s.steps] && self != nil {
		self.prio = -s.steps // drop below everyone
	}
	s.fireDue()
	var failed map[*Task]bool
	for {
		cands := s.cands(failed)
		if len(cands) == 0 {
			if !s.advance() {
				return nil
			}
			failed = nil
			continue
		}
		c := s.choose(self, cands)
		if c.state == stBlocked {
			if c.try() {
				c.state = stRunnable
				c.try = nil
				c.why = ""
			} else {
				if failed == nil {
					failed = map[*Task]bool{}
				}
				failed[c] = true
				continue
			}
		}
		s.mix(0x01, uint64(c.id))
		if self != nil && c != self && self.state == stRunnable {
			s.preempt++
		}
		return c
	}
}

func (s *Sim) cands(failed map[*Task]bool) []*Task {
	out := make([]*Task, 0, len(s.tasks))
	for _, t := range s.tasks {
		if t.state == stDone || failed[t] {
			continue
		}
		if t.node != nil && t.node.stalledTil > s.now && t.state != stRunning {
			continue
		}
		out = append(out, t)
	}
	return out
}

func (s *Sim) choose(self *Task, cands []*Task) *Task {
	if len(cands) == 1 {
		return cands[0]
	}
	s.Decisions++
	// Fairness bound: no real scheduler lets one goroutine run for ever while
	// others are runnable. After fairLimit consecutive yields that kept the
	// same task, it is excluded once (round-robin to the next id).
	if self != nil && self.state == stRunnable {
		if s.lastPick == self {
			s.consec++
		} else {
			s.lastPick, s.consec = self, 0
		}
		if s.consec >= fairLimit {
			s.consec = 0
			var rest []*Task
			for _, c := range cands {
				if c != self {
					rest = append(rest, c)
				}
			}
			s.rr++
			return rest[s.rr%len(rest)]
		}
	} else {
		s.lastPick, s.consec = nil, 0
	}
	switch s.cfg.Policy {
	case PolicyFIFO:
		if self != nil && self.state == stRunnable {
			for _, c := range cands {
				if c == self {
					return c
				}
			}
		}
		return cands[0]
	case PolicySticky:
		if self != nil && self.state == stRunnable {
			for _, c := range cands {
				if c == self && s.sched.Intn(100) < s.cfg.StickyPct {
					return c
				}
			}
		}
		return cands[s.sched.Intn(len(cands))]
	case PolicyPCT:
		best := cands[0]
		for _, c := range cands[1:] {
			if c.prio > best.prio {
				best = c
			}
		}
		return best
	default:
		return cands[s.sched.Intn(len(cands))]
	}
}

// Yield is a scheduling point: the current task stays runnable.
func Yield() {
	s := cur
	if s == nil {
		return
	}
	s.yield()
}

// holdYield is the optional scheduling point right after a lock acquisition.
func (s *Sim) holdYield() {
	if s.cfg.HoldYieldPct > 0 && !s.cur.killed && s.sched.Intn(100) < s.cfg.HoldYieldPct {
		Count("probe.yield_holding_lock", 1)
		s.yield()
	}
}

func (s *Sim) yield() {
	t := s.cur
	if t.killed {
		return
	}
	if t.node != nil {
		t.node.stepHook()
	}
	t.state = stRunnable
	next := s.pick(t)
	s.switchTo(t, next)
}

func (s *Sim) switchTo(t, next *Task) {
	if next == nil {
		if s.outcome == "step-limit" {
			s.abortRun("step-limit")
		} else {
			s.deadlock()
		}
		return // unreachable for t (Goexit), kept for clarity
	}
	if next == t {
		t.state = stRunning
		return
	}
	s.cur = next
	next.state = stRunning
	next.wake <- struct{}{}
	<-t.wake
	if t.killed {
		runtime.Goexit()
	}
	t.state = stRunning
}

// Block parks the current task until try returns true. try must be
// non-blocking and is evaluated by whichever goroutine runs the scheduler; on
// success its side effects (e.g. a received value) belong to the parked task.
// In a zombie (killed) task Block evaluates try once and returns regardless.
func Block(why string, try func() bool) {
	s := cur
	if s == nil {
		// Outside a simulation: spin with real sleeps. Only harness set-up
		// code can reach this.
		for !try() {
			time.Sleep(50 * time.Microsecond)
		}
		return
	}
	t := s.cur
	if t.killed {
		try()
		return
	}
	if t.node != nil {
		t.node.stepHook()
	}
	if try() {
		return
	}
	t.state = stBlocked
	t.try = try
	t.why = why
	next := s.pick(t)
	s.switchTo(t, next)
}

// Killed reports whether the current task is being unwound after a crash.
func Killed() bool {
	s := cur
	return s != nil && s.cur != nil && s.cur.killed
}

// CurTask returns the running task (nil outside a simulation).
func CurTask() *Task {
	if cur == nil {
		return nil
	}
	return cur.cur
}

// CurNode returns the running task's node.
func CurNode() *Node {
	if cur == nil || cur.cur == nil {
		return nil
	}
	return cur.cur.node
}

// Join blocks until task h has finished (returned, panicked or been killed).
func Join(h *Task) {
	if h == nil {
		return
	}
	Block("join", func() bool { return h.state == stDone })
}

// Steps returns the number of scheduling steps so far.
func Steps() int64 {
	if cur == nil {
		return 0
	}
	return cur.steps
}

// Crash kills node n: its tasks are unwound in zombie mode (their deferred
// functions run, but every simrt operation is fenced), its files keep
// exactly what the file-system operations applied so far left. If the
// calling task belongs to n it does not return.
func Crash(n *Node) {
	s := must()
	if n.Dead {
		return
	}
	n.Dead = true
	n.Epoch++
	s.event("CRASH node=%s", n.Name)
	Count("fault.crash", 1)
	self := s.cur
	for {
		var victim *Task
		for _, t := range s.tasks {
			if t != self && t.node == n && t.state != stDone {
				victim = t
				break
			}
		}
		if victim == nil {
			break
		}
		s.killOne(self, victim)
	}
	if self.node == n {
		self.killed = true
		runtime.Goexit()
	}
}

// Revive makes a crashed node usable again (restart): new tasks may be
// spawned on it; old file handles stay fenced by epoch.
func Revive(n *Node) {
	n.Dead = false
	n.stalledTil = 0
}

// Stall withholds every task of n for d of simulated time.
func Stall(n *Node, d time.Duration) {
	s := must()
	n.stalledTil = s.now + int64(d)
	Count("fault.stall", 1)
	// A timer guarantees the clock can reach the end of the stall.
	s.addTimer(n.stalledTil, func() {})
}

// LiveTasks returns the number of live tasks on node n.
func LiveTasks(n *Node) int {
	s := must()
	c := 0
	for _, t := range s.tasks {
		if t.node == n && t.state != stDone {
			c++
		}
	}
	return c
}

// DumpTasks describes every live task (diagnostics).
func DumpTasks() string {
	s := cur
	if s == nil {
		return ""
	}
	var b strings.Builder
	ts := append([]*Task(nil), s.tasks...)
	sort.Slice(ts, func(i, j int) bool { return ts[i].id < ts[j].id })
	for _, t := range ts {
		fmt.Fprintf(&b, "task %d %s node=%s state=%d why=%s\n", t.id, t.name, t.node.Name, t.state, t.why)
	}
	return b.String()
}

// ---------------------------------------------------------------------------
// watchdog: a real-time guard against a hang outside the simulator's view.

var watchdogSecs = 120

// WatchdogNote is printed by the watchdog (the harness driver stores the run
// seed here so a hang can be replayed).
var WatchdogNote string

// watchdogGrace, when non-zero, is the number of seconds the watchdog allows
// the step in progress instead of watchdogSecs; see WatchdogGrace.
var watchdogGrace atomic.Int64

// WatchdogGrace lets a harness announce that the step it is about to make is
// known to take long in REAL time for a reason outside the simulation (for
// example code under test that really allocates and clears gigabytes). The
// allowance applies until the returned function is called.
func WatchdogGrace(d time.Duration) (done func()) {
	watchdogGrace.Store(int64(d / time.Second))
	return func() { watchdogGrace.Store(0) }
}

func startWatchdog(s *Sim) {
	go func() {
		last := int64(-1)
		idle := 0
		for {
			select {
			case <-s.finish:
				return
			case <-time.After(time.Second):
			}
			b := s.lastBeat.Load()
			if b == last {
				idle++
			} else {
				idle = 0
				last = b
			}
			limit := watchdogSecs
			if g := int(watchdogGrace.Load()); g > limit {
				limit = g
			}
			if idle >= limit {
				buf := make([]byte, 1<<20)
				n := runtime.Stack(buf, true)
				fmt.Fprintf(os.Stderr, "HARNESS-ERROR watchdog: no scheduling step for %ds (step %d) %s\n%s\nHARNESS-ERROR watchdog (see top of this dump) %s\n", watchdogSecs, b, WatchdogNote, buf[:n], WatchdogNote)
				os.Exit(2)
			}
		}
	}()
}
